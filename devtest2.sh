#!/bin/bash
# usage: devtest.sh <seed dir> <prop>… — like seedtest.sh but in the scratch worktree with the dev binary (does not touch /repo, /verif/evidence)
d=$1; shift
cd /tmp/wt/scratch2 || exit 2
git checkout -q -- . ; git clean -fdq
cp /verif/known_findings.json /tmp/vdev2/
if [ "$d" != "clean" ]; then
  git apply $d/patch.diff 2>/dev/null || patch -p1 -s --no-backup-if-mismatch < $d/patch.diff >/dev/null 2>&1 || { echo "PATCH DOES NOT APPLY"; git checkout -q -- .; exit 3; }
fi
for p in "$@"; do
  /verif/bin/vcheck-dev2 -repo /tmp/wt/scratch2 -verif /tmp/vdev2 -prop $p -tier quick -nocontrols 2>&1 | grep -E "^property|^  (violated|undecided)|^VIOLATION" | cut -c1-${W:-230}
done
git checkout -q -- . ; git clean -fdq
