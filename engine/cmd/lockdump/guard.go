package main

import (
	"fmt"
	"go/ast"
	"go/types"
	"sort"
	"strings"

	"verif/engine/core"
)

// guardStats prints, for every field of a struct that has a mutex field, how many accesses happen with a lock of the
// same struct type held (candidates for the guarded-by table; confirmed by reading before they are frozen).
func guardStats(p *core.Prog, lp *core.LockProg) {
	entry := lp.EntryMust()
	type stat struct {
		with, without int
		sites         []string
	}
	stats := map[string]*stat{}
	for _, f := range lp.Fns {
		ls := lp.Sets[f]
		ast.Inspect(f.Decl.Body, func(n ast.Node) bool {
			se, ok := n.(*ast.SelectorExpr)
			if !ok {
				return true
			}
			fv := core.FieldOf(f.Pkg, se)
			if fv == nil {
				return true
			}
			owner := ownerOf(fv)
			if owner == nil || !hasMutex(owner) {
				return true
			}
			if _, isM := fv.Type().(*types.Named); isM && strings.HasPrefix(fv.Type().String(), "sync.") {
				return true
			}
			held := map[string]bool{}
			if ls != nil {
				for h := range ls.MustAt(se) {
					if hc := lp.KeyClass[f][h]; hc != nil {
						held[core.ClassKey2(hc)] = true
					}
				}
			}
			for k := range entry[f] {
				held[k] = true
			}
			key := owner.Obj().Pkg().Name() + "." + owner.Obj().Name() + "." + fv.Name()
			st := stats[key]
			if st == nil {
				st = &stat{}
				stats[key] = st
			}
			own := false
			for h := range held {
				if strings.Contains(h, "."+owner.Obj().Name()+".") {
					own = true
				}
			}
			if own {
				st.with++
			} else {
				st.without++
				if len(st.sites) < 6 {
					st.sites = append(st.sites, f.Name()[strings.LastIndex(f.Name(), "/")+1:])
				}
			}
			return true
		})
	}
	var keys []string
	for k := range stats {
		keys = append(keys, k)
	}
	sort.Strings(keys)
	for _, k := range keys {
		st := stats[k]
		if st.with > 0 {
			fmt.Printf("%-45s with=%d without=%d %v\n", k, st.with, st.without, st.sites)
		}
	}
}

func ownerOf(fv *types.Var) *types.Named {
	if fv.Pkg() == nil {
		return nil
	}
	sc := fv.Pkg().Scope()
	for _, n := range sc.Names() {
		if tn, ok := sc.Lookup(n).(*types.TypeName); ok {
			if st, isSt := tn.Type().Underlying().(*types.Struct); isSt {
				for i := 0; i < st.NumFields(); i++ {
					if st.Field(i) == fv {
						return tn.Type().(*types.Named)
					}
				}
			}
		}
	}
	return nil
}

func hasMutex(n *types.Named) bool {
	st := n.Underlying().(*types.Struct)
	for i := 0; i < st.NumFields(); i++ {
		if strings.HasPrefix(st.Field(i).Type().String(), "sync.") && strings.HasSuffix(st.Field(i).Type().String(), "Mutex") {
			return true
		}
	}
	return false
}
