// lockdump is a development aid: prints lock leaks, registrations and lock-order cycles.
package main

import (
	"fmt"
	"sort"
	"strings"

	"verif/engine/core"
)

func main() {
	p, err := core.Load("/repo", core.BuildConfig{}, nil)
	if err != nil {
		panic(err)
	}
	lp := core.BuildLockProg(p, nil)
	fmt.Println("== registrations", lp.Registered)
	fmt.Println("== exits with locks held")
	for _, f := range lp.Fns {
		ls := lp.Sets[f]
		if ls != nil && len(ls.ExitMay) > 0 {
			fmt.Printf("%s may=%s must=%s\n", f.Name(), core.SetString(ls.ExitMay), core.SetString(ls.ExitMust))
		}
	}
	fmt.Println("== cycles")
	for _, cyc := range lp.Cycles() {
		fmt.Println("cycle:", strings.Join(cyc.Classes, " , "))
		for _, e := range cyc.Edges {
			fmt.Printf("    %s -> %s  (%s @ %s)\n", e.From, e.To, strings.Join(e.Site.Chain, " > "), p.Pos(e.Site.Pos))
		}
	}
	fmt.Println("== guarded-by statistics")
	guardStats(p, lp)
	fmt.Println("== same-instance re-acquisition")
	var lines []string
	for _, e := range lp.Edges {
		if e.SameBase {
			lines = append(lines, fmt.Sprintf("%s (%s @ %s)", e.From, strings.Join(e.Site.Chain, " > "), p.Pos(e.Site.Pos)))
		}
	}
	sort.Strings(lines)
	for _, l := range lines {
		fmt.Println(l)
	}
}
