package main

import (
	"fmt"
	"os"

	"verif/engine/core"
)

func main() {
	p, err := core.Load("/repo", core.BuildConfig{}, nil)
	if err != nil {
		fmt.Println(err)
		os.Exit(1)
	}
	for _, rel := range os.Args[1:] {
		for _, f := range p.FuncsIn(rel) {
			for _, o := range core.PanicOps(f) {
				ok, why := false, ""
				if o.Kind == "index" || o.Kind == "slice" {
					ok, why = p.DischargeIndexSlice(o)
				}
				st := "OPEN"
				if ok {
					st = "ok  "
				}
				fmt.Printf("%s %-12s %-60s %s %s  [%s]\n", st, o.Kind, f.Name(), p.Pos(o.Node.Pos()), o.Describe(), why)
			}
		}
	}
}
