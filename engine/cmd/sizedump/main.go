// sizedump is a development aid: it prints the size effect of a function (first *bytes.Buffer parameter) and its results.
package main

import (
	"fmt"
	"os"

	"verif/engine/core"
)

func main() {
	p, err := core.Load("/repo", core.BuildConfig{}, nil)
	if err != nil {
		panic(err)
	}
	for _, key := range os.Args[1:] {
		f := p.Func(key)
		if f == nil {
			fmt.Println(key, "not found")
			continue
		}
		for _, upper := range []bool{true, false} {
			an := core.NewSizeAn(p, upper, nil)
			an.Opaque["net.(*Prefix).BytesInPrefix"] = true
			fr := an.NewFrame(f, upper)
			st := core.NewSzState()
			cells := fr.BindBufferParams(st)
			out, vals := fr.Run(st)
			fmt.Printf("%s upper=%v\n", key, upper)
			if out == nil {
				fmt.Println("  no success path")
				continue
			}
			for name, c := range cells {
				fmt.Printf("  effect on %s: %s\n", name, out.Cells[c])
			}
			for i, v := range vals {
				fmt.Printf("  result %d: %s\n", i, v)
			}
			fmt.Printf("  asked: %v\n  assumed: %v\n", core.SortedKeys(an.Asked), an.Assumed)
		}
	}
}
