// Command vcheck decides the bio-rd properties by static analysis of /repo's current source tree.
package main

import (
	"encoding/json"
	"flag"
	"fmt"
	"os"
	"path/filepath"
	"runtime/debug"
	"strconv"
	"strings"
	"time"

	"verif/engine/core"
	"verif/engine/props"
)

func main() {
	var (
		prop     = flag.String("prop", "", "property id (C01..C36)")
		tier     = flag.String("tier", "quick", "quick|thorough")
		repo     = flag.String("repo", "/repo", "repository root")
		verif    = flag.String("verif", "/verif", "verification root")
		all      = flag.Bool("all", false, "run every registered property on one load (developer mode)")
		manifest = flag.Bool("manifest", false, "print the checks section for MANIFEST.json")
		replay   = flag.String("replay", "", "violation report to re-derive")
		warm     = flag.Bool("warm", false, "load the program once to warm the build cache")
		noctl    = flag.Bool("nocontrols", false, "skip mutation controls")
	)
	flag.Parse()
	if t := os.Getenv("VERIF_TIER"); t != "" && !isFlagSet("tier") {
		*tier = t
	}
	seed := int64(0)
	if s := os.Getenv("VERIF_SEED"); s != "" {
		if v, err := strconv.ParseInt(s, 10, 64); err == nil {
			seed = v
		}
	}
	if *manifest {
		writeManifest(*verif)
		return
	}
	if *warm {
		for _, bc := range configs("thorough") {
			if _, err := core.Load(*repo, bc, nil); err != nil {
				fmt.Fprintln(os.Stderr, "warm:", bc, err)
			}
		}
		return
	}
	if *replay != "" {
		b, err := os.ReadFile(*replay)
		if err != nil {
			fmt.Println("cannot read report:", err)
			os.Exit(2)
		}
		var rep struct {
			Property string `json:"property_id"`
			Tier     string `json:"tier"`
		}
		json.Unmarshal(b, &rep)
		*prop, *tier = rep.Property, rep.Tier
		fmt.Printf("replaying report %s: re-deriving property %s (%s) from %s\n", *replay, *prop, *tier, *repo)
	}
	known, err := core.LoadKnown(filepath.Join(*verif, "known_findings.json"))
	if err != nil {
		fmt.Println("known_findings.json:", err)
		known = &core.KnownFile{}
	}
	var list []*props.Prop
	if *all {
		list = props.All()
	} else {
		p := props.Get(*prop)
		if p == nil {
			fmt.Printf("unknown property %q\n", *prop)
			os.Exit(2)
		}
		list = []*props.Prop{p}
	}
	exit := 0
	progs := map[string]*core.Prog{}
	for _, p := range list {
		if runProp(p, *tier, *repo, *verif, seed, known, progs, *noctl) != 0 {
			exit = 1
		}
	}
	os.Exit(exit)
}

func isFlagSet(name string) bool {
	set := false
	flag.Visit(func(f *flag.Flag) {
		if f.Name == name {
			set = true
		}
	})
	return set
}

func configs(tier string) []core.BuildConfig {
	if tier == "thorough" {
		return []core.BuildConfig{{}, {GOOS: "linux", GOARCH: "arm64"}}
	}
	return []core.BuildConfig{{}}
}

func runOn(p *props.Prop, prog *core.Prog, tier, cfgName string) (c *core.Ctx) {
	c = core.NewCtx(prog, p.Meta.ID, tier, cfgName)
	defer func() {
		if r := recover(); r != nil {
			c.Undecided("analyser-panic", fmt.Sprint(r), 0, "the analyser panicked: "+string(debug.Stack()))
		}
	}()
	p.Run(c)
	c.Finish()
	return c
}

func runProp(p *props.Prop, tier, repo, verif string, seed int64, known *core.KnownFile, progs map[string]*core.Prog, noctl bool) int {
	start := time.Now()
	res := &core.Result{Meta: p.Meta, Tier: tier, Seed: seed}
	fnSeen := map[string]bool{}
	for _, bc := range configs(tier) {
		prog := progs[bc.String()]
		if prog == nil {
			var err error
			prog, err = core.Load(repo, bc, nil)
			if err != nil {
				res.Obs = append(res.Obs, &core.Obligation{Rule: "load", Construct: bc.String(), Status: core.Undecided, Config: bc.String(),
					Detail: "the repository does not load/type-check in this configuration, nothing can be decided: " + err.Error()})
				res.Configs = append(res.Configs, bc.String())
				continue
			}
			progs[bc.String()] = prog
		}
		c := runOn(p, prog, tier, bc.String())
		res.Packages = len(prog.List)
		res.Configs = append(res.Configs, bc.String())
		// merge: keep one obligation per key; non-holding status in any config wins
		for _, o := range c.Obs {
			merged := false
			for _, e := range res.Obs {
				if e.Key() == o.Key() {
					merged = true
					if e.Status == core.Holds && o.Status != core.Holds {
						*e = *o
					}
					break
				}
			}
			if !merged {
				res.Obs = append(res.Obs, o)
			}
		}
		for _, i := range c.Infos {
			dup := false
			for _, e := range res.Infos {
				if e == i {
					dup = true
				}
			}
			if !dup {
				res.Infos = append(res.Infos, i)
			}
		}
		for _, f := range c.FunctionsSeen() {
			fnSeen[f] = true
		}
	}
	for f := range fnSeen {
		res.Functions = append(res.Functions, f)
	}
	sortStrings(res.Functions)
	// mutation controls (positive controls of the rules)
	if !noctl {
		n := len(p.Controls)
		if tier == "quick" && n > 1 {
			n = 1
		}
		for _, ctl := range p.Controls[:n] {
			res.Controls = append(res.Controls, runControl(p, ctl, repo, tier, res))
		}
	}
	res.Wall = time.Since(start).Seconds()
	code := res.Summarize(known, filepath.Join(verif, "reports"))
	for _, c := range res.Controls {
		st := "skipped (anchor text changed)"
		if c.Applied && c.Detected {
			st = "detected"
			if c.Silent {
				st = "silent (as required)"
			}
		} else if c.Applied {
			st = "MISSED"
			if c.Silent {
				st = "FALSE ALARM: " + c.Note
			}
		}
		fmt.Printf("  control %-40s %s\n", c.Name, st)
	}
	cmd := fmt.Sprintf("bin/vcheck -prop %s -tier %s", p.Meta.ID, tier)
	if err := res.WriteEvidence(filepath.Join(verif, "evidence"), cmd); err != nil {
		fmt.Println("evidence:", err)
		return 1
	}
	return code
}

func runControl(p *props.Prop, ctl props.Control, repo, tier string, base *core.Result) core.ControlResult {
	cr := core.ControlResult{Name: ctl.Name, Expect: ctl.Expect + " " + ctl.ExpectConstruct, Silent: ctl.Silent}
	path := filepath.Join(repo, ctl.File)
	src, err := os.ReadFile(path)
	if err != nil || strings.Count(string(src), ctl.Old) != 1 {
		cr.Note = "anchor text not present exactly once; control skipped"
		return cr
	}
	mut := strings.Replace(string(src), ctl.Old, ctl.New, 1)
	prog, err := core.Load(repo, core.BuildConfig{}, map[string][]byte{path: []byte(mut)})
	if err != nil {
		cr.Note = "mutated tree does not type-check; control skipped: " + err.Error()
		return cr
	}
	cr.Applied = true
	c := runOn(p, prog, tier, "control:"+ctl.Name)
	baseBad := map[string]bool{}
	for _, o := range base.Obs {
		if o.Status != core.Holds {
			baseBad[o.Key()] = true
		}
	}
	if ctl.Silent {
		cr.Detected = true
		for _, o := range c.Obs {
			if o.Status != core.Holds && !baseBad[o.Key()] {
				cr.Detected = false
				cr.Note = "raised: " + o.Key() + " at " + o.Pos
			}
		}
		return cr
	}
	for _, o := range c.Obs {
		if o.Status == core.Violated && o.Rule == ctl.Expect && strings.Contains(o.Construct, ctl.ExpectConstruct) && !baseBad[o.Key()] {
			cr.Detected = true
			cr.Note = "reported: " + o.Key() + " at " + o.Pos
		}
	}
	return cr
}

func sortStrings(s []string) {
	for i := 1; i < len(s); i++ {
		for j := i; j > 0 && s[j] < s[j-1]; j-- {
			s[j], s[j-1] = s[j-1], s[j]
		}
	}
}

func writeManifest(verifDir string) {
	type lvl struct {
		Category  string `json:"category"`
		Text      string `json:"text"`
		DesignRef string `json:"design_ref"`
	}
	type chk struct {
		PropertyID string `json:"property_id"`
		Quick      string `json:"quick_cmd"`
		Thorough   string `json:"thorough_cmd"`
		Evidence   string `json:"evidence_file"`
		Replay     string `json:"replay_cmd_template"`
		Engine     string `json:"engine"`
		Level      lvl    `json:"level_claimed"`
		Note       string `json:"level_note"`
		Technique  string `json:"technique"`
	}
	var out []chk
	for _, p := range props.All() {
		m := p.Meta
		// the rules actually evaluated, from the evidence of the last run (keeps the claim in step with the checker)
		if raw, err := os.ReadFile(filepath.Join(verifDir, "evidence", m.ID+".json")); err == nil {
			var ev struct {
				Coverage struct {
					ByRule map[string]int `json:"obligations_by_rule"`
				} `json:"coverage"`
			}
			if json.Unmarshal(raw, &ev) == nil && len(ev.Coverage.ByRule) > 0 {
				var names []string
				for r := range ev.Coverage.ByRule {
					names = append(names, r)
				}
				sortStrings(names)
				m.Decided += "  Rules evaluated on every run (each a necessary condition of the property, with its mutation control; see DESIGN.md §9.1 and evidence/" + m.ID + ".json): " + strings.Join(names, ", ") + "."
			}
		}
		out = append(out, chk{
			PropertyID: m.ID,
			Quick:      "bin/vcheck -prop " + m.ID + " -tier quick",
			Thorough:   "bin/vcheck -prop " + m.ID + " -tier thorough",
			Evidence:   "evidence/" + m.ID + ".json",
			Replay:     "bin/vcheck -replay {path}",
			Engine:     "vcheck",
			Level:      lvl{Category: m.Level, Text: "Decides, for every input and path at once, this structural clause: " + m.Decided, DesignRef: m.DesignRef},
			Note:       "NOT decided (stays behavioural): " + m.NotDecided + "  Trusted: go/types, go/cfg, go/ssa (x/tools v0.29.0), the rule implementations and the spec tables in engine/props.",
			Technique:  m.Technique,
		})
	}
	claimed := map[string]bool{}
	for _, c := range out {
		claimed[c.PropertyID] = true
	}
	type na struct {
		PropertyID string `json:"property_id"`
		Reason     string `json:"reason"`
	}
	nas := []na{}
	if f, err := os.ReadFile("/verif/properties.jsonl"); err == nil {
		for _, line := range strings.Split(string(f), "\n") {
			var pr struct {
				ID string `json:"id"`
			}
			if json.Unmarshal([]byte(line), &pr) != nil || pr.ID == "" || claimed[pr.ID] {
				continue
			}
			reason := props.NotApplicable[pr.ID]
			if reason == "" {
				reason = "no static check built yet for this property in this session; see DESIGN.md §4 for the clauses planned"
			}
			nas = append(nas, na{pr.ID, reason})
		}
	}
	ids := []string{}
	for _, c := range out {
		ids = append(ids, c.PropertyID)
	}
	env := "GOFLAGS=-mod=mod GOPROXY=off GOSUMDB=off GOTOOLCHAIN=local GOWORK=off"
	m := map[string]any{
		"version":   1,
		"setup_cmd": "cd /verif/engine && " + env + " go build -o ../bin/vcheck ./cmd/vcheck && cd /verif && bin/vcheck -warm",
		"hooks": map[string]any{
			"guard":            "verif",
			"enable":           "none needed: static analysis reads /repo's source as it is; no instrumentation, no build tag in use",
			"baseline_off_cmd": "cd /repo && go test -mod=mod -vet=off -count=1 -timeout 25m ./...",
			"source_commits":   []string{},
			"add_only":         true,
		},
		"engines": []map[string]any{{
			"name": "vcheck", "path": "engine", "serves_properties": ids,
			"kind_free_text": "repository-specific static analysis over go/packages typed AST, go/cfg and go/ssa (x/tools v0.29.0); one binary, one rule set per property in engine/props",
		}},
		"checks":         out,
		"not_applicable": nas,
		"notes":          "Every check decides a structural clause (a necessary condition of the property, occasionally a sufficient one) from /repo's current source on every run; see DESIGN.md. Known findings: known_findings.json. Seeded faults used to test the checks: seeded/.",
	}
	b, _ := json.MarshalIndent(m, "", " ")
	fmt.Println(string(b))
}
