package core

import (
	"go/ast"
	"go/constant"
	"go/token"
	"go/types"

	"golang.org/x/tools/go/cfg"
	"golang.org/x/tools/go/packages"
)

// PathTo returns the chain of nodes from root down to target (inclusive), or nil.
func PathTo(root ast.Node, target ast.Node) []ast.Node {
	var path []ast.Node
	var found []ast.Node
	ast.Inspect(root, func(n ast.Node) bool {
		if found != nil {
			return false
		}
		if n == nil {
			path = path[:len(path)-1]
			return true
		}
		path = append(path, n)
		if n == target {
			found = append([]ast.Node(nil), path...)
			return false
		}
		return true
	})
	return found
}

// Guard is a condition known to hold (Pos=true) or not hold (Pos=false) when control reaches a node.
// For tagged switches Tag != nil and Vals lists the case values: the guard says Tag ∈ Vals (Pos) or Tag ∉ Vals (!Pos).
type Guard struct {
	Cond ast.Expr
	Pos  bool
	Tag  ast.Expr
	Vals []ast.Expr
	At   token.Pos
	// TypeSwitch: Cond is the switched expression, Types the case types
	Types []ast.Expr
	// Enclosing: the target is nested inside the construct carrying this condition (as opposed to the negation of
	// a preceding early exit)
	Enclosing bool
}

// Terminates reports whether a statement list always leaves the enclosing block (return, continue, break, goto, panic).
func Terminates(pk *packages.Package, list []ast.Stmt) bool {
	if len(list) == 0 {
		return false
	}
	switch s := list[len(list)-1].(type) {
	case *ast.ReturnStmt:
		return true
	case *ast.BranchStmt:
		return s.Tok == token.CONTINUE || s.Tok == token.BREAK || s.Tok == token.GOTO
	case *ast.ExprStmt:
		if call, ok := s.X.(*ast.CallExpr); ok {
			return !mayReturn(pk, call)
		}
	case *ast.BlockStmt:
		return Terminates(pk, s.List)
	case *ast.IfStmt:
		if s.Else == nil {
			return false
		}
		var els []ast.Stmt
		switch e := s.Else.(type) {
		case *ast.BlockStmt:
			els = e.List
		default:
			els = []ast.Stmt{e}
		}
		return Terminates(pk, s.Body.List) && Terminates(pk, els)
	}
	return false
}

// GuardsAt computes the structural path condition of target inside fn: the enclosing branch conditions and the
// negations of preceding early-exit guards.  Sound for structured code without goto into blocks; guards whose
// variables are reassigned between the guard and the target are dropped.
func GuardsAt(f *Fn, target ast.Node) []Guard {
	return guardsAt(f, target, true)
}

// CtlGuardsAt returns the branch decisions control reaches target under (control dependence), without dropping
// conditions whose variables are reassigned afterwards: the decision was taken, even if its condition no longer holds.
func CtlGuardsAt(f *Fn, target ast.Node) []Guard {
	return guardsAt(f, target, false)
}

func guardsAt(f *Fn, target ast.Node, dropKilled bool) []Guard {
	path := PathTo(f.Decl.Body, target)
	if path == nil {
		return nil
	}
	pk := f.Pkg
	var gs []Guard
	addPrev := func(list []ast.Stmt, child ast.Node) {
		for _, s := range list {
			if s == child {
				break
			}
			ifs, ok := s.(*ast.IfStmt)
			if !ok {
				continue
			}
			addIfExit(pk, ifs, &gs)
		}
	}
	for i := 0; i+1 < len(path); i++ {
		parent, child := path[i], path[i+1]
		switch p := parent.(type) {
		case *ast.IfStmt:
			if child == ast.Node(p.Body) {
				gs = append(gs, Guard{Cond: p.Cond, Pos: true, At: p.Pos(), Enclosing: true})
			} else if p.Else != nil && child == ast.Node(p.Else) {
				gs = append(gs, Guard{Cond: p.Cond, Pos: false, At: p.Pos(), Enclosing: true})
			}
		case *ast.BlockStmt:
			addPrev(p.List, child)
		case *ast.CaseClause:
			inBody := false
			for _, s := range p.Body {
				if ast.Node(s) == child {
					inBody = true
				}
			}
			if inBody {
				addPrev(p.Body, child)
				// find the switch
				if i >= 2 {
					before := len(gs)
					switch sw := path[i-2].(type) {
					case *ast.SwitchStmt:
						addSwitchGuard(sw, p, &gs)
					case *ast.TypeSwitchStmt:
						addTypeSwitchGuard(sw, p, &gs)
					}
					for k := before; k < len(gs); k++ {
						gs[k].Enclosing = true
					}
				}
			}
		case *ast.CommClause:
			addPrev(p.Body, child)
		case *ast.ForStmt:
			if child == ast.Node(p.Body) && p.Cond != nil {
				gs = append(gs, Guard{Cond: p.Cond, Pos: true, At: p.Pos(), Enclosing: true})
			}
		case *ast.BinaryExpr:
			if child == ast.Node(p.Y) {
				if p.Op == token.LAND {
					gs = append(gs, Guard{Cond: p.X, Pos: true, At: p.Pos()})
				} else if p.Op == token.LOR {
					gs = append(gs, Guard{Cond: p.X, Pos: false, At: p.Pos()})
				}
			}
		}
	}
	// drop guards invalidated by reassignment
	var out []Guard
	for _, g := range gs {
		if !dropKilled || !guardInvalidated(f, g, target, path) {
			out = append(out, g)
		}
	}
	return out
}

func addIfExit(pk *packages.Package, ifs *ast.IfStmt, gs *[]Guard) {
	var els []ast.Stmt
	if ifs.Else != nil {
		switch e := ifs.Else.(type) {
		case *ast.BlockStmt:
			els = e.List
		default:
			els = []ast.Stmt{e}
		}
	}
	bodyT := Terminates(pk, ifs.Body.List)
	if ifs.Else == nil {
		if bodyT {
			*gs = append(*gs, Guard{Cond: ifs.Cond, Pos: false, At: ifs.Pos()})
		}
		return
	}
	elseT := Terminates(pk, els)
	if bodyT && !elseT {
		*gs = append(*gs, Guard{Cond: ifs.Cond, Pos: false, At: ifs.Pos()})
		// else-if chains: the else branch fell through, so if it is an if-with-exit, its negation also holds
		if ei, ok := ifs.Else.(*ast.IfStmt); ok {
			addIfExit(pk, ei, gs)
		}
	} else if elseT && !bodyT {
		*gs = append(*gs, Guard{Cond: ifs.Cond, Pos: true, At: ifs.Pos()})
	}
}

// fallsInto returns the case lists of the clauses that reach cc through a chain of `fallthrough` statements.
func fallsInto(sw *ast.SwitchStmt, cc *ast.CaseClause) (lists [][]ast.Expr, viaDefault bool) {
	idx := -1
	for i, s := range sw.Body.List {
		if s == ast.Stmt(cc) {
			idx = i
		}
	}
	for i := idx - 1; i >= 0; i-- {
		o := sw.Body.List[i].(*ast.CaseClause)
		if len(o.Body) == 0 {
			break
		}
		bs, ok := o.Body[len(o.Body)-1].(*ast.BranchStmt)
		if !ok || bs.Tok != token.FALLTHROUGH {
			break
		}
		if o.List == nil {
			viaDefault = true
		}
		lists = append(lists, o.List)
	}
	return
}

func addSwitchGuard(sw *ast.SwitchStmt, cc *ast.CaseClause, gs *[]Guard) {
	if lists, viaDefault := fallsInto(sw, cc); len(lists) > 0 {
		// the clause is also entered from the clauses above it: its own case list is not a guard of its body
		if sw.Tag == nil || viaDefault || cc.List == nil {
			return
		}
		vals := append([]ast.Expr{}, cc.List...)
		for _, l := range lists {
			vals = append(vals, l...)
		}
		*gs = append(*gs, Guard{Tag: sw.Tag, Vals: vals, Pos: true, At: cc.Pos()})
		return
	}
	if sw.Tag == nil {
		if cc.List == nil { // default: all other cases false
			for _, s := range sw.Body.List {
				o := s.(*ast.CaseClause)
				for _, e := range o.List {
					*gs = append(*gs, Guard{Cond: e, Pos: false, At: o.Pos()})
				}
			}
			return
		}
		if len(cc.List) == 1 {
			*gs = append(*gs, Guard{Cond: cc.List[0], Pos: true, At: cc.Pos()})
		}
		// earlier cases are false
		for _, s := range sw.Body.List {
			o := s.(*ast.CaseClause)
			if o == cc {
				break
			}
			for _, e := range o.List {
				*gs = append(*gs, Guard{Cond: e, Pos: false, At: o.Pos()})
			}
		}
		return
	}
	if cc.List == nil {
		var all []ast.Expr
		for _, s := range sw.Body.List {
			all = append(all, s.(*ast.CaseClause).List...)
		}
		*gs = append(*gs, Guard{Tag: sw.Tag, Vals: all, Pos: false, At: cc.Pos()})
		return
	}
	*gs = append(*gs, Guard{Tag: sw.Tag, Vals: cc.List, Pos: true, At: cc.Pos()})
}

func addTypeSwitchGuard(sw *ast.TypeSwitchStmt, cc *ast.CaseClause, gs *[]Guard) {
	var x ast.Expr
	switch a := sw.Assign.(type) {
	case *ast.AssignStmt:
		if ta, ok := a.Rhs[0].(*ast.TypeAssertExpr); ok {
			x = ta.X
		}
	case *ast.ExprStmt:
		if ta, ok := a.X.(*ast.TypeAssertExpr); ok {
			x = ta.X
		}
	}
	if x == nil {
		return
	}
	if cc.List == nil {
		var all []ast.Expr
		for _, s := range sw.Body.List {
			all = append(all, s.(*ast.CaseClause).List...)
		}
		*gs = append(*gs, Guard{Cond: x, Types: all, Pos: false, At: cc.Pos()})
		return
	}
	*gs = append(*gs, Guard{Cond: x, Types: cc.List, Pos: true, At: cc.Pos()})
}

func guardInvalidated(f *Fn, g Guard, target ast.Node, path []ast.Node) bool {
	objs := map[types.Object]bool{}
	gfields := map[*types.Var]bool{}
	collect := func(e ast.Expr) {
		if e == nil {
			return
		}
		ast.Inspect(e, func(n ast.Node) bool {
			switch x := n.(type) {
			case *ast.Ident:
				if o, ok := f.Pkg.TypesInfo.Uses[x].(*types.Var); ok && !o.IsField() && o.Pkg() == f.Pkg.Types && o.Parent() != f.Pkg.Types.Scope() {
					objs[o] = true
				}
			case *ast.SelectorExpr:
				if fv := FieldOf(f.Pkg, x); fv != nil {
					gfields[fv] = true
				}
			}
			return true
		})
	}
	collect(g.Cond)
	collect(g.Tag)
	if len(objs) == 0 {
		return false
	}
	var gEnd token.Pos
	if g.Cond != nil {
		gEnd = g.Cond.End()
	} else {
		gEnd = g.Tag.End()
	}
	lo, hi := gEnd, target.Pos()
	// widen to loops enclosing the target but not the guard
	for _, n := range path {
		switch l := n.(type) {
		case *ast.ForStmt, *ast.RangeStmt:
			if !(l.Pos() <= g.At && g.At < l.End()) {
				if l.End() > hi {
					hi = l.End()
				}
			}
		}
	}
	bad := false
	// kills reports whether storing to lhs can change the guard's value
	kills := func(lhs ast.Expr) bool {
		lhs = Unparen(lhs)
		switch x := lhs.(type) {
		case *ast.Ident:
			o := f.Pkg.TypesInfo.Uses[x]
			if o == nil {
				o = f.Pkg.TypesInfo.Defs[x]
			}
			return o != nil && objs[o]
		case *ast.SelectorExpr:
			// a store to X.f changes the guard only if the guard reads field f
			if fv := FieldOf(f.Pkg, x); fv != nil {
				return gfields[fv]
			}
			return true
		default:
			// *p = …, p[i] = …: conservative if rooted at a guard variable
			root := false
			ast.Inspect(lhs, func(n ast.Node) bool {
				if id, ok := n.(*ast.Ident); ok {
					if o := f.Pkg.TypesInfo.Uses[id]; o != nil && objs[o] {
						root = true
					}
				}
				return true
			})
			return root
		}
	}
	containsTarget := func(n ast.Node) bool { return n.Pos() <= target.Pos() && target.End() <= n.End() }
	ast.Inspect(f.Decl.Body, func(n ast.Node) bool {
		if n == nil || bad {
			return false
		}
		if n.End() < lo || n.Pos() > hi {
			return n.Pos() <= hi && n.End() >= lo
		}
		switch s := n.(type) {
		case *ast.AssignStmt:
			// the right-hand side is evaluated before the store: an assignment whose RHS contains the target does not kill
			if s.Pos() >= lo && s.Pos() < hi && !(containsTarget(s) && hi == target.Pos()) {
				for _, l := range s.Lhs {
					if kills(l) {
						bad = true
					}
				}
			}
		case *ast.IncDecStmt:
			if s.Pos() >= lo && s.Pos() < hi && kills(s.X) {
				bad = true
			}
		case *ast.UnaryExpr:
			if s.Op == token.AND && s.Pos() >= lo && s.Pos() < hi {
				if id, ok := Unparen(s.X).(*ast.Ident); ok {
					if o := f.Pkg.TypesInfo.Uses[id]; o != nil && objs[o] {
						bad = true // address of the variable itself taken: may be written through the pointer
					}
				}
			}
		}
		return true
	})
	return bad
}

// ---------------------------------------------------------------------------------------------

// Unparen strips parentheses.
func Unparen(e ast.Expr) ast.Expr {
	for {
		p, ok := e.(*ast.ParenExpr)
		if !ok {
			return e
		}
		e = p.X
	}
}

// FieldOf returns the field object a selector expression resolves to, or nil.
func FieldOf(pk *packages.Package, e ast.Expr) *types.Var {
	sel, ok := Unparen(e).(*ast.SelectorExpr)
	if !ok {
		return nil
	}
	if s := pk.TypesInfo.Selections[sel]; s != nil && s.Kind() == types.FieldVal {
		v, _ := s.Obj().(*types.Var)
		return v
	}
	return nil
}

// ObjOf returns the object an identifier refers to.
func ObjOf(pk *packages.Package, e ast.Expr) types.Object {
	id, ok := Unparen(e).(*ast.Ident)
	if !ok {
		return nil
	}
	if o := pk.TypesInfo.Uses[id]; o != nil {
		return o
	}
	return pk.TypesInfo.Defs[id]
}

// ConstOf returns the constant value of an expression, if any.
func ConstOf(pk *packages.Package, e ast.Expr) constant.Value {
	if tv, ok := pk.TypesInfo.Types[e]; ok {
		return tv.Value
	}
	return nil
}

// ConstObjOf returns the named constant an expression denotes (ident or pkg.Ident), or nil.
func ConstObjOf(pk *packages.Package, e ast.Expr) *types.Const {
	switch x := Unparen(e).(type) {
	case *ast.Ident:
		c, _ := pk.TypesInfo.Uses[x].(*types.Const)
		return c
	case *ast.SelectorExpr:
		c, _ := pk.TypesInfo.Uses[x.Sel].(*types.Const)
		return c
	}
	return nil
}

// InspectNoLit walks n without descending into function literals.
func InspectNoLit(n ast.Node, fn func(ast.Node) bool) {
	ast.Inspect(n, func(x ast.Node) bool {
		if _, ok := x.(*ast.FuncLit); ok {
			return false
		}
		if x == nil {
			return true
		}
		return fn(x)
	})
}

// Calls returns the call expressions inside n (not inside function literals) whose static callee satisfies pred.
func Calls(pk *packages.Package, n ast.Node, pred func(*types.Func) bool) []*ast.CallExpr {
	var out []*ast.CallExpr
	if n == nil {
		return nil
	}
	InspectNoLit(n, func(x ast.Node) bool {
		if c, ok := x.(*ast.CallExpr); ok {
			if f := Callee(pk, c); f != nil && pred(f) {
				out = append(out, c)
			}
		}
		return true
	})
	return out
}

// CallsAll returns the call expressions inside n including those in function literals.
func CallsAll(pk *packages.Package, n ast.Node, pred func(*types.Func) bool) []*ast.CallExpr {
	var out []*ast.CallExpr
	if n == nil {
		return nil
	}
	ast.Inspect(n, func(x ast.Node) bool {
		if c, ok := x.(*ast.CallExpr); ok {
			if f := Callee(pk, c); f != nil && pred(f) {
				out = append(out, c)
			}
		}
		return true
	})
	return out
}

// MentionsField reports whether n contains a selector resolving to field.
func MentionsField(pk *packages.Package, n ast.Node, field *types.Var) bool {
	found := false
	if n == nil || field == nil {
		return false
	}
	ast.Inspect(n, func(x ast.Node) bool {
		if found {
			return false
		}
		if e, ok := x.(ast.Expr); ok && FieldOf(pk, e) == field {
			found = true
		}
		return true
	})
	return found
}

// MentionsObj reports whether n contains an identifier that resolves to obj.
func MentionsObj(pk *packages.Package, n ast.Node, obj types.Object) bool {
	found := false
	if n == nil || obj == nil {
		return false
	}
	ast.Inspect(n, func(x ast.Node) bool {
		if found {
			return false
		}
		if id, ok := x.(*ast.Ident); ok && (pk.TypesInfo.Uses[id] == obj || pk.TypesInfo.Defs[id] == obj) {
			found = true
		}
		return true
	})
	return found
}

// IsNilIdent reports whether e is the predeclared nil.
func IsNilIdent(pk *packages.Package, e ast.Expr) bool {
	id, ok := Unparen(e).(*ast.Ident)
	if !ok {
		return false
	}
	_, isNil := pk.TypesInfo.Uses[id].(*types.Nil)
	return isNil
}

// ---------------------------------------------------------------------------------------------
// CFG path queries

// NodeHas reports whether cfg node n contains (outside function literals) a sub-node satisfying pred.
func NodeHas(n ast.Node, pred func(ast.Node) bool) bool {
	found := false
	InspectNoLit(n, func(x ast.Node) bool {
		if found {
			return false
		}
		if pred(x) {
			found = true
			return false
		}
		return true
	})
	return found
}

// PathAvoiding searches the CFG for a node satisfying target that is reachable from the entry along a path on which
// no earlier cfg node satisfies gate.  If target and gate are both satisfied by the same cfg node the gate wins
// (the gate expression is evaluated as part of the node).  Returns the offending target nodes.
func PathAvoiding(g *cfg.CFG, gate func(ast.Node) bool, target func(ast.Node) bool) []ast.Node {
	var hits []ast.Node
	if len(g.Blocks) == 0 {
		return nil
	}
	seen := map[*cfg.Block]bool{}
	var visit func(b *cfg.Block)
	visit = func(b *cfg.Block) {
		if seen[b] || !b.Live {
			return
		}
		seen[b] = true
		for _, n := range b.Nodes {
			if gate(n) {
				return
			}
			if target(n) {
				hits = append(hits, n)
			}
		}
		for _, s := range b.Succs {
			visit(s)
		}
	}
	visit(g.Blocks[0])
	return hits
}

// PathAvoidingFrom is PathAvoiding but starting after the cfg node `from` (the first node for which start returns true).
func PathAvoidingFrom(g *cfg.CFG, start func(ast.Node) bool, gate func(ast.Node) bool, target func(ast.Node) bool) []ast.Node {
	hits, _ := PathAvoidingFromS(g, start, gate, target)
	return hits
}

// PathAvoidingFromS additionally reports whether any start node was found (a rule whose start never matches passes vacuously).
func PathAvoidingFromS(g *cfg.CFG, start func(ast.Node) bool, gate func(ast.Node) bool, target func(ast.Node) bool) (hits []ast.Node, started bool) {
	seen := map[*cfg.Block]bool{}
	var visit func(b *cfg.Block, from int)
	visit = func(b *cfg.Block, from int) {
		if from == 0 {
			if seen[b] {
				return
			}
			seen[b] = true
		}
		for _, n := range b.Nodes[from:] {
			if gate(n) {
				return
			}
			if target(n) {
				hits = append(hits, n)
			}
		}
		for _, s := range b.Succs {
			visit(s, 0)
		}
	}
	for _, b := range g.Blocks {
		if !b.Live {
			continue
		}
		for i, n := range b.Nodes {
			if start(n) {
				started = true
				visit(b, i+1)
			}
		}
	}
	return hits, started
}

// ExitsWithout returns the function exits (return statements, or the implicit end) reachable without passing a gate node.
// implicitEnd reports whether the fall-off-the-end exit is reachable without the gate.
func ExitsWithout(g *cfg.CFG, gate func(ast.Node) bool) (rets []*ast.ReturnStmt, implicitEnd bool) {
	seen := map[*cfg.Block]bool{}
	var visit func(b *cfg.Block)
	visit = func(b *cfg.Block) {
		if seen[b] || !b.Live {
			return
		}
		seen[b] = true
		for _, n := range b.Nodes {
			if gate(n) {
				return
			}
			if r, ok := n.(*ast.ReturnStmt); ok {
				rets = append(rets, r)
				return
			}
		}
		if len(b.Succs) == 0 {
			// no return statement: either falls off the end or ends in a no-return call
			if len(b.Nodes) > 0 {
				if es, ok := b.Nodes[len(b.Nodes)-1].(*ast.ExprStmt); ok {
					if _, ok := es.X.(*ast.CallExpr); ok && b.Kind != cfg.KindBody {
						// conservatively still treat as end
					}
				}
			}
			implicitEnd = true
		}
		for _, s := range b.Succs {
			visit(s)
		}
	}
	if len(g.Blocks) > 0 {
		visit(g.Blocks[0])
	}
	return
}

// ---------------------------------------------------------------------------------------------
// Field accesses

// Access is a field access in source.
type Access struct {
	Field *types.Var
	Write bool
	Sel   *ast.SelectorExpr
}

// FieldAccesses lists field reads and writes in n (including function literals).
func FieldAccesses(pk *packages.Package, n ast.Node) []Access {
	var out []Access
	if n == nil {
		return nil
	}
	writes := map[*ast.SelectorExpr]bool{}
	ast.Inspect(n, func(x ast.Node) bool {
		switch s := x.(type) {
		case *ast.AssignStmt:
			for _, l := range s.Lhs {
				if sel, ok := Unparen(l).(*ast.SelectorExpr); ok {
					writes[sel] = true
				}
			}
		case *ast.IncDecStmt:
			if sel, ok := Unparen(s.X).(*ast.SelectorExpr); ok {
				writes[sel] = true
			}
		}
		return true
	})
	ast.Inspect(n, func(x ast.Node) bool {
		switch s := x.(type) {
		case *ast.SelectorExpr:
			if f := FieldOf(pk, s); f != nil {
				out = append(out, Access{Field: f, Write: writes[s], Sel: s})
			}
		case *ast.KeyValueExpr:
			// composite literal field keys
			if id, ok := s.Key.(*ast.Ident); ok {
				if v, ok := pk.TypesInfo.Uses[id].(*types.Var); ok && v.IsField() {
					out = append(out, Access{Field: v, Write: true})
				}
			}
		}
		return true
	})
	return out
}

// ReadsTransitive returns the set of fields read by f or by repository functions it statically calls (to any depth).
func (p *Prog) ReadsTransitive(f *Fn) map[*types.Var]bool {
	out := map[*types.Var]bool{}
	seen := map[*Fn]bool{}
	var visit func(*Fn)
	visit = func(g *Fn) {
		if g == nil || seen[g] || g.Decl.Body == nil {
			return
		}
		seen[g] = true
		for _, a := range FieldAccesses(g.Pkg, g.Decl.Body) {
			if !a.Write {
				out[a.Field] = true
			}
		}
		for _, c := range CallsAll(g.Pkg, g.Decl.Body, func(*types.Func) bool { return true }) {
			visit(p.FnOf(Callee(g.Pkg, c)))
		}
	}
	visit(f)
	return out
}

// WritesTransitive returns the set of fields written by f or by repository functions it statically calls.
func (p *Prog) WritesTransitive(f *Fn) map[*types.Var]bool {
	out := map[*types.Var]bool{}
	seen := map[*Fn]bool{}
	var visit func(*Fn)
	visit = func(g *Fn) {
		if g == nil || seen[g] || g.Decl.Body == nil {
			return
		}
		seen[g] = true
		for _, a := range FieldAccesses(g.Pkg, g.Decl.Body) {
			if a.Write {
				out[a.Field] = true
			}
		}
		for _, c := range CallsAll(g.Pkg, g.Decl.Body, func(*types.Func) bool { return true }) {
			visit(p.FnOf(Callee(g.Pkg, c)))
		}
	}
	visit(f)
	return out
}

// ReachableFns returns repository functions statically reachable from roots (static calls only; interface calls not followed).
func (p *Prog) ReachableFns(roots ...*Fn) []*Fn {
	seen := map[*Fn]bool{}
	var order []*Fn
	var visit func(*Fn)
	visit = func(g *Fn) {
		if g == nil || seen[g] || g.Decl.Body == nil {
			return
		}
		seen[g] = true
		order = append(order, g)
		for _, c := range CallsAll(g.Pkg, g.Decl.Body, func(*types.Func) bool { return true }) {
			visit(p.FnOf(Callee(g.Pkg, c)))
		}
	}
	for _, r := range roots {
		visit(r)
	}
	return order
}

// AlwaysCalls reports whether every returning path of f passes a call satisfying isGate, directly or through a
// repository callee that itself always calls it (depth-bounded, cycle-safe).
func (p *Prog) AlwaysCalls(f *Fn, isGate func(*types.Func) bool) bool {
	return p.alwaysCalls(f, isGate, map[*Fn]bool{}, 0)
}

func (p *Prog) alwaysCalls(f *Fn, isGate func(*types.Func) bool, onStack map[*Fn]bool, depth int) bool {
	if f == nil || f.Decl.Body == nil || onStack[f] || depth > 6 {
		return false
	}
	onStack[f] = true
	defer delete(onStack, f)
	gate := p.GateNode(f, isGate, onStack, depth)
	rets, end := ExitsWithout(p.CFG(f), gate)
	return len(rets) == 0 && !end
}

// GateNode builds a cfg-node predicate: the node contains a call to the gate or to a callee that always calls it.
func (p *Prog) GateNode(f *Fn, isGate func(*types.Func) bool, onStack map[*Fn]bool, depth int) func(ast.Node) bool {
	if onStack == nil {
		onStack = map[*Fn]bool{}
	}
	memo := map[*types.Func]bool{}
	return func(n ast.Node) bool {
		return NodeHas(n, func(x ast.Node) bool {
			c, ok := x.(*ast.CallExpr)
			if !ok {
				return false
			}
			cal := Callee(f.Pkg, c)
			if cal == nil {
				return false
			}
			if isGate(cal) {
				return true
			}
			if v, ok := memo[cal]; ok {
				return v
			}
			v := p.alwaysCalls(p.FnOf(cal), isGate, onStack, depth+1)
			memo[cal] = v
			return v
		})
	}
}

// Parents computes the parent map of an AST subtree.
func Parents(root ast.Node) map[ast.Node]ast.Node {
	m := map[ast.Node]ast.Node{}
	var stack []ast.Node
	ast.Inspect(root, func(n ast.Node) bool {
		if n == nil {
			stack = stack[:len(stack)-1]
			return true
		}
		if len(stack) > 0 {
			m[n] = stack[len(stack)-1]
		}
		stack = append(stack, n)
		return true
	})
	return m
}

// DefsOf returns the expressions assigned to local variable obj inside f (":=", "=", var decl).  For multi-value
// assignments from one call the call expression is returned.
func DefsOf(f *Fn, obj types.Object) []ast.Expr {
	var out []ast.Expr
	ast.Inspect(f.Decl.Body, func(n ast.Node) bool {
		switch s := n.(type) {
		case *ast.AssignStmt:
			for i, l := range s.Lhs {
				if ObjOf(f.Pkg, l) == obj {
					if len(s.Rhs) == len(s.Lhs) {
						out = append(out, s.Rhs[i])
					} else if len(s.Rhs) == 1 {
						out = append(out, s.Rhs[0])
					}
				}
			}
		case *ast.ValueSpec:
			for i, nm := range s.Names {
				if f.Pkg.TypesInfo.Defs[nm] == obj {
					if len(s.Values) == len(s.Names) {
						out = append(out, s.Values[i])
					} else if len(s.Values) == 1 {
						out = append(out, s.Values[0])
					}
				}
			}
		case *ast.RangeStmt:
			if s.Key != nil && ObjOf(f.Pkg, s.Key) == obj {
				out = append(out, s.X)
			}
			if s.Value != nil && ObjOf(f.Pkg, s.Value) == obj {
				out = append(out, s.X)
			}
		}
		return true
	})
	return out
}

// RecvObj returns the receiver variable of a method, or nil.
func RecvObj(f *Fn) types.Object {
	if f.Decl.Recv == nil || len(f.Decl.Recv.List) == 0 || len(f.Decl.Recv.List[0].Names) == 0 {
		return nil
	}
	return f.Pkg.TypesInfo.Defs[f.Decl.Recv.List[0].Names[0]]
}

// ParamObj returns the i-th parameter object (flattened), or nil.
func ParamObj(f *Fn, i int) types.Object {
	k := 0
	for _, fl := range f.Decl.Type.Params.List {
		for _, nm := range fl.Names {
			if k == i {
				return f.Pkg.TypesInfo.Defs[nm]
			}
			k++
		}
	}
	return nil
}

// IsCallTo reports whether call's static callee has the given key.
func IsCallTo(pk *packages.Package, call *ast.CallExpr, key string) bool {
	return FuncKey(Callee(pk, call)) == key
}

// KeyIs builds a predicate on function keys.
func KeyIs(keys ...string) func(*types.Func) bool {
	return func(f *types.Func) bool {
		k := FuncKey(f)
		for _, x := range keys {
			if k == x {
				return true
			}
		}
		return false
	}
}

// ExprString renders an expression compactly.
func ExprString(e ast.Expr) string { return types.ExprString(e) }

// WritesTransitiveExcept is WritesTransitive that does not descend into functions for which stop returns true.
func (p *Prog) WritesTransitiveExcept(f *Fn, stop func(*Fn) bool) map[*types.Var]bool {
	out := map[*types.Var]bool{}
	seen := map[*Fn]bool{}
	var visit func(*Fn)
	visit = func(g *Fn) {
		if g == nil || seen[g] || g.Decl.Body == nil || stop(g) {
			return
		}
		seen[g] = true
		for _, a := range FieldAccesses(g.Pkg, g.Decl.Body) {
			if a.Write {
				out[a.Field] = true
			}
		}
		for _, c := range CallsAll(g.Pkg, g.Decl.Body, func(*types.Func) bool { return true }) {
			visit(p.FnOf(Callee(g.Pkg, c)))
		}
	}
	visit(f)
	return out
}

// BaseIdent returns the leftmost identifier of a selector/index/star chain (x in x.a.b[i].c), or nil.
func BaseIdent(e ast.Expr) *ast.Ident {
	for {
		switch x := Unparen(e).(type) {
		case *ast.Ident:
			return x
		case *ast.SelectorExpr:
			e = x.X
		case *ast.IndexExpr:
			e = x.X
		case *ast.StarExpr:
			e = x.X
		default:
			return nil
		}
	}
}
