package core

import (
	"fmt"
	"go/ast"
	"go/constant"
	"go/token"
	"go/types"
	"strings"
)

// Comparator normal form (R-CMP).
//
// A three-way comparator `func (a *T) M(b *T) int8` is in lexicographic normal form when its body is a sequence of
//   - definitions of local key variables, each a function of ONE operand only (possibly refined by `if guard(op) { L = e(op) }`),
//   - steps: two mirrored tests on the same key K:  `if K(x) < K(y) { return s }` `if K(x) > K(y) { return -s }`
//     (also: `X.Compare(Y) == -1/1`, `X.Compare(Y) < 0 / > 0` for a normal-form comparator Compare; `K(x) && !K(y)`),
//   - a final `return 0`, or a tail call `return K(a).M'(K(b))` of another normal-form comparator.
// No step may be guarded by a predicate over both operands.
//
// Theorem.  Let k_1..k_n be the keys (total functions of one operand into totally ordered sets) and d_i ∈ {+1,-1} the
// directions.  Then cmp(a,b) = d_i·sign(k_i(a) ? k_i(b)) for the first i with k_i(a) ≠ k_i(b), 0 if none.  This is the
// lexicographic order on the tuple (d_1·k_1, …, d_n·k_n): reflexive, transitive, total, cmp(a,b) = −cmp(b,a), and
// cmp(a,b) = 0 iff all keys agree.  Proof: a lexicographic product of total orders is a total order on tuples; cmp is
// its pull-back along a ↦ (k_i(a))_i, hence a total preorder whose ties are exactly the fibres of that map.  ∎

// CmpStep is one decision step.
type CmpStep struct {
	Key       string // canonical key: operand replaced by $
	Prefers   string // "higher", "lower", "true", "false", or "tail:<callee>"
	Pos       token.Pos
	Guarded   string // non-empty: the step sits under a guard (canonical text) — not normal form
	FieldKeys []*types.Var
}

// CmpForm is the result of the analysis.
type CmpForm struct {
	Steps    []CmpStep
	Problems []CmpProblem
	Ends0    bool
}

// CmpProblem is a deviation from normal form.
type CmpProblem struct {
	Pos  token.Pos
	What string
	Key  string
}

type cmpTest struct {
	key    string
	rel    int // sign of (param ? recv): -1 means K(param) < K(recv)
	ret    int
	pos    token.Pos
	bool   bool
	fields []*types.Var
}

type localKey struct {
	canon  string
	mask   int
	fields []*types.Var
}

type cmpAn struct {
	f      *Fn
	recv   types.Object
	param  types.Object
	locals map[types.Object]*localKey
	isCmp  func(*types.Func) bool // accepted three-way sub-comparators (+1 = receiver greater)
	form   *CmpForm
	tests  []cmpTest
	guard  string
}

// AnalyzeComparator analyses f (method with one parameter) as a three-way comparator.
// isCmp tells which callees are accepted sub-comparators with the convention "+1 iff receiver greater".
func AnalyzeComparator(f *Fn, isCmp func(*types.Func) bool) *CmpForm {
	a := &cmpAn{f: f, recv: RecvObj(f), param: ParamObj(f, 0), locals: map[types.Object]*localKey{}, isCmp: isCmp, form: &CmpForm{}}
	if a.recv == nil || a.param == nil {
		a.form.Problems = append(a.form.Problems, CmpProblem{f.Decl.Pos(), "not a one-parameter method", ""})
		return a.form
	}
	a.block(f.Decl.Body.List, true)
	a.flush()
	return a.form
}

func (a *cmpAn) problem(pos token.Pos, key, format string, args ...any) {
	a.form.Problems = append(a.form.Problems, CmpProblem{pos, fmt.Sprintf(format, args...), key})
}

// canon renders e with operands replaced by $; mask bit0 = receiver mentioned, bit1 = parameter mentioned.
func (a *cmpAn) canon(e ast.Expr) (string, int, []*types.Var) {
	var sb strings.Builder
	mask := 0
	var fields []*types.Var
	var w func(e ast.Expr)
	w = func(e ast.Expr) {
		switch x := e.(type) {
		case *ast.Ident:
			o := ObjOf(a.f.Pkg, x)
			switch {
			case o != nil && o == a.recv:
				mask |= 1
				sb.WriteString("$")
			case o != nil && o == a.param:
				mask |= 2
				sb.WriteString("$")
			default:
				if lk, ok := a.locals[o]; ok && o != nil {
					mask |= lk.mask
					fields = append(fields, lk.fields...)
					sb.WriteString("{" + lk.canon + "}")
				} else {
					sb.WriteString(x.Name)
				}
			}
		case *ast.SelectorExpr:
			w(x.X)
			sb.WriteString("." + x.Sel.Name)
			if fv := FieldOf(a.f.Pkg, x); fv != nil {
				fields = append(fields, fv)
			}
		case *ast.StarExpr:
			sb.WriteString("*")
			w(x.X)
		case *ast.ParenExpr:
			sb.WriteString("(")
			w(x.X)
			sb.WriteString(")")
		case *ast.UnaryExpr:
			sb.WriteString(x.Op.String())
			w(x.X)
		case *ast.BinaryExpr:
			w(x.X)
			sb.WriteString(" " + x.Op.String() + " ")
			w(x.Y)
		case *ast.CallExpr:
			w(x.Fun)
			sb.WriteString("(")
			for i, arg := range x.Args {
				if i > 0 {
					sb.WriteString(", ")
				}
				w(arg)
			}
			sb.WriteString(")")
		case *ast.BasicLit:
			sb.WriteString(x.Value)
		case *ast.IndexExpr:
			w(x.X)
			sb.WriteString("[")
			w(x.Index)
			sb.WriteString("]")
		default:
			sb.WriteString(fmt.Sprintf("<%T>", e))
		}
	}
	w(e)
	return sb.String(), mask, fields
}

func (a *cmpAn) localObj(e ast.Expr) types.Object {
	o := ObjOf(a.f.Pkg, e)
	if v, ok := o.(*types.Var); ok && !v.IsField() && o != a.recv && o != a.param && v.Parent() != a.f.Pkg.Types.Scope() {
		return o
	}
	return nil
}

func (a *cmpAn) define(lhs, rhs ast.Expr, guard string, gmask int, pos token.Pos, gfields ...*types.Var) bool {
	o := a.localObj(lhs)
	if o == nil {
		return false
	}
	rc, rm, rf := a.canon(rhs)
	m := rm | gmask
	lk := a.locals[o]
	if lk == nil {
		lk = &localKey{}
		a.locals[o] = lk
	}
	if guard != "" {
		lk.canon += "; if " + guard + ": " + rc
	} else {
		lk.canon += "; " + rc
	}
	lk.mask |= m
	lk.fields = append(lk.fields, rf...)
	lk.fields = append(lk.fields, gfields...)
	if lk.mask == 3 {
		a.problem(pos, "", "local key variable %s depends on both operands", ExprString(lhs))
	}
	return true
}

func constInt(f *Fn, e ast.Expr) (int, bool) {
	v := ConstOf(f.Pkg, e)
	if v == nil || v.Kind() != constant.Int {
		return 0, false
	}
	i, ok := constant.Int64Val(v)
	return int(i), ok
}

func (a *cmpAn) block(list []ast.Stmt, top bool) {
	for _, st := range list {
		switch s := st.(type) {
		case *ast.AssignStmt:
			ok := len(s.Lhs) == len(s.Rhs)
			if ok {
				for i := range s.Lhs {
					if !a.define(s.Lhs[i], s.Rhs[i], "", 0, s.Pos()) {
						ok = false
					}
				}
			}
			if !ok {
				a.problem(s.Pos(), "", "unrecognised assignment in comparator")
			}
		case *ast.DeclStmt:
			gd, ok := s.Decl.(*ast.GenDecl)
			if !ok || gd.Tok != token.VAR {
				a.problem(s.Pos(), "", "unrecognised declaration in comparator")
				continue
			}
			for _, sp := range gd.Specs {
				vs := sp.(*ast.ValueSpec)
				for i, nm := range vs.Names {
					o := a.f.Pkg.TypesInfo.Defs[nm]
					lk := &localKey{}
					if i < len(vs.Values) {
						c, m, _ := a.canon(vs.Values[i])
						lk.canon, lk.mask = "; "+c, m
					} else {
						lk.canon = "; zero"
					}
					a.locals[o] = lk
				}
			}
		case *ast.IfStmt:
			a.ifStmt(s, top)
		case *ast.ReturnStmt:
			a.flush()
			if len(s.Results) != 1 {
				a.problem(s.Pos(), "", "return with %d results", len(s.Results))
				continue
			}
			if v, ok := constInt(a.f, s.Results[0]); ok {
				if v == 0 {
					if top {
						a.form.Ends0 = true
					}
				} else {
					a.problem(s.Pos(), "", "unconditional return of %d", v)
				}
				continue
			}
			a.tail(s.Results[0], s.Pos())
		case *ast.SwitchStmt:
			a.flush()
			a.switchStmt(s)
		case *ast.EmptyStmt:
		default:
			a.problem(st.Pos(), "", "unrecognised statement %T in comparator", st)
		}
	}
}

func (a *cmpAn) tail(e ast.Expr, pos token.Pos) {
	call, ok := Unparen(e).(*ast.CallExpr)
	if !ok || len(call.Args) != 1 {
		a.problem(pos, "", "return of a non-constant that is not a sub-comparator call")
		return
	}
	sel, ok := call.Fun.(*ast.SelectorExpr)
	cal := Callee(a.f.Pkg, call)
	if !ok || cal == nil || !a.isCmp(cal) {
		a.problem(pos, "", "tail call to %s which is not an accepted normal-form comparator", FuncKey(cal))
		return
	}
	xc, xm, xf := a.canon(sel.X)
	yc, ym, _ := a.canon(call.Args[0])
	if xc != yc || xm != 1 || ym != 2 {
		a.problem(pos, xc, "tail comparator call is not mirrored (receiver side %q/%d, parameter side %q/%d)", xc, xm, yc, ym)
		return
	}
	a.form.Steps = append(a.form.Steps, CmpStep{Key: xc, Prefers: "tail:" + FuncKey(cal), Pos: pos, Guarded: a.guard, FieldKeys: xf})
	a.form.Ends0 = true
}

func (a *cmpAn) switchStmt(s *ast.SwitchStmt) {
	if s.Tag == nil {
		// nil prelude: case p == nil && q == nil: return 0; case p == nil: return -1; case q == nil: return 1; default:
		okForm := true
		for _, cs := range s.Body.List {
			cc := cs.(*ast.CaseClause)
			if cc.List == nil {
				if len(cc.Body) != 0 {
					okForm = false
				}
				continue
			}
			if len(cc.List) != 1 || len(cc.Body) != 1 {
				okForm = false
				continue
			}
			ret, isRet := cc.Body[0].(*ast.ReturnStmt)
			if !isRet || len(ret.Results) != 1 {
				okForm = false
				continue
			}
			v, isC := constInt(a.f, ret.Results[0])
			c, m, _ := a.canon(cc.List[0])
			switch {
			case m == 3 && c == "$ == nil && $ == nil" && isC && v == 0:
			case m == 1 && c == "$ == nil" && isC && v == -1:
			case m == 2 && c == "$ == nil" && isC && v == 1:
			default:
				okForm = false
			}
		}
		if okForm {
			a.form.Steps = append(a.form.Steps, CmpStep{Key: "$ != nil", Prefers: "true", Pos: s.Pos()})
		} else {
			a.problem(s.Pos(), "", "tagless switch is not the nil prelude (both nil → 0, receiver nil → −1, parameter nil → +1)")
		}
		return
	}
	// dispatch on a key of ONE operand that an earlier step compared: each case tail-calls a comparator
	tc, tm, _ := a.canon(s.Tag)
	seen := false
	for _, st := range a.form.Steps {
		if st.Key == tc && st.Guarded == "" {
			seen = true
		}
	}
	if tm == 3 || !seen {
		a.problem(s.Pos(), tc, "dispatch switch on %q, which is not a key already compared equal by an earlier step", tc)
	}
	for _, cs := range s.Body.List {
		cc := cs.(*ast.CaseClause)
		if len(cc.Body) == 0 {
			continue
		}
		ret, isRet := cc.Body[len(cc.Body)-1].(*ast.ReturnStmt)
		if !isRet || len(cc.Body) != 1 || len(ret.Results) != 1 {
			a.problem(cc.Pos(), tc, "dispatch case is not a single return")
			continue
		}
		if v, ok := constInt(a.f, ret.Results[0]); ok {
			if v != 0 {
				a.problem(cc.Pos(), tc, "dispatch case returns constant %d", v)
			}
			continue
		}
		saved := a.form.Ends0
		a.tail(ret.Results[0], ret.Pos())
		a.form.Ends0 = saved
	}
}

func (a *cmpAn) ifStmt(s *ast.IfStmt, top bool) {
	if s.Init != nil || s.Else != nil {
		a.flush()
		a.problem(s.Pos(), "", "if with init/else in comparator")
		return
	}
	cc, cm, cf := a.canon(s.Cond)
	// conditional refinement of local keys
	allAssign := len(s.Body.List) > 0
	for _, b := range s.Body.List {
		as, ok := b.(*ast.AssignStmt)
		if !ok || as.Tok != token.ASSIGN || len(as.Lhs) != len(as.Rhs) {
			allAssign = false
			break
		}
		for _, l := range as.Lhs {
			if a.localObj(l) == nil {
				allAssign = false
			}
		}
	}
	if allAssign {
		for _, b := range s.Body.List {
			as := b.(*ast.AssignStmt)
			for i := range as.Lhs {
				a.define(as.Lhs[i], as.Rhs[i], cc, cm, as.Pos(), cf...)
			}
		}
		return
	}
	// a test: single `return ±1`
	if len(s.Body.List) == 1 {
		if ret, ok := s.Body.List[0].(*ast.ReturnStmt); ok && len(ret.Results) == 1 {
			if v, ok := constInt(a.f, ret.Results[0]); ok && (v == 1 || v == -1) {
				if t, ok := a.parseTest(s.Cond, v, s.Pos()); ok {
					a.tests = append(a.tests, t)
					return
				}
				a.flush()
				a.problem(s.Pos(), cc, "test %q is not of a mirrored form K(x) < K(y), K(x) > K(y), X.Compare(Y) ⋚, or K(x) && !K(y)", cc)
				return
			}
		}
	}
	// a guard around steps
	a.flush()
	saved := a.guard
	a.guard = cc
	which := "one operand"
	if cm == 3 {
		which = "BOTH operands"
	}
	a.problem(s.Pos(), "", "decision step(s) guarded by predicate %q over %s: the comparator is not lexicographic; with a guard over both operands the step is skipped for some pairs and applied for others, which breaks transitivity", cc, which)
	a.block(s.Body.List, false)
	a.flush()
	a.guard = saved
}

func (a *cmpAn) parseTest(cond ast.Expr, ret int, pos token.Pos) (cmpTest, bool) {
	cond = Unparen(cond)
	be, ok := cond.(*ast.BinaryExpr)
	if !ok {
		return cmpTest{}, false
	}
	norm := func(xm int, rel int) int { // rel is sign of (X ? Y); return sign of (param ? recv)
		if xm == 2 {
			return rel
		}
		return -rel
	}
	switch be.Op {
	case token.LSS, token.GTR:
		// sub-comparator result compared with 0
		if call, ok := Unparen(be.X).(*ast.CallExpr); ok {
			if v, isC := constInt(a.f, be.Y); isC && v == 0 {
				if t, ok := a.cmpCall(call, pos); ok {
					rel := -1
					if be.Op == token.GTR {
						rel = 1
					}
					t.rel = norm(t.rel, rel) // t.rel temporarily holds mask of X
					t.ret = ret
					return t, true
				}
				return cmpTest{}, false
			}
		}
		xc, xm, xf := a.canon(be.X)
		yc, ym, _ := a.canon(be.Y)
		if xc != yc || xm+ym != 3 || xm == 3 || ym == 3 || xm == 0 || ym == 0 {
			return cmpTest{}, false
		}
		rel := -1
		if be.Op == token.GTR {
			rel = 1
		}
		return cmpTest{key: xc, rel: norm(xm, rel), ret: ret, pos: pos, fields: xf}, true
	case token.EQL:
		call, ok := Unparen(be.X).(*ast.CallExpr)
		if !ok {
			return cmpTest{}, false
		}
		v, isC := constInt(a.f, be.Y)
		if !isC || (v != 1 && v != -1) {
			return cmpTest{}, false
		}
		t, ok := a.cmpCall(call, pos)
		if !ok {
			return cmpTest{}, false
		}
		t.rel = norm(t.rel, v)
		t.ret = ret
		return t, true
	case token.LAND:
		// K(x) && !K(y)  or  !K(x) && K(y)
		x, y := Unparen(be.X), Unparen(be.Y)
		negX, negY := false, false
		if u, ok := x.(*ast.UnaryExpr); ok && u.Op == token.NOT {
			negX, x = true, Unparen(u.X)
		}
		if u, ok := y.(*ast.UnaryExpr); ok && u.Op == token.NOT {
			negY, y = true, Unparen(u.X)
		}
		if negX == negY {
			return cmpTest{}, false
		}
		xc, xm, xf := a.canon(x)
		yc, ym, _ := a.canon(y)
		if xc != yc || xm+ym != 3 || xm == 3 || ym == 3 || xm == 0 || ym == 0 {
			return cmpTest{}, false
		}
		// the true side is greater
		rel := 1 // X true, Y false: X > Y
		if negX {
			rel = -1
		}
		return cmpTest{key: xc, rel: norm(xm, rel), ret: ret, pos: pos, bool: true, fields: xf}, true
	}
	return cmpTest{}, false
}

// cmpCall recognises X.Compare(Y) with mirrored operands; returns a test whose rel field holds the mask of X.
func (a *cmpAn) cmpCall(call *ast.CallExpr, pos token.Pos) (cmpTest, bool) {
	sel, ok := call.Fun.(*ast.SelectorExpr)
	cal := Callee(a.f.Pkg, call)
	if !ok || cal == nil || !a.isCmp(cal) || len(call.Args) != 1 {
		return cmpTest{}, false
	}
	xc, xm, xf := a.canon(sel.X)
	yc, ym, _ := a.canon(call.Args[0])
	if xc != yc || xm+ym != 3 || xm == 3 || ym == 3 || xm == 0 || ym == 0 {
		return cmpTest{}, false
	}
	return cmpTest{key: xc + " via " + FuncKey(cal), rel: xm, pos: pos, fields: xf}, true
}

// flush groups pending tests into steps.
func (a *cmpAn) flush() {
	ts := a.tests
	a.tests = nil
	for i := 0; i < len(ts); {
		t := ts[i]
		if i+1 < len(ts) && ts[i+1].key == t.key {
			u := ts[i+1]
			i += 2
			if t.rel == u.rel {
				a.problem(u.pos, t.key, "step %q tests the same relation twice: the opposite ordering is never decided (one-sided comparison)", t.key)
				continue
			}
			if t.ret != -u.ret {
				a.problem(u.pos, t.key, "step %q returns %d for both orderings: cmp(a,b) = −cmp(b,a) fails", t.key, t.ret)
				continue
			}
			// direction: look at the test where K(param) < K(recv)
			lt := t
			if u.rel < 0 {
				lt = u
			}
			pref := "lower"
			if lt.ret == 1 {
				pref = "higher"
			}
			if t.bool {
				if pref == "higher" {
					pref = "true"
				} else {
					pref = "false"
				}
			}
			a.form.Steps = append(a.form.Steps, CmpStep{Key: t.key, Prefers: pref, Pos: t.pos, Guarded: a.guard, FieldKeys: t.fields})
			continue
		}
		i++
		a.problem(t.pos, t.key, "step %q has only one of its two mirrored tests (one-sided comparison): for the opposite ordering the comparator falls through to later steps", t.key)
	}
}
