package core

import (
	"go/ast"
	"go/token"
	"go/types"

	"golang.org/x/tools/go/packages"
)

// Fact is an atomic boolean expression with the truth value known at a program point.
type Fact struct {
	Expr  ast.Expr
	Truth bool
	// tagged switch membership: Tag ∈ Vals (Truth) / ∉ (¬Truth)
	Tag  ast.Expr
	Vals []ast.Expr
	// type switch membership
	TypeOf ast.Expr
	Types  []ast.Expr
	// Enclosing: from a construct the node is nested in (not the negation of a preceding early exit)
	Enclosing bool
}

// Facts flattens guards into atomic facts: (A && B)=true gives A, B true; (A || B)=false gives A, B false; !A flips.
func Facts(gs []Guard) []Fact {
	var out []Fact
	var add func(e ast.Expr, truth bool)
	add = func(e ast.Expr, truth bool) {
		e = Unparen(e)
		switch x := e.(type) {
		case *ast.UnaryExpr:
			if x.Op == token.NOT {
				add(x.X, !truth)
				return
			}
		case *ast.BinaryExpr:
			if x.Op == token.LAND && truth {
				add(x.X, true)
				add(x.Y, true)
				return
			}
			if x.Op == token.LOR && !truth {
				add(x.X, false)
				add(x.Y, false)
				return
			}
			// normalise a != b (truth) to a == b (¬truth)
			if x.Op == token.NEQ {
				out = append(out, Fact{Expr: &ast.BinaryExpr{X: x.X, Op: token.EQL, Y: x.Y, OpPos: x.OpPos}, Truth: !truth})
				return
			}
		}
		out = append(out, Fact{Expr: e, Truth: truth})
	}
	for _, g := range gs {
		start := len(out)
		switch {
		case g.Types != nil:
			out = append(out, Fact{TypeOf: g.Cond, Types: g.Types, Truth: g.Pos})
		case g.Tag != nil:
			out = append(out, Fact{Tag: g.Tag, Vals: g.Vals, Truth: g.Pos})
			if g.Pos && len(g.Vals) == 1 {
				out = append(out, Fact{Expr: &ast.BinaryExpr{X: g.Tag, Op: token.EQL, Y: g.Vals[0]}, Truth: true})
			}
			if !g.Pos {
				for _, v := range g.Vals {
					out = append(out, Fact{Expr: &ast.BinaryExpr{X: g.Tag, Op: token.EQL, Y: v}, Truth: false})
				}
			}
		default:
			add(g.Cond, g.Pos)
		}
		for k := start; k < len(out); k++ {
			out[k].Enclosing = g.Enclosing
		}
	}
	return out
}

// FactsAt is Facts(GuardsAt(f, n)): what is known to hold when control reaches n.
func FactsAt(f *Fn, n ast.Node) []Fact { return Facts(GuardsAt(f, n)) }

// CtlFactsAt is Facts(CtlGuardsAt(f, n)): the branch decisions n is control-dependent on.
func CtlFactsAt(f *Fn, n ast.Node) []Fact { return Facts(CtlGuardsAt(f, n)) }

// SameExpr reports structural equality of two expressions with identifiers compared by object.
func SameExpr(pk *packages.Package, a, b ast.Expr) bool {
	a, b = Unparen(a), Unparen(b)
	switch x := a.(type) {
	case *ast.Ident:
		y, ok := b.(*ast.Ident)
		if !ok {
			return false
		}
		ox, oy := identObj(pk, x), identObj(pk, y)
		if ox == nil || oy == nil {
			return x.Name == y.Name
		}
		return ox == oy
	case *ast.SelectorExpr:
		y, ok := b.(*ast.SelectorExpr)
		if !ok {
			return false
		}
		if identObj(pk, x.Sel) != identObj(pk, y.Sel) {
			return false
		}
		// package-qualified identifier
		if id, ok := x.X.(*ast.Ident); ok {
			if _, isPkg := pk.TypesInfo.Uses[id].(*types.PkgName); isPkg {
				return true
			}
		}
		return SameExpr(pk, x.X, y.X)
	case *ast.StarExpr:
		y, ok := b.(*ast.StarExpr)
		return ok && SameExpr(pk, x.X, y.X)
	case *ast.UnaryExpr:
		y, ok := b.(*ast.UnaryExpr)
		return ok && x.Op == y.Op && SameExpr(pk, x.X, y.X)
	case *ast.BinaryExpr:
		y, ok := b.(*ast.BinaryExpr)
		return ok && x.Op == y.Op && SameExpr(pk, x.X, y.X) && SameExpr(pk, x.Y, y.Y)
	case *ast.CallExpr:
		y, ok := b.(*ast.CallExpr)
		if !ok || len(x.Args) != len(y.Args) || !SameExpr(pk, x.Fun, y.Fun) {
			return false
		}
		for i := range x.Args {
			if !SameExpr(pk, x.Args[i], y.Args[i]) {
				return false
			}
		}
		return true
	case *ast.IndexExpr:
		y, ok := b.(*ast.IndexExpr)
		return ok && SameExpr(pk, x.X, y.X) && SameExpr(pk, x.Index, y.Index)
	case *ast.BasicLit:
		y, ok := b.(*ast.BasicLit)
		return ok && x.Kind == y.Kind && x.Value == y.Value
	}
	return false
}

func identObj(pk *packages.Package, id *ast.Ident) types.Object {
	if o := pk.TypesInfo.Uses[id]; o != nil {
		return o
	}
	return pk.TypesInfo.Defs[id]
}

// KnownBool looks for a fact about an expression structurally equal to e; ok=false if unknown.
func KnownBool(pk *packages.Package, facts []Fact, e ast.Expr) (truth, ok bool) {
	for _, f := range facts {
		if f.Expr != nil && SameExpr(pk, f.Expr, e) {
			return f.Truth, true
		}
	}
	return false, false
}

// FactMatch returns the truth of the first fact whose expression satisfies pred.
func FactMatch(facts []Fact, pred func(ast.Expr) bool) (truth, ok bool) {
	for _, f := range facts {
		if f.Expr != nil && pred(f.Expr) {
			return f.Truth, true
		}
	}
	return false, false
}

// IsNilCheck decomposes `x == nil` / `nil == x`; returns x.
func IsNilCheck(pk *packages.Package, e ast.Expr) (x ast.Expr, ok bool) {
	be, isBin := Unparen(e).(*ast.BinaryExpr)
	if !isBin || be.Op != token.EQL {
		return nil, false
	}
	if IsNilIdent(pk, be.Y) {
		return be.X, true
	}
	if IsNilIdent(pk, be.X) {
		return be.Y, true
	}
	return nil, false
}

// KnownNonNil reports whether facts establish x != nil for an expression structurally equal to x.
func KnownNonNil(pk *packages.Package, facts []Fact, x ast.Expr) bool {
	for _, f := range facts {
		if f.Expr == nil {
			continue
		}
		if y, ok := IsNilCheck(pk, f.Expr); ok && !f.Truth && SameExpr(pk, x, y) {
			return true
		}
	}
	return false
}

// GuardSig returns the sorted canonical signature of the structural path condition of n.
func GuardSig(f *Fn, n ast.Node) []string {
	var out []string
	for _, ft := range CtlFactsAt(f, n) {
		switch {
		case ft.Expr != nil:
			out = append(out, types.ExprString(ft.Expr)+"="+boolStr(ft.Truth))
		case ft.Tag != nil:
			s := types.ExprString(ft.Tag) + " in {"
			for _, v := range ft.Vals {
				s += types.ExprString(v) + ","
			}
			out = append(out, s+"}="+boolStr(ft.Truth))
		}
	}
	// also loops enclosing n matter for control equivalence
	for _, p := range PathTo(f.Decl.Body, n) {
		switch l := p.(type) {
		case *ast.ForStmt, *ast.RangeStmt:
			if l != n {
				out = append(out, "loop@"+f.Pkg.Fset.Position(l.Pos()).String())
			}
		}
	}
	for i := 1; i < len(out); i++ {
		for j := i; j > 0 && out[j] < out[j-1]; j-- {
			out[j], out[j-1] = out[j-1], out[j]
		}
	}
	// dedupe
	var d []string
	for i, s := range out {
		if i == 0 || s != out[i-1] {
			d = append(d, s)
		}
	}
	return d
}

func boolStr(b bool) string {
	if b {
		return "T"
	}
	return "F"
}

// SameSig compares two signatures.
func SameSig(a, b []string) bool {
	if len(a) != len(b) {
		return false
	}
	for i := range a {
		if a[i] != b[i] {
			return false
		}
	}
	return true
}

// CallOf resolves a fact's expression to the call whose result it is: the expression itself, or — when it is a local
// that is defined exactly once — its definition.  Rules that ask "is this statement control-dependent on the result of
// calling g" use it so that `ok := g(x); if ok {…}` is treated like `if g(x) {…}`.
func CallOf(f *Fn, e ast.Expr) *ast.CallExpr {
	e = Unparen(e)
	if call, ok := e.(*ast.CallExpr); ok {
		return call
	}
	if id, ok := e.(*ast.Ident); ok {
		if o := ObjOf(f.Pkg, id); o != nil {
			if ds := DefsOf(f, o); len(ds) == 1 {
				if call, isC := Unparen(ds[0]).(*ast.CallExpr); isC {
					return call
				}
			}
		}
	}
	return nil
}
