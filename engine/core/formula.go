package core

import (
	"fmt"
	"go/ast"
	"go/constant"
	"go/token"
	"go/types"
)

// R-FORM: guard-formula extraction and evaluation over a finite table of atom valuations.
// Nothing of the program is executed: the path conditions extracted by GuardsAt (boolean expressions over typed
// field reads and named constants) are evaluated under an explicit valuation of their atoms.

// Val is a value of the formula language.
type Val struct {
	IsBool bool
	B      bool
	I      int64
}

func BoolVal(b bool) Val { return Val{IsBool: true, B: b} }
func IntVal(i int64) Val { return Val{I: i} }

func (v Val) String() string {
	if v.IsBool {
		return fmt.Sprint(v.B)
	}
	return fmt.Sprint(v.I)
}

// Env is a valuation of atoms.
type Env struct {
	Exprs  map[string]Val       // by types.ExprString of the expression (most specific)
	Fields map[*types.Var]Val   // by final selected field
	Objs   map[types.Object]Val // locals / params
	Calls  map[string]Val       // by FuncKey of the static callee (argument-insensitive predicate atoms)
	Prog   *Prog                // set to allow inlining of loop-free repository helpers
	// ObjFields: per-object field values (distinguishes a.f from b.f); the object of `y` defined by `y := x.(*T)` is x's
	ObjFields map[types.Object]map[*types.Var]Val
	// DynType: dynamic type (types.Type.String()) of interface-typed variables, for type switches and assertions
	DynType map[types.Object]string
}

// NewEnv creates an empty valuation.
func NewEnv() *Env {
	return &Env{Exprs: map[string]Val{}, Fields: map[*types.Var]Val{}, Objs: map[types.Object]Val{}, Calls: map[string]Val{},
		ObjFields: map[types.Object]map[*types.Var]Val{}, DynType: map[types.Object]string{}}
}

// Eval evaluates e under env; ok=false if an atom is unbound or the expression is outside the formula language.
func Eval(f *Fn, e ast.Expr, env *Env) (Val, bool) {
	return evalDepth(f, e, env, 0)
}

func evalDepth(f *Fn, e ast.Expr, env *Env, depth int) (Val, bool) {
	if depth > 12 {
		return Val{}, false
	}
	e = Unparen(e)
	if v, ok := env.Exprs[types.ExprString(e)]; ok {
		return v, true
	}
	if tv, ok := f.Pkg.TypesInfo.Types[e]; ok && tv.Value != nil {
		switch tv.Value.Kind() {
		case constant.Bool:
			return BoolVal(constant.BoolVal(tv.Value)), true
		case constant.Int:
			i, exact := constant.Int64Val(tv.Value)
			if exact {
				return IntVal(i), true
			}
			u, _ := constant.Uint64Val(tv.Value)
			return IntVal(int64(u)), true
		}
	}
	switch x := e.(type) {
	case *ast.Ident:
		obj := ObjOf(f.Pkg, x)
		if v, ok := env.Objs[obj]; ok {
			return v, true
		}
		if obj != nil {
			defs := DefsOf(f, obj)
			if len(defs) == 1 {
				// `v, ok := x.(T)`: the boolean is the dynamic-type test
				if ta, isTA := Unparen(defs[0]).(*ast.TypeAssertExpr); isTA && ta.Type != nil {
					if b, isB := obj.Type().Underlying().(*types.Basic); isB && b.Kind() == types.Bool {
						if xo := ObjOf(f.Pkg, ta.X); xo != nil {
							if dt, ok := env.DynType[xo]; ok {
								t := f.Pkg.TypesInfo.TypeOf(ta.Type)
								return BoolVal(t != nil && t.String() == dt), true
							}
						}
					}
					return Val{}, false
				}
				return evalDepth(f, defs[0], env, depth+1)
			}
		}
		return Val{}, false
	case *ast.SelectorExpr:
		if fv := FieldOf(f.Pkg, x); fv != nil {
			if bo := BaseObject(f, x.X); bo != nil {
				if m, ok := env.ObjFields[bo]; ok {
					if v, ok := m[fv]; ok {
						return v, true
					}
				}
			}
			if v, ok := env.Fields[fv]; ok {
				return v, true
			}
		}
		return Val{}, false
	case *ast.TypeAssertExpr:
		// only the comma-ok boolean of `_, ok := x.(T)` reaches here through the ident case
		return Val{}, false
	case *ast.UnaryExpr:
		v, ok := evalDepth(f, x.X, env, depth+1)
		if !ok {
			return Val{}, false
		}
		switch x.Op {
		case token.NOT:
			return BoolVal(!v.B), v.IsBool
		case token.SUB:
			return IntVal(-v.I), !v.IsBool
		}
		return Val{}, false
	case *ast.BinaryExpr:
		switch x.Op {
		case token.LAND:
			a, ok := evalDepth(f, x.X, env, depth+1)
			if !ok {
				return Val{}, false
			}
			if !a.B {
				return BoolVal(false), true
			}
			return evalDepth(f, x.Y, env, depth+1)
		case token.LOR:
			a, ok := evalDepth(f, x.X, env, depth+1)
			if !ok {
				return Val{}, false
			}
			if a.B {
				return BoolVal(true), true
			}
			return evalDepth(f, x.Y, env, depth+1)
		}
		a, ok1 := evalDepth(f, x.X, env, depth+1)
		b, ok2 := evalDepth(f, x.Y, env, depth+1)
		if !ok1 || !ok2 || a.IsBool != b.IsBool {
			return Val{}, false
		}
		if a.IsBool {
			switch x.Op {
			case token.EQL:
				return BoolVal(a.B == b.B), true
			case token.NEQ:
				return BoolVal(a.B != b.B), true
			}
			return Val{}, false
		}
		switch x.Op {
		case token.EQL:
			return BoolVal(a.I == b.I), true
		case token.NEQ:
			return BoolVal(a.I != b.I), true
		case token.LSS:
			return BoolVal(a.I < b.I), true
		case token.LEQ:
			return BoolVal(a.I <= b.I), true
		case token.GTR:
			return BoolVal(a.I > b.I), true
		case token.GEQ:
			return BoolVal(a.I >= b.I), true
		case token.ADD:
			return IntVal(a.I + b.I), true
		case token.SUB:
			return IntVal(a.I - b.I), true
		}
		return Val{}, false
	case *ast.CallExpr:
		if cal := Callee(f.Pkg, x); cal != nil {
			if v, ok := env.Calls[FuncKey(cal)]; ok {
				return v, true
			}
		}
		// conversions T(x)
		if tv, ok := f.Pkg.TypesInfo.Types[x.Fun]; ok && tv.IsType() && len(x.Args) == 1 {
			return evalDepth(f, x.Args[0], env, depth+1)
		}
		// boolean / integer helper of the repository: inline through its exact path conditions (loop-free helpers only)
		if cal := Callee(f.Pkg, x); cal != nil && env.Prog != nil && depth < 6 {
			if g := env.Prog.FnOf(cal); g != nil && g.Decl.Body != nil && g.Decl.Type.Results != nil && len(g.Decl.Type.Results.List) == 1 {
				sub := NewEnv()
				sub.Prog = env.Prog
				for k, v := range env.Fields {
					sub.Fields[k] = v
				}
				for k, v := range env.Calls {
					sub.Calls[k] = v
				}
				okArgs := true
				for i, a := range x.Args {
					po := ParamObj(g, i)
					if po == nil {
						okArgs = false
						break
					}
					v, ok := evalDepth(f, a, env, depth+1)
					if !ok {
						okArgs = false
						break
					}
					sub.Objs[po] = v
				}
				// receiver fields stay addressed through env.Fields (field-object keyed)
				if okArgs {
					if ret, err := Outcome(g, sub); err == nil && len(ret.Results) == 1 {
						return evalDepth(g, ret.Results[0], sub, depth+1)
					}
				}
			}
		}
		return Val{}, false
	}
	return Val{}, false
}

// HoldsAt evaluates the structural path condition of node n under env.
// ok=false if some guard could not be evaluated.
func HoldsAt(f *Fn, n ast.Node, env *Env) (holds, ok bool) {
	holds = true
	for _, ft := range FactsAt(f, n) {
		switch {
		case ft.Expr != nil:
			v, k := Eval(f, ft.Expr, env)
			if !k || !v.IsBool {
				return false, false
			}
			if v.B != ft.Truth {
				holds = false
			}
		case ft.Tag != nil:
			t, k := Eval(f, ft.Tag, env)
			if !k {
				return false, false
			}
			in := false
			for _, ve := range ft.Vals {
				v, k2 := Eval(f, ve, env)
				if !k2 {
					return false, false
				}
				if v == t {
					in = true
				}
			}
			if in != ft.Truth {
				holds = false
			}
		case ft.TypeOf != nil:
			return false, false
		}
	}
	return holds, true
}

// Formula is a propositional formula over expression atoms.
type Formula struct {
	Op   string // "atom", "not", "and", "or", "true", "false", "in"
	Atom ast.Expr
	Tag  ast.Expr
	Vals []ast.Expr
	Sub  []*Formula
}

var fTrue, fFalse = &Formula{Op: "true"}, &Formula{Op: "false"}

func fAnd(a, b *Formula) *Formula {
	if a.Op == "true" {
		return b
	}
	if b.Op == "true" {
		return a
	}
	if a.Op == "false" || b.Op == "false" {
		return fFalse
	}
	return &Formula{Op: "and", Sub: []*Formula{a, b}}
}
func fOr(a, b *Formula) *Formula {
	if a.Op == "false" {
		return b
	}
	if b.Op == "false" {
		return a
	}
	if a.Op == "true" || b.Op == "true" {
		return fTrue
	}
	return &Formula{Op: "or", Sub: []*Formula{a, b}}
}
func fNot(a *Formula) *Formula {
	switch a.Op {
	case "true":
		return fFalse
	case "false":
		return fTrue
	}
	return &Formula{Op: "not", Sub: []*Formula{a}}
}

// EvalFormula evaluates a formula under env.
func EvalFormula(f *Fn, fm *Formula, env *Env) (bool, bool) {
	switch fm.Op {
	case "true":
		return true, true
	case "false":
		return false, true
	case "atom":
		v, ok := Eval(f, fm.Atom, env)
		return v.B, ok && v.IsBool
	case "in":
		t, ok := Eval(f, fm.Tag, env)
		if !ok {
			return false, false
		}
		for _, ve := range fm.Vals {
			v, ok := Eval(f, ve, env)
			if !ok {
				return false, false
			}
			if v == t {
				return true, true
			}
		}
		return false, true
	case "typein":
		xo := ObjOf(f.Pkg, fm.Tag)
		dt, ok := env.DynType[xo]
		if xo == nil || !ok {
			return false, false
		}
		for _, te := range fm.Vals {
			if t := f.Pkg.TypesInfo.TypeOf(te); t != nil && t.String() == dt {
				return true, true
			}
		}
		return false, true
	case "not":
		v, ok := EvalFormula(f, fm.Sub[0], env)
		return !v, ok
	case "and":
		a, ok := EvalFormula(f, fm.Sub[0], env)
		if !ok {
			return false, false
		}
		if !a {
			return false, true
		}
		return EvalFormula(f, fm.Sub[1], env)
	case "or":
		a, ok := EvalFormula(f, fm.Sub[0], env)
		if !ok {
			return false, false
		}
		if a {
			return true, true
		}
		return EvalFormula(f, fm.Sub[1], env)
	}
	return false, false
}

// PathConds computes the EXACT path condition of every return statement and every other simple statement of a
// loop-free, structured function body (if/else, switch without fallthrough, early returns).
type PathConds struct {
	Returns []*ast.ReturnStmt
	Cond    map[ast.Stmt]*Formula
	Fall    *Formula // condition under which control falls off the end
}

// ExtractPathConds walks the body of f.  It fails on loops, goto, labelled statements, fallthrough and select.
func ExtractPathConds(f *Fn) (*PathConds, error) {
	pc := &PathConds{Cond: map[ast.Stmt]*Formula{}}
	fall, err := pc.walk(f, f.Decl.Body.List, fTrue)
	pc.Fall = fall
	return pc, err
}

func (pc *PathConds) walk(f *Fn, list []ast.Stmt, c *Formula) (*Formula, error) {
	for _, st := range list {
		switch s := st.(type) {
		case *ast.ReturnStmt:
			pc.Returns = append(pc.Returns, s)
			pc.Cond[s] = c
			return fFalse, nil
		case *ast.BlockStmt:
			var err error
			if c, err = pc.walk(f, s.List, c); err != nil {
				return nil, err
			}
		case *ast.IfStmt:
			if s.Init != nil {
				pc.Cond[s.Init] = c
			}
			pc.Cond[s] = c // the condition under which the test itself is evaluated
			cond := &Formula{Op: "atom", Atom: s.Cond}
			ft, err := pc.walk(f, s.Body.List, fAnd(c, cond))
			if err != nil {
				return nil, err
			}
			fe := fAnd(c, fNot(cond))
			if s.Else != nil {
				var els []ast.Stmt
				switch e := s.Else.(type) {
				case *ast.BlockStmt:
					els = e.List
				default:
					els = []ast.Stmt{e}
				}
				if fe, err = pc.walk(f, els, fe); err != nil {
					return nil, err
				}
			}
			c = fOr(ft, fe)
		case *ast.SwitchStmt:
			if s.Init != nil {
				pc.Cond[s.Init] = c
			}
			rest := c // condition that no earlier case matched
			out := fFalse
			var def *ast.CaseClause
			for _, cs := range s.Body.List {
				cc := cs.(*ast.CaseClause)
				if cc.List == nil {
					def = cc
					continue
				}
				var m *Formula
				if s.Tag != nil {
					m = &Formula{Op: "in", Tag: s.Tag, Vals: cc.List}
				} else {
					m = fFalse
					for _, e := range cc.List {
						m = fOr(m, &Formula{Op: "atom", Atom: e})
					}
				}
				for _, b := range cc.Body {
					if br, ok := b.(*ast.BranchStmt); ok && br.Tok == token.FALLTHROUGH {
						return nil, fmt.Errorf("fallthrough not supported")
					}
				}
				fb, err := pc.walk(f, cc.Body, fAnd(rest, m))
				if err != nil {
					return nil, err
				}
				out = fOr(out, fb)
				rest = fAnd(rest, fNot(m))
			}
			if def != nil {
				fb, err := pc.walk(f, def.Body, rest)
				if err != nil {
					return nil, err
				}
				out = fOr(out, fb)
			} else {
				out = fOr(out, rest)
			}
			c = out
		case *ast.TypeSwitchStmt:
			var x ast.Expr
			switch a := s.Assign.(type) {
			case *ast.AssignStmt:
				x = a.Rhs[0].(*ast.TypeAssertExpr).X
			case *ast.ExprStmt:
				x = a.X.(*ast.TypeAssertExpr).X
			}
			rest := c
			out := fFalse
			var def *ast.CaseClause
			for _, cs := range s.Body.List {
				cc := cs.(*ast.CaseClause)
				if cc.List == nil {
					def = cc
					continue
				}
				m := &Formula{Op: "typein", Tag: x, Vals: cc.List}
				fb, err := pc.walk(f, cc.Body, fAnd(rest, m))
				if err != nil {
					return nil, err
				}
				out = fOr(out, fb)
				rest = fAnd(rest, fNot(m))
			}
			if def != nil {
				fb, err := pc.walk(f, def.Body, rest)
				if err != nil {
					return nil, err
				}
				out = fOr(out, fb)
			} else {
				out = fOr(out, rest)
			}
			c = out
		case *ast.ForStmt, *ast.RangeStmt:
			// a loop that cannot leave the function or jump out of an enclosing construct is an opaque simple statement
			escapes := false
			ast.Inspect(st, func(n ast.Node) bool {
				switch x := n.(type) {
				case *ast.ReturnStmt:
					escapes = true
				case *ast.BranchStmt:
					if x.Tok == token.GOTO || x.Label != nil {
						escapes = true
					}
				case *ast.FuncLit:
					return false
				}
				return true
			})
			if escapes {
				return nil, fmt.Errorf("%T with a return/goto inside at %s is outside the structured loop-free subset", st, f.Pkg.Fset.Position(st.Pos()))
			}
			pc.Cond[st] = c
		case *ast.SelectStmt, *ast.LabeledStmt:
			return nil, fmt.Errorf("%T at %s is outside the structured loop-free subset", st, f.Pkg.Fset.Position(st.Pos()))
		case *ast.BranchStmt:
			return nil, fmt.Errorf("branch statement at %s is outside the subset", f.Pkg.Fset.Position(st.Pos()))
		case *ast.ExprStmt:
			pc.Cond[s] = c
			if call, ok := s.X.(*ast.CallExpr); ok && !mayReturn(f.Pkg, call) {
				return fFalse, nil
			}
		default:
			pc.Cond[st] = c
		}
	}
	return c, nil
}

// HoldsAtLenient is HoldsAt that ignores guards it cannot evaluate (atoms outside the table are assumed satisfiable):
// it answers "can n be reached under env for some value of the unbound atoms".
func HoldsAtLenient(f *Fn, n ast.Node, env *Env) bool {
	for _, ft := range FactsAt(f, n) {
		if ft.Expr != nil {
			v, k := Eval(f, ft.Expr, env)
			if k && v.IsBool && v.B != ft.Truth {
				return false
			}
		} else if ft.Tag != nil {
			t, k := Eval(f, ft.Tag, env)
			if !k {
				continue
			}
			in, all := false, true
			for _, ve := range ft.Vals {
				v, k2 := Eval(f, ve, env)
				if !k2 {
					all = false
					continue
				}
				if v == t {
					in = true
				}
			}
			if all && in != ft.Truth {
				return false
			}
		}
	}
	return true
}

// Outcome determines which return statement of a loop-free structured function is taken under env.
func Outcome(f *Fn, env *Env) (*ast.ReturnStmt, error) {
	pc, err := ExtractPathConds(f)
	if err != nil {
		return nil, err
	}
	var taken []*ast.ReturnStmt
	for _, r := range pc.Returns {
		h, ok := EvalFormula(f, pc.Cond[r], env)
		if !ok {
			return nil, fmt.Errorf("path condition of the return at %s uses an atom outside the table", f.Pkg.Fset.Position(r.Pos()))
		}
		if h {
			taken = append(taken, r)
		}
	}
	if len(taken) != 1 {
		return nil, fmt.Errorf("%d return statements have a satisfied path condition under the valuation (need exactly 1)", len(taken))
	}
	return taken[0], nil
}

// StmtHolds evaluates the exact path condition of statement st (which must be a simple statement of f's body).
func StmtHolds(f *Fn, st ast.Stmt, env *Env) (bool, error) {
	pc, err := ExtractPathConds(f)
	if err != nil {
		return false, err
	}
	fm, ok := pc.Cond[st]
	if !ok {
		return false, fmt.Errorf("statement not found among the simple statements of the function")
	}
	h, ok := EvalFormula(f, fm, env)
	if !ok {
		return false, fmt.Errorf("path condition uses an atom outside the table")
	}
	return h, nil
}

// BaseObject resolves the object a field is selected from: an identifier, an identifier defined once by a type
// assertion `y := x.(T)` / `y, ok := x.(T)` (resolves to x), or an inline assertion `x.(T)`.
func BaseObject(f *Fn, e ast.Expr) types.Object {
	e = Unparen(e)
	switch x := e.(type) {
	case *ast.TypeAssertExpr:
		return BaseObject(f, x.X)
	case *ast.StarExpr:
		return BaseObject(f, x.X)
	case *ast.Ident:
		o := ObjOf(f.Pkg, x)
		if o == nil {
			return nil
		}
		defs := DefsOf(f, o)
		if len(defs) == 1 {
			if ta, ok := Unparen(defs[0]).(*ast.TypeAssertExpr); ok {
				return BaseObject(f, ta.X)
			}
		}
		return o
	}
	return nil
}
