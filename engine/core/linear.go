package core

import (
	"fmt"
	"go/ast"
	"go/token"
	"go/types"
	"math/big"
	"sort"

	"golang.org/x/tools/go/cfg"
)

// R-LIN: a small relational abstract domain for bounds of index/slice operations.
//
// Along every acyclic path of the function's CFG from the entry to the operation, integer locals are tracked as linear
// forms over symbols (unknown inputs: len of a parameter, a value filled in by a decoder call, …), slice locals by the
// linear form of their length (make([]T, n), x[a:b], aliases), and the branch decisions taken on the path are
// collected as linear inequalities.  The operation is in bounds on the path when  constraints ∧ ¬(bound)  is infeasible
// over the rationals (Fourier–Motzkin elimination — no external solver; rational infeasibility implies integer
// infeasibility, so "proved" is sound, "not proved" is not a verdict).
//
// Scope limits, each of which makes the rule answer "not proved" (never "proved"):
//   - a loop (CFG cycle) between the entry and the operation;
//   - non-linear arithmetic, subtraction in an unsigned type, narrowing conversions (fresh symbol with type bounds);
//   - more than maxPaths paths or maxCons constraints during elimination.
// Assumptions (reported with every discharge): fixed-width wrap-around of an unsigned SUM only makes the value smaller
// (bounds proved for the mathematical sum hold for the wrapped one); a callee that is handed &slice fills the slice but
// does not change its length; integer locals whose address is taken change only in call statements.

const (
	linMaxPaths = 4000
	linMaxCons  = 3000
)

type linForm struct {
	k map[string]*big.Rat
	c *big.Rat
}

func linConst(n int64) linForm { return linForm{k: map[string]*big.Rat{}, c: big.NewRat(n, 1)} }
func linSym(s string) linForm {
	return linForm{k: map[string]*big.Rat{s: big.NewRat(1, 1)}, c: big.NewRat(0, 1)}
}
func (a linForm) clone() linForm {
	o := linForm{k: map[string]*big.Rat{}, c: new(big.Rat).Set(a.c)}
	for s, v := range a.k {
		o.k[s] = new(big.Rat).Set(v)
	}
	return o
}
func (a linForm) add(b linForm, sign int64) linForm {
	o := a.clone()
	sg := big.NewRat(sign, 1)
	o.c.Add(o.c, new(big.Rat).Mul(b.c, sg))
	for s, v := range b.k {
		t := new(big.Rat).Mul(v, sg)
		if cur, ok := o.k[s]; ok {
			cur.Add(cur, t)
			if cur.Sign() == 0 {
				delete(o.k, s)
			}
		} else if t.Sign() != 0 {
			o.k[s] = t
		}
	}
	return o
}
func (a linForm) scale(r *big.Rat) linForm {
	o := linForm{k: map[string]*big.Rat{}, c: new(big.Rat).Mul(a.c, r)}
	for s, v := range a.k {
		t := new(big.Rat).Mul(v, r)
		if t.Sign() != 0 {
			o.k[s] = t
		}
	}
	return o
}
func (a linForm) isConst() bool { return len(a.k) == 0 }
func (a linForm) String() string {
	var ks []string
	for s := range a.k {
		ks = append(ks, s)
	}
	sort.Strings(ks)
	out := ""
	for _, s := range ks {
		out += fmt.Sprintf("%s·%s + ", a.k[s].RatString(), s)
	}
	return out + a.c.RatString()
}

// infeasible reports whether the conjunction of (f ≥ 0) for f in cons has no rational solution.
func linInfeasible(cons []linForm) (bool, bool) {
	cur := make([]linForm, len(cons))
	copy(cur, cons)
	for {
		// constant contradictions
		var vars map[string]int = map[string]int{}
		rest := cur[:0:0]
		for _, f := range cur {
			if f.isConst() {
				if f.c.Sign() < 0 {
					return true, true
				}
				continue
			}
			rest = append(rest, f)
			for s := range f.k {
				vars[s]++
			}
		}
		cur = rest
		if len(vars) == 0 {
			return false, true
		}
		// pick the variable with the fewest pos×neg products
		best, bestCost := "", -1
		for s := range vars {
			pos, neg := 0, 0
			for _, f := range cur {
				if v, ok := f.k[s]; ok {
					if v.Sign() > 0 {
						pos++
					} else {
						neg++
					}
				}
			}
			cost := pos * neg
			if bestCost < 0 || cost < bestCost || (cost == bestCost && s < best) {
				best, bestCost = s, cost
			}
		}
		var pos, neg, zero []linForm
		for _, f := range cur {
			v, ok := f.k[best]
			switch {
			case !ok:
				zero = append(zero, f)
			case v.Sign() > 0:
				pos = append(pos, f)
			default:
				neg = append(neg, f)
			}
		}
		next := zero
		for _, a := range pos {
			for _, b := range neg {
				// a: ka·x + A ≥ 0 (ka>0), b: kb·x + B ≥ 0 (kb<0)  ⇒  A/ka + B/(-kb) ≥ 0
				ka := a.k[best]
				kb := new(big.Rat).Neg(b.k[best])
				fa := a.scale(new(big.Rat).Inv(ka))
				fb := b.scale(new(big.Rat).Inv(kb))
				sum := fa.add(fb, 1)
				delete(sum.k, best)
				next = append(next, sum)
				if len(next) > linMaxCons {
					return false, false
				}
			}
		}
		cur = next
	}
}

type linState struct {
	env  map[types.Object]linForm // integer variables
	lens map[types.Object]linForm // slice/array/string variables: length
	cons []linForm
}

func (s *linState) clone() *linState {
	o := &linState{env: map[types.Object]linForm{}, lens: map[types.Object]linForm{}}
	for k, v := range s.env {
		o.env[k] = v
	}
	for k, v := range s.lens {
		o.lens[k] = v
	}
	o.cons = append(o.cons, s.cons...)
	return o
}

type linAn struct {
	p        *Prog
	f        *Fn
	nsym     int
	addrOf   map[types.Object]bool
	carriers map[types.Object]map[types.Object]bool // address-taken local → locals whose definition holds its address
	assumes  map[string]bool
}

func (a *linAn) fresh(name string, t types.Type, st *linState) linForm {
	a.nsym++
	s := fmt.Sprintf("%s#%d", name, a.nsym)
	f := linSym(s)
	if t != nil {
		if b, ok := t.Underlying().(*types.Basic); ok && b.Info()&types.IsUnsigned != 0 {
			st.cons = append(st.cons, f) // ≥ 0
			var max int64
			switch b.Kind() {
			case types.Uint8:
				max = 255
			case types.Uint16:
				max = 65535
			case types.Uint32:
				max = 1<<32 - 1
			}
			if max > 0 {
				st.cons = append(st.cons, linConst(max).add(f, -1))
			}
		}
	}
	return f
}

func isUnsignedType(t types.Type) bool {
	if t == nil {
		return false
	}
	b, ok := t.Underlying().(*types.Basic)
	return ok && b.Info()&types.IsUnsigned != 0
}

func hasLen(t types.Type) bool {
	if t == nil {
		return false
	}
	switch u := t.Underlying().(type) {
	case *types.Slice, *types.Array:
		return true
	case *types.Basic:
		return u.Info()&types.IsString != 0
	}
	return false
}

func (a *linAn) lenOf(e ast.Expr, st *linState) linForm {
	e = Unparen(e)
	t := a.f.Pkg.TypesInfo.TypeOf(e)
	if t != nil {
		if arr, ok := t.Underlying().(*types.Array); ok {
			return linConst(arr.Len())
		}
	}
	if id, ok := e.(*ast.Ident); ok {
		if o := ObjOf(a.f.Pkg, id); o != nil {
			if l, ok := st.lens[o]; ok {
				return l
			}
			l := a.fresh("len("+id.Name+")", nil, st)
			st.cons = append(st.cons, l)
			st.lens[o] = l
			return l
		}
	}
	if se, ok := e.(*ast.SliceExpr); ok && !se.Slice3 {
		lo := linConst(0)
		if se.Low != nil {
			lo = a.eval(se.Low, st)
		}
		var hi linForm
		if se.High != nil {
			hi = a.eval(se.High, st)
		} else {
			hi = a.lenOf(se.X, st)
		}
		return hi.add(lo, -1)
	}
	l := a.fresh("len(?)", nil, st)
	st.cons = append(st.cons, l)
	return l
}

func (a *linAn) eval(e ast.Expr, st *linState) linForm {
	e = Unparen(e)
	info := a.f.Pkg.TypesInfo
	if tv, ok := info.Types[e]; ok && tv.Value != nil {
		if v, ok := constIntOf(a.f, e); ok {
			return linConst(v)
		}
	}
	t := info.TypeOf(e)
	switch x := e.(type) {
	case *ast.Ident:
		o := ObjOf(a.f.Pkg, x)
		if o == nil {
			return a.fresh(x.Name, t, st)
		}
		if v, ok := st.env[o]; ok {
			return v
		}
		v := a.fresh(x.Name, t, st)
		st.env[o] = v
		return v
	case *ast.CallExpr:
		if len(x.Args) == 1 {
			if id, ok := x.Fun.(*ast.Ident); ok && id.Name == "len" {
				if _, isBuiltin := info.Uses[id].(*types.Builtin); isBuiltin {
					return a.lenOf(x.Args[0], st)
				}
			}
			// conversion
			if tv, ok := info.Types[x.Fun]; ok && tv.IsType() && isIntType(tv.Type) {
				from := info.TypeOf(x.Args[0])
				if isIntType(from) && intWidth(tv.Type) >= intWidth(from) && (isUnsignedType(from) || !isUnsignedType(tv.Type)) {
					return a.eval(x.Args[0], st) // widening, sign-compatible
				}
				return a.fresh("conv", tv.Type, st)
			}
		}
		return a.fresh("call", t, st)
	case *ast.BinaryExpr:
		switch x.Op {
		case token.ADD:
			return a.eval(x.X, st).add(a.eval(x.Y, st), 1)
		case token.SUB:
			if isUnsignedType(t) {
				return a.fresh("usub", t, st)
			}
			return a.eval(x.X, st).add(a.eval(x.Y, st), -1)
		case token.MUL:
			l, r := a.eval(x.X, st), a.eval(x.Y, st)
			if l.isConst() {
				return r.scale(l.c)
			}
			if r.isConst() {
				return l.scale(r.c)
			}
		}
	}
	return a.fresh("expr", t, st)
}

func intWidth(t types.Type) int {
	b, ok := t.Underlying().(*types.Basic)
	if !ok {
		return 0
	}
	switch b.Kind() {
	case types.Int8, types.Uint8:
		return 8
	case types.Int16, types.Uint16:
		return 16
	case types.Int32, types.Uint32:
		return 32
	default:
		return 64
	}
}

// addCond adds the constraints of cond having the given truth value; it may fork (disequalities) and returns all states.
func (a *linAn) addCond(cond ast.Expr, truth bool, st *linState) []*linState {
	cond = Unparen(cond)
	switch x := cond.(type) {
	case *ast.UnaryExpr:
		if x.Op == token.NOT {
			return a.addCond(x.X, !truth, st)
		}
	case *ast.BinaryExpr:
		switch x.Op {
		case token.LAND:
			if truth {
				var out []*linState
				for _, s1 := range a.addCond(x.X, true, st) {
					out = append(out, a.addCond(x.Y, true, s1)...)
				}
				return out
			}
			return []*linState{st}
		case token.LOR:
			if !truth {
				var out []*linState
				for _, s1 := range a.addCond(x.X, false, st) {
					out = append(out, a.addCond(x.Y, false, s1)...)
				}
				return out
			}
			return []*linState{st}
		case token.LSS, token.LEQ, token.GTR, token.GEQ, token.EQL, token.NEQ:
			lt, rt := a.f.Pkg.TypesInfo.TypeOf(x.X), a.f.Pkg.TypesInfo.TypeOf(x.Y)
			if !isIntType(lt) || !isIntType(rt) {
				return []*linState{st}
			}
			l, r := a.eval(x.X, st), a.eval(x.Y, st)
			op := x.Op
			if !truth {
				switch op {
				case token.LSS:
					op = token.GEQ
				case token.LEQ:
					op = token.GTR
				case token.GTR:
					op = token.LEQ
				case token.GEQ:
					op = token.LSS
				case token.EQL:
					op = token.NEQ
				case token.NEQ:
					op = token.EQL
				}
			}
			one := linConst(1)
			switch op {
			case token.LSS: // l < r  ⇒ r - l - 1 ≥ 0
				st.cons = append(st.cons, r.add(l, -1).add(one, -1))
			case token.LEQ:
				st.cons = append(st.cons, r.add(l, -1))
			case token.GTR:
				st.cons = append(st.cons, l.add(r, -1).add(one, -1))
			case token.GEQ:
				st.cons = append(st.cons, l.add(r, -1))
			case token.EQL:
				st.cons = append(st.cons, l.add(r, -1), r.add(l, -1))
			case token.NEQ:
				s2 := st.clone()
				st.cons = append(st.cons, r.add(l, -1).add(one, -1))
				s2.cons = append(s2.cons, l.add(r, -1).add(one, -1))
				return []*linState{st, s2}
			}
			return []*linState{st}
		}
	}
	return []*linState{st}
}

// step applies the effect of one CFG node.
func (a *linAn) step(n ast.Node, st *linState) {
	info := a.f.Pkg.TypesInfo
	assign := func(lhs ast.Expr, rhs ast.Expr) {
		id, ok := Unparen(lhs).(*ast.Ident)
		if !ok {
			return
		}
		o := ObjOf(a.f.Pkg, id)
		if o == nil {
			return
		}
		t := o.Type()
		switch {
		case isIntType(t):
			if rhs == nil {
				delete(st.env, o)
				return
			}
			st.env[o] = a.eval(rhs, st)
		case hasLen(t):
			if rhs == nil {
				delete(st.lens, o)
				return
			}
			r := Unparen(rhs)
			if call, ok := r.(*ast.CallExpr); ok {
				if fid, ok := call.Fun.(*ast.Ident); ok && fid.Name == "make" && len(call.Args) >= 2 {
					if _, isB := info.Uses[fid].(*types.Builtin); isB {
						st.lens[o] = a.eval(call.Args[1], st)
						return
					}
				}
				delete(st.lens, o)
				return
			}
			st.lens[o] = a.lenOf(r, st)
		}
	}
	isCallStmt := false
	switch s := n.(type) {
	case *ast.AssignStmt:
		for _, r := range s.Rhs {
			if NodeHas(r, func(x ast.Node) bool { c, ok := x.(*ast.CallExpr); return ok && !isPureBuiltinOrConv(a.f, c) }) {
				isCallStmt = true
			}
		}
		switch s.Tok {
		case token.DEFINE, token.ASSIGN:
			if len(s.Lhs) == len(s.Rhs) {
				// evaluate all right-hand sides first
				type pr struct{ l, r ast.Expr }
				var prs []pr
				for i := range s.Lhs {
					prs = append(prs, pr{s.Lhs[i], s.Rhs[i]})
				}
				for _, q := range prs {
					assign(q.l, q.r)
				}
			} else {
				for _, l := range s.Lhs {
					assign(l, nil)
				}
			}
		case token.ADD_ASSIGN, token.SUB_ASSIGN:
			if id, ok := Unparen(s.Lhs[0]).(*ast.Ident); ok {
				if o := ObjOf(a.f.Pkg, id); o != nil && isIntType(o.Type()) {
					cur := a.eval(id, st)
					d := a.eval(s.Rhs[0], st)
					if s.Tok == token.SUB_ASSIGN {
						if isUnsignedType(o.Type()) {
							st.env[o] = a.fresh("usub", o.Type(), st)
						} else {
							st.env[o] = cur.add(d, -1)
						}
					} else {
						st.env[o] = cur.add(d, 1)
					}
				}
			}
		default:
			for _, l := range s.Lhs {
				assign(l, nil)
			}
		}
	case *ast.IncDecStmt:
		if id, ok := Unparen(s.X).(*ast.Ident); ok {
			if o := ObjOf(a.f.Pkg, id); o != nil && isIntType(o.Type()) {
				cur := a.eval(id, st)
				if s.Tok == token.INC {
					st.env[o] = cur.add(linConst(1), 1)
				} else if isUnsignedType(o.Type()) {
					st.env[o] = a.fresh("udec", o.Type(), st)
				} else {
					st.env[o] = cur.add(linConst(1), -1)
				}
			}
		}
	case *ast.DeclStmt:
		if gd, ok := s.Decl.(*ast.GenDecl); ok {
			for _, sp := range gd.Specs {
				if vs, ok := sp.(*ast.ValueSpec); ok {
					for i, nm := range vs.Names {
						if i < len(vs.Values) {
							assign(nm, vs.Values[i])
						} else if o := ObjOf(a.f.Pkg, nm); o != nil {
							if isIntType(o.Type()) {
								st.env[o] = linConst(0)
							} else if hasLen(o.Type()) {
								if _, isArr := o.Type().Underlying().(*types.Array); !isArr {
									st.lens[o] = linConst(0)
								}
							}
						}
					}
				}
			}
		}
	case *ast.ExprStmt:
		if NodeHas(s.X, func(x ast.Node) bool { c, ok := x.(*ast.CallExpr); return ok && !isPureBuiltinOrConv(a.f, c) }) {
			isCallStmt = true
		}
	case *ast.RangeStmt, *ast.ForStmt:
		// handled by the cycle check
	}
	if isCallStmt {
		for o := range a.addrOf {
			if !isIntType(o.Type()) {
				continue
			}
			// the call receives the address: &o itself or a local that holds it
			gets := NodeHas(n, func(x ast.Node) bool {
				switch y := x.(type) {
				case *ast.UnaryExpr:
					if y.Op == token.AND {
						if id, ok := Unparen(y.X).(*ast.Ident); ok && ObjOf(a.f.Pkg, id) == o {
							return true
						}
					}
				case *ast.Ident:
					if c := ObjOf(a.f.Pkg, y); c != nil && a.carriers[o][c] {
						return true
					}
				}
				return false
			})
			if gets {
				delete(st.env, o) // a fresh symbol on the next read
			}
		}
		if len(a.addrOf) > 0 {
			a.assumes["a local whose address is taken changes only in calls that are handed that address (directly or in a local holding it); callees do not retain such pointers; a callee handed &slice does not change the slice's length"] = true
		}
	}
}

func isPureBuiltinOrConv(f *Fn, c *ast.CallExpr) bool {
	if tv, ok := f.Pkg.TypesInfo.Types[c.Fun]; ok && tv.IsType() {
		return true
	}
	if id, ok := c.Fun.(*ast.Ident); ok {
		if _, isB := f.Pkg.TypesInfo.Uses[id].(*types.Builtin); isB {
			switch id.Name {
			case "len", "cap", "make", "new", "min", "max":
				return true
			}
		}
	}
	return false
}

// LinearDischarge tries to prove the index/slice operation op (an *ast.IndexExpr or *ast.SliceExpr inside f) in bounds on
// every path.  proved=false carries the reason in why.
func (p *Prog) LinearDischarge(f *Fn, op ast.Node) (proved bool, why string, assumptions []string) {
	g := p.CFG(f)
	if g == nil || len(g.Blocks) == 0 {
		return false, "no CFG", nil
	}
	// locate the operation
	var tb *cfg.Block
	ti := -1
	for _, b := range g.Blocks {
		if !b.Live {
			continue
		}
		for i, n := range b.Nodes {
			if NodeHas(n, func(x ast.Node) bool { return x == op }) {
				if tb == nil {
					tb, ti = b, i
				}
			}
		}
	}
	if tb == nil {
		return false, "operation not found in the CFG", nil
	}
	// blocks that can reach the target
	canReach := map[*cfg.Block]bool{tb: true}
	for ch := true; ch; {
		ch = false
		for _, b := range g.Blocks {
			if canReach[b] {
				continue
			}
			for _, s := range b.Succs {
				if canReach[s] {
					canReach[b] = true
					ch = true
					break
				}
			}
		}
	}
	// cycle among relevant blocks?
	color := map[*cfg.Block]int{}
	cyc := false
	var dfs func(b *cfg.Block)
	dfs = func(b *cfg.Block) {
		color[b] = 1
		for _, s := range b.Succs {
			if !canReach[s] || !s.Live {
				continue
			}
			if color[s] == 1 {
				cyc = true
			} else if color[s] == 0 {
				dfs(s)
			}
		}
		color[b] = 2
	}
	if canReach[g.Blocks[0]] {
		dfs(g.Blocks[0])
	}
	if cyc {
		return false, "a loop lies between the function entry and the operation (outside the linear domain's scope)", nil
	}
	a := &linAn{p: p, f: f, addrOf: map[types.Object]bool{}, assumes: map[string]bool{}}
	ast.Inspect(f.Decl.Body, func(n ast.Node) bool {
		if u, ok := n.(*ast.UnaryExpr); ok && u.Op == token.AND {
			if id, ok := Unparen(u.X).(*ast.Ident); ok {
				if o := ObjOf(f.Pkg, id); o != nil {
					a.addrOf[o] = true
				}
			}
		}
		return true
	})
	a.carriers = map[types.Object]map[types.Object]bool{}
	ast.Inspect(f.Decl.Body, func(n ast.Node) bool {
		as, ok := n.(*ast.AssignStmt)
		if !ok || len(as.Lhs) != len(as.Rhs) {
			return true
		}
		for i, l := range as.Lhs {
			id, ok := Unparen(l).(*ast.Ident)
			if !ok {
				continue
			}
			c := ObjOf(f.Pkg, id)
			if c == nil {
				continue
			}
			ast.Inspect(as.Rhs[i], func(m ast.Node) bool {
				if u, ok := m.(*ast.UnaryExpr); ok && u.Op == token.AND {
					if id2, ok := Unparen(u.X).(*ast.Ident); ok {
						if o := ObjOf(f.Pkg, id2); o != nil {
							if a.carriers[o] == nil {
								a.carriers[o] = map[types.Object]bool{}
							}
							a.carriers[o][c] = true
						}
					}
				}
				return true
			})
		}
		return true
	})
	paths := 0
	var fail string
	var walk func(b *cfg.Block, st *linState) bool
	check := func(st *linState) bool {
		// obligations of op under st
		var goals []linForm // each must be ≥ 0
		var names []string
		switch x := op.(type) {
		case *ast.IndexExpr:
			t := f.Pkg.TypesInfo.TypeOf(x.X)
			if t != nil {
				if _, isMap := t.Underlying().(*types.Map); isMap {
					return true
				}
			}
			i := a.eval(x.Index, st)
			L := a.lenOf(x.X, st)
			goals = append(goals, i, L.add(i, -1).add(linConst(1), -1))
			names = append(names, "index ≥ 0", "index < len")
		case *ast.SliceExpr:
			L := a.lenOf(x.X, st)
			lo := linConst(0)
			if x.Low != nil {
				lo = a.eval(x.Low, st)
				goals = append(goals, lo)
				names = append(names, "low ≥ 0")
			}
			hi := L
			if x.High != nil {
				hi = a.eval(x.High, st)
				goals = append(goals, L.add(hi, -1))
				names = append(names, "high ≤ len")
			}
			goals = append(goals, hi.add(lo, -1))
			names = append(names, "low ≤ high")
		case *ast.BinaryExpr: // shift: the count must not be negative
			goals = append(goals, a.eval(x.Y, st))
			names = append(names, "shift count ≥ 0")
		default:
			fail = "not an index, slice or shift expression"
			return false
		}
		for gi, gl := range goals {
			// ¬(gl ≥ 0)  ≡  -gl - 1 ≥ 0 over the integers
			neg := gl.scale(big.NewRat(-1, 1)).add(linConst(1), -1)
			cons := append(append([]linForm{}, st.cons...), neg)
			inf, done := linInfeasible(cons)
			if !done {
				fail = "constraint elimination exceeded its budget"
				return false
			}
			if !inf {
				fail = fmt.Sprintf("on some path `%s` does not follow from the branch decisions taken (%d constraints)", names[gi], len(st.cons))
				return false
			}
		}
		return true
	}
	walk = func(b *cfg.Block, st *linState) bool {
		limit := len(b.Nodes)
		if b == tb {
			limit = ti
		}
		for i := 0; i < limit; i++ {
			// the branch condition (last node of a two-successor block) has no effect of its own
			a.step(b.Nodes[i], st)
		}
		if b == tb {
			paths++
			if paths > linMaxPaths {
				fail = "too many paths"
				return false
			}
			return check(st)
		}
		if len(b.Succs) == 2 && len(b.Nodes) > 0 {
			if cond, ok := b.Nodes[len(b.Nodes)-1].(ast.Expr); ok {
				for k, s := range b.Succs {
					if !canReach[s] || !s.Live {
						continue
					}
					for _, s2 := range a.addCond(cond, k == 0, st.clone()) {
						// skip infeasible branches early (cheap pruning when few constraints)
						if !walk(s, s2) {
							return false
						}
					}
				}
				return true
			}
		}
		for _, s := range b.Succs {
			if !canReach[s] || !s.Live {
				continue
			}
			if !walk(s, st.clone()) {
				return false
			}
		}
		return true
	}
	st0 := &linState{env: map[types.Object]linForm{}, lens: map[types.Object]linForm{}}
	ok := walk(g.Blocks[0], st0)
	var as []string
	for k := range a.assumes {
		as = append(as, k)
	}
	sort.Strings(as)
	if !ok {
		return false, fail, as
	}
	return true, fmt.Sprintf("in bounds on all %d paths from the entry: the branch decisions on each path make the negated bound infeasible (linear forms over lengths and decoded values, Fourier–Motzkin)", paths), as
}
