package core

import (
	"go/ast"
	"go/token"
	"go/types"
	"sort"
	"strings"
)

// Whole-program lock graph on top of the per-function locksets.

// LockSite is one place where a lock class is acquired (directly or through a call) while others are held.
type LockSite struct {
	Fn    *Fn
	Pos   token.Pos
	Chain []string // call chain from Fn down to the function that executes the Lock call
}

// LockEdge: To is acquired while From may be held.
type LockEdge struct {
	From, To string // class keys
	FromRead bool
	ToRead   bool
	Site     LockSite
	SameBase bool // both operations are on the same base expression inside one function (recursion on one instance)
}

// LockProg is the lock view of the program.
type LockProg struct {
	P        *Prog
	Fns      []*Fn
	Sets     map[*Fn]*Locksets
	KeyClass map[*Fn]map[string]*types.Var // instance key → class, per function
	KeyRead  map[*Fn]map[string]bool
	Direct   map[*Fn]map[string]bool     // classes acquired directly
	Acq      map[*Fn]map[string][]string // classes acquired transitively → witness chain
	Edges    []LockEdge
	impls    map[string][]*Fn
	// Registered: owner type name → set of client type names registered with it ("*" = some call site passes an interface value)
	Registered map[string]map[string]bool
}

// BuildLockProg analyses every function of the given packages (all if nil).
func BuildLockProg(p *Prog, inScope func(*Fn) bool) *LockProg {
	lp := &LockProg{P: p, Sets: map[*Fn]*Locksets{}, KeyClass: map[*Fn]map[string]*types.Var{}, KeyRead: map[*Fn]map[string]bool{},
		Direct: map[*Fn]map[string]bool{}, Acq: map[*Fn]map[string][]string{}, impls: map[string][]*Fn{}}
	for _, f := range p.AllFuncs() {
		if f.Decl.Body == nil || (inScope != nil && !inScope(f)) {
			continue
		}
		lp.Fns = append(lp.Fns, f)
	}
	sort.Slice(lp.Fns, func(i, j int) bool { return lp.Fns[i].Name() < lp.Fns[j].Name() })
	lp.collectRegistrations()
	for _, f := range lp.Fns {
		kc, kr, dir := map[string]*types.Var{}, map[string]bool{}, map[string]bool{}
		InspectNoLit(f.Decl.Body, func(n ast.Node) bool {
			if call, ok := n.(*ast.CallExpr); ok {
				if op, isOp := LockOpOf(f, call); isOp {
					kc[op.Key()] = op.Class
					if op.Acquire {
						dir[ClassKey2(op.Class)] = true
						if op.Read {
							kr[op.Key()] = true
						}
					}
				}
			}
			return true
		})
		lp.KeyClass[f], lp.KeyRead[f], lp.Direct[f] = kc, kr, dir
		if len(kc) > 0 {
			lp.Sets[f] = p.ComputeLocksets(f, nil)
		}
	}
	// transitive acquisitions (fixpoint)
	for _, f := range lp.Fns {
		lp.Acq[f] = map[string][]string{}
		for c := range lp.Direct[f] {
			lp.Acq[f][c] = []string{f.Name()}
		}
	}
	for changed, iter := true, 0; changed && iter < 30; iter++ {
		changed = false
		for _, f := range lp.Fns {
			for _, cs := range lp.callSites(f) {
				for _, g := range cs.callees {
					for c, chain := range lp.Acq[g] {
						if _, ok := lp.Acq[f][c]; !ok && len(chain) < 8 {
							lp.Acq[f][c] = append([]string{f.Name()}, chain...)
							changed = true
						}
					}
				}
			}
		}
	}
	// edges
	for _, f := range lp.Fns {
		ls := lp.Sets[f]
		// direct
		if ls != nil {
			InspectNoLit(f.Decl.Body, func(n ast.Node) bool {
				call, ok := n.(*ast.CallExpr)
				if !ok {
					return true
				}
				op, isOp := LockOpOf(f, call)
				if !isOp || !op.Acquire {
					return true
				}
				for h := range ls.MayAt(call) {
					hc := lp.KeyClass[f][h]
					if hc == nil {
						continue
					}
					lp.Edges = append(lp.Edges, LockEdge{From: ClassKey2(hc), To: ClassKey2(op.Class), FromRead: lp.KeyRead[f][h], ToRead: op.Read,
						Site: LockSite{Fn: f, Pos: call.Pos(), Chain: []string{f.Name()}}, SameBase: h == op.Key()})
				}
				return true
			})
		}
		if ls == nil {
			continue
		}
		for _, cs := range lp.callSites(f) {
			held := ls.MayAt(cs.call)
			if len(held) == 0 {
				continue
			}
			for _, g := range cs.callees {
				for c, chain := range lp.Acq[g] {
					for h := range held {
						hc := lp.KeyClass[f][h]
						if hc == nil {
							continue
						}
						same := false
						// recursion on the same instance: the call's receiver is the base of the held lock and the callee locks its own receiver's field
						if ClassKey2(hc) == c && cs.recvBase != "" && strings.HasPrefix(h, cs.recvBase+".") && lp.locksOwnReceiver(g, c, map[*Fn]bool{}) {
							same = true
						}
						lp.Edges = append(lp.Edges, LockEdge{From: ClassKey2(hc), To: c, FromRead: lp.KeyRead[f][h],
							Site: LockSite{Fn: f, Pos: cs.call.Pos(), Chain: append([]string{f.Name()}, chain...)}, SameBase: same})
					}
				}
			}
		}
	}
	return lp
}

// ClassKey2 names a lock class by owner type and field: "routingtable/locRIB.LocRIB.mu".
func ClassKey2(v *types.Var) string {
	if v == nil {
		return "?"
	}
	pkg := ""
	if v.Pkg() != nil {
		pkg = strings.TrimPrefix(v.Pkg().Path(), Mod+"/")
	}
	owner := ""
	if v.Pkg() != nil {
		sc := v.Pkg().Scope()
		for _, n := range sc.Names() {
			if tn, ok := sc.Lookup(n).(*types.TypeName); ok {
				if st, isSt := tn.Type().Underlying().(*types.Struct); isSt {
					for i := 0; i < st.NumFields(); i++ {
						if st.Field(i) == v {
							owner = tn.Name()
						}
					}
				}
			}
		}
	}
	return pkg + "." + owner + "." + v.Name()
}

type lockCallSite struct {
	call     *ast.CallExpr
	callees  []*Fn
	recvBase string
}

// callSites lists the synchronous calls of f (no `go` statements, no function literals) with resolved callees;
// interface method calls resolve to every implementation in the repository.
func (lp *LockProg) callSites(f *Fn) []lockCallSite {
	var out []lockCallSite
	goCalls := map[*ast.CallExpr]bool{}
	InspectNoLit(f.Decl.Body, func(n ast.Node) bool {
		if g, ok := n.(*ast.GoStmt); ok {
			goCalls[g.Call] = true
		}
		return true
	})
	InspectNoLit(f.Decl.Body, func(n ast.Node) bool {
		call, ok := n.(*ast.CallExpr)
		if !ok || goCalls[call] {
			return true
		}
		if _, isOp := LockOpOf(f, call); isOp {
			return true
		}
		cs := lockCallSite{call: call}
		if se, isSel := call.Fun.(*ast.SelectorExpr); isSel {
			cs.recvBase = types.ExprString(se.X)
		}
		callee := Callee(f.Pkg, call)
		if callee == nil {
			return true
		}
		if g := lp.P.FnOf(callee); g != nil && g.Decl.Body != nil {
			cs.callees = []*Fn{g}
		} else if sig, isSig := callee.Type().(*types.Signature); isSig && sig.Recv() != nil {
			if _, isIface := sig.Recv().Type().Underlying().(*types.Interface); isIface {
				cs.callees = lp.narrowByRegistration(f, lp.implementations(sig.Recv().Type(), callee.Name()))
			}
		}
		if len(cs.callees) > 0 {
			out = append(out, cs)
		}
		return true
	})
	return out
}

func (lp *LockProg) implementations(iface types.Type, method string) []*Fn {
	key := iface.String() + "." + method
	if r, ok := lp.impls[key]; ok {
		return r
	}
	it, _ := iface.Underlying().(*types.Interface)
	var out []*Fn
	if it != nil {
		for _, pk := range lp.P.List {
			sc := pk.Types.Scope()
			for _, n := range sc.Names() {
				tn, ok := sc.Lookup(n).(*types.TypeName)
				if !ok || tn.IsAlias() {
					continue
				}
				if _, isIface := tn.Type().Underlying().(*types.Interface); isIface {
					continue
				}
				for _, t := range []types.Type{tn.Type(), types.NewPointer(tn.Type())} {
					if types.Implements(t, it) {
						ms := types.NewMethodSet(t)
						if sel := ms.Lookup(pk.Types, method); sel != nil {
							if fo, isF := sel.Obj().(*types.Func); isF {
								if g := lp.P.FnOf(fo); g != nil && g.Decl.Body != nil {
									dup := false
									for _, o := range out {
										if o == g {
											dup = true
										}
									}
									if !dup {
										out = append(out, g)
									}
								}
							}
						}
					}
				}
			}
		}
	}
	sort.Slice(out, func(i, j int) bool { return out[i].Name() < out[j].Name() })
	lp.impls[key] = out
	return out
}

// locksOwnReceiver: does g (or a method it calls on its own receiver) lock class c on its own receiver?
func (lp *LockProg) locksOwnReceiver(g *Fn, c string, seen map[*Fn]bool) bool {
	if seen[g] {
		return false
	}
	seen[g] = true
	ro := RecvObj(g)
	if ro == nil {
		return false
	}
	found := false
	InspectNoLit(g.Decl.Body, func(n ast.Node) bool {
		call, ok := n.(*ast.CallExpr)
		if !ok {
			return true
		}
		if op, isOp := LockOpOf(g, call); isOp {
			if op.Acquire && ClassKey2(op.Class) == c && op.Base == ro.Name() {
				found = true
			}
			return true
		}
		if se, isSel := call.Fun.(*ast.SelectorExpr); isSel {
			if id, isId := se.X.(*ast.Ident); isId && g.Pkg.TypesInfo.ObjectOf(id) == ro {
				if h := lp.P.FnOf(Callee(g.Pkg, call)); h != nil && h.Decl.Body != nil && lp.locksOwnReceiver(h, c, seen) {
					found = true
				}
			}
		}
		return true
	})
	return found
}

func namedOf(t types.Type) string {
	if p, ok := t.(*types.Pointer); ok {
		t = p.Elem()
	}
	if n, ok := t.(*types.Named); ok {
		if _, isI := n.Underlying().(*types.Interface); isI {
			return "*"
		}
		return n.Obj().Name()
	}
	return "*"
}

// collectRegistrations records, for every call X.Register(Y) / X.RegisterWithOptions(Y, …) whose callee is a method of a
// repository type, that values of Y's type are clients of X's type.  Wrapper methods that merely pass their own
// interface-typed parameter on (a.clientManager.RegisterWithOptions(client, …)) are skipped.
func (lp *LockProg) collectRegistrations() {
	lp.Registered = map[string]map[string]bool{}
	for _, f := range lp.P.AllFuncs() {
		if f.Decl.Body == nil {
			continue
		}
		InspectNoLit(f.Decl.Body, func(n ast.Node) bool {
			call, ok := n.(*ast.CallExpr)
			if !ok || len(call.Args) == 0 {
				return true
			}
			callee := Callee(f.Pkg, call)
			if callee == nil || (callee.Name() != "Register" && callee.Name() != "RegisterWithOptions") {
				return true
			}
			owner := RecvName(callee)
			if owner == "" || owner == "ClientManager" || lp.P.FnOf(callee) == nil {
				// interface method Register(…): owner unknown → every owner
				if owner == "" {
					return true
				}
				if owner == "ClientManager" {
					return true
				}
			}
			t := f.Pkg.TypesInfo.TypeOf(call.Args[0])
			if t == nil {
				return true
			}
			name := namedOf(t)
			if name == "*" {
				// pass-through of the enclosing function's own parameter is a wrapper, not a registration
				if id, isId := Unparen(call.Args[0]).(*ast.Ident); isId {
					if v, isV := f.Pkg.TypesInfo.ObjectOf(id).(*types.Var); isV && isParamOf(f, v) && RecvName(f.Obj) == owner {
						return true
					}
				}
			}
			if lp.Registered[owner] == nil {
				lp.Registered[owner] = map[string]bool{}
			}
			lp.Registered[owner][name] = true
			return true
		})
	}
}

// narrowByRegistration: an interface call inside a method of a type that keeps registered clients resolves only to
// the client types registered with that type (all implementations when a registration passes an interface value).
func (lp *LockProg) narrowByRegistration(f *Fn, impls []*Fn) []*Fn {
	owner := RecvName(f.Obj)
	reg := lp.Registered[owner]
	if owner == "" || len(reg) == 0 || reg["*"] {
		return impls
	}
	var out []*Fn
	for _, g := range impls {
		if reg[RecvName(g.Obj)] {
			out = append(out, g)
		}
	}
	return out
}

// LockCycle is a strongly connected component of the class graph with more than one class.
type LockCycle struct {
	Classes []string
	Edges   []LockEdge // one shortest witness per ordered pair inside the component
}

// Cycles returns the lock-order cycles between different lock classes.
func (lp *LockProg) Cycles() []LockCycle {
	adj := map[string]map[string]LockEdge{}
	for _, e := range lp.Edges {
		if e.From == e.To {
			continue
		}
		if adj[e.From] == nil {
			adj[e.From] = map[string]LockEdge{}
		}
		if old, ok := adj[e.From][e.To]; !ok || len(e.Site.Chain) < len(old.Site.Chain) {
			adj[e.From][e.To] = e
		}
	}
	var nodes []string
	seenN := map[string]bool{}
	for a, m := range adj {
		if !seenN[a] {
			seenN[a] = true
			nodes = append(nodes, a)
		}
		for b := range m {
			if !seenN[b] {
				seenN[b] = true
				nodes = append(nodes, b)
			}
		}
	}
	sort.Strings(nodes)
	index, low := map[string]int{}, map[string]int{}
	onStack := map[string]bool{}
	var stack []string
	var out []LockCycle
	next := 0
	var strong func(v string)
	strong = func(v string) {
		index[v], low[v] = next, next
		next++
		stack = append(stack, v)
		onStack[v] = true
		var succ []string
		for w := range adj[v] {
			succ = append(succ, w)
		}
		sort.Strings(succ)
		for _, w := range succ {
			if _, ok := index[w]; !ok {
				strong(w)
				if low[w] < low[v] {
					low[v] = low[w]
				}
			} else if onStack[w] && index[w] < low[v] {
				low[v] = index[w]
			}
		}
		if low[v] == index[v] {
			var comp []string
			for {
				w := stack[len(stack)-1]
				stack = stack[:len(stack)-1]
				onStack[w] = false
				comp = append(comp, w)
				if w == v {
					break
				}
			}
			if len(comp) > 1 {
				sort.Strings(comp)
				in := map[string]bool{}
				for _, c := range comp {
					in[c] = true
				}
				cyc := LockCycle{Classes: comp}
				for _, a := range comp {
					var bs []string
					for b := range adj[a] {
						if in[b] {
							bs = append(bs, b)
						}
					}
					sort.Strings(bs)
					for _, b := range bs {
						cyc.Edges = append(cyc.Edges, adj[a][b])
					}
				}
				out = append(out, cyc)
			}
		}
	}
	for _, v := range nodes {
		if _, ok := index[v]; !ok {
			strong(v)
		}
	}
	return out
}

// LockCallSite is an exported view of a synchronous call with its resolved callees.
type LockCallSite struct {
	Call    *ast.CallExpr
	Callees []*Fn
}

// CallSites lists the synchronous call sites of f.
func (lp *LockProg) CallSites(f *Fn) []LockCallSite {
	var out []LockCallSite
	for _, cs := range lp.callSites(f) {
		out = append(out, LockCallSite{cs.call, cs.callees})
	}
	return out
}

// EntryMust computes, for every function in the lock program, the lock classes that are definitely held whenever
// it is entered: the intersection over all its synchronous call sites of (classes held at the site ∪ the caller's
// own entry set).  Exported functions, interface-method implementations, goroutine entries and functions whose
// value is taken can be entered from anywhere: their entry set is empty.
func (lp *LockProg) EntryMust() map[*Fn]map[string]bool {
	p := lp.P
	open := map[*Fn]bool{}
	// interface implementations
	ifaceMethods := map[string]bool{}
	for _, pk := range p.List {
		sc := pk.Types.Scope()
		for _, n := range sc.Names() {
			if tn, ok := sc.Lookup(n).(*types.TypeName); ok {
				if it, isI := tn.Type().Underlying().(*types.Interface); isI {
					for i := 0; i < it.NumMethods(); i++ {
						ifaceMethods[it.Method(i).Name()] = true
					}
				}
			}
		}
	}
	// whole-program view: a function with at least one call site in the repository is entered only from those
	// (exported or not); functions nobody calls here (API entry points, main, init) can be entered from anywhere
	hasCaller := map[*Fn]bool{}
	for _, f := range lp.Fns {
		for _, cs := range lp.callSites(f) {
			for _, g := range cs.callees {
				hasCaller[g] = true
			}
		}
	}
	for _, f := range lp.Fns {
		if !hasCaller[f] || f.Decl.Name.Name == "main" || f.Decl.Name.Name == "init" {
			open[f] = true
		}
	}
	_ = ifaceMethods
	// go statements, function values
	for _, f := range p.AllFuncs() {
		if f.Decl.Body == nil {
			continue
		}
		ast.Inspect(f.Decl.Body, func(n ast.Node) bool {
			switch x := n.(type) {
			case *ast.GoStmt:
				if g := p.FnOf(Callee(f.Pkg, x.Call)); g != nil {
					open[g] = true
				}
			case *ast.CallExpr:
				for _, a := range x.Args {
					if se, ok := Unparen(a).(*ast.SelectorExpr); ok {
						if fo, isF := f.Pkg.TypesInfo.ObjectOf(se.Sel).(*types.Func); isF {
							if g := p.FnOf(fo); g != nil {
								open[g] = true
							}
						}
					}
					if id, ok := Unparen(a).(*ast.Ident); ok {
						if fo, isF := f.Pkg.TypesInfo.ObjectOf(id).(*types.Func); isF {
							if g := p.FnOf(fo); g != nil {
								open[g] = true
							}
						}
					}
				}
			case *ast.FuncLit:
				// calls inside function literals run later, possibly without the enclosing locks: callees become open
				ast.Inspect(x.Body, func(m ast.Node) bool {
					if call, ok := m.(*ast.CallExpr); ok {
						if g := p.FnOf(Callee(f.Pkg, call)); g != nil {
							open[g] = true
						}
					}
					return true
				})
			}
			return true
		})
	}
	const top = "⊤"
	entry := map[*Fn]map[string]bool{}
	for _, f := range lp.Fns {
		if open[f] {
			entry[f] = map[string]bool{}
		} else {
			entry[f] = map[string]bool{top: true}
		}
	}
	type site struct {
		f    *Fn
		call *ast.CallExpr
	}
	callers := map[*Fn][]site{}
	for _, f := range lp.Fns {
		for _, cs := range lp.callSites(f) {
			for _, g := range cs.callees {
				callers[g] = append(callers[g], site{f, cs.call})
			}
		}
	}
	heldAt := func(s site) map[string]bool {
		out := map[string]bool{}
		if ls := lp.Sets[s.f]; ls != nil {
			for h := range ls.MustAt(s.call) {
				if hc := lp.KeyClass[s.f][h]; hc != nil {
					out[ClassKey2(hc)] = true
				}
			}
		}
		for k := range entry[s.f] {
			out[k] = true
		}
		return out
	}
	for changed, iter := true, 0; changed && iter < 30; iter++ {
		changed = false
		for _, g := range lp.Fns {
			if open[g] {
				continue
			}
			var acc map[string]bool
			for _, s := range callers[g] {
				h := heldAt(s)
				if h[top] {
					continue // caller not yet resolved: no constraint from it in this round
				}
				if acc == nil {
					acc = h
				} else {
					for k := range acc {
						if !h[k] {
							delete(acc, k)
						}
					}
				}
			}
			if acc == nil {
				if len(callers[g]) == 0 {
					acc = map[string]bool{} // never called in scope: assume callable from anywhere
				} else {
					continue
				}
			}
			if len(acc) != len(entry[g]) || entry[g][top] {
				entry[g] = acc
				changed = true
			} else {
				for k := range acc {
					if !entry[g][k] {
						entry[g] = acc
						changed = true
						break
					}
				}
			}
		}
	}
	for _, f := range lp.Fns {
		if entry[f][top] {
			entry[f] = map[string]bool{}
		}
	}
	return entry
}

// LocksOwnReceiver reports whether g takes lock class c on its own receiver (directly or through methods it calls on it).
func (lp *LockProg) LocksOwnReceiver(g *Fn, c string) bool {
	return lp.locksOwnReceiver(g, c, map[*Fn]bool{})
}
