package core

import (
	"go/ast"
	"go/types"
	"sort"
	"strings"

	"golang.org/x/tools/go/cfg"
)

// Lock analysis on go/cfg: lock classes are mutex FIELDS (type, field); an instance is the class plus the
// canonical text of the base expression.  `defer X.Unlock()` keeps the lock held until the function returns.

// LockOp is a Lock/RLock/Unlock/RUnlock call on a mutex field.
type LockOp struct {
	Class   *types.Var // the mutex field
	Base    string     // canonical base expression ("a", "f.fsm.peer", …)
	Acquire bool
	Read    bool
	Call    *ast.CallExpr
	Defer   bool
}

// Key identifies a lock instance inside one function.
func (o LockOp) Key() string { return o.Base + "." + o.Class.Name() }

// ClassKey identifies the lock class program-wide.
func ClassKey(v *types.Var) string {
	if v == nil {
		return "?"
	}
	pkg := ""
	if v.Pkg() != nil {
		pkg = strings.TrimPrefix(v.Pkg().Path(), Mod+"/")
	}
	return pkg + "." + v.Name()
}

func isMutexType(t types.Type) bool {
	if p, ok := t.(*types.Pointer); ok {
		t = p.Elem()
	}
	nt, ok := t.(*types.Named)
	if !ok || nt.Obj().Pkg() == nil || nt.Obj().Pkg().Path() != "sync" {
		return false
	}
	return nt.Obj().Name() == "Mutex" || nt.Obj().Name() == "RWMutex"
}

// LockOpOf recognises a lock operation call.
func LockOpOf(f *Fn, call *ast.CallExpr) (LockOp, bool) {
	se, ok := call.Fun.(*ast.SelectorExpr)
	if !ok {
		return LockOp{}, false
	}
	var acq, rd bool
	switch se.Sel.Name {
	case "Lock":
		acq = true
	case "RLock":
		acq, rd = true, true
	case "Unlock":
	case "RUnlock":
		rd = true
	default:
		return LockOp{}, false
	}
	fv := FieldOf(f.Pkg, se.X)
	if fv == nil || !isMutexType(fv.Type()) {
		return LockOp{}, false
	}
	base := ""
	if bs, ok := Unparen(se.X).(*ast.SelectorExpr); ok {
		base = types.ExprString(bs.X)
	}
	return LockOp{Class: fv, Base: base, Acquire: acq, Read: rd, Call: call}, true
}

// lockOpsIn lists the lock operations of a cfg node in evaluation order (deferred calls are marked).
func lockOpsIn(f *Fn, n ast.Node) []LockOp {
	var out []LockOp
	_, isDefer := n.(*ast.DeferStmt)
	InspectNoLit(n, func(x ast.Node) bool {
		if call, ok := x.(*ast.CallExpr); ok {
			if op, ok := LockOpOf(f, call); ok {
				op.Defer = isDefer
				out = append(out, op)
			}
		}
		return true
	})
	return out
}

// Locksets holds, per cfg node, the locks that MUST / MAY be held right before the node executes.
type Locksets struct {
	f    *Fn
	must map[ast.Node]map[string]bool
	may  map[ast.Node]map[string]bool
	// ExitMay: locks that may still be held at some return (excluding those released by defer)
	ExitMay  map[string]bool
	ExitMust map[string]bool
}

func copySet(s map[string]bool) map[string]bool {
	o := map[string]bool{}
	for k := range s {
		o[k] = true
	}
	return o
}

// ComputeLocksets runs the forward must/may analysis for f with the given entry locksets.
func (p *Prog) ComputeLocksets(f *Fn, entryMust map[string]bool) *Locksets {
	g := p.CFG(f)
	ls := &Locksets{f: f, must: map[ast.Node]map[string]bool{}, may: map[ast.Node]map[string]bool{}, ExitMay: map[string]bool{}}
	if len(g.Blocks) == 0 {
		return ls
	}
	type state struct{ must, may map[string]bool }
	in := map[*cfg.Block]*state{}
	in[g.Blocks[0]] = &state{must: copySet(entryMust), may: copySet(entryMust)}
	deferred := map[string]bool{} // locks released by a defer somewhere in the function
	for _, b := range g.Blocks {
		for _, n := range b.Nodes {
			for _, op := range lockOpsIn(f, n) {
				if op.Defer && !op.Acquire {
					deferred[op.Key()] = true
				}
			}
		}
	}
	transfer := func(b *cfg.Block, st *state, record bool) *state {
		must, may := copySet(st.must), copySet(st.may)
		for _, n := range b.Nodes {
			if record {
				ls.must[n], ls.may[n] = copySet(must), copySet(may)
			}
			for _, op := range lockOpsIn(f, n) {
				if op.Defer {
					continue
				}
				if op.Acquire {
					must[op.Key()], may[op.Key()] = true, true
				} else {
					delete(must, op.Key())
					delete(may, op.Key())
				}
			}
		}
		return &state{must, may}
	}
	changed := true
	for iter := 0; changed && iter < 50; iter++ {
		changed = false
		for _, b := range g.Blocks {
			if !b.Live || in[b] == nil {
				continue
			}
			out := transfer(b, in[b], false)
			for _, s := range b.Succs {
				if in[s] == nil {
					in[s] = &state{copySet(out.must), copySet(out.may)}
					changed = true
					continue
				}
				for k := range in[s].must {
					if !out.must[k] {
						delete(in[s].must, k)
						changed = true
					}
				}
				for k := range out.may {
					if !in[s].may[k] {
						in[s].may[k] = true
						changed = true
					}
				}
			}
		}
	}
	first := true
	for _, b := range g.Blocks {
		if !b.Live || in[b] == nil {
			continue
		}
		out := transfer(b, in[b], true)
		isExit := len(b.Succs) == 0
		if isExit {
			// a block that ends in a no-return call is not a return
			if len(b.Nodes) > 0 {
				if es, ok := b.Nodes[len(b.Nodes)-1].(*ast.ExprStmt); ok {
					if call, ok := es.X.(*ast.CallExpr); ok && !mayReturn(f.Pkg, call) {
						continue
					}
				}
			}
			for k := range out.may {
				if !deferred[k] {
					ls.ExitMay[k] = true
				}
			}
			em := map[string]bool{}
			for k := range out.must {
				if !deferred[k] {
					em[k] = true
				}
			}
			if first {
				ls.ExitMust = em
				first = false
			} else {
				for k := range ls.ExitMust {
					if !em[k] {
						delete(ls.ExitMust, k)
					}
				}
			}
		}
	}
	if ls.ExitMust == nil {
		ls.ExitMust = map[string]bool{}
	}
	return ls
}

// MustAt returns the locks that must be held before cfg node n executes (n must be a cfg node or nested in one).
func (ls *Locksets) MustAt(n ast.Node) map[string]bool {
	if s, ok := ls.must[n]; ok {
		return s
	}
	for cn, s := range ls.must {
		if cn.Pos() <= n.Pos() && n.End() <= cn.End() {
			// locks acquired earlier inside the same cfg node are not counted; fine for our statement-level use
			return s
		}
	}
	return nil
}

// MayAt is the may-held counterpart of MustAt.
func (ls *Locksets) MayAt(n ast.Node) map[string]bool {
	if s, ok := ls.may[n]; ok {
		return s
	}
	for cn, s := range ls.may {
		if cn.Pos() <= n.Pos() && n.End() <= cn.End() {
			return s
		}
	}
	return nil
}

// SetString renders a lockset.
func SetString(s map[string]bool) string {
	var ks []string
	for k := range s {
		ks = append(ks, k)
	}
	sort.Strings(ks)
	return "{" + strings.Join(ks, ", ") + "}"
}
