package core

import (
	"go/ast"
	"go/token"
	"go/types"
)

// R-OWN: mutation summaries and ownership of route path objects.

// PathLike reports whether t is a pointer to one of the route attribute carriers.
func PathLike(t types.Type) bool {
	pt, ok := t.(*types.Pointer)
	if !ok {
		return false
	}
	nt, ok := pt.Elem().(*types.Named)
	if !ok || nt.Obj().Pkg() == nil {
		return false
	}
	switch nt.Obj().Pkg().Path() + "." + nt.Obj().Name() {
	case Mod + "/route.Path", Mod + "/route.BGPPath", Mod + "/route.BGPPathA", Mod + "/route.StaticPath", Mod + "/protocols/bgp/types.ASPath":
		return true
	}
	return false
}

// rootOf returns the variable an lvalue / argument expression is rooted at (through selectors, derefs, indexing).
func rootOf(f *Fn, e ast.Expr) types.Object {
	for {
		switch x := Unparen(e).(type) {
		case *ast.Ident:
			return ObjOf(f.Pkg, x)
		case *ast.SelectorExpr:
			if FieldOf(f.Pkg, x) == nil {
				return nil // method value or package selector
			}
			e = x.X
		case *ast.StarExpr:
			e = x.X
		case *ast.IndexExpr:
			e = x.X
		default:
			return nil
		}
	}
}

// paramIndex returns the index of obj among f's parameters (-1 = receiver, -2 = none).
func paramIndex(f *Fn, obj types.Object) int {
	if obj == nil {
		return -2
	}
	if RecvObj(f) == obj {
		return -1
	}
	for i := 0; ; i++ {
		po := ParamObj(f, i)
		if po == nil {
			return -2
		}
		if po == obj {
			return i
		}
	}
}

// OwningCall reports whether call yields a freshly allocated / copied path object owned by the caller.
func (p *Prog) OwningCall(f *Fn, call *ast.CallExpr) bool {
	cal := Callee(f.Pkg, call)
	if cal == nil {
		return false
	}
	switch FuncKey(cal) {
	case "route.(*Path).Copy", "route.(*BGPPath).Copy", "route.(*BGPPathA).Copy", "route.(*StaticPath).Copy",
		"route.(*Path).CheckRedistribute", "routingtable/filter.(Chain).Process", "route.NewBGPPath", "route.NewBGPPathA":
		return true
	}
	// functions all of whose returns are fresh composite literals
	if g := p.FnOf(cal); g != nil && g.Decl.Body != nil {
		fresh, n := true, 0
		InspectNoLit(g.Decl.Body, func(nd ast.Node) bool {
			ret, ok := nd.(*ast.ReturnStmt)
			if !ok || len(ret.Results) == 0 {
				return true
			}
			n++
			r := Unparen(ret.Results[0])
			if u, ok := r.(*ast.UnaryExpr); ok && u.Op == token.AND {
				if _, isLit := u.X.(*ast.CompositeLit); isLit {
					return true
				}
			}
			// a local that is only ever defined as a fresh literal (ret := &T{…}; …; return ret)
			if id, ok := r.(*ast.Ident); ok {
				if o := ObjOf(g.Pkg, id); o != nil {
					defs := DefsOf(g, o)
					all := len(defs) > 0
					for _, d := range defs {
						u, isU := Unparen(d).(*ast.UnaryExpr)
						if !isU || u.Op != token.AND {
							all = false
						} else if _, isLit := u.X.(*ast.CompositeLit); !isLit {
							all = false
						}
					}
					if all {
						return true
					}
				}
			}
			fresh = false
			return true
		})
		return fresh && n > 0
	}
	return false
}

// Mutators computes, to a fixpoint, which path-like parameters (index, -1 = receiver) each repository function may mutate.
func (p *Prog) Mutators() map[*types.Func]map[int]bool {
	sum := map[*types.Func]map[int]bool{}
	fns := p.AllFuncs()
	mark := func(f *Fn, i int) bool {
		if i == -2 {
			return false
		}
		if sum[f.Obj] == nil {
			sum[f.Obj] = map[int]bool{}
		}
		if sum[f.Obj][i] {
			return false
		}
		sum[f.Obj][i] = true
		return true
	}
	// position at which a parameter is re-bound to an owned value (stores after that are to the copy)
	rebound := func(f *Fn, obj types.Object) token.Pos {
		pos := token.Pos(1 << 60)
		ast.Inspect(f.Decl.Body, func(n ast.Node) bool {
			as, ok := n.(*ast.AssignStmt)
			if !ok {
				return true
			}
			for i, l := range as.Lhs {
				if id, ok := Unparen(l).(*ast.Ident); ok && ObjOf(f.Pkg, id) == obj {
					var rhs ast.Expr
					if len(as.Rhs) == len(as.Lhs) {
						rhs = as.Rhs[i]
					} else if len(as.Rhs) == 1 {
						rhs = as.Rhs[0]
					}
					if call, ok := Unparen(rhs).(*ast.CallExpr); ok && p.OwningCall(f, call) && as.Pos() < pos {
						pos = as.Pos()
					}
				}
			}
			return true
		})
		return pos
	}
	for changed := true; changed; {
		changed = false
		for _, f := range fns {
			if f.Decl.Body == nil {
				continue
			}
			isPathParam := func(obj types.Object) bool {
				i := paramIndex(f, obj)
				return i != -2 && PathLike(obj.Type())
			}
			ast.Inspect(f.Decl.Body, func(n ast.Node) bool {
				switch s := n.(type) {
				case *ast.AssignStmt:
					for _, l := range s.Lhs {
						if _, plain := Unparen(l).(*ast.Ident); plain {
							continue
						}
						if obj := rootOf(f, l); obj != nil && isPathParam(obj) && s.Pos() < rebound(f, obj) {
							if mark(f, paramIndex(f, obj)) {
								changed = true
							}
						}
					}
				case *ast.IncDecStmt:
					if obj := rootOf(f, s.X); obj != nil && isPathParam(obj) && s.Pos() < rebound(f, obj) {
						if mark(f, paramIndex(f, obj)) {
							changed = true
						}
					}
				case *ast.CallExpr:
					cal := Callee(f.Pkg, s)
					if cal == nil || sum[cal] == nil {
						return true
					}
					for j := range sum[cal] {
						var arg ast.Expr
						if j == -1 {
							if se, ok := s.Fun.(*ast.SelectorExpr); ok {
								arg = se.X
							}
						} else if j < len(s.Args) {
							arg = s.Args[j]
						}
						if arg == nil {
							continue
						}
						if obj := rootOf(f, arg); obj != nil && isPathParam(obj) && s.Pos() < rebound(f, obj) {
							if mark(f, paramIndex(f, obj)) {
								changed = true
							}
						}
					}
				}
				return true
			})
		}
	}
	return sum
}

// Owned reports whether the path expression e, used at position `at` inside f, denotes an object the function owns:
// the result of an owning call, a fresh composite literal, a local all of whose definitions (before `at`) are owned,
// or a part (field) of such an object.
func (p *Prog) Owned(f *Fn, e ast.Expr, at token.Pos) bool {
	return p.owned(f, e, at, 0)
}

func (p *Prog) owned(f *Fn, e ast.Expr, at token.Pos, depth int) bool {
	if depth > 6 {
		return false
	}
	switch x := Unparen(e).(type) {
	case *ast.CallExpr:
		return p.OwningCall(f, x)
	case *ast.UnaryExpr:
		if x.Op == token.AND {
			_, isLit := x.X.(*ast.CompositeLit)
			return isLit
		}
	case *ast.SelectorExpr:
		if FieldOf(f.Pkg, x) != nil {
			return p.owned(f, x.X, at, depth+1)
		}
	case *ast.StarExpr:
		return p.owned(f, x.X, at, depth+1)
	case *ast.Ident:
		obj := ObjOf(f.Pkg, x)
		if obj == nil {
			return false
		}
		// the latest definition before `at` decides (straight-line re-binding idiom `p, ok := own(p)`)
		var last ast.Expr
		var lastPos token.Pos
		nDefs := 0
		ast.Inspect(f.Decl.Body, func(n ast.Node) bool {
			as, ok := n.(*ast.AssignStmt)
			if !ok || as.Pos() >= at || as.End() > at {
				return true // later statements, and the statement the use itself sits in (its RHS is evaluated first)
			}
			for i, l := range as.Lhs {
				if ObjOf(f.Pkg, l) != obj {
					continue
				}
				if _, plain := Unparen(l).(*ast.Ident); !plain {
					continue
				}
				nDefs++
				var rhs ast.Expr
				if len(as.Rhs) == len(as.Lhs) {
					rhs = as.Rhs[i]
				} else if len(as.Rhs) == 1 {
					rhs = as.Rhs[0]
				}
				if as.Pos() > lastPos {
					last, lastPos = rhs, as.Pos()
				}
			}
			return true
		})
		if last != nil {
			// the defining statement must dominate the use structurally (same or enclosing block)
			return p.owned(f, last, lastPos, depth+1)
		}
		return false
	}
	return false
}
