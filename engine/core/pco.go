package core

import (
	"fmt"
	"go/ast"
	"go/constant"
	"go/token"
	"go/types"
	"strings"
)

// R-PCO: panic-capable operations on the typed AST and their discharge rules.

// PCO is one explicit panic-capable operation.
type PCO struct {
	Kind string // "index", "slice", "type-assert", "div", "panic", "nil-map-store"
	Node ast.Node
	Fn   *Fn
	Ord  int
}

// Describe renders the operation.
func (o PCO) Describe() string {
	if e, ok := o.Node.(ast.Expr); ok {
		return o.Kind + " `" + types.ExprString(e) + "`"
	}
	return o.Kind
}

// PanicOps enumerates the explicit panic-capable operations of f (function literals included).
func PanicOps(f *Fn) []PCO {
	var out []PCO
	if f.Decl.Body == nil {
		return nil
	}
	commaOK := map[*ast.TypeAssertExpr]bool{}
	lhsIndex := map[*ast.IndexExpr]bool{}
	ast.Inspect(f.Decl.Body, func(n ast.Node) bool {
		switch s := n.(type) {
		case *ast.AssignStmt:
			if len(s.Lhs) == 2 && len(s.Rhs) == 1 {
				if ta, ok := Unparen(s.Rhs[0]).(*ast.TypeAssertExpr); ok {
					commaOK[ta] = true
				}
			}
			for _, l := range s.Lhs {
				if ie, ok := Unparen(l).(*ast.IndexExpr); ok {
					lhsIndex[ie] = true
				}
			}
		case *ast.ValueSpec:
			if len(s.Names) == 2 && len(s.Values) == 1 {
				if ta, ok := Unparen(s.Values[0]).(*ast.TypeAssertExpr); ok {
					commaOK[ta] = true
				}
			}
		case *ast.TypeSwitchStmt:
			ast.Inspect(s.Assign, func(m ast.Node) bool {
				if ta, ok := m.(*ast.TypeAssertExpr); ok {
					commaOK[ta] = true
				}
				return true
			})
		}
		return true
	})
	ord := map[string]int{}
	add := func(kind string, n ast.Node) {
		ord[kind]++
		out = append(out, PCO{Kind: kind, Node: n, Fn: f, Ord: ord[kind]})
	}
	ast.Inspect(f.Decl.Body, func(n ast.Node) bool {
		switch x := n.(type) {
		case *ast.IndexExpr:
			t := f.Pkg.TypesInfo.TypeOf(x.X)
			if t == nil {
				return true
			}
			switch u := t.Underlying().(type) {
			case *types.Map:
				if lhsIndex[x] {
					add("nil-map-store", x)
				}
			case *types.Signature:
				_ = u // generic instantiation
			case *types.Pointer:
				if _, isArr := u.Elem().Underlying().(*types.Array); isArr {
					add("index", x)
				}
			default:
				if tv, ok := f.Pkg.TypesInfo.Types[x.X]; ok && tv.IsType() {
					return true
				}
				add("index", x)
			}
		case *ast.SliceExpr:
			if x.Low != nil || x.High != nil || x.Max != nil {
				add("slice", x)
			}
		case *ast.TypeAssertExpr:
			if x.Type != nil && !commaOK[x] {
				add("type-assert", x)
			}
		case *ast.BinaryExpr:
			if x.Op == token.SHL || x.Op == token.SHR {
				// a shift by a negative count panics; only signed, non-constant counts can be negative
				if t := f.Pkg.TypesInfo.TypeOf(x.Y); t != nil && ConstOf(f.Pkg, x.Y) == nil {
					if b, ok := t.Underlying().(*types.Basic); ok && b.Info()&types.IsInteger != 0 && b.Info()&types.IsUnsigned == 0 {
						add("shift", x)
					}
				}
			}
			if x.Op == token.QUO || x.Op == token.REM {
				if t := f.Pkg.TypesInfo.TypeOf(x); t != nil {
					if b, ok := t.Underlying().(*types.Basic); ok && b.Info()&types.IsInteger != 0 {
						if ConstOf(f.Pkg, x.Y) == nil {
							add("div", x)
						}
					}
				}
			}
		case *ast.CallExpr:
			if id, ok := x.Fun.(*ast.Ident); ok {
				if b, ok := f.Pkg.TypesInfo.Uses[id].(*types.Builtin); ok && b.Name() == "panic" {
					add("panic", x)
				}
			}
		}
		return true
	})
	return out
}

func constIntOf(f *Fn, e ast.Expr) (int64, bool) {
	v := ConstOf(f.Pkg, e)
	if v == nil || v.Kind() != constant.Int {
		return 0, false
	}
	i, ok := constant.Int64Val(v)
	return i, ok
}

// staticLen returns a compile-time length of e's value: array types, `make(T, K)` with constant K, composite
// literals, string constants; through single-definition locals.
func (p *Prog) staticLen(f *Fn, e ast.Expr, depth int) (int64, bool) {
	if depth > 4 {
		return 0, false
	}
	e = Unparen(e)
	t := f.Pkg.TypesInfo.TypeOf(e)
	if t != nil {
		if a, ok := t.Underlying().(*types.Array); ok {
			return a.Len(), true
		}
		if pt, ok := t.Underlying().(*types.Pointer); ok {
			if a, ok := pt.Elem().Underlying().(*types.Array); ok {
				return a.Len(), true
			}
		}
	}
	if v := ConstOf(f.Pkg, e); v != nil && v.Kind() == constant.String {
		return int64(len(constant.StringVal(v))), true
	}
	switch x := e.(type) {
	case *ast.CallExpr:
		if id, ok := x.Fun.(*ast.Ident); ok {
			if b, ok := f.Pkg.TypesInfo.Uses[id].(*types.Builtin); ok && b.Name() == "make" && len(x.Args) >= 2 {
				return constIntOf(f, x.Args[1])
			}
		}
		// trusted contracts of the byte-order helpers (github.com/bio-routing/tflow2/convert)
		if cal := Callee(f.Pkg, x); cal != nil && cal.Pkg() != nil && strings.HasSuffix(cal.Pkg().Path(), "tflow2/convert") {
			switch cal.Name() {
			case "Uint16Byte":
				return 2, true
			case "Uint32Byte":
				return 4, true
			case "Uint64Byte":
				return 8, true
			}
		}
	case *ast.CompositeLit:
		if _, ok := t.Underlying().(*types.Slice); ok {
			keyed := false
			for _, el := range x.Elts {
				if _, isKV := el.(*ast.KeyValueExpr); isKV {
					keyed = true
				}
			}
			if !keyed {
				return int64(len(x.Elts)), true
			}
		}
	case *ast.Ident:
		obj := ObjOf(f.Pkg, x)
		if obj == nil {
			return 0, false
		}
		defs := DefsOf(f, obj)
		if len(defs) == 1 {
			return p.staticLen(f, defs[0], depth+1)
		}
		// several definitions: those textually before the use count, provided no loop contains the use and a later one
		if p.lenUse != token.NoPos && len(defs) > 1 {
			var before []ast.Expr
			laterInLoop := false
			for _, d := range defs {
				if d.Pos() < p.lenUse {
					before = append(before, d)
					continue
				}
				ast.Inspect(f.Decl.Body, func(n ast.Node) bool {
					switch n.(type) {
					case *ast.ForStmt, *ast.RangeStmt:
						if n.Pos() <= p.lenUse && p.lenUse <= n.End() && n.Pos() <= d.Pos() && d.End() <= n.End() {
							laterInLoop = true
						}
					}
					return true
				})
			}
			if !laterInLoop && len(before) > 0 {
				var n0 int64
				for i, d := range before {
					n, ok := p.staticLen(f, d, depth+1)
					if !ok || (i > 0 && n != n0) {
						return 0, false
					}
					n0 = n
				}
				return n0, true
			}
		}
	case *ast.SliceExpr:
		// x[a:b] with constant bounds
		if x.High != nil {
			hi, ok1 := constIntOf(f, x.High)
			lo := int64(0)
			ok2 := true
			if x.Low != nil {
				lo, ok2 = constIntOf(f, x.Low)
			}
			if ok1 && ok2 {
				return hi - lo, true
			}
		}
	}
	return 0, false
}

// lenFactBound looks for dominating facts that bound len(x) from below: returns the largest K with len(x) ≥ K known.
func lenLowerBound(f *Fn, n ast.Node, x ast.Expr) (int64, bool) {
	best, found := int64(0), false
	isLenX := func(e ast.Expr) bool {
		call, ok := Unparen(e).(*ast.CallExpr)
		if !ok || len(call.Args) != 1 {
			return false
		}
		id, ok := call.Fun.(*ast.Ident)
		if !ok || id.Name != "len" {
			return false
		}
		return SameExpr(f.Pkg, call.Args[0], x)
	}
	for _, ft := range FactsAt(f, n) {
		be, ok := ft.Expr.(*ast.BinaryExpr)
		if !ok {
			continue
		}
		l, r, op := be.X, be.Y, be.Op
		if isLenX(r) {
			l, r = r, l
			switch op {
			case token.LSS:
				op = token.GTR
			case token.GTR:
				op = token.LSS
			case token.LEQ:
				op = token.GEQ
			case token.GEQ:
				op = token.LEQ
			}
		}
		if !isLenX(l) {
			continue
		}
		k, ok := constIntOf(f, r)
		if !ok {
			continue
		}
		if !ft.Truth {
			switch op {
			case token.LSS:
				op = token.GEQ
			case token.LEQ:
				op = token.GTR
			case token.GTR:
				op = token.LEQ
			case token.GEQ:
				op = token.LSS
			case token.EQL:
				op = token.NEQ
			case token.NEQ:
				op = token.EQL
			}
		}
		lb := int64(-1)
		switch op {
		case token.GEQ:
			lb = k
		case token.GTR:
			lb = k + 1
		case token.EQL:
			lb = k
		case token.NEQ:
			if k == 0 {
				lb = 1
			}
		}
		if lb > best || (!found && lb >= 0) {
			if lb >= 0 {
				best, found = lb, true
			}
		}
	}
	return best, found
}

// indexBoundedByLoop: x[i] where i is the index variable of an enclosing `for i := …; i < N; i++` and x has N
// elements (x := make(T, N) with the same N, or N is len(x)), or `for i := range x`.
func (p *Prog) indexBoundedByLoop(f *Fn, ie *ast.IndexExpr) bool {
	iobj := ObjOf(f.Pkg, ie.Index)
	if iobj == nil {
		// i converted: x[int(i)]
		if call, ok := Unparen(ie.Index).(*ast.CallExpr); ok && len(call.Args) == 1 {
			if tv, ok := f.Pkg.TypesInfo.Types[call.Fun]; ok && tv.IsType() {
				iobj = ObjOf(f.Pkg, call.Args[0])
			}
		}
		if iobj == nil {
			return false
		}
	}
	for _, anc := range PathTo(f.Decl.Body, ie) {
		switch l := anc.(type) {
		case *ast.RangeStmt:
			if l.Key != nil && ObjOf(f.Pkg, l.Key) == iobj && SameExpr(f.Pkg, l.X, ie.X) {
				return true
			}
			// for i := range *x / x and indexing (*x)[i]
			if l.Key != nil && ObjOf(f.Pkg, l.Key) == iobj {
				if SameExpr(f.Pkg, Unparen(l.X), Unparen(ie.X)) {
					return true
				}
				// for i := range y, indexing x made with len(y)
				lenY := &ast.CallExpr{Fun: ast.NewIdent("len"), Args: []ast.Expr{l.X}}
				if p.madeWithLen(f, ie.X, l.X) {
					_ = lenY
					return true
				}
			}
		case *ast.ForStmt:
			cond, ok := l.Cond.(*ast.BinaryExpr)
			if !ok || cond.Op != token.LSS || ObjOf(f.Pkg, cond.X) != iobj {
				continue
			}
			// i must only be incremented by the post statement
			inc, ok := l.Post.(*ast.IncDecStmt)
			if !ok || inc.Tok != token.INC || ObjOf(f.Pkg, inc.X) != iobj {
				continue
			}
			bound := Unparen(cond.Y)
			// N == len(x)
			if call, ok := bound.(*ast.CallExpr); ok {
				if id, ok := call.Fun.(*ast.Ident); ok && id.Name == "len" && len(call.Args) == 1 && SameExpr(f.Pkg, call.Args[0], ie.X) {
					return true
				}
			}
			// x made with the same bound object, bound not reassigned
			if p.madeWith(f, ie.X, bound) {
				return true
			}
			// constant bound within a static length
			if k, ok := constIntOf(f, bound); ok {
				if n, ok := p.staticLen(f, ie.X, 0); ok && k <= n {
					return true
				}
			}
		}
	}
	return false
}

// madeWithLen: x is a local whose single definition is make(T, len(y)) and neither x nor y is reassigned.
func (p *Prog) madeWithLen(f *Fn, x ast.Expr, y ast.Expr) bool {
	o := ObjOf(f.Pkg, x)
	if o == nil {
		return false
	}
	ds := DefsOf(f, o)
	if len(ds) != 1 {
		return false
	}
	call, ok := Unparen(ds[0]).(*ast.CallExpr)
	if !ok || len(call.Args) < 2 || ExprString(call.Fun) != "make" {
		return false
	}
	lc, ok := Unparen(call.Args[1]).(*ast.CallExpr)
	if !ok || len(lc.Args) != 1 || ExprString(lc.Fun) != "len" || !SameExpr(f.Pkg, lc.Args[0], y) {
		return false
	}
	// y (a field or variable) is not assigned elsewhere in f after its definition
	cnt := 0
	ast.Inspect(f.Decl.Body, func(n ast.Node) bool {
		if as, ok := n.(*ast.AssignStmt); ok {
			for _, l := range as.Lhs {
				if SameExpr(f.Pkg, l, y) {
					cnt++
				}
			}
		}
		return true
	})
	return cnt == 0
}

// madeWith: the latest definition of x (variable or field) inside f is make(T, bound) with a structurally equal bound
// whose variables are not reassigned in f.
func (p *Prog) madeWith(f *Fn, x ast.Expr, bound ast.Expr) bool {
	var def ast.Expr
	n := 0
	ast.Inspect(f.Decl.Body, func(nd ast.Node) bool {
		as, ok := nd.(*ast.AssignStmt)
		if !ok {
			return true
		}
		for i, l := range as.Lhs {
			if SameExpr(f.Pkg, l, x) && len(as.Rhs) == len(as.Lhs) {
				def = as.Rhs[i]
				n++
			}
		}
		return true
	})
	if n == 0 {
		// x is obj.F and obj's single definition is a composite literal with F: make(T, bound)
		if se, ok := Unparen(x).(*ast.SelectorExpr); ok {
			if o := ObjOf(f.Pkg, se.X); o != nil {
				if ds := DefsOf(f, o); len(ds) == 1 {
					lit := Unparen(ds[0])
					if ue, isU := lit.(*ast.UnaryExpr); isU {
						lit = Unparen(ue.X)
					}
					if cl, isCL := lit.(*ast.CompositeLit); isCL {
						for _, el := range cl.Elts {
							if kv, isKV := el.(*ast.KeyValueExpr); isKV {
								if id, isId := kv.Key.(*ast.Ident); isId && id.Name == se.Sel.Name {
									def, n = kv.Value, 1
								}
							}
						}
					}
				}
			}
		}
		// x is a local whose single definition is the make
		if n == 0 {
			if o := ObjOf(f.Pkg, x); o != nil {
				if ds := DefsOf(f, o); len(ds) == 1 {
					def, n = ds[0], 1
				}
			}
		}
	}
	if n != 1 || def == nil {
		return false
	}
	call, ok := Unparen(def).(*ast.CallExpr)
	if !ok || len(call.Args) < 2 {
		return false
	}
	id, ok := call.Fun.(*ast.Ident)
	if !ok || id.Name != "make" {
		return false
	}
	if !SameExpr(f.Pkg, call.Args[1], bound) {
		return false
	}
	// the bound's variables are assigned at most once (their definition)
	okB := true
	ast.Inspect(bound, func(nd ast.Node) bool {
		if bid, ok := nd.(*ast.Ident); ok {
			if o, ok := ObjOf(f.Pkg, bid).(*types.Var); ok && !o.IsField() {
				cnt := 0
				ast.Inspect(f.Decl.Body, func(m ast.Node) bool {
					switch s := m.(type) {
					case *ast.AssignStmt:
						for _, l := range s.Lhs {
							if ObjOf(f.Pkg, l) == o {
								cnt++
							}
						}
					case *ast.IncDecStmt:
						if ObjOf(f.Pkg, s.X) == o {
							cnt += 2
						}
					}
					return true
				})
				if cnt > 1 {
					okB = false
				}
			}
		}
		return true
	})
	return okB
}

// DischargeIndexSlice tries the structural discharge rules for an index or slice operation.
func (p *Prog) DischargeIndexSlice(o PCO) (bool, string) {
	f := o.Fn
	p.lenUse = o.Node.Pos()
	defer func() { p.lenUse = token.NoPos }()
	switch x := o.Node.(type) {
	case *ast.IndexExpr:
		if k, ok := constIntOf(f, x.Index); ok {
			if n, ok := p.staticLen(f, x.X, 0); ok && k < n && k >= 0 {
				return true, fmt.Sprintf("constant index %d into %d elements", k, n)
			}
			if lb, ok := lenLowerBound(f, x, x.X); ok && k < lb {
				return true, fmt.Sprintf("constant index %d, dominating test gives len ≥ %d", k, lb)
			}
			return false, ""
		}
		if p.indexBoundedByLoop(f, x) {
			return true, "loop index bounded by the length / the make() bound"
		}
		// i < len(x) fact
		for _, ft := range FactsAt(f, x) {
			be, ok := ft.Expr.(*ast.BinaryExpr)
			if !ok {
				continue
			}
			isLen := func(e ast.Expr) bool {
				call, ok := Unparen(e).(*ast.CallExpr)
				if !ok || len(call.Args) != 1 {
					return false
				}
				id, ok := call.Fun.(*ast.Ident)
				return ok && id.Name == "len" && SameExpr(f.Pkg, call.Args[0], x.X)
			}
			if SameExpr(f.Pkg, be.X, x.Index) && isLen(be.Y) && ((be.Op == token.LSS && ft.Truth) || (be.Op == token.GEQ && !ft.Truth)) {
				return true, "dominated by index < len"
			}
			if SameExpr(f.Pkg, be.Y, x.Index) && isLen(be.X) && ((be.Op == token.GTR && ft.Truth) || (be.Op == token.LEQ && !ft.Truth)) {
				return true, "dominated by len > index"
			}
		}
		// masked index into a table at least as large: x[v & K]
		if bin, ok := Unparen(x.Index).(*ast.BinaryExpr); ok && bin.Op == token.AND {
			if k, ok := constIntOf(f, bin.Y); ok {
				if n, ok := p.staticLen(f, x.X, 0); ok && k < n {
					return true, "masked index"
				}
			}
		}
		return false, ""
	case *ast.SliceExpr:
		// x[:i] / x[i+1:] / x[i:] where i is the key of an enclosing range over x: 0 ≤ i < len(x)
		if x.Max == nil && (x.Low == nil) != (x.High == nil) {
			b := x.Low
			if b == nil {
				b = x.High
			}
			idx := Unparen(b)
			plus := int64(0)
			if be, ok := idx.(*ast.BinaryExpr); ok && be.Op == token.ADD {
				if k, isC := constIntOf(f, be.Y); isC {
					idx, plus = Unparen(be.X), k
				}
			}
			if plus >= 0 && plus <= 1 {
				for _, a := range PathTo(f.Decl.Body, x) {
					if rs, ok := a.(*ast.RangeStmt); ok && rs.Key != nil && ObjOf(f.Pkg, rs.Key) != nil && ObjOf(f.Pkg, rs.Key) == ObjOf(f.Pkg, idx) && SameExpr(f.Pkg, rs.X, x.X) {
						return true, "slice bound is the key of the enclosing range over the same slice"
					}
					if fs, ok := a.(*ast.ForStmt); ok {
						// for i := range x (as ForStmt in older syntax is not produced); classic: for i := 0; i < len(x); i++
						if cond, isB := fs.Cond.(*ast.BinaryExpr); isB && cond.Op == token.LSS && ObjOf(f.Pkg, cond.X) != nil && ObjOf(f.Pkg, cond.X) == ObjOf(f.Pkg, idx) {
							if call, isC := Unparen(cond.Y).(*ast.CallExpr); isC && len(call.Args) == 1 && ExprString(call.Fun) == "len" && SameExpr(f.Pkg, call.Args[0], x.X) {
								return true, "slice bound is a loop index below the length of the same slice"
							}
						}
					}
				}
			}
		}
		n, haveN := p.staticLen(f, x.X, 0)
		lb, haveLB := lenLowerBound(f, x, x.X)
		okAll := true
		why := ""
		for _, b := range []ast.Expr{x.Low, x.High, x.Max} {
			if b == nil {
				continue
			}
			k, isC := constIntOf(f, b)
			switch {
			case isC && haveN && k <= n:
				why = "constant bounds within static length"
			case isC && haveLB && k <= lb:
				why = "constant bound within tested length"
			default:
				// a variable bound with a dominating upper-bound test that keeps it within the static length
				_, hi, _, haveHi := p.valueBounds(f, x, b, 0)
				if haveHi && haveN && hi <= n {
					why = "variable bound with a dominating upper-bound test within the static length"
				} else {
					okAll = false
				}
			}
		}
		// constant low bound against a variable high bound: needs low ≤ lower bound of high
		if okAll && x.Low != nil && x.High != nil {
			if _, isC := constIntOf(f, x.High); !isC {
				lo, _ := constIntOf(f, x.Low)
				hlo, _, haveLo, _ := p.valueBounds(f, x, x.High, 0)
				if !haveLo || hlo < lo {
					okAll = false
				}
			}
		}
		// low ≤ high for constants
		if okAll && x.Low != nil && x.High != nil {
			lo, c1 := constIntOf(f, x.Low)
			hi, c2 := constIntOf(f, x.High)
			if c1 && c2 && lo > hi {
				okAll = false
			}
		}
		return okAll, why
	}
	return false, ""
}

// boundsOn derives integer bounds on expression e at node n from comparison facts `e OP const`.
func BoundsOn(f *Fn, n ast.Node, e ast.Expr) (lo, hi int64, haveLo, haveHi bool) {
	for _, ft := range FactsAt(f, n) {
		be, ok := ft.Expr.(*ast.BinaryExpr)
		if !ok {
			continue
		}
		x, y, op := be.X, be.Y, be.Op
		kv := ConstOf(f.Pkg, y)
		if kv == nil {
			// const OP e
			kv = ConstOf(f.Pkg, x)
			if kv == nil {
				continue
			}
			x, y = y, x
			switch op {
			case token.LSS:
				op = token.GTR
			case token.GTR:
				op = token.LSS
			case token.LEQ:
				op = token.GEQ
			case token.GEQ:
				op = token.LEQ
			}
		}
		if !SameExpr(f.Pkg, x, e) {
			continue
		}
		k, _ := constant.Int64Val(kv)
		if !ft.Truth {
			switch op {
			case token.LSS:
				op = token.GEQ
			case token.LEQ:
				op = token.GTR
			case token.GTR:
				op = token.LEQ
			case token.GEQ:
				op = token.LSS
			default:
				continue
			}
		}
		switch op {
		case token.LSS:
			if !haveHi || k-1 < hi {
				hi, haveHi = k-1, true
			}
		case token.LEQ:
			if !haveHi || k < hi {
				hi, haveHi = k, true
			}
		case token.GTR:
			if !haveLo || k+1 > lo {
				lo, haveLo = k+1, true
			}
		case token.GEQ:
			if !haveLo || k > lo {
				lo, haveLo = k, true
			}
		}
	}
	return
}

// valueBounds derives bounds of e at node n from dominating comparisons, following single-definition locals.
func (p *Prog) valueBounds(f *Fn, n ast.Node, e ast.Expr, depth int) (lo, hi int64, haveLo, haveHi bool) {
	if k, ok := constIntOf(f, e); ok {
		return k, k, true, true
	}
	if depth > 4 {
		return
	}
	lo, hi, haveLo, haveHi = BoundsOn(f, n, e)
	if haveLo && haveHi {
		return
	}
	if id, ok := Unparen(e).(*ast.Ident); ok {
		if obj := ObjOf(f.Pkg, id); obj != nil {
			defs := DefsOf(f, obj)
			if len(defs) == 1 {
				l2, h2, a, b := p.valueBounds(f, n, defs[0], depth+1)
				if !haveLo && a {
					lo, haveLo = l2, true
				}
				if !haveHi && b {
					hi, haveHi = h2, true
				}
			} else if len(defs) > 1 && !isUpdated(f, obj) {
				// a local that only ever holds one of a few constants
				all := true
				var mn, mx int64
				for i, d := range defs {
					k, isC := constIntOf(f, d)
					if !isC {
						all = false
						break
					}
					if i == 0 || k < mn {
						mn = k
					}
					if i == 0 || k > mx {
						mx = k
					}
				}
				if all {
					if !haveLo {
						lo, haveLo = mn, true
					}
					if !haveHi {
						hi, haveHi = mx, true
					}
				}
			}
		}
	}
	if be, ok := Unparen(e).(*ast.BinaryExpr); ok && (be.Op == token.SUB || be.Op == token.ADD) {
		al, ah, a1, a2 := p.valueBounds(f, n, be.X, depth+1)
		bl, bh, b1, b2 := p.valueBounds(f, n, be.Y, depth+1)
		if be.Op == token.ADD {
			if !haveLo && a1 && b1 {
				lo, haveLo = al+bl, true
			}
			if !haveHi && a2 && b2 {
				hi, haveHi = ah+bh, true
			}
		} else {
			if !haveLo && a1 && b2 {
				lo, haveLo = al-bh, true
			}
			if !haveHi && a2 && b1 {
				hi, haveHi = ah-bl, true
			}
		}
	}
	return
}

// isUpdated: is the variable modified other than by plain assignment of a value (x++, x += …, &x)?
func isUpdated(f *Fn, obj types.Object) bool {
	upd := false
	ast.Inspect(f.Decl.Body, func(n ast.Node) bool {
		switch x := n.(type) {
		case *ast.IncDecStmt:
			if ObjOf(f.Pkg, x.X) == obj {
				upd = true
			}
		case *ast.AssignStmt:
			if x.Tok != token.ASSIGN && x.Tok != token.DEFINE {
				for _, l := range x.Lhs {
					if ObjOf(f.Pkg, l) == obj {
						upd = true
					}
				}
			}
		case *ast.UnaryExpr:
			if x.Op == token.AND && ObjOf(f.Pkg, x.X) == obj {
				upd = true
			}
		}
		return true
	})
	return upd
}
