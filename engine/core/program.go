// Package core holds the loader, the IR helpers and the reporting machinery shared by all property checks.
package core

import (
	"fmt"
	"go/ast"
	"go/token"
	"go/types"
	"os"
	"path/filepath"
	"sort"
	"strings"
	"sync"

	"golang.org/x/tools/go/cfg"
	"golang.org/x/tools/go/packages"
	"golang.org/x/tools/go/ssa"
	"golang.org/x/tools/go/ssa/ssautil"
	"golang.org/x/tools/go/types/typeutil"
)

// Mod is the module path of the analysed repository.
const Mod = "github.com/bio-routing/bio-rd"

// Fn is a source function of the analysed repository.
type Fn struct {
	Pkg  *packages.Package
	Decl *ast.FuncDecl
	Obj  *types.Func
}

// Name returns pkg-relative qualified name: "(*T).m" or "f".
func (f *Fn) Name() string {
	if f == nil {
		return "<nil>"
	}
	return FuncKey(f.Obj)
}

// FuncKey gives a stable, line-independent key for a function object.
func FuncKey(o *types.Func) string {
	if o == nil {
		return "<nil>"
	}
	pkg := ""
	if o.Pkg() != nil {
		pkg = strings.TrimPrefix(o.Pkg().Path(), Mod+"/")
	}
	sig := o.Type().(*types.Signature)
	if r := sig.Recv(); r != nil {
		t := r.Type()
		ptr := ""
		if p, ok := t.(*types.Pointer); ok {
			t = p.Elem()
			ptr = "*"
		}
		n := "?"
		if nt, ok := t.(*types.Named); ok {
			n = nt.Obj().Name()
		}
		return fmt.Sprintf("%s.(%s%s).%s", pkg, ptr, n, o.Name())
	}
	return pkg + "." + o.Name()
}

// Prog is the loaded program.
type Prog struct {
	Dir   string
	Fset  *token.FileSet
	Pkgs  map[string]*packages.Package
	List  []*packages.Package
	Env   []string
	funcs map[*types.Func]*Fn
	byKey map[string]*Fn

	ssaOnce sync.Once
	SSAProg *ssa.Program
	ssaPkgs []*ssa.Package

	lenUse token.Pos // position of the operation staticLen is asked for (definitions after it do not count)

	cfgs map[*ast.FuncDecl]*cfg.CFG
	mu   sync.Mutex
}

// BuildConfig describes GOOS/GOARCH for a load.
type BuildConfig struct{ GOOS, GOARCH string }

func (b BuildConfig) String() string {
	if b.GOOS == "" {
		return "default"
	}
	return b.GOOS + "/" + b.GOARCH
}

// Load loads all packages of the repository at dir with syntax and types.
func Load(dir string, bc BuildConfig, overlay map[string][]byte) (*Prog, error) {
	env := []string{}
	for _, e := range os.Environ() {
		k := strings.SplitN(e, "=", 2)[0]
		switch k {
		case "GOFLAGS", "GOPROXY", "GOSUMDB", "GOTOOLCHAIN", "GOWORK", "GOOS", "GOARCH", "CGO_ENABLED":
			continue
		}
		env = append(env, e)
	}
	env = append(env, "GOFLAGS=-mod=mod", "GOPROXY=off", "GOSUMDB=off", "GOTOOLCHAIN=local", "GOWORK=off", "CGO_ENABLED=0")
	if bc.GOOS != "" {
		env = append(env, "GOOS="+bc.GOOS, "GOARCH="+bc.GOARCH)
	}
	fset := token.NewFileSet()
	conf := &packages.Config{
		Mode:    packages.LoadSyntax,
		Dir:     dir,
		Env:     env,
		Fset:    fset,
		Tests:   false,
		Overlay: overlay,
	}
	pkgs, err := packages.Load(conf, "./...")
	if err != nil {
		return nil, fmt.Errorf("load: %w", err)
	}
	if len(pkgs) == 0 {
		return nil, fmt.Errorf("load: no packages")
	}
	p := &Prog{Dir: dir, Fset: fset, Pkgs: map[string]*packages.Package{}, Env: env,
		funcs: map[*types.Func]*Fn{}, byKey: map[string]*Fn{}, cfgs: map[*ast.FuncDecl]*cfg.CFG{}}
	var errs []string
	for _, pk := range pkgs {
		for _, e := range pk.Errors {
			errs = append(errs, e.Error())
		}
		if pk.Types == nil || pk.TypesInfo == nil {
			errs = append(errs, pk.PkgPath+": no type information")
			continue
		}
		p.Pkgs[pk.PkgPath] = pk
		p.List = append(p.List, pk)
		for _, f := range pk.Syntax {
			for _, d := range f.Decls {
				fd, ok := d.(*ast.FuncDecl)
				if !ok {
					continue
				}
				obj, _ := pk.TypesInfo.Defs[fd.Name].(*types.Func)
				if obj == nil {
					continue
				}
				fn := &Fn{Pkg: pk, Decl: fd, Obj: obj}
				p.funcs[obj] = fn
				p.byKey[FuncKey(obj)] = fn
			}
		}
	}
	sort.Slice(p.List, func(i, j int) bool { return p.List[i].PkgPath < p.List[j].PkgPath })
	if len(errs) > 0 {
		if len(errs) > 8 {
			errs = errs[:8]
		}
		return nil, fmt.Errorf("load: %d package error(s): %s", len(errs), strings.Join(errs, "; "))
	}
	return p, nil
}

// Pkg returns a package by path relative to the module ("routingtable/locRIB").
func (p *Prog) Pkg(rel string) *packages.Package {
	if rel == "" {
		return p.Pkgs[Mod]
	}
	return p.Pkgs[Mod+"/"+rel]
}

// FnOf returns the source function for a types.Func, nil if outside the repo or without body.
func (p *Prog) FnOf(o *types.Func) *Fn {
	if o == nil {
		return nil
	}
	if f, ok := p.funcs[o]; ok {
		return f
	}
	// methods of instantiated generics / embedded promoted: try origin
	if o.Origin() != o {
		return p.funcs[o.Origin()]
	}
	return nil
}

// Func looks up by key "pkg/rel.(*T).m", "pkg/rel.(T).m" or "pkg/rel.f".
func (p *Prog) Func(key string) *Fn { return p.byKey[key] }

// AllFuncs returns all source functions sorted by key.
func (p *Prog) AllFuncs() []*Fn {
	out := make([]*Fn, 0, len(p.funcs))
	for _, f := range p.funcs {
		out = append(out, f)
	}
	sort.Slice(out, func(i, j int) bool { return out[i].Name() < out[j].Name() })
	return out
}

// FuncsIn returns all functions of a package (relative path), sorted.
func (p *Prog) FuncsIn(rel string) []*Fn {
	var out []*Fn
	pk := p.Pkg(rel)
	for _, f := range p.AllFuncs() {
		if f.Pkg == pk {
			out = append(out, f)
		}
	}
	return out
}

// MethodsOf returns the methods (pointer or value receiver) declared on named type T in package rel.
func (p *Prog) MethodsOf(rel, typeName string) []*Fn {
	var out []*Fn
	for _, f := range p.FuncsIn(rel) {
		if RecvName(f.Obj) == typeName {
			out = append(out, f)
		}
	}
	return out
}

// RecvName returns the receiver's named type name or "".
func RecvName(o *types.Func) string {
	sig, ok := o.Type().(*types.Signature)
	if !ok || sig.Recv() == nil {
		return ""
	}
	t := sig.Recv().Type()
	if pt, ok := t.(*types.Pointer); ok {
		t = pt.Elem()
	}
	if nt, ok := t.(*types.Named); ok {
		return nt.Obj().Name()
	}
	return ""
}

// Named looks up a named type.
func (p *Prog) Named(rel, name string) *types.Named {
	pk := p.Pkg(rel)
	if pk == nil {
		return nil
	}
	o := pk.Types.Scope().Lookup(name)
	if o == nil {
		return nil
	}
	nt, _ := o.Type().(*types.Named)
	return nt
}

// Field looks up a struct field object.
func (p *Prog) Field(rel, typeName, field string) *types.Var {
	nt := p.Named(rel, typeName)
	if nt == nil {
		return nil
	}
	st, ok := nt.Underlying().(*types.Struct)
	if !ok {
		return nil
	}
	for i := 0; i < st.NumFields(); i++ {
		if st.Field(i).Name() == field {
			return st.Field(i)
		}
	}
	return nil
}

// Fields lists the fields of a named struct type.
func (p *Prog) Fields(rel, typeName string) []*types.Var {
	nt := p.Named(rel, typeName)
	if nt == nil {
		return nil
	}
	st, ok := nt.Underlying().(*types.Struct)
	if !ok {
		return nil
	}
	var out []*types.Var
	for i := 0; i < st.NumFields(); i++ {
		out = append(out, st.Field(i))
	}
	return out
}

// Object looks up a package-level object (const, var, func, type).
func (p *Prog) Object(rel, name string) types.Object {
	pk := p.Pkg(rel)
	if pk == nil {
		return nil
	}
	return pk.Types.Scope().Lookup(name)
}

// Callee resolves the static callee of a call expression, if any.
func Callee(pk *packages.Package, call *ast.CallExpr) *types.Func {
	o := typeutil.Callee(pk.TypesInfo, call)
	f, _ := o.(*types.Func)
	return f
}

// Pos renders a position relative to the repository root.
func (p *Prog) Pos(pos token.Pos) string {
	if !pos.IsValid() {
		return "-"
	}
	ps := p.Fset.Position(pos)
	rel, err := filepath.Rel(p.Dir, ps.Filename)
	if err != nil {
		rel = ps.Filename
	}
	return fmt.Sprintf("%s:%d", rel, ps.Line)
}

// SSA builds (once) SSA form for all repository packages.
func (p *Prog) SSA() *ssa.Program {
	p.ssaOnce.Do(func() {
		prog, pkgs := ssautil.Packages(p.List, ssa.InstantiateGenerics)
		prog.Build()
		p.SSAProg = prog
		p.ssaPkgs = pkgs
	})
	return p.SSAProg
}

// SSAFunc returns the SSA function for a source function.
func (p *Prog) SSAFunc(f *Fn) *ssa.Function {
	prog := p.SSA()
	return prog.FuncValue(f.Obj)
}

// CFG returns the control-flow graph of a function body.
func (p *Prog) CFG(f *Fn) *cfg.CFG {
	p.mu.Lock()
	defer p.mu.Unlock()
	if g, ok := p.cfgs[f.Decl]; ok {
		return g
	}
	g := cfg.New(f.Decl.Body, func(call *ast.CallExpr) bool { return mayReturn(f.Pkg, call) })
	p.cfgs[f.Decl] = g
	return g
}

func mayReturn(pk *packages.Package, call *ast.CallExpr) bool {
	if id, ok := call.Fun.(*ast.Ident); ok {
		if b, ok := pk.TypesInfo.Uses[id].(*types.Builtin); ok && b.Name() == "panic" {
			return false
		}
	}
	if f := Callee(pk, call); f != nil && f.Pkg() != nil {
		full := f.Pkg().Path() + "." + f.Name()
		switch full {
		case "os.Exit", "log.Fatal", "log.Fatalf", "log.Fatalln", "log.Panic", "log.Panicf", "runtime.Goexit":
			return false
		}
	}
	return true
}
