package core

import (
	"encoding/json"
	"fmt"
	"go/token"
	"os"
	"path/filepath"
	"sort"
	"strings"
	"time"
)

// Status of an obligation.
type Status string

const (
	Holds     Status = "holds"
	Violated  Status = "violated"
	Undecided Status = "undecided"
)

// Obligation is one rule instance generated from the current tree.
type Obligation struct {
	Rule      string `json:"rule"`
	Construct string `json:"construct"`
	Pos       string `json:"pos"`
	Status    Status `json:"status"`
	Detail    string `json:"detail,omitempty"`
	Config    string `json:"config,omitempty"`
	Known     bool   `json:"known_finding,omitempty"`
}

// Key is the line-independent identity of an obligation.
func (o *Obligation) Key() string { return o.Rule + " " + o.Construct }

// Ctx is handed to a property check.
type Ctx struct {
	P      *Prog
	Prop   string
	Tier   string
	Config string
	Obs    []*Obligation
	Infos  []string
	floors map[string]int
	fnSeen map[string]bool
	seen   map[string]bool
}

// NewCtx creates a context for one property on one program.
func NewCtx(p *Prog, prop, tier, config string) *Ctx {
	return &Ctx{P: p, Prop: prop, Tier: tier, Config: config, floors: map[string]int{}, fnSeen: map[string]bool{}, seen: map[string]bool{}}
}

func (c *Ctx) add(st Status, rule, construct string, pos token.Pos, detail string) {
	o := &Obligation{Rule: rule, Construct: construct, Status: st, Detail: detail, Config: c.Config}
	if c.P != nil {
		o.Pos = c.P.Pos(pos)
	}
	// de-duplicate identical keys: keep the worst status
	k := o.Key()
	if c.seen[k] {
		for _, e := range c.Obs {
			if e.Key() == k {
				if rank(st) > rank(e.Status) {
					e.Status, e.Detail, e.Pos = st, detail, o.Pos
				}
				return
			}
		}
	}
	c.seen[k] = true
	c.Obs = append(c.Obs, o)
}

func rank(s Status) int {
	switch s {
	case Holds:
		return 0
	case Undecided:
		return 1
	}
	return 2
}

// Check records an obligation that holds iff ok.
func (c *Ctx) Check(ok bool, rule, construct string, pos token.Pos, detail string) bool {
	if ok {
		// for a discharged obligation the text says what would have been wrong, so that the evidence reads correctly
		c.add(Holds, rule, construct, pos, "holds; a violation would mean: "+detail)
	} else {
		c.add(Violated, rule, construct, pos, detail)
	}
	return ok
}

// Hold records a discharged obligation.
func (c *Ctx) Hold(rule, construct string, pos token.Pos, detail string) {
	c.add(Holds, rule, construct, pos, detail)
}

// Fail records a violated obligation.
func (c *Ctx) Fail(rule, construct string, pos token.Pos, detail string) {
	c.add(Violated, rule, construct, pos, detail)
}

// Undecided records an obligation that could not be decided (unresolved anchor, unsupported shape).
func (c *Ctx) Undecided(rule, construct string, pos token.Pos, detail string) {
	c.add(Undecided, rule, construct, pos, detail)
}

// Info records a remark that does not affect the verdict.
func (c *Ctx) Info(format string, a ...any) { c.Infos = append(c.Infos, fmt.Sprintf(format, a...)) }

// Floor demands at least n obligations of the given rule.
func (c *Ctx) Floor(rule string, n int) { c.floors[rule] = n }

// Analysed notes a function as analysed (for evidence).
func (c *Ctx) Analysed(fs ...*Fn) {
	for _, f := range fs {
		if f != nil {
			c.fnSeen[f.Name()] = true
		}
	}
}

// MustFunc resolves a function anchor or records an undecided obligation.
func (c *Ctx) MustFunc(key string) *Fn {
	f := c.P.Func(key)
	if f == nil {
		c.Undecided("anchor", key, token.NoPos, "function anchor not found in the current tree (renamed or removed): the clauses that rest on it cannot be decided")
		return nil
	}
	c.fnSeen[f.Name()] = true
	return f
}

// Finish applies the floors.
func (c *Ctx) Finish() {
	counts := map[string]int{}
	for _, o := range c.Obs {
		counts[o.Rule]++
	}
	rules := make([]string, 0, len(c.floors))
	for r := range c.floors {
		rules = append(rules, r)
	}
	sort.Strings(rules)
	for _, r := range rules {
		if counts[r] < c.floors[r] {
			c.add(Undecided, "floor", r, token.NoPos, fmt.Sprintf("rule %s produced %d instance(s), hand-confirmed floor is %d: the rule no longer sees the sites it was confirmed on", r, counts[r], c.floors[r]))
		}
	}
}

// ---------------------------------------------------------------------------------------------

// KnownFinding is one entry of /verif/known_findings.json.
type KnownFinding struct {
	Kind      string `json:"kind"` // "known" or "fixed"
	Property  string `json:"property"`
	Rule      string `json:"rule,omitempty"`
	Construct string `json:"construct,omitempty"`
	What      string `json:"what"`
	Repro     string `json:"repro,omitempty"`
	Commit    string `json:"commit,omitempty"`
	Line      string `json:"line,omitempty"`
}

// KnownFile is the committed file.
type KnownFile struct {
	Comment  string         `json:"_comment"`
	Findings []KnownFinding `json:"findings"`
}

// LoadKnown reads the known-findings file.
func LoadKnown(path string) (*KnownFile, error) {
	b, err := os.ReadFile(path)
	if err != nil {
		return nil, err
	}
	var k KnownFile
	if err := json.Unmarshal(b, &k); err != nil {
		return nil, err
	}
	return &k, nil
}

// Match finds a "known" entry for an obligation.
func (k *KnownFile) Match(prop string, o *Obligation) *KnownFinding {
	if k == nil {
		return nil
	}
	for i := range k.Findings {
		f := &k.Findings[i]
		if f.Kind == "known" && f.Property == prop && f.Rule == o.Rule && f.Construct == o.Construct {
			return f
		}
	}
	return nil
}

// ---------------------------------------------------------------------------------------------

// Meta describes a property check for MANIFEST/evidence.
type Meta struct {
	ID          string
	Title       string
	Level       string // "other" or "proof"
	Technique   string
	Decided     string
	NotDecided  string
	DesignRef   string
	TrustedBase []string
	Assumptions []string
}

// Result of running a property in (possibly) several configurations.
type Result struct {
	Meta      Meta
	Tier      string
	Seed      int64
	Obs       []*Obligation
	Infos     []string
	Functions []string
	Packages  int
	Configs   []string
	Controls  []ControlResult
	Wall      float64
	Known     []string
	NewViol   []*Obligation
}

// ControlResult is the outcome of a mutation control (positive control for a rule).
type ControlResult struct {
	Name     string `json:"name"`
	Applied  bool   `json:"applied"`
	Detected bool   `json:"detected"`
	Expect   string `json:"expect"`
	Silent   bool   `json:"must_stay_silent,omitempty"`
	Note     string `json:"note,omitempty"`
}

// WriteEvidence writes /verif/evidence/<id>.json.
func (r *Result) WriteEvidence(dir string, cmd string) error {
	discharged := 0
	byRule := map[string]int{}
	for _, o := range r.Obs {
		if o.Status == Holds {
			discharged++
		}
		byRule[o.Rule]++
	}
	if os.Getenv("VCHECK_DUMP") != "" {
		for _, o := range r.Obs {
			b, _ := json.Marshal(o)
			fmt.Fprintln(os.Stderr, "OBL", string(b))
		}
	}
	samples := []any{}
	// samples: every non-holding obligation, plus up to 12 holding ones spread across rules
	perRule := map[string]int{}
	for _, o := range r.Obs {
		if o.Status != Holds {
			samples = append(samples, o)
		}
	}
	for _, o := range r.Obs {
		if o.Status == Holds && perRule[o.Rule] < 3 && len(samples) < 60 {
			perRule[o.Rule]++
			samples = append(samples, o)
		}
	}
	level := r.Meta.Level
	if level == "proof" && discharged != len(r.Obs) {
		level = "other"
	}
	cov := map[string]any{
		"obligations":            len(r.Obs),
		"discharged":             discharged,
		"explanation":            "DECIDED: " + r.Meta.Decided + "  NOT DECIDED: " + r.Meta.NotDecided,
		"samples":                samples,
		"checker_cmd":            cmd,
		"trusted_base":           r.Meta.TrustedBase,
		"rule":                   "obligations are rule instances generated from the current source tree, keyed by rule + construct (package, receiver, function, field, callee), never by line",
		"obligations_by_rule":    byRule,
		"functions_analysed":     len(r.Functions),
		"functions":              r.Functions,
		"packages_loaded":        r.Packages,
		"build_configs":          r.Configs,
		"mutation_controls":      r.Controls,
		"known_findings_matched": r.Known,
		"remarks":                r.Infos,
		"exhaustive":             false,
	}
	ev := map[string]any{
		"property_id": r.Meta.ID,
		"tier":        r.Tier,
		"seed":        r.Seed,
		"level":       level,
		"coverage":    cov,
		"assumptions": nonNil(r.Meta.Assumptions),
		"wall_s":      r.Wall,
		"violations":  len(r.NewViol),
	}
	if err := os.MkdirAll(dir, 0o755); err != nil {
		return err
	}
	b, _ := json.MarshalIndent(ev, "", " ")
	return os.WriteFile(filepath.Join(dir, r.Meta.ID+".json"), append(b, '\n'), 0o644)
}

// WriteReport writes the violation report (the replay target) and returns its path.
func (r *Result) WriteReport(dir string) (string, error) {
	if err := os.MkdirAll(dir, 0o755); err != nil {
		return "", err
	}
	rep := map[string]any{
		"property_id": r.Meta.ID,
		"tier":        r.Tier,
		"written":     time.Now().UTC().Format(time.RFC3339),
		"violations":  r.NewViol,
		"how_to_read": "each entry names the rule, the construct (line-independent key), the current file:line and the reason; re-run `bin/vcheck -prop " + r.Meta.ID + " -tier " + r.Tier + "` to re-derive it from /repo",
	}
	b, _ := json.MarshalIndent(rep, "", " ")
	path := filepath.Join(dir, r.Meta.ID+".json")
	return path, os.WriteFile(path, append(b, '\n'), 0o644)
}

// Summarize prints verdict lines; returns exit code.
func (r *Result) Summarize(known *KnownFile, reportDir string) int {
	r.NewViol = nil
	r.Known = nil
	sort.SliceStable(r.Obs, func(i, j int) bool {
		if r.Obs[i].Rule != r.Obs[j].Rule {
			return r.Obs[i].Rule < r.Obs[j].Rule
		}
		if r.Obs[i].Construct != r.Obs[j].Construct {
			return r.Obs[i].Construct < r.Obs[j].Construct
		}
		return r.Obs[i].Config < r.Obs[j].Config
	})
	printed := map[string]bool{}
	for _, o := range r.Obs {
		if o.Status == Holds {
			continue
		}
		if kf := known.Match(r.Meta.ID, o); kf != nil && o.Status == Violated {
			o.Known = true
			line := fmt.Sprintf("KNOWN-FINDING: property=%s %s %s — %s", r.Meta.ID, o.Rule, o.Construct, kf.What)
			if !printed[line] {
				fmt.Println(line)
				printed[line] = true
				r.Known = append(r.Known, o.Key())
			}
			continue
		}
		r.NewViol = append(r.NewViol, o)
	}
	for _, c := range r.Controls {
		if c.Applied && !c.Detected && c.Silent {
			r.NewViol = append(r.NewViol, &Obligation{Rule: "self-test", Construct: c.Name, Status: Undecided,
				Detail: "behaviour-preserving rewrite raised an alarm (" + c.Note + "): the rule is tied to the shape of the code, not to the property"})
		} else if c.Applied && !c.Detected {
			r.NewViol = append(r.NewViol, &Obligation{Rule: "self-test", Construct: c.Name, Status: Undecided,
				Detail: "mutation control applied but the rule did not report " + c.Expect + ": the checker is broken, its silence proves nothing"})
		}
	}
	holds := 0
	for _, o := range r.Obs {
		if o.Status == Holds {
			holds++
		}
	}
	fmt.Printf("property=%s tier=%s obligations=%d discharged=%d known_findings=%d new_violations=%d functions=%d configs=%s wall=%.1fs\n",
		r.Meta.ID, r.Tier, len(r.Obs), holds, len(r.Known), len(r.NewViol), len(r.Functions), strings.Join(r.Configs, ","), r.Wall)
	if len(r.NewViol) == 0 {
		return 0
	}
	path, err := r.WriteReport(reportDir)
	if err != nil {
		path = "(report not written: " + err.Error() + ")"
	}
	for _, o := range r.NewViol {
		tag := "violated"
		if o.Status == Undecided {
			tag = "undecided"
		}
		fmt.Printf("  %s: rule=%s construct=%q at %s [%s]: %s\n", tag, o.Rule, o.Construct, o.Pos, o.Config, o.Detail)
	}
	fmt.Printf("VIOLATION property=%s replay=%s\n", r.Meta.ID, path)
	return 1
}

// FunctionsSeen lists analysed functions.
func (c *Ctx) FunctionsSeen() []string {
	out := make([]string, 0, len(c.fnSeen))
	for f := range c.fnSeen {
		out = append(out, f)
	}
	sort.Strings(out)
	return out
}

func nonNil(xs []string) []string {
	if xs == nil {
		return []string{}
	}
	return xs
}
