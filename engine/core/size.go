package core

// Size-effect analysis (R-SIZE).
//
// An abstract interpretation of straight-line/loop/branch Go code over the domain of *linear forms in collection
// sizes*: the number of bytes a function appends to a byte buffer, and the value of integer expressions built from
// constants, len(), additive updates and calls, are computed as   c0 + Σ ci·vi   where every vi is a symbolic,
// non-negative quantity named after the source construct it stands for (len(route.BGPPath.Communities),
// Σlen(route.BGPPath.ASPath[].ASNs), …).  Branches whose condition the current *scenario* (a valuation of canonical
// atomic conditions such as "nonempty:route.BGPPath.Communities") decides are followed; all other branches are
// joined coefficient-wise by max (upper bound) or min (lower bound) — sound because all vi ≥ 0.  Nothing is executed:
// values are never computed, only their linear shape.  Anything outside the supported fragment makes the result
// "unknown" (Unk), which callers must treat as undecided, never as a pass.

import (
	"fmt"
	"go/ast"
	"go/constant"
	"go/token"
	"go/types"
	"sort"
	"strings"
)

// Lin is a linear form with integer coefficients over named non-negative quantities.
type Lin struct {
	C   int
	V   map[string]int
	Unk []string
}

func LinC(c int) Lin { return Lin{C: c} }
func LinV(name string, k int) Lin {
	return Lin{V: map[string]int{name: k}}
}
func LinUnk(why string) Lin { return Lin{Unk: []string{why}} }

func (a Lin) copy() Lin {
	r := Lin{C: a.C, Unk: append([]string(nil), a.Unk...)}
	if len(a.V) > 0 {
		r.V = map[string]int{}
		for k, v := range a.V {
			r.V[k] = v
		}
	}
	return r
}

func (a Lin) Add(b Lin) Lin {
	r := a.copy()
	r.C += b.C
	for k, v := range b.V {
		if r.V == nil {
			r.V = map[string]int{}
		}
		r.V[k] += v
		if r.V[k] == 0 {
			delete(r.V, k)
		}
	}
	r.Unk = append(r.Unk, b.Unk...)
	return r
}

func (a Lin) Scale(k int) Lin {
	r := Lin{C: a.C * k, Unk: append([]string(nil), a.Unk...)}
	if k != 0 && len(a.V) > 0 {
		r.V = map[string]int{}
		for n, v := range a.V {
			r.V[n] = v * k
		}
	}
	return r
}

func (a Lin) Sub(b Lin) Lin { return a.Add(b.Scale(-1)) }

// join is the coefficient-wise max (upper) or min (lower).
func (a Lin) join(b Lin, upper bool) Lin {
	pick := func(x, y int) int {
		if (x > y) == upper {
			return x
		}
		return y
	}
	r := Lin{C: pick(a.C, b.C)}
	keys := map[string]bool{}
	for k := range a.V {
		keys[k] = true
	}
	for k := range b.V {
		keys[k] = true
	}
	for k := range keys {
		v := pick(a.V[k], b.V[k])
		if v != 0 {
			if r.V == nil {
				r.V = map[string]int{}
			}
			r.V[k] = v
		}
	}
	r.Unk = append(append([]string(nil), a.Unk...), b.Unk...)
	return r
}

func (a Lin) Known() bool   { return len(a.Unk) == 0 }
func (a Lin) IsConst() bool { return len(a.Unk) == 0 && len(a.V) == 0 }

// NonNeg reports whether the form is ≥ 0 for all non-negative values of its quantities.
func (a Lin) NonNeg() bool {
	if !a.Known() || a.C < 0 {
		return false
	}
	for _, v := range a.V {
		if v < 0 {
			return false
		}
	}
	return true
}

func (a Lin) Vars() []string {
	ks := make([]string, 0, len(a.V))
	for k := range a.V {
		ks = append(ks, k)
	}
	sort.Strings(ks)
	return ks
}

func (a Lin) String() string {
	var sb strings.Builder
	fmt.Fprintf(&sb, "%d", a.C)
	for _, k := range a.Vars() {
		v := a.V[k]
		if v >= 0 {
			fmt.Fprintf(&sb, " + %d·%s", v, k)
		} else {
			fmt.Fprintf(&sb, " − %d·%s", -v, k)
		}
	}
	if len(a.Unk) > 0 {
		fmt.Fprintf(&sb, " + ?(%s)", strings.Join(uniq(a.Unk), "; "))
	}
	return sb.String()
}

func uniq(xs []string) []string {
	seen := map[string]bool{}
	var r []string
	for _, x := range xs {
		if !seen[x] {
			seen[x] = true
			r = append(r, x)
		}
	}
	return r
}

// DropVars removes every quantity for which drop returns true (used when a scenario says a collection is empty).
func (a Lin) DropVars(drop func(string) bool) Lin {
	r := a.copy()
	for k := range r.V {
		if drop(k) {
			delete(r.V, k)
		}
	}
	return r
}

// ---------------------------------------------------------------------------------------------------------------------

// SizeAn is one analysis run: a scenario, a global bound direction for buffer effects, and bookkeeping.
type SizeAn struct {
	P               *Prog
	Upper           bool            // direction for buffer-effect joins
	Scenario        map[string]bool // canonical atom → truth
	Asked           map[string]bool // atoms that were looked up and not decided by the scenario
	Opaque          map[string]bool // FuncKeys whose integer result is kept as an opaque per-element quantity
	Assumed         []string        // assumptions made (reported as evidence)
	Steps           int
	OpaqueBuffersIn *Fn // local buffers of this function are kept as opaque quantities "buf:<name>" (writes to them are ignored)
	frozen          map[int]bool
	OnCall          func(fr *SzFrame, st *SzState, call *ast.CallExpr) // observer: every call in statement position
	OnIf            func(fr *SzFrame, st *SzState, ifs *ast.IfStmt)    // observer: every if statement before it is evaluated

	cellSeq int
	depth   int
	stack   map[*Fn]int
}

func NewSizeAn(p *Prog, upper bool, scenario map[string]bool) *SizeAn {
	if scenario == nil {
		scenario = map[string]bool{}
	}
	return &SizeAn{P: p, Upper: upper, Scenario: scenario, Asked: map[string]bool{}, Opaque: map[string]bool{}, stack: map[*Fn]int{}}
}

// SzState is the abstract store: cell → linear form, plus known boolean field flags.
type SzState struct {
	Cells map[int]Lin
	Tag   map[int]bool // join direction of the cell (true = upper)
	Flags map[string]*bool
}

func newSzState() *SzState {
	return &SzState{Cells: map[int]Lin{}, Tag: map[int]bool{}, Flags: map[string]*bool{}}
}

func (s *SzState) clone() *SzState {
	r := newSzState()
	for k, v := range s.Cells {
		r.Cells[k] = v.copy()
	}
	for k, v := range s.Tag {
		r.Tag[k] = v
	}
	for k, v := range s.Flags {
		r.Flags[k] = v
	}
	return r
}

func joinStates(a, b *SzState) *SzState {
	if a == nil {
		return b
	}
	if b == nil {
		return a
	}
	r := newSzState()
	for k, va := range a.Cells {
		if vb, ok := b.Cells[k]; ok {
			r.Cells[k] = va.join(vb, a.Tag[k])
			r.Tag[k] = a.Tag[k]
		}
	}
	for k, fa := range a.Flags {
		if fb, ok := b.Flags[k]; ok && fa != nil && fb != nil && *fa == *fb {
			r.Flags[k] = fa
		} else {
			r.Flags[k] = nil
		}
	}
	for k := range b.Flags {
		if _, ok := a.Flags[k]; !ok {
			r.Flags[k] = nil
		}
	}
	return r
}

// Sym is a resolved symbolic reference.
type Sym struct {
	Key    string                // canonical key of a collection/scalar ("route.BGPPath.Communities", "K[].f", "call:…")
	Elem   bool                  // the reference denotes one element of collection Key
	Struct map[string]*SzClosure // struct literal: field name → bound expression
	Zero   bool                  // struct literal: unbound fields are the zero value
	Unk    string
}

// SzClosure is an expression together with the frame it must be resolved in.
type SzClosure struct {
	E  ast.Expr
	Fr *SzFrame
}

type szBinding struct {
	cell    int // ≥ 0: store cell (int, []byte length or buffer)
	isCell  bool
	sym     *Sym
	closure *SzClosure
}

// SzFrame is one function activation.
type SzFrame struct {
	An    *SizeAn
	Fn    *Fn
	Upper bool // polarity of this activation's integer locals and results
	env   map[types.Object]*szBinding
	rets  []szRet
	Entry bool

	loopExits []*SzState
	inLoop    int
}

type szRet struct {
	st   *SzState
	vals []Lin
}

func (an *SizeAn) NewFrame(fn *Fn, upper bool) *SzFrame {
	return &SzFrame{An: an, Fn: fn, Upper: upper, env: map[types.Object]*szBinding{}, Entry: true}
}

func (an *SizeAn) newCell(st *SzState, v Lin, upper bool) int {
	an.cellSeq++
	st.Cells[an.cellSeq] = v
	st.Tag[an.cellSeq] = upper
	return an.cellSeq
}

// BindCell binds obj to a fresh cell with the given initial value; buffer cells use the analysis direction.
func (fr *SzFrame) BindCell(st *SzState, obj types.Object, v Lin, buffer bool) int {
	up := fr.Upper
	if buffer {
		up = fr.An.Upper
	}
	c := fr.An.newCell(st, v, up)
	fr.env[obj] = &szBinding{cell: c, isCell: true}
	return c
}

func (fr *SzFrame) BindSym(obj types.Object, s *Sym) { fr.env[obj] = &szBinding{sym: s} }
func (fr *SzFrame) BindClosure(obj types.Object, e ast.Expr, in *SzFrame) {
	fr.env[obj] = &szBinding{closure: &SzClosure{E: e, Fr: in}}
}

// StructSym builds the symbolic value of a composite literal evaluated in frame fr.
func (fr *SzFrame) StructSym(lit *ast.CompositeLit) *Sym {
	s := &Sym{Struct: map[string]*SzClosure{}, Zero: true}
	for _, el := range lit.Elts {
		if kv, ok := el.(*ast.KeyValueExpr); ok {
			if id, isId := kv.Key.(*ast.Ident); isId {
				s.Struct[id.Name] = &SzClosure{E: kv.Value, Fr: fr}
			}
		}
	}
	return s
}

func (fr *SzFrame) typeOf(e ast.Expr) types.Type {
	if tv, ok := fr.Fn.Pkg.TypesInfo.Types[e]; ok {
		return tv.Type
	}
	if id, ok := e.(*ast.Ident); ok {
		if o := fr.Fn.Pkg.TypesInfo.ObjectOf(id); o != nil {
			return o.Type()
		}
	}
	return nil
}

func isIntType(t types.Type) bool {
	if t == nil {
		return false
	}
	b, ok := t.Underlying().(*types.Basic)
	return ok && b.Info()&types.IsInteger != 0
}

func isBoolType(t types.Type) bool {
	if t == nil {
		return false
	}
	b, ok := t.Underlying().(*types.Basic)
	return ok && b.Info()&types.IsBoolean != 0
}

func isByteSlice(t types.Type) bool {
	if t == nil {
		return false
	}
	s, ok := t.Underlying().(*types.Slice)
	if !ok {
		return false
	}
	b, ok := s.Elem().Underlying().(*types.Basic)
	return ok && b.Kind() == types.Uint8
}

func isBytesBuffer(t types.Type) bool {
	if t == nil {
		return false
	}
	if p, ok := t.(*types.Pointer); ok {
		t = p.Elem()
	}
	n, ok := t.(*types.Named)
	return ok && n.Obj().Pkg() != nil && n.Obj().Pkg().Path() == "bytes" && n.Obj().Name() == "Buffer"
}

func typeKey(t types.Type) string {
	for {
		if p, ok := t.(*types.Pointer); ok {
			t = p.Elem()
			continue
		}
		break
	}
	if n, ok := t.(*types.Named); ok {
		pkg := ""
		if n.Obj().Pkg() != nil {
			pkg = strings.TrimPrefix(n.Obj().Pkg().Path(), Mod+"/")
			if i := strings.LastIndex(pkg, "/"); i >= 0 {
				pkg = pkg[i+1:]
			}
		}
		return pkg + "." + n.Obj().Name()
	}
	return t.String()
}

// SymOf resolves an expression to its symbolic reference.
func (fr *SzFrame) SymOf(e ast.Expr) *Sym {
	info := fr.Fn.Pkg.TypesInfo
	switch x := e.(type) {
	case *ast.ParenExpr:
		return fr.SymOf(x.X)
	case *ast.StarExpr:
		return fr.SymOf(x.X)
	case *ast.UnaryExpr:
		if x.Op == token.AND {
			return fr.SymOf(x.X)
		}
	case *ast.TypeAssertExpr:
		return fr.SymOf(x.X)
	case *ast.CompositeLit:
		return fr.StructSym(x)
	case *ast.Ident:
		obj := info.ObjectOf(x)
		if b, ok := fr.env[obj]; ok {
			switch {
			case b.sym != nil:
				return b.sym
			case b.closure != nil:
				return b.closure.Fr.SymOf(b.closure.E)
			}
			return &Sym{Unk: "cell " + x.Name}
		}
		if v, ok := obj.(*types.Var); ok && !v.IsField() && fr.Entry && isParamOf(fr.Fn, v) {
			return &Sym{Key: ""} // root object of the analysis entry
		}
		return &Sym{Key: "?" + x.Name, Unk: "unbound " + x.Name}
	case *ast.SelectorExpr:
		sel, ok := info.Selections[x]
		if !ok || sel.Kind() != types.FieldVal {
			if o := info.ObjectOf(x.Sel); o != nil {
				if _, isC := o.(*types.Const); isC {
					return &Sym{Unk: "const"}
				}
			}
			return &Sym{Unk: "selector " + types.ExprString(x)}
		}
		base := fr.SymOf(x.X)
		if base.Struct != nil {
			if cl, bound := base.Struct[x.Sel.Name]; bound {
				return cl.Fr.SymOf(cl.E)
			}
			if base.Zero {
				return &Sym{Key: "zero", Unk: ""}
			}
		}
		if base.Elem {
			return &Sym{Key: base.Key + "[]." + x.Sel.Name}
		}
		if strings.Contains(base.Key, "[].") {
			return &Sym{Key: base.Key + "." + x.Sel.Name}
		}
		return &Sym{Key: typeKey(sel.Recv()) + "." + x.Sel.Name}
	case *ast.IndexExpr:
		b := fr.SymOf(x.X)
		return &Sym{Key: b.Key, Elem: true, Unk: b.Unk}
	case *ast.CallExpr:
		if callee := Callee(fr.Fn.Pkg, x); callee != nil {
			return &Sym{Key: "call:" + FuncKey(callee)}
		}
	}
	return &Sym{Unk: "expr " + types.ExprString(e)}
}

func isParamOf(f *Fn, v *types.Var) bool {
	sig := f.Obj.Type().(*types.Signature)
	if sig.Recv() == v {
		return true
	}
	for i := 0; i < sig.Params().Len(); i++ {
		if sig.Params().At(i) == v {
			return true
		}
	}
	return false
}

// elemVar converts a per-element quantity into its sum over the enclosing loop.
func sumVar(v string) string { return "Σ" + v }

// scaleLoop turns the per-iteration delta d of a loop over collection key K into the loop's total.
func scaleLoop(d Lin, K string) Lin {
	r := Lin{Unk: append([]string(nil), d.Unk...)}
	r.V = map[string]int{}
	if d.C != 0 {
		r.V["len("+K+")"] = d.C
	}
	for v, k := range d.V {
		if strings.Contains(v, K+"[]") || strings.HasPrefix(v, "call:") || strings.HasPrefix(v, "Σ") {
			r.V[sumVar(v)] += k
		} else {
			r.Unk = append(r.Unk, "loop over "+K+" multiplies "+v)
		}
	}
	return r
}

// ---------------------------------------------------------------------------------------------------------------------
// conditions

func (fr *SzFrame) lookupAtom(atom string) (bool, bool) {
	if v, ok := fr.An.Scenario[atom]; ok {
		return v, true
	}
	fr.An.Asked[atom] = true
	return false, false
}

// Cond evaluates a condition three-valued under the scenario.
func (fr *SzFrame) Cond(st *SzState, e ast.Expr) (val, known bool) {
	info := fr.Fn.Pkg.TypesInfo
	e = Unparen(e)
	if tv, ok := info.Types[e]; ok && tv.Value != nil && tv.Value.Kind() == constant.Bool {
		return constant.BoolVal(tv.Value), true
	}
	switch x := e.(type) {
	case *ast.UnaryExpr:
		if x.Op == token.NOT {
			v, k := fr.Cond(st, x.X)
			return !v, k
		}
	case *ast.BinaryExpr:
		switch x.Op {
		case token.LAND:
			a, ka := fr.Cond(st, x.X)
			if ka && !a {
				return false, true
			}
			b, kb := fr.Cond(st, x.Y)
			if kb && !b {
				return false, true
			}
			return true, ka && kb
		case token.LOR:
			a, ka := fr.Cond(st, x.X)
			if ka && a {
				return true, true
			}
			b, kb := fr.Cond(st, x.Y)
			if kb && b {
				return true, true
			}
			return false, ka && kb
		case token.EQL, token.NEQ, token.GTR, token.LSS, token.GEQ, token.LEQ:
			return fr.cmp(st, x)
		}
	case *ast.Ident, *ast.SelectorExpr:
		if isBoolType(fr.typeOf(e)) {
			return fr.boolRef(st, e)
		}
	case *ast.CallExpr:
		// boolean helper: inline
		if isBoolType(fr.typeOf(e)) {
			return false, false
		}
	}
	return false, false
}

func (fr *SzFrame) boolRef(st *SzState, e ast.Expr) (bool, bool) {
	info := fr.Fn.Pkg.TypesInfo
	if id, ok := e.(*ast.Ident); ok {
		if b, bound := fr.env[info.ObjectOf(id)]; bound && b.closure != nil {
			return b.closure.Fr.Cond(st, b.closure.E)
		}
	}
	if sel, ok := e.(*ast.SelectorExpr); ok {
		base := fr.SymOf(sel.X)
		if base.Struct != nil {
			if cl, bound := base.Struct[sel.Sel.Name]; bound {
				if f, set := st.Flags[fr.flagKey(sel)]; set {
					if f == nil {
						return false, false
					}
					return *f, true
				}
				return cl.Fr.Cond(st, cl.E)
			}
			if f, set := st.Flags[fr.flagKey(sel)]; set {
				if f == nil {
					return false, false
				}
				return *f, true
			}
			if base.Zero {
				return false, true
			}
		}
	}
	s := fr.SymOf(e)
	if s.Unk != "" || s.Key == "" {
		return false, false
	}
	return fr.lookupAtom("true:" + s.Key)
}

func (fr *SzFrame) flagKey(sel *ast.SelectorExpr) string {
	return types.ExprString(sel.X) + "." + sel.Sel.Name
}

func (fr *SzFrame) cmp(st *SzState, x *ast.BinaryExpr) (bool, bool) {
	info := fr.Fn.Pkg.TypesInfo
	l, r := Unparen(x.X), Unparen(x.Y)
	op := x.Op
	// nil comparisons
	if IsNilIdent(fr.Fn.Pkg, r) || IsNilIdent(fr.Fn.Pkg, l) {
		o := l
		if IsNilIdent(fr.Fn.Pkg, l) {
			o = r
		}
		if op != token.EQL && op != token.NEQ {
			return false, false
		}
		s := fr.SymOf(o)
		if s.Struct != nil {
			return op == token.NEQ, true
		}
		if s.Key == "zero" {
			return op == token.EQL, true
		}
		if s.Unk != "" || s.Key == "" {
			return false, false
		}
		v, k := fr.lookupAtom("nonnil:" + s.Key)
		if op == token.EQL {
			v = !v
		}
		return v, k
	}
	cl, lc := info.Types[l]
	cr, rc := info.Types[r]
	lconst := lc && cl.Value != nil
	rconst := rc && cr.Value != nil
	if lconst && !rconst {
		// normalise: constant on the right
		l, r = r, l
		cl, cr = cr, cl
		lconst, rconst = rconst, lconst
		switch op {
		case token.GTR:
			op = token.LSS
		case token.LSS:
			op = token.GTR
		case token.GEQ:
			op = token.LEQ
		case token.LEQ:
			op = token.GEQ
		}
	}
	if rconst {
		cv, exact := constant.Int64Val(constant.ToInt(cr.Value))
		// len(X) against 0
		if call, ok := l.(*ast.CallExpr); ok && exact {
			if id, isId := call.Fun.(*ast.Ident); isId && id.Name == "len" && len(call.Args) == 1 {
				if _, isBuiltin := info.ObjectOf(id).(*types.Builtin); isBuiltin {
					s := fr.SymOf(call.Args[0])
					if s.Key == "zero" {
						return decideCmp(0, op, cv), true
					}
					if s.Unk == "" && s.Key != "" {
						nonempty := (op == token.NEQ && cv == 0) || (op == token.GTR && cv == 0) || (op == token.GEQ && cv == 1)
						empty := (op == token.EQL && cv == 0) || (op == token.LSS && cv == 1) || (op == token.LEQ && cv == 0)
						if nonempty || empty {
							v, k := fr.lookupAtom("nonempty:" + s.Key)
							if empty {
								v = !v
							}
							return v, k
						}
					}
				}
			}
		}
		// integer expression with a definite linear value
		if isIntType(fr.typeOf(l)) && exact {
			lv := fr.Int(st, l, fr.Upper)
			if lv.IsConst() {
				return decideCmp(int64(lv.C), op, cv), true
			}
			// scalar field against a constant
			s := fr.SymOf(l)
			if s.Key == "zero" {
				return decideCmp(0, op, cv), true
			}
			if s.Unk == "" && s.Key != "" && !strings.HasPrefix(s.Key, "?") {
				if cv == 0 && (op == token.NEQ || op == token.EQL || op == token.GTR) {
					v, k := fr.lookupAtom("nonzero:" + s.Key)
					if op == token.EQL {
						v = !v
					}
					return v, k
				}
				if op == token.EQL || op == token.NEQ {
					v, k := fr.lookupAtom(fmt.Sprintf("eq:%s:%d", s.Key, cv))
					if op == token.NEQ {
						v = !v
					}
					return v, k
				}
			}
		}
	}
	if isIntType(fr.typeOf(l)) && isIntType(fr.typeOf(r)) {
		d := fr.Int(st, l, fr.Upper).Sub(fr.Int(st, r, fr.Upper))
		if d.IsConst() {
			return decideCmp(int64(d.C), op, 0), true
		}
	}
	return false, false
}

func decideCmp(a int64, op token.Token, b int64) bool {
	switch op {
	case token.EQL:
		return a == b
	case token.NEQ:
		return a != b
	case token.GTR:
		return a > b
	case token.LSS:
		return a < b
	case token.GEQ:
		return a >= b
	case token.LEQ:
		return a <= b
	}
	return false
}

// ---------------------------------------------------------------------------------------------------------------------
// integer and byte-length expressions

var convertBytes = map[string]int{"Uint16Byte": 2, "Uint32Byte": 4, "Uint64Byte": 8, "Int16Byte": 2, "Int32Byte": 4, "Int64Byte": 8}

// Int evaluates an integer expression to a linear form (upper: which bound for joined results).
func (fr *SzFrame) Int(st *SzState, e ast.Expr, upper bool) Lin {
	info := fr.Fn.Pkg.TypesInfo
	e = Unparen(e)
	if tv, ok := info.Types[e]; ok && tv.Value != nil {
		if v, exact := constant.Int64Val(constant.ToInt(tv.Value)); exact {
			return LinC(int(v))
		}
	}
	switch x := e.(type) {
	case *ast.Ident:
		obj := info.ObjectOf(x)
		if b, ok := fr.env[obj]; ok {
			if b.isCell {
				if v, live := st.Cells[b.cell]; live {
					return v
				}
				return LinUnk("dead cell " + x.Name)
			}
			if b.closure != nil {
				return b.closure.Fr.Int(st, b.closure.E, upper)
			}
		}
		return LinUnk("int " + x.Name)
	case *ast.UnaryExpr:
		if x.Op == token.SUB {
			return fr.Int(st, x.X, !upper).Scale(-1)
		}
	case *ast.BinaryExpr:
		switch x.Op {
		case token.ADD:
			return fr.Int(st, x.X, upper).Add(fr.Int(st, x.Y, upper))
		case token.SUB:
			return fr.Int(st, x.X, upper).Sub(fr.Int(st, x.Y, !upper))
		case token.MUL:
			a, b := fr.Int(st, x.X, upper), fr.Int(st, x.Y, upper)
			if a.IsConst() {
				return b.Scale(a.C)
			}
			if b.IsConst() {
				return a.Scale(b.C)
			}
			return LinUnk("product " + types.ExprString(x))
		}
		return LinUnk("operator " + x.Op.String())
	case *ast.SelectorExpr:
		s := fr.SymOf(x)
		if s.Key == "zero" {
			return LinC(0)
		}
		if sel, ok := info.Selections[x]; ok && sel.Kind() == types.FieldVal {
			base := fr.SymOf(x.X)
			if base.Struct != nil {
				if cl, bound := base.Struct[x.Sel.Name]; bound {
					return cl.Fr.Int(st, cl.E, upper)
				}
			}
		}
		return LinUnk("field " + types.ExprString(x))
	case *ast.CallExpr:
		// conversion
		if tv, ok := info.Types[x.Fun]; ok && tv.IsType() && len(x.Args) == 1 {
			if isIntType(tv.Type) {
				return fr.Int(st, x.Args[0], upper)
			}
			return LinUnk("conversion " + types.ExprString(x))
		}
		if id, ok := x.Fun.(*ast.Ident); ok {
			if _, isB := info.ObjectOf(id).(*types.Builtin); isB && id.Name == "len" && len(x.Args) == 1 {
				return fr.lenOf(st, x.Args[0], upper)
			}
		}
		if sel, ok := x.Fun.(*ast.SelectorExpr); ok && sel.Sel.Name == "Len" && isBytesBuffer(fr.typeOf(sel.X)) {
			return fr.bufCell(st, sel.X)
		}
		vals := fr.call(st, x, upper)
		if len(vals) > 0 {
			return vals[0]
		}
		return LinUnk("call " + types.ExprString(x.Fun))
	}
	return LinUnk("int expr " + types.ExprString(e))
}

func (fr *SzFrame) bufCell(st *SzState, e ast.Expr) Lin {
	if id, ok := Unparen(e).(*ast.Ident); ok {
		if b, bound := fr.env[fr.Fn.Pkg.TypesInfo.ObjectOf(id)]; bound && b.isCell {
			return st.Cells[b.cell]
		}
	}
	return LinUnk("buffer " + types.ExprString(e))
}

func (fr *SzFrame) lenOf(st *SzState, e ast.Expr, upper bool) Lin {
	e = Unparen(e)
	if isByteSlice(fr.typeOf(e)) {
		return fr.Bytes(st, e, upper)
	}
	s := fr.SymOf(e)
	if s.Key == "zero" {
		return LinC(0)
	}
	if s.Unk != "" || s.Key == "" || s.Struct != nil {
		return LinUnk("len(" + types.ExprString(e) + ")")
	}
	if v, ok := fr.An.Scenario["nonempty:"+s.Key]; ok && !v {
		return LinC(0)
	}
	return LinV("len("+s.Key+")", 1)
}

// Bytes evaluates the length of a []byte-valued expression.
func (fr *SzFrame) Bytes(st *SzState, e ast.Expr, upper bool) Lin {
	info := fr.Fn.Pkg.TypesInfo
	e = Unparen(e)
	switch x := e.(type) {
	case *ast.Ident:
		if b, ok := fr.env[info.ObjectOf(x)]; ok {
			if b.isCell {
				return st.Cells[b.cell]
			}
			if b.closure != nil {
				return b.closure.Fr.Bytes(st, b.closure.E, upper)
			}
			if b.sym != nil && b.sym.Unk == "" && b.sym.Key != "" {
				return LinV("len("+b.sym.Key+")", 1)
			}
		}
		return LinUnk("bytes " + x.Name)
	case *ast.CompositeLit:
		return LinC(len(x.Elts))
	case *ast.SliceExpr:
		if x.High != nil {
			h := fr.Int(st, x.High, upper)
			if x.Low != nil {
				return h.Sub(fr.Int(st, x.Low, !upper))
			}
			return h
		}
		if x.Low != nil {
			return fr.Bytes(st, x.X, upper).Sub(fr.Int(st, x.Low, !upper))
		}
		return fr.Bytes(st, x.X, upper)
	case *ast.TypeAssertExpr, *ast.SelectorExpr:
		if sel, ok := e.(*ast.SelectorExpr); ok {
			base := fr.SymOf(sel.X)
			if base.Struct != nil {
				if cl, bound := base.Struct[sel.Sel.Name]; bound {
					return cl.Fr.Bytes(st, cl.E, upper)
				}
			}
		}
		if ta, ok := e.(*ast.TypeAssertExpr); ok {
			if sel, isSel := Unparen(ta.X).(*ast.SelectorExpr); isSel {
				base := fr.SymOf(sel.X)
				if base.Struct != nil {
					if cl, bound := base.Struct[sel.Sel.Name]; bound {
						return cl.Fr.Bytes(st, cl.E, upper)
					}
				}
			}
		}
		s := fr.SymOf(e)
		if s.Key == "zero" {
			return LinC(0)
		}
		if s.Unk == "" && s.Key != "" {
			return LinV("len("+s.Key+")", 1)
		}
		return LinUnk("bytes " + types.ExprString(e))
	case *ast.CallExpr:
		if tv, ok := info.Types[x.Fun]; ok && tv.IsType() && len(x.Args) == 1 {
			return fr.Bytes(st, x.Args[0], upper)
		}
		if id, ok := x.Fun.(*ast.Ident); ok {
			if _, isB := info.ObjectOf(id).(*types.Builtin); isB && id.Name == "make" && len(x.Args) >= 2 {
				return fr.Int(st, x.Args[1], upper)
			}
		}
		callee := Callee(fr.Fn.Pkg, x)
		if callee != nil && callee.Pkg() != nil && strings.HasSuffix(callee.Pkg().Path(), "tflow2/convert") {
			if n, ok := convertBytes[callee.Name()]; ok {
				return LinC(n)
			}
		}
		if sel, ok := x.Fun.(*ast.SelectorExpr); ok && sel.Sel.Name == "Bytes" && isBytesBuffer(fr.typeOf(sel.X)) {
			return fr.bufCell(st, sel.X)
		}
		vals := fr.callBytes(st, x, upper)
		if len(vals) > 0 {
			return vals[0]
		}
		return LinUnk("bytes of call " + types.ExprString(x.Fun))
	}
	return LinUnk("bytes expr " + types.ExprString(e))
}

// ---------------------------------------------------------------------------------------------------------------------
// calls

func (fr *SzFrame) call(st *SzState, call *ast.CallExpr, upper bool) []Lin {
	return fr.invoke(st, call, upper, false)
}
func (fr *SzFrame) callBytes(st *SzState, call *ast.CallExpr, upper bool) []Lin {
	return fr.invoke(st, call, upper, true)
}

// invoke inlines a call: the callee's effects are applied to st (in place), the joined results are returned.
func (fr *SzFrame) invoke(st *SzState, call *ast.CallExpr, upper bool, bytesResult bool) []Lin {
	an := fr.An
	callee := Callee(fr.Fn.Pkg, call)
	if callee == nil {
		return []Lin{LinUnk("dynamic call " + types.ExprString(call.Fun))}
	}
	key := FuncKey(callee)
	if an.Opaque[key] {
		return []Lin{LinV("call:"+key, 1)}
	}
	g := an.P.FnOf(callee)
	if g == nil || g.Decl.Body == nil {
		return []Lin{LinUnk("no source for " + key)}
	}
	if an.stack[g] > 0 || an.depth > 12 {
		return []Lin{LinUnk("recursion/depth at " + key)}
	}
	an.stack[g]++
	an.depth++
	defer func() { an.stack[g]--; an.depth-- }()

	cf := &SzFrame{An: an, Fn: g, Upper: upper, env: map[types.Object]*szBinding{}}
	sig := callee.Type().(*types.Signature)
	if sig.Recv() != nil {
		if sel, ok := call.Fun.(*ast.SelectorExpr); ok {
			if ro := RecvObj(g); ro != nil {
				cf.bindArg(st, ro, sel.X, fr)
			}
		}
	}
	for i, a := range call.Args {
		if po := ParamObj(g, i); po != nil {
			cf.bindArg(st, po, a, fr)
		}
	}
	out := cf.runBody(st, bytesResult)
	if out == nil {
		// every path was an error exit: nothing written on a success path
		return []Lin{LinUnk("no success path in " + key)}
	}
	// replace caller state by callee's final state (cells are shared by index)
	*st = *out.st
	return out.vals
}

func (cf *SzFrame) bindArg(st *SzState, po types.Object, a ast.Expr, caller *SzFrame) {
	t := po.Type()
	switch {
	case isBytesBuffer(t):
		if id, ok := Unparen(a).(*ast.Ident); ok {
			if b, bound := caller.env[caller.Fn.Pkg.TypesInfo.ObjectOf(id)]; bound && b.isCell {
				cf.env[po] = &szBinding{cell: b.cell, isCell: true}
				return
			}
		}
		cf.BindCell(st, po, LinC(0), true) // effect on an untracked buffer is dropped
	case isIntType(t):
		cf.BindCell(st, po, caller.Int(st, a, cf.Upper), false)
	case isByteSlice(t):
		cf.BindCell(st, po, caller.Bytes(st, a, cf.Upper), false)
	default:
		cf.BindClosure(po, a, caller)
	}
}

// runBody executes the function body and joins all non-error outcomes.
func (fr *SzFrame) runBody(st *SzState, bytesResult bool) *szRet {
	end := fr.exec(st.clone(), fr.Fn.Decl.Body.List, bytesResult)
	if end != nil {
		fr.rets = append(fr.rets, szRet{st: end})
	}
	var out *szRet
	for _, r := range fr.rets {
		r := r
		if out == nil {
			out = &r
			continue
		}
		j := szRet{st: joinStates(out.st, r.st)}
		n := len(out.vals)
		if len(r.vals) < n {
			n = len(r.vals)
		}
		for i := 0; i < n; i++ {
			j.vals = append(j.vals, out.vals[i].join(r.vals[i], fr.Upper))
		}
		out = &j
	}
	return out
}

// RunBytes is Run for a function whose []byte results are wanted as lengths.
func (fr *SzFrame) RunBytes(st *SzState) (*SzState, []Lin) {
	out := fr.runBody(st, true)
	if out == nil {
		return nil, nil
	}
	return out.st, out.vals
}

// Run analyses the frame's function from st and returns the final state and joined results (nil: no success path).
func (fr *SzFrame) Run(st *SzState) (*SzState, []Lin) {
	out := fr.runBody(st, false)
	if out == nil {
		return nil, nil
	}
	return out.st, out.vals
}

// ---------------------------------------------------------------------------------------------------------------------
// statements

func (fr *SzFrame) isErrorReturn(ret *ast.ReturnStmt) bool {
	sig := fr.Fn.Obj.Type().(*types.Signature)
	n := sig.Results().Len()
	if n == 0 || len(ret.Results) != n {
		return false
	}
	last := sig.Results().At(n - 1).Type()
	if nt, ok := last.(*types.Named); !ok || nt.Obj().Name() != "error" || nt.Obj().Pkg() != nil {
		return false
	}
	return !IsNilIdent(fr.Fn.Pkg, ret.Results[n-1])
}

// exec runs a statement list; it returns the fall-through state (nil when every path has left the list).
func (fr *SzFrame) exec(st *SzState, list []ast.Stmt, bytesResult bool) *SzState {
	for _, s := range list {
		if st == nil {
			return nil
		}
		st = fr.stmt(st, s, bytesResult)
	}
	return st
}

type szBreak struct{}

func (fr *SzFrame) stmt(st *SzState, s ast.Stmt, bytesResult bool) *SzState {
	fr.An.Steps++
	info := fr.Fn.Pkg.TypesInfo
	switch x := s.(type) {
	case *ast.BlockStmt:
		return fr.exec(st, x.List, bytesResult)
	case *ast.ReturnStmt:
		if fr.isErrorReturn(x) {
			return nil
		}
		r := szRet{st: st}
		for _, e := range x.Results {
			t := fr.typeOf(e)
			switch {
			case bytesResult && isByteSlice(t):
				r.vals = append(r.vals, fr.Bytes(st, e, fr.Upper))
			case isIntType(t):
				r.vals = append(r.vals, fr.Int(st, e, fr.Upper))
			case isByteSlice(t):
				r.vals = append(r.vals, fr.Bytes(st, e, fr.Upper))
			default:
				r.vals = append(r.vals, LinUnk("non-integer result"))
			}
		}
		fr.rets = append(fr.rets, r)
		return nil
	case *ast.DeclStmt:
		if gd, ok := x.Decl.(*ast.GenDecl); ok {
			for _, sp := range gd.Specs {
				vs, isV := sp.(*ast.ValueSpec)
				if !isV {
					continue
				}
				for i, n := range vs.Names {
					obj := info.ObjectOf(n)
					if i < len(vs.Values) {
						fr.assign(st, n, vs.Values[i], true)
					} else if isIntType(obj.Type()) {
						fr.BindCell(st, obj, LinC(0), false)
					}
				}
			}
		}
		return st
	case *ast.IncDecStmt:
		d := 1
		if x.Tok == token.DEC {
			d = -1
		}
		fr.update(st, x.X, LinC(d))
		return st
	case *ast.AssignStmt:
		switch x.Tok {
		case token.DEFINE, token.ASSIGN:
			if len(x.Lhs) == len(x.Rhs) {
				for i := range x.Lhs {
					fr.assign(st, x.Lhs[i], x.Rhs[i], x.Tok == token.DEFINE)
				}
			} else if len(x.Rhs) == 1 {
				// multi-value call: run for effects
				if call, ok := Unparen(x.Rhs[0]).(*ast.CallExpr); ok {
					vals := fr.call(st, call, fr.Upper)
					for i, l := range x.Lhs {
						if id, isId := l.(*ast.Ident); isId && id.Name != "_" {
							obj := info.ObjectOf(id)
							if i < len(vals) && (isIntType(obj.Type()) || isByteSlice(obj.Type())) {
								fr.BindCell(st, obj, vals[i], false)
							}
						}
					}
				}
			}
		case token.ADD_ASSIGN:
			fr.update(st, x.Lhs[0], fr.Int(st, x.Rhs[0], fr.cellDir(st, x.Lhs[0])))
		case token.SUB_ASSIGN:
			fr.update(st, x.Lhs[0], fr.Int(st, x.Rhs[0], !fr.cellDir(st, x.Lhs[0])).Scale(-1))
		default:
			fr.kill(st, x.Lhs[0], "operator "+x.Tok.String())
		}
		return st
	case *ast.ExprStmt:
		if call, ok := Unparen(x.X).(*ast.CallExpr); ok {
			fr.callStmt(st, call)
		}
		return st
	case *ast.IfStmt:
		if x.Init != nil {
			st = fr.stmt(st, x.Init, bytesResult)
			if st == nil {
				return nil
			}
		}
		if fr.An.OnIf != nil && fr.inLoop == 0 {
			fr.An.OnIf(fr, st, x)
		}
		v, known := fr.Cond(st, x.Cond)
		var thenSt, elseSt *SzState
		if !known || v {
			thenSt = fr.exec(st.clone(), x.Body.List, bytesResult)
		}
		if !known || !v {
			elseSt = st.clone()
			if x.Else != nil {
				elseSt = fr.stmt(elseSt, x.Else, bytesResult)
			}
		}
		return joinStates(thenSt, elseSt)
	case *ast.SwitchStmt:
		return fr.switchStmt(st, x, bytesResult)
	case *ast.RangeStmt:
		return fr.rangeStmt(st, x, bytesResult)
	case *ast.ForStmt:
		return fr.forStmt(st, x, bytesResult)
	case *ast.BranchStmt:
		// continue/break inside a loop body: the path ends here and joins at the loop end
		if x.Tok == token.CONTINUE || x.Tok == token.BREAK {
			fr.loopExits = append(fr.loopExits, st)
			return nil
		}
		return st
	case *ast.EmptyStmt, *ast.GoStmt, *ast.DeferStmt, *ast.LabeledStmt:
		return st
	}
	return st
}

func (fr *SzFrame) cellDir(st *SzState, lhs ast.Expr) bool {
	if id, ok := Unparen(lhs).(*ast.Ident); ok {
		if b, bound := fr.env[fr.Fn.Pkg.TypesInfo.ObjectOf(id)]; bound && b.isCell {
			return st.Tag[b.cell]
		}
	}
	return fr.Upper
}

func (fr *SzFrame) update(st *SzState, lhs ast.Expr, d Lin) {
	if id, ok := Unparen(lhs).(*ast.Ident); ok {
		if b, bound := fr.env[fr.Fn.Pkg.TypesInfo.ObjectOf(id)]; bound && b.isCell {
			st.Cells[b.cell] = st.Cells[b.cell].Add(d)
		}
	}
}

func (fr *SzFrame) kill(st *SzState, lhs ast.Expr, why string) {
	if id, ok := Unparen(lhs).(*ast.Ident); ok {
		if b, bound := fr.env[fr.Fn.Pkg.TypesInfo.ObjectOf(id)]; bound && b.isCell {
			st.Cells[b.cell] = LinUnk(why)
		}
	}
}

func (fr *SzFrame) assign(st *SzState, lhs, rhs ast.Expr, define bool) {
	info := fr.Fn.Pkg.TypesInfo
	lhs = Unparen(lhs)
	// boolean field flags (pa.ExtendedLength = true)
	if sel, ok := lhs.(*ast.SelectorExpr); ok {
		if tv, isC := info.Types[rhs]; isC && tv.Value != nil && tv.Value.Kind() == constant.Bool {
			b := constant.BoolVal(tv.Value)
			st.Flags[fr.flagKey(sel)] = &b
		} else if isBoolType(fr.typeOf(rhs)) {
			st.Flags[fr.flagKey(sel)] = nil
		} else if call, isCall := Unparen(rhs).(*ast.CallExpr); isCall {
			fr.callStmt(st, call)
		}
		return
	}
	id, ok := lhs.(*ast.Ident)
	if !ok {
		if call, isCall := Unparen(rhs).(*ast.CallExpr); isCall {
			fr.callStmt(st, call)
		}
		return
	}
	if id.Name == "_" {
		if call, isCall := Unparen(rhs).(*ast.CallExpr); isCall {
			fr.callStmt(st, call)
		}
		return
	}
	obj := info.ObjectOf(id)
	t := obj.Type()
	switch {
	case isBytesBuffer(t):
		// bytes.NewBuffer(nil) / bytes.NewBuffer(make([]byte, 0, n))
		if fr.An.OpaqueBuffersIn == fr.Fn && fr.Entry && fr.An.opaqueLocal(fr, id) {
			cell := fr.BindCell(st, obj, LinV("buf:"+id.Name, 1), true)
			if fr.An.frozen == nil {
				fr.An.frozen = map[int]bool{}
			}
			fr.An.frozen[cell] = true
		} else {
			fr.BindCell(st, obj, LinC(0), true)
		}
	case isIntType(t):
		v := fr.Int(st, rhs, fr.Upper)
		if b, bound := fr.env[obj]; bound && b.isCell && !define {
			if fr.inLoop > 0 {
				v = LinUnk("non-additive assignment to " + id.Name + " inside a loop")
			}
			st.Cells[b.cell] = v
		} else {
			fr.BindCell(st, obj, v, false)
		}
	case isByteSlice(t):
		v := fr.Bytes(st, rhs, fr.Upper)
		if b, bound := fr.env[obj]; bound && b.isCell && !define {
			st.Cells[b.cell] = v
		} else {
			fr.BindCell(st, obj, v, false)
		}
	case isBoolType(t):
		fr.BindClosure(obj, rhs, fr)
	default:
		// pointer / struct / interface: keep the symbolic reference, resolved now
		if call, isCall := Unparen(rhs).(*ast.CallExpr); isCall {
			if g := fr.An.P.FnOf(Callee(fr.Fn.Pkg, call)); g != nil {
				// call with possible buffer effects (rare for non-int results): run for effects
				_ = g
			}
		}
		s := fr.SymOf(rhs)
		fr.env[obj] = &szBinding{sym: s}
	}
}

// callStmt handles a call in statement position: buffer writes, or inlined callees for their effects.
func (fr *SzFrame) callStmt(st *SzState, call *ast.CallExpr) {
	if fr.An.OnCall != nil && fr.inLoop == 0 {
		fr.An.OnCall(fr, st, call)
	}
	if sel, ok := call.Fun.(*ast.SelectorExpr); ok && isBytesBuffer(fr.typeOf(sel.X)) {
		id, isId := Unparen(sel.X).(*ast.Ident)
		var b *szBinding
		if isId {
			b = fr.env[fr.Fn.Pkg.TypesInfo.ObjectOf(id)]
		}
		if b == nil || !b.isCell {
			return
		}
		up := fr.An.Upper
		if fr.An.frozen[b.cell] {
			return
		}
		switch sel.Sel.Name {
		case "WriteByte":
			st.Cells[b.cell] = st.Cells[b.cell].Add(LinC(1))
		case "Write":
			st.Cells[b.cell] = st.Cells[b.cell].Add(fr.Bytes(st, call.Args[0], up))
		case "WriteString":
			st.Cells[b.cell] = st.Cells[b.cell].Add(LinUnk("WriteString"))
		case "Reset", "Truncate":
			st.Cells[b.cell] = LinUnk("buffer reset")
		}
		return
	}
	callee := Callee(fr.Fn.Pkg, call)
	if callee == nil {
		return
	}
	if g := fr.An.P.FnOf(callee); g == nil || g.Decl.Body == nil {
		return // library call without tracked effect
	}
	// only inline when a tracked buffer is passed (directly or via receiver); other calls have no size effect
	passes := false
	for _, a := range call.Args {
		if isBytesBuffer(fr.typeOf(a)) {
			passes = true
		}
	}
	if !passes {
		return
	}
	fr.invoke(st, call, fr.Upper, false)
}

func (fr *SzFrame) switchStmt(st *SzState, x *ast.SwitchStmt, bytesResult bool) *SzState {
	info := fr.Fn.Pkg.TypesInfo
	if x.Init != nil {
		st = fr.stmt(st, x.Init, bytesResult)
		if st == nil {
			return nil
		}
	}
	var tagConst constant.Value
	dynamicTag := false
	if x.Tag != nil {
		if sel, ok := Unparen(x.Tag).(*ast.SelectorExpr); ok {
			base := fr.SymOf(sel.X)
			if base.Struct != nil {
				if cl, bound := base.Struct[sel.Sel.Name]; bound {
					if tv, isC := cl.Fr.Fn.Pkg.TypesInfo.Types[cl.E]; isC && tv.Value != nil {
						tagConst = tv.Value
					} else {
						dynamicTag = true
					}
				} else if base.Zero {
					tagConst = constant.MakeInt64(0)
				}
			}
		}
	}
	var out *SzState
	var def *ast.CaseClause
	taken := false
	for _, cs := range x.Body.List {
		cc := cs.(*ast.CaseClause)
		if cc.List == nil {
			def = cc
			continue
		}
		if tagConst != nil {
			match := false
			for _, e := range cc.List {
				if tv, ok := info.Types[e]; ok && tv.Value != nil && constant.Compare(constant.ToInt(tv.Value), token.EQL, constant.ToInt(tagConst)) {
					match = true
				}
			}
			if !match {
				continue
			}
			taken = true
			out = joinStates(out, fr.exec(st.clone(), cc.Body, bytesResult))
			continue
		}
		if dynamicTag {
			continue // assumption: a dynamic tag selects the default arm (see Assumed)
		}
		if x.Tag == nil && len(cc.List) == 1 {
			v, known := fr.Cond(st, cc.List[0])
			if known && !v {
				continue
			}
			out = joinStates(out, fr.exec(st.clone(), cc.Body, bytesResult))
			if known && v {
				taken = true
				break
			}
			continue
		}
		out = joinStates(out, fr.exec(st.clone(), cc.Body, bytesResult))
	}
	if dynamicTag {
		fr.An.Assumed = append(fr.An.Assumed, "switch on run-time "+types.ExprString(x.Tag)+" takes the default arm in "+fr.Fn.Name())
	}
	if !taken {
		if def != nil {
			out = joinStates(out, fr.exec(st.clone(), def.Body, bytesResult))
		} else if tagConst == nil {
			out = joinStates(out, st.clone())
		} else {
			out = joinStates(out, st.clone())
		}
	}
	return out
}

// loop bodies --------------------------------------------------------------------------------------------------------

func (fr *SzFrame) loopBody(st *SzState, body []ast.Stmt, K string, bytesResult bool) *SzState {
	saved := fr.loopExits
	fr.loopExits = nil
	base := st.clone()
	// run the body from a zeroed copy of the cells so that the result is the per-iteration delta
	zero := st.clone()
	for c := range zero.Cells {
		zero.Cells[c] = LinC(0)
	}
	nRets := len(fr.rets)
	fr.inLoop++
	end := fr.exec(zero, body, bytesResult)
	fr.inLoop--
	for _, e := range fr.loopExits {
		end = joinStates(end, e)
	}
	fr.loopExits = saved
	// success returns from inside a loop are not modelled
	if len(fr.rets) > nRets {
		for i := nRets; i < len(fr.rets); i++ {
			for c := range fr.rets[i].st.Cells {
				fr.rets[i].st.Cells[c] = LinUnk("return inside loop")
			}
		}
	}
	if end == nil {
		return base
	}
	for c, d := range end.Cells {
		if _, ok := base.Cells[c]; !ok {
			continue // body-local
		}
		if d.C == 0 && len(d.V) == 0 && len(d.Unk) == 0 {
			continue
		}
		base.Cells[c] = base.Cells[c].Add(scaleLoop(d, K))
	}
	return base
}

func (fr *SzFrame) rangeStmt(st *SzState, x *ast.RangeStmt, bytesResult bool) *SzState {
	info := fr.Fn.Pkg.TypesInfo
	s := fr.SymOf(x.X)
	K := s.Key
	if s.Key == "zero" {
		return st
	}
	if s.Unk != "" || K == "" {
		K = "?" + types.ExprString(x.X)
	}
	if v, ok := fr.An.Scenario["nonempty:"+K]; ok && !v {
		return st
	}
	if id, ok := x.Value.(*ast.Ident); ok && id.Name != "_" {
		fr.BindSym(info.ObjectOf(id), &Sym{Key: K, Elem: true})
	}
	if id, ok := x.Key.(*ast.Ident); ok && id.Name != "_" {
		fr.BindCell(st, info.ObjectOf(id), LinUnk("loop index"), false)
	}
	out := fr.loopBody(st, x.Body.List, K, bytesResult)
	if strings.HasPrefix(K, "?") {
		for c, v := range out.Cells {
			if !linEq(v, st.Cells[c]) {
				out.Cells[c] = out.Cells[c].Add(LinUnk("loop over unresolved " + K))
			}
		}
	}
	return out
}

func linEq(a, b Lin) bool {
	d := a.Sub(b)
	return d.C == 0 && len(d.V) == 0
}

// forStmt supports the linked-list idiom  for x := head; x != nil; x = x.Next { … }.
func (fr *SzFrame) forStmt(st *SzState, x *ast.ForStmt, bytesResult bool) *SzState {
	info := fr.Fn.Pkg.TypesInfo
	K := ""
	if as, ok := x.Init.(*ast.AssignStmt); ok && len(as.Lhs) == 1 && len(as.Rhs) == 1 {
		if id, isId := as.Lhs[0].(*ast.Ident); isId {
			if post, isPost := x.Post.(*ast.AssignStmt); isPost && len(post.Rhs) == 1 {
				if sel, isSel := post.Rhs[0].(*ast.SelectorExpr); isSel && sel.Sel.Name == "Next" {
					if pid, isP := sel.X.(*ast.Ident); isP && info.ObjectOf(pid) == info.ObjectOf(id) {
						s := fr.SymOf(as.Rhs[0])
						if s.Key == "zero" {
							return st
						}
						if s.Unk == "" && s.Key != "" {
							K = "list(" + s.Key + ")"
							fr.BindSym(info.ObjectOf(id), &Sym{Key: K, Elem: true})
						}
					}
				}
			}
		}
	}
	if K == "" {
		K = "?for@" + fr.Fn.Name()
	}
	out := fr.loopBody(st, x.Body.List, K, bytesResult)
	if strings.HasPrefix(K, "?") {
		for c, v := range out.Cells {
			if !linEq(v, st.Cells[c]) {
				out.Cells[c] = out.Cells[c].Add(LinUnk("loop with unknown trip count in " + fr.Fn.Name()))
			}
		}
	}
	return out
}

// NewSzState returns an empty abstract store.
func NewSzState() *SzState { return newSzState() }

// BindBufferParams binds every *bytes.Buffer parameter of the frame's function to a fresh zero cell.
func (fr *SzFrame) BindBufferParams(st *SzState) map[string]int {
	r := map[string]int{}
	sig := fr.Fn.Obj.Type().(*types.Signature)
	for i := 0; i < sig.Params().Len(); i++ {
		po := sig.Params().At(i)
		if isBytesBuffer(po.Type()) {
			r[po.Name()] = fr.BindCell(st, po, LinC(0), true)
		}
	}
	return r
}

// SortedKeys returns the keys of a string set in order.
func SortedKeys(m map[string]bool) []string {
	ks := make([]string, 0, len(m))
	for k := range m {
		ks = append(ks, k)
	}
	sort.Strings(ks)
	return ks
}

// opaqueLocal: every local buffer except the one whose bytes the function returns.
func (an *SizeAn) opaqueLocal(fr *SzFrame, id *ast.Ident) bool {
	returned := false
	obj := fr.Fn.Pkg.TypesInfo.ObjectOf(id)
	ast.Inspect(fr.Fn.Decl.Body, func(n ast.Node) bool {
		ret, ok := n.(*ast.ReturnStmt)
		if !ok {
			return true
		}
		for _, r := range ret.Results {
			ast.Inspect(r, func(m ast.Node) bool {
				if x, isId := m.(*ast.Ident); isId && fr.Fn.Pkg.TypesInfo.ObjectOf(x) == obj {
					returned = true
				}
				return true
			})
		}
		return true
	})
	return !returned
}

// ScaleLoop exposes the loop scaling for callers that evaluate a loop body themselves.
func ScaleLoop(d Lin, K string) Lin { return scaleLoop(d, K) }

// BindRecvStruct binds the receiver of the frame's method to a struct literal evaluated in frame in.
func (fr *SzFrame) BindRecvStruct(lit *ast.CompositeLit, in *SzFrame) {
	if ro := RecvObj(fr.Fn); ro != nil {
		fr.env[ro] = &szBinding{sym: in.StructSym(lit)}
	}
}

// BindParamClosure binds parameter i to an expression of another frame (call by name).
func (fr *SzFrame) BindParamClosure(i int, e ast.Expr, in *SzFrame) {
	if po := ParamObj(fr.Fn, i); po != nil {
		fr.BindClosure(po, e, in)
	}
}

// BindRangeVars binds the value variables of all range statements enclosing n (inside the frame's function).
func (fr *SzFrame) BindRangeVars(n ast.Node) (keys []string) {
	for _, a := range PathTo(fr.Fn.Decl.Body, n) {
		if rs, ok := a.(*ast.RangeStmt); ok {
			s := fr.SymOf(rs.X)
			K := s.Key
			if s.Unk != "" || K == "" {
				K = "?" + types.ExprString(rs.X)
			}
			if id, isId := rs.Value.(*ast.Ident); isId && id.Name != "_" {
				fr.BindSym(fr.Fn.Pkg.TypesInfo.ObjectOf(id), &Sym{Key: K, Elem: true})
			}
			keys = append(keys, K)
		}
	}
	return keys
}

// EnclosingConds evaluates the conditions of all if statements enclosing n: known=false if any is undecided,
// val=false (known) as soon as one is known to exclude n.
func (fr *SzFrame) EnclosingConds(st *SzState, n ast.Node) (val, known bool) {
	val, known = true, true
	path := PathTo(fr.Fn.Decl.Body, n)
	for i, a := range path {
		ifs, ok := a.(*ast.IfStmt)
		if !ok || i+1 >= len(path) {
			continue
		}
		v, k := fr.Cond(st, ifs.Cond)
		inThen := path[i+1] == ast.Node(ifs.Body)
		if !inThen && path[i+1] == ast.Node(ifs.Cond) {
			continue
		}
		if !k {
			known = false
			continue
		}
		if v != inThen {
			return false, true
		}
	}
	return val, known
}

// ExecStmt runs one statement of the frame's function on st (for callers that walk a body themselves).
func (fr *SzFrame) ExecStmt(st *SzState, s ast.Stmt) *SzState { return fr.stmt(st, s, false) }
