package props

import (
	"fmt"
	"go/ast"
	"go/token"
	"go/types"

	"verif/engine/core"
)

func init() {
	Register(&Prop{
		Meta: core.Meta{
			ID: "C01", Title: "Routing table lookups agree with a prefix-map model", Level: "other",
			Technique:   "typed-AST guard extraction + go/cfg dominance: dummy-node gate on every route escape, exact-lookup-not-used for more-specifics, route counter tied to became-new/became-empty results",
			DesignRef:   "DESIGN.md §4 C01",
			Decided:     "(1) every place in package routingtable where a trie node's route escapes to a caller (append to a result, return of the node from the exact lookup) is guarded by a test that the node is not a dummy; (2) the more-specifics lookup does not obtain its subtree root from the exact-match lookup (which returns nothing for an absent prefix); (3) every change of the atomic route counter other than the empty-table insert is control-dependent on the became-new / became-empty result of the node operation it follows, and each node operation's result feeds one counter update; (4) the shift/mask idioms of the net functions the trie reaches (Contains, GetSupernet, BitAtPosition, …) satisfy the width rules of C15: shift base = word width, half-word branch chosen by a guard on the very length that is shifted by.",
			NotDecided:  "trie placement (insertBefore/newSuperNode/skip arithmetic), LPM pruning and the Contains/GetSupernet/BitAtPosition arithmetic they rest on are numerical results over 2^32/2^128 values (see C15); equality with a prefix-map model over operation histories.",
			TrustedBase: stdTrusted,
			Assumptions: []string{"structured control flow (no goto) in package routingtable"},
		},
		Run: runC01,
		Controls: []Control{
			{Name: "path-removed-by-tie-test", File: "route/route.go", Old: "\t\tif paths[j].Compare(remove) {\n", New: "\t\tif paths[j].Equal(remove) {\n", Expect: "removal-matches-by-full-comparison"},
			{Name: "walker-called-on-a-missing-child", File: "routingtable/trie.go", Old: "\tif n.l != nil {\n\t\tres = n.l.dumpPfxs(res)\n\t}\n", New: "\tres = n.l.dumpPfxs(res)\n", Expect: "nil-child-keeps-the-accumulator"},
			{Name: "replace-propagates-after-failure", File: "routingtable/locRIB/loc_rib.go", Old: "\t\tlog.Errorf(\"unable to replace path: %v\", err)\n\t\treturn\n", New: "\t\tlog.Errorf(\"unable to replace path: %v\", err)\n", Expect: "replace-is-one-step"},
			{Name: "removal-drops-every-match", File: "route/route.go", Old: "\t\tif paths[j].Compare(remove) {\n\t\t\ti = j\n\t\t\tbreak\n\t\t}\n", New: "\t\tif paths[j].Compare(remove) {\n\t\t\ti = j\n\t\t}\n", Expect: "removal-takes-one-match"},
			{Name: "removal-by-decision-equality", File: "route/route.go", Old: "\t\tif paths[j].Compare(remove) {\n", New: "\t\tif paths[j].Equal(remove) {\n", Expect: "decision-equality-is-not-identity"},
			{Name: "children-of-a-dummy-adopted-by-one-bit", File: "routingtable/trie.go", Old: "func (n *node) insertBefore(pfx *net.Prefix, p *route.Path) *node {\n\ttmp := n\n", New: "func (n *node) adopt(c *node) {\n\tif c == nil {\n\t\treturn\n\t}\n\tif !c.route.Prefix().Addr().BitAtPosition(n.route.Pfxlen() + 1) {\n\t\tn.l = c\n\t\treturn\n\t}\n\tn.h = c\n}\n\nfunc (n *node) insertBefore(pfx *net.Prefix, p *route.Path) *node {\n\tif n.dummy {\n\t\tnw := newNode(pfx, p, n.skip-(n.route.Pfxlen()-pfx.Len()), false)\n\t\tnw.adopt(n.l)\n\t\tnw.adopt(n.h)\n\t\treturn nw\n\t}\n\ttmp := n\n", Expect: "child-slot-written-once-per-path"},
			{Name: "getlonger-dumps-first-longer-node", File: "routingtable/trie.go", Old: "\tif currentPfx.Equal(pfx) || pfx.Contains(currentPfx) {\n\t\treturn n.dumpPfxs(res)\n\t}\n", New: "\tif currentPfx.Equal(pfx) || currentPfx.Len() > pfx.Len() {\n\t\treturn n.dumpPfxs(res)\n\t}\n", Expect: "longer-dumps-subtree"},
			{Name: "refactor-getlonger-two-ifs", Silent: true, File: "routingtable/trie.go", Old: "\tif currentPfx.Equal(pfx) || pfx.Contains(currentPfx) {\n\t\treturn n.dumpPfxs(res)\n\t}\n", New: "\tif currentPfx.Equal(pfx) {\n\t\treturn n.dumpPfxs(res)\n\t}\n\tif pfx.Contains(currentPfx) {\n\t\treturn n.dumpPfxs(res)\n\t}\n"},
			{Name: "supernet-half-chosen-by-other-length", File: "net/prefix.go", Old: "\tif pfxLen > 64 {\n\t\tmask := uint64(math.MaxUint64 << (128 - pfxLen))", New: "\tif maxPfxLen > 64 {\n\t\tmask := uint64(math.MaxUint64 << (128 - pfxLen))", Expect: "bound-agrees-with-base"},
			{Name: "lpm-drops-dummy-test", File: "routingtable/trie.go", Old: "if !n.dummy {\n\t\t*res = append(*res, n.route)\n\t}\n\tn.l.lpm(needle, res)", New: "*res = append(*res, n.route)\n\tn.l.lpm(needle, res)", Expect: "dummy-gate"},
			{Name: "count-unconditional", File: "routingtable/table.go", Old: "if rt.root.removePath(pfx, p) {\n\t\tatomic.AddInt64(&rt.routeCount, -1)\n\t}", New: "rt.root.removePath(pfx, p)\n\tatomic.AddInt64(&rt.routeCount, -1)", Expect: "count-follows-node-result"},
			{Name: "getlonger-via-exact-get", File: "routingtable/table.go", Old: "return rt.root.getLonger(pfx, res)", New: "return rt.root.get(pfx).dumpPfxs(res)", Expect: "longer-not-from-exact-get"},
		},
	})
}

func runC01(c *core.Ctx) {
	nilChildKeepsTheAccumulator(c, "nil-child-keeps-the-accumulator")
	replaceIsOneStep(c, "replace-is-one-step")
	removalTakesOneMatch(c, "removal-takes-one-match")
	decisionEqualityIsNotIdentity(c, "decision-equality-is-not-identity")
	childSlotWrittenOncePerPath(c)
	removalMatchesByFullComparison(c)
	p := c.P
	const pkg = "routingtable"
	pk := p.Pkg(pkg)
	if pk == nil {
		c.Undecided("anchor", pkg, token.NoPos, "package not found")
		return
	}
	// (4) the address arithmetic the trie rests on: the R-WIDTH rules of C15 on the functions of package net that the
	// trie reaches (containment, common supernet, bit at position)
	{
		reach := map[*core.Fn]bool{}
		var roots []*core.Fn
		for _, f := range p.FuncsIn(pkg) {
			if f.Decl.Body != nil && !isTestFn(p, f) {
				roots = append(roots, f)
			}
		}
		for _, g := range p.ReachableFns(roots...) {
			if g.Pkg == p.Pkg("net") {
				reach[g] = true
			}
		}
		c.Floor("bound-agrees-with-base", 4)
		shiftRules(c, func(f *core.Fn) bool { return reach[f] })
	}
	routeF := p.Field(pkg, "node", "route")
	dummyF := p.Field(pkg, "node", "dummy")
	if routeF == nil || dummyF == nil {
		c.Undecided("anchor", "routingtable.node.{route,dummy}", token.NoPos, "trie node fields not found")
		return
	}
	nodeGet := c.MustFunc("routingtable.(*node).get")

	// (1) dummy gate ------------------------------------------------------------------------------
	c.Floor("dummy-gate", 6)
	for _, f := range p.FuncsIn(pkg) {
		if f.Decl.Body == nil {
			continue
		}
		parents := core.Parents(f.Decl.Body)
		ord := 0
		ast.Inspect(f.Decl.Body, func(n ast.Node) bool {
			sel, ok := n.(*ast.SelectorExpr)
			if !ok || core.FieldOf(f.Pkg, sel) != routeF {
				return true
			}
			// value use?  not `x.route.m()` / `x.route.f`, not a store target
			if ps, ok := parents[sel].(*ast.SelectorExpr); ok && ps.X == ast.Expr(sel) {
				return true
			}
			if as, ok := parents[sel].(*ast.AssignStmt); ok {
				for _, l := range as.Lhs {
					if l == ast.Expr(sel) {
						return true
					}
				}
			}
			c.Analysed(f)
			ord++
			construct := fmt.Sprintf("%s escape #%d of %s", f.Name(), ord, core.ExprString(sel))
			facts := core.FactsAt(f, sel)
			// (a) guarded by !X.dummy for the same base
			gated := false
			for _, ft := range facts {
				if ft.Expr == nil || ft.Truth {
					continue
				}
				if ds, ok := core.Unparen(ft.Expr).(*ast.SelectorExpr); ok && core.FieldOf(f.Pkg, ds) == dummyF && core.SameExpr(f.Pkg, ds.X, sel.X) {
					gated = true
				}
			}
			// (b) base is the result of the exact lookup, which is itself gated
			if !gated {
				if obj := core.ObjOf(f.Pkg, sel.X); obj != nil {
					defs := core.DefsOf(f, obj)
					all := len(defs) > 0
					for _, d := range defs {
						call, ok := core.Unparen(d).(*ast.CallExpr)
						if !ok || nodeGet == nil || core.Callee(f.Pkg, call) != nodeGet.Obj {
							all = false
						}
					}
					gated = all
				}
			}
			c.Check(gated, "dummy-gate", construct, sel.Pos(), "a trie node's route reaches a caller without a dominating test that the node is not a dummy (an interior or removed node would be listed as a stored prefix)")
			return true
		})
	}
	if nodeGet != nil {
		recv := core.RecvObj(nodeGet)
		ast.Inspect(nodeGet.Decl.Body, func(n ast.Node) bool {
			ret, ok := n.(*ast.ReturnStmt)
			if !ok || len(ret.Results) != 1 || core.ObjOf(nodeGet.Pkg, ret.Results[0]) != recv || recv == nil {
				return true
			}
			facts := core.FactsAt(nodeGet, ret)
			ok2 := false
			for _, ft := range facts {
				if ft.Expr != nil && !ft.Truth && core.FieldOf(nodeGet.Pkg, ft.Expr) == dummyF {
					ok2 = true
				}
			}
			c.Check(ok2, "dummy-gate", nodeGet.Name()+" return of receiver", ret.Pos(), "the exact lookup returns a node without establishing that it is not a dummy")
			return true
		})
	}

	// (2) more-specifics lookup must not start from the exact lookup ---------------------------------
	if gl := c.MustFunc("routingtable.(*RoutingTable).GetLonger"); gl != nil && nodeGet != nil {
		reach := p.ReachableFns(gl)
		bad := false
		var at token.Pos
		for _, g := range reach {
			for _, call := range core.CallsAll(g.Pkg, g.Decl.Body, func(f *types.Func) bool { return f == nodeGet.Obj }) {
				// recursion inside get itself is fine only if get is not reachable at all from GetLonger
				bad = true
				if at == token.NoPos {
					at = call.Pos()
				}
			}
		}
		// also via RoutingTable.get
		c.Check(!bad, "longer-not-from-exact-get", gl.Name(), firstPos(at, gl.Decl.Pos()),
			"GetLonger derives its subtree root from the exact-match lookup (*node).get, whose every non-nil return is dominated by Prefix().Equal(query) && !dummy: for a query prefix that is not itself stored the result is empty although stored more-specifics exist")
		// and it must reach the subtree dump
		dump := p.Func("routingtable.(*node).dumpPfxs")
		reaches := false
		for _, g := range reach {
			if dump != nil && g == dump {
				reaches = true
			}
		}
		c.Check(reaches, "longer-dumps-subtree", gl.Name(), gl.Decl.Pos(), "GetLonger no longer reaches the subtree dump (*node).dumpPfxs")

		// the subtree that is dumped lies inside the query, and the descent stays below nodes that cover it: path conditions
		// of the dump / of the recursive calls in (*node).getLonger imply containment, whatever other tests are added
		if ng := c.MustFunc(pkg + ".(*node).getLonger"); ng != nil {
			c.Analysed(ng)
			pc, err := core.ExtractPathConds(ng)
			dump := p.Func(pkg + ".(*node).dumpPfxs")
			pfxPar := core.ParamObj(ng, 0)
			if err != nil || dump == nil || pfxPar == nil {
				c.Undecided("longer-dumps-subtree", ng.Name(), ng.Decl.Pos(), "path conditions of (*node).getLonger cannot be extracted")
			} else {
				// atoms: EQ = current.Equal(pfx) · IN = pfx.Contains(current) · COVER = current.Contains(pfx)
				classify := func(e ast.Expr) (string, bool, bool) {
					call, ok := core.Unparen(e).(*ast.CallExpr)
					if !ok || len(call.Args) != 1 {
						return "", false, false
					}
					sel, ok := call.Fun.(*ast.SelectorExpr)
					if !ok {
						return "", false, false
					}
					recvIsQuery := core.ObjOf(ng.Pkg, sel.X) == pfxPar
					argIsQuery := core.ObjOf(ng.Pkg, call.Args[0]) == pfxPar
					switch core.FuncKey(core.Callee(ng.Pkg, call)) {
					case "net.(*Prefix).Equal":
						if recvIsQuery != argIsQuery {
							return "EQ", false, true
						}
					case "net.(*Prefix).Contains":
						if recvIsQuery && !argIsQuery {
							return "IN", false, true
						}
						if argIsQuery && !recvIsQuery {
							return "COVER", false, true
						}
					}
					return "", false, false
				}
				n := 0
				for _, ret := range pc.Returns {
					if len(ret.Results) != 1 {
						continue
					}
					call, ok := core.Unparen(ret.Results[0]).(*ast.CallExpr)
					if !ok {
						continue
					}
					callee := core.Callee(ng.Pkg, call)
					switch {
					case callee == dump.Obj:
						n++
						ok, cex := formulaImplies(ng, pc.Cond[ret], classify, func(v map[string]bool) bool { return v["EQ"] || v["IN"] })
						c.Check(ok, "longer-dumps-subtree", ng.Name()+" dumps a subtree only if its root equals or lies inside the query", ret.Pos(),
							"the subtree dump is reached under a condition that does not imply `root == query or query contains root` ("+cex+"): with path compression a node below a covering node can diverge from the query inside the skipped bits, so more-specifics of an absent prefix list a foreign subtree")
					case callee == ng.Obj:
						n++
						ok, cex := formulaImplies(ng, pc.Cond[ret], classify, func(v map[string]bool) bool { return v["COVER"] })
						c.Check(ok, "longer-dumps-subtree", ng.Name()+" descends only below a node that covers the query", ret.Pos(),
							"the recursive descent is reached under a condition that does not imply `node contains query` ("+cex+")")
					}
				}
				c.Check(n >= 3, "longer-dumps-subtree", ng.Name()+" dump and descent sites found", ng.Decl.Pos(), fmt.Sprintf("found %d", n))
			}
		}
	}

	// the placement arithmetic (Contains/GetSupernet/BitAtPosition): the structural clauses of C15
	runC15(c)

	// (3) route counter ----------------------------------------------------------------------------
	cnt := p.Field(pkg, "RoutingTable", "routeCount")
	if cnt == nil {
		c.Undecided("anchor", "routingtable.RoutingTable.routeCount", token.NoPos, "field not found")
		return
	}
	c.Floor("count-follows-node-result", 3)
	nodeAdd := p.Func("routingtable.(*node).addPath")
	nodeRemove := p.Func("routingtable.(*node).removePath")
	for _, f := range p.FuncsIn(pkg) {
		if f.Decl.Body == nil {
			continue
		}
		ast.Inspect(f.Decl.Body, func(n ast.Node) bool {
			call, ok := n.(*ast.CallExpr)
			if !ok {
				return true
			}
			cal := core.Callee(f.Pkg, call)
			if cal == nil || cal.Pkg() == nil || cal.Pkg().Path() != "sync/atomic" || len(call.Args) < 2 || !core.MentionsField(f.Pkg, call.Args[0], cnt) {
				return true
			}
			if cal.Name() != "AddInt64" {
				if cal.Name() != "LoadInt64" {
					c.Fail("count-follows-node-result", f.Name()+" "+cal.Name(), call.Pos(), "route counter modified by something other than atomic.AddInt64")
				}
				return true
			}
			c.Analysed(f)
			delta := core.ConstOf(f.Pkg, call.Args[1])
			ds := "?"
			if delta != nil {
				ds = delta.ExactString()
			}
			construct := f.Name() + " AddInt64(" + ds + ")"
			facts := core.CtlFactsAt(f, call)
			switch ds {
			case "1":
				// accepted: root == nil (empty table insert), or isNew where isNew is result 1 of (*node).addPath
				ok := false
				for _, ft := range facts {
					if ft.Expr == nil {
						continue
					}
					if x, isNil := core.IsNilCheck(f.Pkg, ft.Expr); isNil && ft.Truth && core.FieldOf(f.Pkg, x) == p.Field(pkg, "RoutingTable", "root") {
						ok = true
					}
					if ft.Truth {
						if obj := core.ObjOf(f.Pkg, ft.Expr); obj != nil && nodeAdd != nil {
							for _, d := range core.DefsOf(f, obj) {
								if dc, isCall := core.Unparen(d).(*ast.CallExpr); isCall && core.Callee(f.Pkg, dc) == nodeAdd.Obj {
									ok = true
								}
							}
						}
					}
				}
				c.Check(ok, "count-follows-node-result", construct, call.Pos(), "route counter incremented without being control-dependent on `table empty` or on the became-new result of (*node).addPath")
			case "-1":
				ok := false
				for _, ft := range facts {
					if ft.Expr == nil || !ft.Truth {
						continue
					}
					if dc := core.CallOf(f, ft.Expr); dc != nil && nodeRemove != nil && core.Callee(f.Pkg, dc) == nodeRemove.Obj {
						ok = true
					}
					if obj := core.ObjOf(f.Pkg, ft.Expr); obj != nil && nodeRemove != nil {
						for _, d := range core.DefsOf(f, obj) {
							if dc, isCall := core.Unparen(d).(*ast.CallExpr); isCall && core.Callee(f.Pkg, dc) == nodeRemove.Obj {
								ok = true
							}
						}
					}
				}
				c.Check(ok, "count-follows-node-result", construct, call.Pos(), "route counter decremented without being control-dependent on the became-empty result of (*node).removePath")
			default:
				c.Fail("count-follows-node-result", construct, call.Pos(), "route counter changed by a delta other than ±1")
			}
			return true
		})
	}
	// the node operations report became-new / became-empty from the dummy flag / remaining path count
	if nodeAdd != nil {
		// the Equal branch must return the previous dummy flag
		okAdd := false
		ast.Inspect(nodeAdd.Decl.Body, func(n ast.Node) bool {
			ret, ok := n.(*ast.ReturnStmt)
			if !ok || len(ret.Results) != 2 {
				return true
			}
			if obj := core.ObjOf(nodeAdd.Pkg, ret.Results[1]); obj != nil {
				for _, d := range core.DefsOf(nodeAdd, obj) {
					if core.FieldOf(nodeAdd.Pkg, d) == dummyF {
						okAdd = true
					}
				}
			}
			if core.FieldOf(nodeAdd.Pkg, ret.Results[1]) == dummyF {
				okAdd = true
			}
			return true
		})
		c.Check(okAdd, "count-follows-node-result", nodeAdd.Name()+" became-new result", nodeAdd.Decl.Pos(), "no return of (*node).addPath reports the node's previous dummy flag as the became-new result: re-adding a prefix whose node was a dummy (or adding a second path) would mis-count")
	}
	// became-empty is reported only for a node that held a route: the non-recursive, non-constant result of
	// (*node).removePath must be under `!n.dummy`
	if nodeRemove != nil {
		recv := core.RecvObj(nodeRemove)
		n := 0
		ast.Inspect(nodeRemove.Decl.Body, func(nd ast.Node) bool {
			ret, ok := nd.(*ast.ReturnStmt)
			if !ok || len(ret.Results) != 1 {
				return true
			}
			if core.ConstOf(nodeRemove.Pkg, ret.Results[0]) != nil {
				return true
			}
			if call, isCall := core.Unparen(ret.Results[0]).(*ast.CallExpr); isCall && core.Callee(nodeRemove.Pkg, call) == nodeRemove.Obj {
				return true
			}
			n++
			ok2 := false
			for _, ft := range core.CtlFactsAt(nodeRemove, ret) {
				if ft.Expr == nil || ft.Truth {
					continue
				}
				if ds, isSel := core.Unparen(ft.Expr).(*ast.SelectorExpr); isSel && core.FieldOf(nodeRemove.Pkg, ds) == dummyF && core.ObjOf(nodeRemove.Pkg, ds.X) == recv {
					ok2 = true
				}
			}
			c.Check(ok2, "count-follows-node-result", fmt.Sprintf("%s became-empty result #%d only for a non-dummy node", nodeRemove.Name(), n), ret.Pos(),
				"(*node).removePath reports `last path removed` for a node without establishing that the node held a route (was not a dummy): removing at an interior node or removing an already removed prefix decrements the route counter although no stored prefix went away")
			return true
		})
		c.Check(n >= 1, "count-follows-node-result", nodeRemove.Name()+" reports became-empty", nodeRemove.Decl.Pos(), "(*node).removePath has no computed became-empty result")
	}
	// every call of the node operations from RoutingTable methods must use the result (one counter update per operation)
	for _, f := range p.MethodsOf(pkg, "RoutingTable") {
		if f.Decl.Body == nil {
			continue
		}
		parents := core.Parents(f.Decl.Body)
		for _, call := range core.CallsAll(f.Pkg, f.Decl.Body, func(g *types.Func) bool {
			return (nodeAdd != nil && g == nodeAdd.Obj) || (nodeRemove != nil && g == nodeRemove.Obj)
		}) {
			_, dropped := parents[call].(*ast.ExprStmt)
			c.Check(!dropped, "count-follows-node-result", f.Name()+" uses result of "+core.FuncKey(core.Callee(f.Pkg, call)), call.Pos(), "the became-new/became-empty result of a trie node operation is dropped, so the route counter cannot follow it")
		}
	}
}

func firstPos(a, b token.Pos) token.Pos {
	if a != token.NoPos {
		return a
	}
	return b
}
