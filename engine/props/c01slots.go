package props

import (
	"fmt"
	"go/ast"
	"go/types"

	"verif/engine/core"
)

// childSlotWrittenOncePerPath: a trie node has two child slots (l, h).  An operation that hangs subtrees below a node
// must not write the same slot of the same node twice on one path — the first subtree would drop out of the trie while
// the route count still includes it.  Writes are direct assignments `x.l = …` / `x.h = …` and calls of a helper on x
// whose body assigns a slot of its receiver chosen by a condition (then either slot may be written).  A second write
// whose right-hand side reads the slot (x.l = x.l.insert(…)) is an update, not an overwrite.  Reported are pairs with at
// least one helper call; two direct assignments under separate bit tests are out of this rule's reach.
func childSlotWrittenOncePerPath(c *core.Ctx) {
	const rule = "child-slot-written-once-per-path"
	p := c.P
	lF, hF := p.Field("routingtable", "node", "l"), p.Field("routingtable", "node", "h")
	if lF == nil || hF == nil {
		c.Check(false, rule, "node.l / node.h", 0, "fields not found")
		return
	}
	// helper summaries: slots of the receiver a method may write directly
	helper := map[*types.Func]map[*types.Var]bool{}
	for _, f := range p.MethodsOf("routingtable", "node") {
		if f.Decl.Body == nil {
			continue
		}
		recv := recvObj(f)
		ast.Inspect(f.Decl.Body, func(n ast.Node) bool {
			as, ok := n.(*ast.AssignStmt)
			if !ok {
				return true
			}
			for _, l := range as.Lhs {
				se, ok := core.Unparen(l).(*ast.SelectorExpr)
				if !ok {
					continue
				}
				fv := core.FieldOf(f.Pkg, se)
				if (fv == lF || fv == hF) && recv != nil && core.ObjOf(f.Pkg, se.X) == recv {
					if helper[f.Obj] == nil {
						helper[f.Obj] = map[*types.Var]bool{}
					}
					helper[f.Obj][fv] = true
				}
			}
			return true
		})
	}
	type ev struct {
		node  ast.Node
		base  types.Object
		slots map[*types.Var]bool
		reads bool
		desc  string
		call  bool
	}
	nEv := 0
	for _, f := range p.FuncsIn("routingtable") {
		if f.Decl.Body == nil || isTestFn(p, f) {
			continue
		}
		var evs []ev
		ast.Inspect(f.Decl.Body, func(n ast.Node) bool {
			switch x := n.(type) {
			case *ast.AssignStmt:
				for i, l := range x.Lhs {
					se, ok := core.Unparen(l).(*ast.SelectorExpr)
					if !ok {
						continue
					}
					fv := core.FieldOf(f.Pkg, se)
					if fv != lF && fv != hF {
						continue
					}
					base := core.ObjOf(f.Pkg, se.X)
					if base == nil {
						continue
					}
					reads := false
					if i < len(x.Rhs) {
						reads = core.NodeHas(x.Rhs[i], func(m ast.Node) bool {
							s2, ok := m.(*ast.SelectorExpr)
							return ok && core.FieldOf(f.Pkg, s2) == fv && core.ObjOf(f.Pkg, s2.X) == base
						})
					}
					evs = append(evs, ev{x, base, map[*types.Var]bool{fv: true}, reads, core.ExprString(l) + " = …", false})
				}
			case *ast.ExprStmt:
				call, ok := x.X.(*ast.CallExpr)
				if !ok {
					return true
				}
				se, ok := call.Fun.(*ast.SelectorExpr)
				if !ok {
					return true
				}
				cal := core.Callee(f.Pkg, call)
				if cal == nil || len(helper[cal]) < 2 {
					return true // a helper that can write either slot
				}
				base := core.ObjOf(f.Pkg, se.X)
				if base == nil {
					return true
				}
				evs = append(evs, ev{x, base, helper[cal], false, core.ExprString(call.Fun) + "(…)", true})
			}
			return true
		})
		if len(evs) < 2 {
			nEv += len(evs)
			continue
		}
		nEv += len(evs)
		c.Analysed(f)
		g := p.CFG(f)
		for i, a := range evs {
			for j, b := range evs {
				if i == j || a.base != b.base || b.reads {
					continue
				}
				// two direct assignments each under its own bit test (insertChildren places the old and the new node by
				// the bit in which they differ) cannot be related by this analysis and are left to C01's other rules
				if !a.call && !b.call {
					continue
				}
				common := false
				for s := range a.slots {
					if b.slots[s] {
						common = true
					}
				}
				if !common {
					continue
				}
				hits := core.PathAvoidingFrom(g,
					func(n ast.Node) bool { return n == a.node },
					func(ast.Node) bool { return false },
					func(n ast.Node) bool { return n == b.node })
				if i == j {
					continue
				}
				// a node following itself (loop) is not an overwrite of a different subtree in these functions
				c.Check(len(hits) == 0, rule, fmt.Sprintf("%s: %s then %s", f.Name(), a.desc, b.desc), b.node.Pos(),
					"on one path the same child slot of the same trie node can be written twice without the first value being read in between: the subtree attached first is lost from the trie (its prefixes no longer show up in exact, longest-match and subtree lookups) while the route count still includes them")
			}
		}
	}
	c.Check(nEv >= 6, rule, "child slot writes found", 0, fmt.Sprintf("found %d writes of node.l/node.h in package routingtable, floor 6", nEv))
}

// removalMatchesByFullComparison: the function that deletes one path from a route's path list identifies it with
// Path.Compare (attribute-exact).  Path.Equal / Path.Select only say "ties in best-path selection" (same identifier,
// same decision keys): with them a withdrawal deletes the first stored path that merely ties with the given one — the
// wrong path, or a stored path for a withdrawal of something never stored.
func removalMatchesByFullComparison(c *core.Ctx) {
	const rule = "removal-matches-by-full-comparison"
	p := c.P
	f := c.MustFunc("route.removePath")
	cmp := p.Func("route.(*Path).Compare")
	if f == nil || cmp == nil {
		return
	}
	c.Analysed(f)
	usesCompare, loose := false, ""
	for _, g := range p.ReachableFns(f) {
		if g.Decl.Body == nil || g.Pkg != f.Pkg || (g != f && g.Decl.Recv != nil) {
			continue // the function itself and the plain helper functions it calls
		}
		for _, call := range core.CallsAll(g.Pkg, g.Decl.Body, func(o *types.Func) bool { return core.RecvName(o) == "Path" }) {
			cal := core.Callee(g.Pkg, call)
			switch cal.Name() {
			case "Compare":
				usesCompare = true
			case "Equal", "Select", "ECMP":
				loose = cal.Name() + " in " + g.Name()
			}
		}
	}
	c.Check(usesCompare && loose == "", rule, f.Name()+" identifies the path to delete with Path.Compare", f.Decl.Pos(),
		"the path to delete from a route is identified with a tie test ("+loose+") instead of the attribute-exact Path.Compare: removing one of two paths that tie deletes the wrong one, and withdrawing a path that was never stored deletes a stored look-alike — the prefix's lookups then return something other than what was stored")
}
