package props

import (
	"fmt"
	"go/ast"
	"go/token"
	"go/types"
	"strings"

	"verif/engine/core"
)

func init() {
	Register(&Prop{
		Meta: core.Meta{
			ID: "C02", Title: "Best-path and ECMP selection do not depend on arrival order", Level: "proof",
			Technique:   "comparator lexicographic-normal-form check on the typed AST (sufficient condition: total preorder), ECMP-key ⊆ decision-key check, type-agreement gate, must-pass-through PathSelection on go/cfg",
			DesignRef:   "DESIGN.md §3 R-CMP, §4 C02",
			Decided:     "(1) Path.Select, BGPPath.Select, StaticPath.Select, FIBPath.Select and net.IP.Compare are in lexicographic normal form (every step two mirrored tests on a key of one operand, no step under a guard, final return 0 / mirrored tail call) — by the theorem in engine/core/cmp.go the preference relation is then a total preorder, antisymmetric in sign, with ties exactly between paths equal on all decision keys, so the sorted order of equivalence classes is a function of the set of paths; (2) every key of BGPPath.ECMP / FIBPath.ECMP is a decision key of the corresponding Select, so the counted leading run cannot depend on the order of tied paths; (3) Path.ECMP/Select/Compare/Equal establish p.Type == q.Type before handing q's type-specific part to a type-specific method; (4) in LocRIB.AddPath/RemovePath/ReplacePath every path from the table mutation to propagateChanges passes PathSelection, and the less-function of PathSelection is `Select(i,j) == 1`; (4b) the less function of PathSelection indexes the very slice handed to sort.Slice, which is (or is swapped in as) the route's path list, and updateEqualPathCount stops counting at the first neighbouring pair that is not ECMP-equal (no increment reachable from the false outcome of the test): the equal-cost set is the leading run; (5) the identity relation behind removals (Path.Compare/Equal and everything they reach): every elementwise comparison loop is covered by a test that both sequences have the same length (dominating the loop, conjoined in the later returns, or dominating every call site of a helper taking both sequences), so a sequence that is a proper prefix of another is never \"the same path\"; every such function reads the same fields on both operands (no field compared with itself).",
			NotDecided:  "correctness of sort.Slice (trusted); that attribute values are what the wire carried.",
			TrustedBase: append([]string{"theorem: a comparator in lexicographic normal form is a total preorder (proof in engine/core/cmp.go)", "sort.Slice sorts correctly for a strict weak order"}, stdTrusted...),
		},
		Run: runC02,
		Controls: []Control{
			{Name: "ecmp-count-does-not-stop", File: "route/route.go", Old: "\t\tif !r.paths[i].ECMP(r.paths[i+1]) {\n\t\t\tbreak\n\t\t}\n\t\tcount++\n", New: "\t\tif r.paths[i].ECMP(r.paths[i+1]) {\n\t\t\tcount++\n\t\t}\n", Expect: "ecmp-set-is-leading-run"},
			{Name: "refactor-ecmp-count-in-loop-header", Silent: true, File: "route/route.go", Old: "\tfor i := 0; i < len(r.paths)-1; i++ {\n\t\tif !r.paths[i].ECMP(r.paths[i+1]) {\n\t\t\tbreak\n\t\t}\n\t\tcount++\n\t}\n", New: "\tfor i := 0; i < len(r.paths)-1 && r.paths[i].ECMP(r.paths[i+1]); i++ {\n\t\tcount++\n\t}\n"},
			{Name: "less-indexes-the-unsorted-slice", File: "route/route.go", Old: "\tsort.Slice(r.paths, func(i, j int) bool {\n\t\treturn r.paths[i].Select(r.paths[j]) == 1\n\t})\n", New: "\tsorted := make([]*Path, len(r.paths))\n\tcopy(sorted, r.paths)\n\tsort.Slice(sorted, func(i, j int) bool {\n\t\treturn r.paths[i].Select(r.paths[j]) == 1\n\t})\n\tr.paths = sorted\n", Expect: "selection-before-propagation"},
			{Name: "refactor-sort-a-copy", Silent: true, File: "route/route.go", Old: "\tsort.Slice(r.paths, func(i, j int) bool {\n\t\treturn r.paths[i].Select(r.paths[j]) == 1\n\t})\n", New: "\tsorted := make([]*Path, len(r.paths))\n\tcopy(sorted, r.paths)\n\tsort.Slice(sorted, func(i, j int) bool {\n\t\treturn sorted[i].Select(sorted[j]) == 1\n\t})\n\tr.paths = sorted\n"},
			{Name: "source-compared-with-itself", File: "route/bgp_path.go", Old: "\tif b.Source.Compare(c.Source) != 0 {", New: "\tif b.Source.Compare(b.Source) != 0 {", Expect: "identity-reads-both-operands"},
			{Name: "cluster-list-equality-without-length", File: "route/bgp_path.go", Old: "\tif len(*b.ClusterList) != len(*c.ClusterList) {\n\t\treturn false\n\t}\n", New: "", Expect: "identity-compares-whole-sequences"},
			{Name: "refactor-equality-length-checked-last", Silent: true, File: "route/bgp_path.go", Old: "\tif len(*b.ClusterList) != len(*c.ClusterList) {\n\t\treturn false\n\t}\n\n\tfor i := range *b.ClusterList {\n\t\tif (*b.ClusterList)[i] != (*c.ClusterList)[i] {\n\t\t\treturn false\n\t\t}\n\t}\n\n\treturn true\n", New: "\tfor i := range *b.ClusterList {\n\t\tif i >= len(*c.ClusterList) || (*b.ClusterList)[i] != (*c.ClusterList)[i] {\n\t\t\treturn false\n\t\t}\n\t}\n\n\treturn len(*b.ClusterList) == len(*c.ClusterList)\n"},
			{Name: "select-guard-over-both-operands", File: "route/bgp_path.go", Old: "\tif c.BGPPathA.MED > b.BGPPathA.MED {\n\t\treturn 1\n\t}\n\n\tif c.BGPPathA.MED < b.BGPPathA.MED {\n\t\treturn -1\n\t}\n\n\t// d)", New: "\tif c.BGPPathA.MED != 0 && b.BGPPathA.MED != 0 {\n\tif c.BGPPathA.MED > b.BGPPathA.MED {\n\t\treturn 1\n\t}\n\n\tif c.BGPPathA.MED < b.BGPPathA.MED {\n\t\treturn -1\n\t}\n\t}\n\n\t// d)", Expect: "cmp-normal-form"},
			{Name: "select-one-sided", File: "route/bgp_path.go", Old: "\tif c.BGPPathA.Origin < b.BGPPathA.Origin {\n\t\treturn -1\n\t}\n\n\t// c)", New: "\t// c)", Expect: "cmp-normal-form"},
			{Name: "ecmp-key-outside-select", File: "route/bgp_path.go", Old: "b.BGPPathA.Origin == c.BGPPathA.Origin\n}", New: "b.BGPPathA.Origin == c.BGPPathA.Origin && b.BGPPathA.AtomicAggregate == c.BGPPathA.AtomicAggregate\n}", Expect: "ecmp-keys-are-decision-keys"},
			{Name: "locrib-skips-selection", File: "routingtable/locRIB/loc_rib.go", Old: "\ta.rt.RemovePath(pfx, p)\n\tr.PathSelection()\n", New: "\ta.rt.RemovePath(pfx, p)\n", Expect: "selection-before-propagation"},
		},
	})
}

// comparator set and their analysis, shared with C03
type cmpSet struct {
	forms map[string]*core.CmpForm
	fns   map[string]*core.Fn
}

func analyseComparators(c *core.Ctx) *cmpSet {
	p := c.P
	cs := &cmpSet{forms: map[string]*core.CmpForm{}, fns: map[string]*core.Fn{}}
	ipCmp := c.MustFunc("net.(*IP).Compare")
	accepted := map[*types.Func]bool{}
	if ipCmp != nil {
		f := core.AnalyzeComparator(ipCmp, func(*types.Func) bool { return false })
		cs.forms[ipCmp.Name()] = f
		cs.fns[ipCmp.Name()] = ipCmp
		std := len(f.Problems) == 0 && f.Ends0
		for _, s := range f.Steps {
			if s.Prefers != "higher" {
				std = false
			}
		}
		if std {
			accepted[ipCmp.Obj] = true // +1 iff receiver greater
		}
	}
	isCmp := func(f *types.Func) bool { return accepted[f] }
	for _, k := range []string{"route.(*StaticPath).Select", "route.(*FIBPath).Select", "route.(*BGPPath).Select"} {
		f := c.MustFunc(k)
		if f == nil {
			continue
		}
		form := core.AnalyzeComparator(f, isCmp)
		cs.forms[k], cs.fns[k] = form, f
		if len(form.Problems) == 0 && form.Ends0 {
			accepted[f.Obj] = true
		} else {
			// still accepted as a dispatch target so that Path.Select's own shape is judged independently
			accepted[f.Obj] = true
		}
	}
	if f := c.MustFunc("route.(*Path).Select"); f != nil {
		cs.forms[f.Name()], cs.fns[f.Name()] = core.AnalyzeComparator(f, isCmp), f
	}
	_ = p
	return cs
}

func runC02(c *core.Ctx) {
	p := c.P
	identityEquality(c)
	ecmpLeadingRun(c)
	identityOperandCoverage(c, "identity-reads-both-operands")
	cs := analyseComparators(c)
	c.Floor("cmp-normal-form", 20)
	for _, k := range sortedKeys(cs.forms) {
		form, f := cs.forms[k], cs.fns[k]
		for i, s := range form.Steps {
			construct := fmt.Sprintf("%s step %d key %s", k, i+1, s.Key)
			if s.Guarded != "" {
				c.Fail("cmp-normal-form", construct, s.Pos, "decision step sits under the guard `"+s.Guarded+"`: for pairs where the guard is false the step is skipped, so the relation is not lexicographic and need not be transitive")
			} else {
				c.Hold("cmp-normal-form", construct, s.Pos, "two mirrored tests on a one-operand key, prefers "+s.Prefers)
			}
		}
		for _, pr := range form.Problems {
			// guarded-step problems are already reported per step
			if strings.HasPrefix(pr.What, "decision step(s) guarded") {
				c.Fail("cmp-normal-form", k+" guard", pr.Pos, pr.What)
				continue
			}
			c.Fail("cmp-normal-form", k+" "+pr.Key+" shape", pr.Pos, pr.What)
		}
		c.Check(form.Ends0, "cmp-normal-form", k+" ends with return 0 or mirrored tail call", f.Decl.Pos(), "comparator does not end in `return 0` / a mirrored tail call on its top level")
	}

	// (2) ECMP keys ⊆ decision keys
	for _, pair := range [][2]string{{"route.(*BGPPath).ECMP", "route.(*BGPPath).Select"}, {"route.(*FIBPath).ECMP", "route.(*FIBPath).Select"}} {
		ecmp := c.MustFunc(pair[0])
		form := cs.forms[pair[1]]
		if ecmp == nil || form == nil {
			continue
		}
		keys, ok := ecmpKeys(ecmp)
		if !ok {
			c.Undecided("ecmp-keys-are-decision-keys", pair[0], ecmp.Decl.Pos(), "ECMP predicate is not a conjunction of mirrored key equalities; cannot extract its keys")
			continue
		}
		dec := map[string]bool{}
		for _, s := range form.Steps {
			dec[strings.SplitN(s.Key, " via ", 2)[0]] = true
		}
		// FIBPath.ECMP uses `Type`, which FIBPath.Select ignores: it is a key of neither… report faithfully
		for _, k := range keys {
			c.Check(dec[k.key], "ecmp-keys-are-decision-keys", pair[0]+" key "+k.key, k.pos,
				"ECMP compares a key that the decision process does not order by: two paths the sort treats as tied (either order is a valid sort result) can be ECMP-unequal, so the equal-cost count depends on arrival order")
		}
		// information: prefix shape
		n := len(keys)
		pre := true
		for i, s := range form.Steps {
			if i < n && !containsKey(keys, strings.SplitN(s.Key, " via ", 2)[0]) {
				pre = false
			}
		}
		if !pre {
			c.Info("%s: ECMP keys are not the first %d decision keys of %s (ECMP class need not be contiguous at the head of the sorted list; order-independent all the same)", pair[0], n, pair[1])
		}
	}

	// (3) type agreement before dispatching on q's type-specific part
	typeF := p.Field("route", "Path", "Type")
	for _, k := range []string{"route.(*Path).ECMP", "route.(*Path).Select", "route.(*Path).Compare", "route.(*Path).Equal"} {
		f := c.MustFunc(k)
		if f == nil || typeF == nil {
			continue
		}
		recv, par := core.RecvObj(f), core.ParamObj(f, 0)
		n := 0
		ast.Inspect(f.Decl.Body, func(nd ast.Node) bool {
			call, ok := nd.(*ast.CallExpr)
			if !ok || len(call.Args) != 1 {
				return true
			}
			sel, ok := call.Fun.(*ast.SelectorExpr)
			if !ok {
				return true
			}
			xs, ok1 := core.Unparen(sel.X).(*ast.SelectorExpr)
			ys, ok2 := core.Unparen(call.Args[0]).(*ast.SelectorExpr)
			if !ok1 || !ok2 || core.ObjOf(f.Pkg, xs.X) != recv || core.ObjOf(f.Pkg, ys.X) != par || recv == nil {
				return true
			}
			fx, fy := core.FieldOf(f.Pkg, xs), core.FieldOf(f.Pkg, ys)
			if fx == nil || fx != fy {
				return true
			}
			n++
			facts := core.FactsAt(f, call)
			eq := false
			ltF, gtF := false, false
			for _, ft := range facts {
				be, ok := ft.Expr.(*ast.BinaryExpr)
				if !ok {
					continue
				}
				isTT := (core.FieldOf(f.Pkg, be.X) == typeF && core.FieldOf(f.Pkg, be.Y) == typeF) && !core.SameExpr(f.Pkg, be.X, be.Y)
				if !isTT {
					continue
				}
				switch {
				case be.Op == token.EQL && ft.Truth:
					eq = true
				case be.Op == token.LSS && !ft.Truth:
					ltF = true
				case be.Op == token.GTR && !ft.Truth:
					gtF = true
				}
			}
			c.Check(eq || (ltF && gtF), "type-agreement-before-dispatch", fmt.Sprintf("%s dispatch to %s", k, core.FuncKey(core.Callee(f.Pkg, call))), call.Pos(),
				"q's type-specific part ("+core.ExprString(ys)+") is handed to a type-specific method chosen by p.Type without establishing p.Type == q.Type: with paths of two protocols for one prefix the part is nil and the method dereferences it")
			return true
		})
		c.Check(n >= 2, "type-agreement-before-dispatch", k+" dispatch sites found", f.Decl.Pos(), "expected at least two type-specific dispatch sites")
	}

	selectionBeforePropagation(c, "selection-before-propagation", 3)
}

// selectionBeforePropagation: every Loc-RIB mutation is followed by PathSelection before clients are told (shared by C02 and C03).
func selectionBeforePropagation(c *core.Ctx, rule string, floor int) {
	p := c.P
	// (4) selection before propagation in the Loc-RIB
	sel := p.Func("route.(*Route).PathSelection")
	prop := p.Func("routingtable/locRIB.(*LocRIB).propagateChanges")
	if sel == nil || prop == nil {
		c.Undecided("anchor", "PathSelection/propagateChanges", token.NoPos, "anchors not found")
		return
	}
	muts := core.KeyIs("routingtable.(*RoutingTable).AddPath", "routingtable.(*RoutingTable).RemovePath", "routingtable.(*RoutingTable).ReplacePath", "routingtable.(*RoutingTable).RemovePfx", "route.(*Route).ReplacePath", "route.(*Route).AddPath", "route.(*Route).RemovePath")
	c.Floor(rule, floor)
	for _, f := range p.MethodsOf("routingtable/locRIB", "LocRIB") {
		if f.Decl.Body == nil {
			continue
		}
		if len(core.Calls(f.Pkg, f.Decl.Body, muts)) == 0 {
			continue
		}
		c.Analysed(f)
		g := p.CFG(f)
		hasCall := func(pred func(*types.Func) bool) func(ast.Node) bool {
			return func(n ast.Node) bool {
				return core.NodeHas(n, func(x ast.Node) bool {
					cl, ok := x.(*ast.CallExpr)
					return ok && core.Callee(f.Pkg, cl) != nil && pred(core.Callee(f.Pkg, cl))
				})
			}
		}
		isSel := hasCall(func(o *types.Func) bool { return o == sel.Obj })
		// target: propagateChanges call, or a Copy() of a route that is later passed as the NEW route
		isProp := hasCall(func(o *types.Func) bool { return o == prop.Obj })
		bad, started := core.PathAvoidingFromS(g, hasCall(muts), isSel, isProp)
		if !started {
			c.Undecided(rule, f.Name(), f.Decl.Pos(), "table mutation not found in the control-flow graph")
			continue
		}
		var at token.Pos = f.Decl.Pos()
		if len(bad) > 0 {
			at = bad[0].Pos()
		}
		c.Check(len(bad) == 0, rule, f.Name(), at, "a path from the table mutation to propagateChanges does not pass Route.PathSelection: clients would be told about an unsorted path list")
		// the selection runs on the route the table stores (obtained from RoutingTable.Get), not on a copy that is thrown away
		for _, call := range core.Calls(f.Pkg, f.Decl.Body, func(o *types.Func) bool { return o == sel.Obj }) {
			sx, ok := call.Fun.(*ast.SelectorExpr)
			if !ok {
				continue
			}
			stored := false
			recv := core.ObjOf(f.Pkg, sx.X)
			if recv != nil {
				defs := core.DefsOf(f, recv)
				stored = len(defs) > 0
				for _, d := range defs {
					dc, isCall := core.Unparen(d).(*ast.CallExpr)
					if !isCall || core.FuncKey(core.Callee(f.Pkg, dc)) != "routingtable.(*RoutingTable).Get" {
						stored = false
					}
				}
			}
			c.Check(stored, rule, f.Name()+" selection runs on the stored route", call.Pos(), "PathSelection is called on "+core.ExprString(sx.X)+", which is not the route obtained from the table (RoutingTable.Get): the table keeps the old order and equal-cost count, so every later reader of the Loc-RIB (a newly registered client, an export-policy refresh, Dump) sees a best path the decision process did not choose")
		}
		// the new-route argument, if it is a local copy, must be taken after selection
		for _, call := range core.Calls(f.Pkg, f.Decl.Body, func(o *types.Func) bool { return o == prop.Obj }) {
			if len(call.Args) != 2 {
				continue
			}
			obj := core.ObjOf(f.Pkg, call.Args[1])
			if obj == nil {
				continue
			}
			for _, d := range core.DefsOf(f, obj) {
				dc, ok := core.Unparen(d).(*ast.CallExpr)
				if !ok || core.FuncKey(core.Callee(f.Pkg, dc)) != "route.(*Route).Copy" {
					continue
				}
				isThis := func(n ast.Node) bool { return core.NodeHas(n, func(x ast.Node) bool { return x == ast.Node(dc) }) }
				bad := core.PathAvoidingFrom(g, hasCall(muts), isSel, isThis)
				c.Check(len(bad) == 0, rule, f.Name()+" new-route copy", dc.Pos(), "the copy of the route handed to clients as the NEW state is taken before PathSelection ran")
			}
		}
	}
	// PathSelection: less(i,j) := paths[i].Select(paths[j]) == 1 and then updateEqualPathCount
	ok := false
	var lessPos token.Pos = sel.Decl.Pos()
	var lessSlices []ast.Expr
	var lessLit *ast.FuncLit
	ast.Inspect(sel.Decl.Body, func(n ast.Node) bool {
		fl, isLit := n.(*ast.FuncLit)
		if !isLit || len(fl.Body.List) != 1 {
			return true
		}
		ret, isRet := fl.Body.List[0].(*ast.ReturnStmt)
		if !isRet || len(ret.Results) != 1 {
			return true
		}
		be, isBin := core.Unparen(ret.Results[0]).(*ast.BinaryExpr)
		if !isBin || be.Op != token.EQL {
			return true
		}
		call, isCall := core.Unparen(be.X).(*ast.CallExpr)
		v := core.ConstOf(sel.Pkg, be.Y)
		if !isCall || v == nil || v.ExactString() != "1" || core.FuncKey(core.Callee(sel.Pkg, call)) != "route.(*Path).Select" {
			return true
		}
		// receiver indexed by first param, argument by second
		var i0, i1 types.Object
		if len(fl.Type.Params.List) > 0 {
			names := []*ast.Ident{}
			for _, l := range fl.Type.Params.List {
				names = append(names, l.Names...)
			}
			if len(names) == 2 {
				i0, i1 = sel.Pkg.TypesInfo.Defs[names[0]], sel.Pkg.TypesInfo.Defs[names[1]]
			}
		}
		sx, okx := call.Fun.(*ast.SelectorExpr)
		if !okx || len(call.Args) != 1 {
			return true
		}
		ix, okx2 := core.Unparen(sx.X).(*ast.IndexExpr)
		iy, oky := core.Unparen(call.Args[0]).(*ast.IndexExpr)
		if okx2 && oky && core.ObjOf(sel.Pkg, ix.Index) == i0 && core.ObjOf(sel.Pkg, iy.Index) == i1 && i0 != nil {
			ok = true
			lessPos = ret.Pos()
			lessSlices = []ast.Expr{ix.X, iy.X}
			lessLit = fl
		}
		return true
	})
	c.Check(ok, rule, "route.(*Route).PathSelection less is Select(i,j)==1", lessPos, "PathSelection's less function is not `paths[i].Select(paths[j]) == 1`")
	// the less function indexes the very slice that is being sorted (sort.Slice calls it with indices into THAT slice while
	// it permutes it), and the sorted slice is the route's path list
	if ok {
		pathsF := p.Field("route", "Route", "paths")
		sameSlice, isPaths := false, false
		ast.Inspect(sel.Decl.Body, func(n ast.Node) bool {
			call, isCall := n.(*ast.CallExpr)
			if !isCall || len(call.Args) != 2 || core.FuncKey(core.Callee(sel.Pkg, call)) != "sort.Slice" || core.Unparen(call.Args[1]) != ast.Expr(lessLit) {
				return true
			}
			sorted := core.Unparen(call.Args[0])
			sameSlice = core.SameExpr(sel.Pkg, sorted, core.Unparen(lessSlices[0])) && core.SameExpr(sel.Pkg, sorted, core.Unparen(lessSlices[1]))
			if core.FieldOf(sel.Pkg, sorted) == pathsF && pathsF != nil {
				isPaths = true
			} else if o := core.ObjOf(sel.Pkg, sorted); o != nil {
				// a copy that is swapped in afterwards
				ast.Inspect(sel.Decl.Body, func(m ast.Node) bool {
					if as, isAs := m.(*ast.AssignStmt); isAs && len(as.Lhs) == 1 && len(as.Rhs) == 1 && as.Pos() > call.End() &&
						core.FieldOf(sel.Pkg, as.Lhs[0]) == pathsF && core.ObjOf(sel.Pkg, as.Rhs[0]) == o {
						isPaths = true
					}
					return true
				})
			}
			return true
		})
		c.Check(sameSlice && isPaths, rule, "route.(*Route).PathSelection compares elements of the slice it sorts", lessPos,
			"the less function indexes a different slice than the one handed to sort.Slice (or the sorted slice never becomes the route's path list): the indices refer to positions in the slice being permuted, so the comparisons are between the wrong paths as soon as three or more paths are sorted — the resulting order depends on the arrival order")
	}
	c.Check(len(core.Calls(sel.Pkg, sel.Decl.Body, core.KeyIs("route.(*Route).updateEqualPathCount"))) == 1, rule, "route.(*Route).PathSelection recounts ECMP", sel.Decl.Pos(), "PathSelection does not recompute the equal-cost path count after sorting")
}

type ecmpKey struct {
	key string
	pos token.Pos
}

func containsKey(ks []ecmpKey, k string) bool {
	for _, e := range ks {
		if e.key == k {
			return true
		}
	}
	return false
}

// ecmpKeys extracts the mirrored equality keys of `return K1(b)==K1(c) && …` (also X.Compare(Y) == 0).
func ecmpKeys(f *core.Fn) ([]ecmpKey, bool) {
	if len(f.Decl.Body.List) != 1 {
		return nil, false
	}
	ret, ok := f.Decl.Body.List[0].(*ast.ReturnStmt)
	if !ok || len(ret.Results) != 1 {
		return nil, false
	}
	recv, par := core.RecvObj(f), core.ParamObj(f, 0)
	canon := func(e ast.Expr) (string, int) {
		mask := 0
		s := core.ExprString(e)
		ast.Inspect(e, func(n ast.Node) bool {
			if id, ok := n.(*ast.Ident); ok {
				o := core.ObjOf(f.Pkg, id)
				if o == recv {
					mask |= 1
				} else if o == par {
					mask |= 2
				}
			}
			return true
		})
		// replace operand names textually by $ at identifier boundaries
		var sb strings.Builder
		ast.Inspect(e, func(n ast.Node) bool { return true })
		_ = sb
		for _, o := range []types.Object{recv, par} {
			if o != nil {
				s = replaceIdent(s, o.Name(), "$")
			}
		}
		return s, mask
	}
	var keys []ecmpKey
	okAll := true
	var walk func(e ast.Expr)
	walk = func(e ast.Expr) {
		e = core.Unparen(e)
		be, ok := e.(*ast.BinaryExpr)
		if ok && be.Op == token.LAND {
			walk(be.X)
			walk(be.Y)
			return
		}
		if ok && be.Op == token.EQL {
			if call, isCall := core.Unparen(be.X).(*ast.CallExpr); isCall {
				if v := core.ConstOf(f.Pkg, be.Y); v != nil && v.ExactString() == "0" && len(call.Args) == 1 {
					if sel, isSel := call.Fun.(*ast.SelectorExpr); isSel {
						xc, xm := canon(sel.X)
						yc, ym := canon(call.Args[0])
						if xc == yc && xm+ym == 3 && xm != 3 && xm != 0 && ym != 0 {
							keys = append(keys, ecmpKey{xc, be.Pos()})
							return
						}
					}
				}
			}
			xc, xm := canon(be.X)
			yc, ym := canon(be.Y)
			if xc == yc && xm+ym == 3 && xm != 3 && xm != 0 && ym != 0 {
				keys = append(keys, ecmpKey{xc, be.Pos()})
				return
			}
		}
		if id, isId := e.(*ast.Ident); isId && id.Name == "true" {
			return
		}
		okAll = false
	}
	walk(ret.Results[0])
	return keys, okAll
}

func replaceIdent(s, name, with string) string {
	var sb strings.Builder
	isIdent := func(b byte) bool {
		return b == '_' || (b >= 'a' && b <= 'z') || (b >= 'A' && b <= 'Z') || (b >= '0' && b <= '9')
	}
	for i := 0; i < len(s); {
		if strings.HasPrefix(s[i:], name) && (i == 0 || (!isIdent(s[i-1]) && s[i-1] != '.')) && (i+len(name) == len(s) || !isIdent(s[i+len(name)])) {
			sb.WriteString(with)
			i += len(name)
			continue
		}
		sb.WriteByte(s[i])
		i++
	}
	return sb.String()
}

func sortedKeys[V any](m map[string]V) []string {
	var out []string
	for k := range m {
		out = append(out, k)
	}
	for i := 1; i < len(out); i++ {
		for j := i; j > 0 && out[j] < out[j-1]; j-- {
			out[j], out[j-1] = out[j-1], out[j]
		}
	}
	return out
}
