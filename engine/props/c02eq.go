package props

import (
	"fmt"
	"go/ast"
	"go/token"
	"go/types"
	"golang.org/x/tools/go/cfg"
	"sort"

	"verif/engine/core"
)

// identityEquality: the relation that finds "the same path" (route.(*Path).Compare / Equal, used to withdraw a path and
// to detect a change on policy replacement) compares sequences element by element.  Such a loop walks ONE operand;
// it decides equality only if both operands have the same length.  Rule: every elementwise loop in the functions
// reachable from the identity relation is covered by a length-equality test of the two sequences – dominating the loop,
// conjoined in every later non-false return, or (when both sequences are parameters) dominating every call site.
func identityEquality(c *core.Ctx) {
	p := c.P
	const rule = "identity-compares-whole-sequences"
	c.Floor(rule, 5)
	var roots []*core.Fn
	for _, k := range []string{"route.(*Path).Compare", "route.(*Path).Equal"} {
		if f := c.MustFunc(k); f != nil {
			roots = append(roots, f)
		}
	}
	for _, f := range p.ReachableFns(roots...) {
		if f.Decl.Body == nil || !returnsBool(f) {
			continue
		}
		ast.Inspect(f.Decl.Body, func(n ast.Node) bool {
			x, idx, body := elementLoop(f, n)
			if x == nil {
				return true
			}
			for _, y := range otherIndexed(f, body, idx, x) {
				c.Analysed(f)
				construct := fmt.Sprintf("%s walks %s against %s", f.Name(), core.ExprString(x), core.ExprString(y))
				ok, why := lengthCovered(c, f, n.(ast.Stmt), x, y)
				c.Check(ok, rule, construct, n.Pos(), "the elementwise comparison walks one sequence only and "+why+": a sequence that is a proper prefix of the other compares as the same path, so withdrawing one path removes another and the result depends on the order of additions and removals")
			}
			return true
		})
	}
}

func returnsBool(f *core.Fn) bool {
	sig := f.Obj.Type().(*types.Signature)
	if sig.Results().Len() != 1 {
		return false
	}
	b, ok := sig.Results().At(0).Type().Underlying().(*types.Basic)
	return ok && b.Kind() == types.Bool
}

// elementLoop recognises `for i := range X` and `for i := 0; i < len(X); i++`; returns X, the index object and the body.
func elementLoop(f *core.Fn, n ast.Node) (ast.Expr, types.Object, *ast.BlockStmt) {
	switch l := n.(type) {
	case *ast.RangeStmt:
		if l.Key == nil {
			return nil, nil, nil
		}
		id, ok := l.Key.(*ast.Ident)
		if !ok || id.Name == "_" {
			return nil, nil, nil
		}
		t := f.Pkg.TypesInfo.TypeOf(l.X)
		if t == nil {
			return nil, nil, nil
		}
		switch u := t.Underlying().(type) {
		case *types.Slice, *types.Array:
		case *types.Pointer:
			if _, ok := u.Elem().Underlying().(*types.Array); !ok {
				return nil, nil, nil
			}
		default:
			return nil, nil, nil
		}
		return l.X, f.Pkg.TypesInfo.ObjectOf(id), l.Body
	case *ast.ForStmt:
		be, ok := l.Cond.(*ast.BinaryExpr)
		if !ok || be.Op != token.LSS {
			return nil, nil, nil
		}
		id, ok := core.Unparen(be.X).(*ast.Ident)
		if !ok {
			return nil, nil, nil
		}
		call, ok := core.Unparen(be.Y).(*ast.CallExpr)
		if !ok || len(call.Args) != 1 {
			return nil, nil, nil
		}
		if fn, ok := call.Fun.(*ast.Ident); !ok || fn.Name != "len" {
			return nil, nil, nil
		}
		return call.Args[0], f.Pkg.TypesInfo.ObjectOf(id), l.Body
	}
	return nil, nil, nil
}

// otherIndexed: sequences other than x that the body indexes with the loop index in a comparison context.
func otherIndexed(f *core.Fn, body *ast.BlockStmt, idx types.Object, x ast.Expr) []ast.Expr {
	var out []ast.Expr
	seen := map[string]bool{}
	ast.Inspect(body, func(n ast.Node) bool {
		ie, ok := n.(*ast.IndexExpr)
		if !ok {
			return true
		}
		if id, ok := core.Unparen(ie.Index).(*ast.Ident); !ok || f.Pkg.TypesInfo.ObjectOf(id) != idx {
			return true
		}
		y := core.Unparen(ie.X)
		if core.SameExpr(f.Pkg, y, core.Unparen(x)) {
			return true
		}
		if k := core.ExprString(y); !seen[k] {
			seen[k] = true
			out = append(out, y)
		}
		return true
	})
	return out
}

func isLenOf(f *core.Fn, e ast.Expr, x ast.Expr) bool {
	call, ok := core.Unparen(e).(*ast.CallExpr)
	if !ok || len(call.Args) != 1 {
		return false
	}
	if fn, ok := call.Fun.(*ast.Ident); !ok || fn.Name != "len" {
		return false
	}
	return core.SameExpr(f.Pkg, core.Unparen(call.Args[0]), core.Unparen(x))
}

// lenEqExpr: e is (or conjoins) len(x) == len(y) when wantTrue, or is len(x) != len(y) when !wantTrue.
func lenEqExpr(f *core.Fn, e ast.Expr, x, y ast.Expr, wantTrue bool) bool {
	be, ok := core.Unparen(e).(*ast.BinaryExpr)
	if !ok {
		return false
	}
	if wantTrue && be.Op == token.LAND {
		return lenEqExpr(f, be.X, x, y, true) || lenEqExpr(f, be.Y, x, y, true)
	}
	if !wantTrue && be.Op == token.LOR {
		// ¬(a || b) gives ¬a and ¬b
		return lenEqExpr(f, be.X, x, y, false) || lenEqExpr(f, be.Y, x, y, false)
	}
	op := token.EQL
	if !wantTrue {
		op = token.NEQ
	}
	if be.Op != op {
		return false
	}
	return (isLenOf(f, be.X, x) && isLenOf(f, be.Y, y)) || (isLenOf(f, be.X, y) && isLenOf(f, be.Y, x))
}

func lenEqFact(f *core.Fn, at ast.Node, x, y ast.Expr) bool {
	for _, ft := range core.FactsAt(f, at) {
		if ft.Expr == nil {
			continue
		}
		if lenEqExpr(f, ft.Expr, x, y, ft.Truth) {
			return true
		}
	}
	return false
}

func lengthCovered(c *core.Ctx, f *core.Fn, loop ast.Stmt, x, y ast.Expr) (bool, string) {
	if lenEqFact(f, loop, x, y) {
		return true, ""
	}
	// every later return that can yield true conjoins the length equality
	later := true
	nRet := 0
	ast.Inspect(f.Decl.Body, func(n ast.Node) bool {
		if _, ok := n.(*ast.FuncLit); ok {
			return false
		}
		r, ok := n.(*ast.ReturnStmt)
		if !ok || r.Pos() < loop.End() || len(r.Results) != 1 {
			return true
		}
		if id, ok := core.Unparen(r.Results[0]).(*ast.Ident); ok && id.Name == "false" {
			return true
		}
		nRet++
		if !lenEqExpr(f, r.Results[0], x, y, true) && !lenEqFact(f, r, x, y) {
			later = false
		}
		return true
	})
	if later && nRet > 0 {
		return true, ""
	}
	// both sequences are parameters (or the receiver): the obligation moves to every call site
	px, py := paramIndex(f, x), paramIndex(f, y)
	if px < 0 || py < 0 {
		return false, "no test that both sequences have the same length covers it"
	}
	sites := 0
	for _, g := range c.P.AllFuncs() {
		if g.Decl.Body == nil {
			continue
		}
		for _, call := range core.CallsAll(g.Pkg, g.Decl.Body, func(o *types.Func) bool { return o == f.Obj }) {
			sites++
			ax, ay := callArg(call, f, px), callArg(call, f, py)
			if ax == nil || ay == nil {
				return false, "a call site passes the sequences in a form the rule cannot follow (" + c.P.Pos(call.Pos()) + ")"
			}
			if lenEqFact(g, call, ax, ay) {
				continue
			}
			// `return len(a) == len(b) && helper(a, b)`
			covered := false
			for _, anc := range core.PathTo(g.Decl.Body, call) {
				if be, ok := anc.(*ast.BinaryExpr); ok && be.Op == token.LAND && lenEqExpr(g, be, ax, ay, true) {
					covered = true
				}
			}
			if !covered {
				return false, "its caller " + g.Name() + " (" + c.P.Pos(call.Pos()) + ") does not establish that both sequences have the same length"
			}
		}
	}
	if sites == 0 {
		return true, ""
	}
	return true, ""
}

// paramIndex: index of the parameter e names (after stripping a dereference); -2 = not a parameter; receiver = -1 is not supported (returns -2).
func paramIndex(f *core.Fn, e ast.Expr) int {
	e = core.Unparen(e)
	if st, ok := e.(*ast.StarExpr); ok {
		e = core.Unparen(st.X)
	}
	id, ok := e.(*ast.Ident)
	if !ok {
		return -2
	}
	o := f.Pkg.TypesInfo.ObjectOf(id)
	sig := f.Obj.Type().(*types.Signature)
	for i := 0; i < sig.Params().Len(); i++ {
		if sig.Params().At(i) == o {
			return i
		}
	}
	return -2
}

func callArg(call *ast.CallExpr, f *core.Fn, i int) ast.Expr {
	if i < 0 || i >= len(call.Args) || call.Ellipsis.IsValid() {
		return nil
	}
	return core.Unparen(call.Args[i])
}

// identityOperandCoverage: every function of the identity relation that takes "the other one" as its argument reads the
// same fields of both operands.  A field read twice on the receiver and never on the argument (b.Source.Compare(b.Source))
// is a comparison of a value with itself: the relation no longer distinguishes paths by that field.
func identityOperandCoverage(c *core.Ctx, rule string) {
	p := c.P
	c.Floor(rule, 6)
	var roots []*core.Fn
	for _, k := range []string{"route.(*Path).Compare", "route.(*Path).Equal"} {
		if f := c.MustFunc(k); f != nil {
			roots = append(roots, f)
		}
	}
	named := func(t types.Type) *types.Named {
		if pt, ok := t.(*types.Pointer); ok {
			t = pt.Elem()
		}
		n, _ := t.(*types.Named)
		return n
	}
	for _, f := range p.ReachableFns(roots...) {
		if f.Decl.Body == nil || f.Decl.Recv == nil {
			continue
		}
		sig := f.Obj.Type().(*types.Signature)
		recv := recvObj(f)
		if recv == nil || sig.Params().Len() != 1 {
			continue
		}
		param := types.Object(sig.Params().At(0))
		nt := named(recv.Type())
		if nt == nil || named(param.Type()) != nt {
			continue
		}
		if _, isStruct := nt.Underlying().(*types.Struct); !isStruct {
			continue
		}
		c.Analysed(f)
		reads := map[types.Object]map[*types.Var]token.Pos{recv: {}, param: {}}
		ast.Inspect(f.Decl.Body, func(n ast.Node) bool {
			sel, ok := n.(*ast.SelectorExpr)
			if !ok {
				return true
			}
			fv := core.FieldOf(f.Pkg, sel)
			if fv == nil {
				return true
			}
			if m, ok := reads[core.ObjOf(f.Pkg, sel.X)]; ok {
				if _, seen := m[fv]; !seen {
					m[fv] = sel.Pos()
				}
			}
			return true
		})
		all := map[*types.Var]bool{}
		for fv := range reads[recv] {
			all[fv] = true
		}
		for fv := range reads[param] {
			all[fv] = true
		}
		var names []string
		byName := map[string]*types.Var{}
		for fv := range all {
			names = append(names, fv.Name())
			byName[fv.Name()] = fv
		}
		sort.Strings(names)
		for _, nm := range names {
			fv := byName[nm]
			pr, okR := reads[recv][fv]
			pp, okP := reads[param][fv]
			pos := pr
			if !okR {
				pos = pp
			}
			missing := param.Name()
			if !okR {
				missing = recv.Name()
			}
			c.Check(okR && okP, rule, f.Name()+" reads "+nm+" of both operands", pos,
				"field "+nm+" is read on one operand only (never on `"+missing+"`): it is compared with itself or not at all, so two paths that differ in it are `the same path` — withdrawing one removes the other")
		}
	}
}

// ecmpLeadingRun: the equal-cost set is the LEADING run of the sorted path list: counting stops at the first neighbour
// pair that is not ECMP-equal.  Rule on the control-flow graph of updateEqualPathCount: from the false outcome of the
// ECMP test no increment of the counter is reachable any more.
func ecmpLeadingRun(c *core.Ctx) {
	const rule = "ecmp-set-is-leading-run"
	p := c.P
	c.Floor(rule, 1)
	f := c.MustFunc("route.(*Route).updateEqualPathCount")
	ecmpFn := p.Func("route.(*Path).ECMP")
	cntF := p.Field("route", "Route", "ecmpPaths")
	if f == nil || ecmpFn == nil || cntF == nil {
		return
	}
	c.Analysed(f)
	// the local counter stored into ecmpPaths
	var counter types.Object
	ast.Inspect(f.Decl.Body, func(n ast.Node) bool {
		if as, ok := n.(*ast.AssignStmt); ok && len(as.Lhs) == 1 && len(as.Rhs) == 1 && core.FieldOf(f.Pkg, as.Lhs[0]) == cntF {
			if o := core.ObjOf(f.Pkg, as.Rhs[0]); o != nil {
				counter = o
			}
		}
		return true
	})
	if counter == nil {
		c.Undecided(rule, f.Name(), f.Decl.Pos(), "no local counter stored into Route.ecmpPaths")
		return
	}
	isInc := func(n ast.Node) bool {
		switch x := n.(type) {
		case *ast.IncDecStmt:
			return x.Tok == token.INC && core.ObjOf(f.Pkg, x.X) == counter
		case *ast.AssignStmt:
			if len(x.Lhs) == 1 && core.ObjOf(f.Pkg, x.Lhs[0]) == counter && (x.Tok == token.ADD_ASSIGN || (x.Tok == token.ASSIGN && core.NodeHas(x.Rhs[0], func(m ast.Node) bool { id, ok := m.(*ast.Ident); return ok && f.Pkg.TypesInfo.Uses[id] == counter }))) {
				return true
			}
		}
		return false
	}
	g := p.CFG(f)
	found := 0
	for _, b := range g.Blocks {
		if !b.Live || len(b.Nodes) == 0 || len(b.Succs) != 2 {
			continue
		}
		last, ok := b.Nodes[len(b.Nodes)-1].(ast.Expr)
		if !ok {
			continue
		}
		// locate the ECMP call inside the condition: through &&, || and !.  go/cfg does not split short-circuit operators, so
		// `i < n && ECMP(…)` is one condition node: ECMP false ⇒ condition false.  `… || !ECMP(…)`: ECMP false ⇒ condition true.
		var call *ast.CallExpr
		where := 0 // 1: ECMP false ⇒ cond false (positive, only under &&) · 2: ECMP false ⇒ cond true (negated, only under ||) · -1: unknown
		var find func(e ast.Expr, neg bool, underAnd, underOr bool)
		find = func(e ast.Expr, neg bool, underAnd, underOr bool) {
			e = core.Unparen(e)
			switch x := e.(type) {
			case *ast.UnaryExpr:
				if x.Op == token.NOT {
					find(x.X, !neg, underAnd, underOr)
				}
			case *ast.BinaryExpr:
				if x.Op == token.LAND {
					find(x.X, neg, true, underOr)
					find(x.Y, neg, true, underOr)
				}
				if x.Op == token.LOR {
					find(x.X, neg, underAnd, true)
					find(x.Y, neg, underAnd, true)
				}
			case *ast.CallExpr:
				if core.Callee(f.Pkg, x) != ecmpFn.Obj {
					return
				}
				call = x
				switch {
				case !neg && !underOr:
					where = 1
				case neg && !underAnd:
					where = 2
				default:
					where = -1
				}
			}
		}
		find(last, false, false, false)
		if call == nil {
			continue
		}
		found++
		if where < 0 {
			c.Undecided(rule, f.Name()+" ECMP test", call.Pos(), "the ECMP test is combined with other conditions in a way the rule does not follow")
			continue
		}
		falseSucc := b.Succs[1]
		if where == 2 {
			falseSucc = b.Succs[0]
		}
		// reachable increments from the false outcome
		seen := map[int32]bool{}
		var hit ast.Node
		var walk func(bl *cfgBlock)
		_ = walk
		stack := []*cfgBlock{falseSucc}
		for len(stack) > 0 && hit == nil {
			bl := stack[len(stack)-1]
			stack = stack[:len(stack)-1]
			if seen[bl.Index] {
				continue
			}
			seen[bl.Index] = true
			for _, n := range bl.Nodes {
				if isInc(n) {
					hit = n
					break
				}
			}
			stack = append(stack, bl.Succs...)
		}
		pos := call.Pos()
		if hit != nil {
			pos = hit.Pos()
		}
		c.Check(hit == nil, rule, f.Name()+" stops counting at the first pair that is not equal-cost", pos,
			"after an ECMP comparison of two neighbouring paths came out false the counter can still be incremented: paths behind a strictly worse path are counted into the equal-cost set whenever they are equal-cost among themselves, so ECMPPaths() reports paths the decision process ranks below the best path")
	}
	c.Check(found >= 1, rule, f.Name()+" tests neighbouring paths with Path.ECMP", f.Decl.Pos(), "no branch on Path.ECMP found")
}

type cfgBlock = cfg.Block
