package props

import (
	"fmt"
	"go/token"
	"strings"

	"verif/engine/core"
)

func init() {
	Register(&Prop{
		Meta: core.Meta{
			ID: "C03", Title: "Best-path tie-breaking follows RFC 4271 9.1.2.2 and RFC 4456 section 9", Level: "proof",
			Technique:   "comparator normal-form extraction on the typed AST; the extracted (key, preferred direction) list is compared with the RFC table",
			DesignRef:   "DESIGN.md §3 R-CMP, §4 C03",
			Decided:     "BGPPath.Select is in lexicographic normal form (C02) and its extracted list of (key, preferred direction) equals, in order: LOCAL_PREF higher · AS_PATH length lower · ORIGIN lower · MED lower (unconditionally, i.e. across neighbour ASes) · eBGP over iBGP · identifier lower where identifier = ORIGINATOR_ID if non-zero else BGP identifier · CLUSTER_LIST length lower with an absent list counting as length 0 · peer (source) address lower; any further steps only refine ties.  With the normal form the extracted list IS the decision procedure for all inputs.  The Loc-RIB applies it after every change: in LocRIB.AddPath/RemovePath/ReplacePath every path from the table mutation to propagateChanges passes Route.PathSelection, whose less-function is Select(i,j)==1.",
			NotDecided:  "nothing for the stated clause beyond the trusted base; interior cost (step e) is not implemented by bio-rd and not part of the statement.",
			TrustedBase: append([]string{"theorem: a comparator in lexicographic normal form computes the lexicographic order of its key list (engine/core/cmp.go)", "the spec table in engine/props/c03.go transcribed from the property statement"}, stdTrusted...),
		},
		Run: runC03,
		Controls: []Control{
			{Name: "dedup-key-without-identifier", File: "route/bgp_path_cache.go", Old: "\tif x, ok := bgpc.cache[*p]; ok {\n\t\tbgpc.cacheMu.Unlock()\n\t\treturn x\n\t}\n\n\tbgpc.cache[*p] = p\n", New: "\tk := *p\n\tk.BGPIdentifier = 0\n\tif x, ok := bgpc.cache[k]; ok {\n\t\tbgpc.cacheMu.Unlock()\n\t\treturn x\n\t}\n\n\tbgpc.cache[k] = p\n", Expect: "dedup-keeps-decision-keys"},
			{Name: "as-sets-counted-once-per-path", File: "protocols/bgp/types/as_path.go", Old: "\t\tif p.Type == ASSet {\n\t\t\tret++\n\t\t\tcontinue\n", New: "\t\tif p.Type == ASSet {\n\t\t\tret |= 1 << 15\n\t\t\tcontinue\n", Expect: "as-set-counts-once-per-segment"},
			{Name: "refactor-as-set-adds-one", Silent: true, File: "protocols/bgp/types/as_path.go", Old: "\t\tif p.Type == ASSet {\n\t\t\tret++\n", New: "\t\tif p.Type == ASSet {\n\t\t\tret += 1\n"},
			{Name: "identity-ignores-the-peer-address", File: "route/bgp_path.go", Old: "\tif b.Source.Compare(c.Source) != 0 {\n\t\treturn false\n\t}\n\n\tif b.LocalPref != c.LocalPref || b.MED", New: "\tif b.LocalPref != c.LocalPref || b.MED", Expect: "identity-refines-the-decision"},
			{Name: "replace-reranks-only-when-best-touched", File: "routingtable/locRIB/loc_rib.go", Old: "\tr.PathSelection()\n\ta.propagateChanges(oldRoute, r)\n}\n", New: "\tif oldRoute.BestPath().Equal(oldPath) {\n\t\tr.PathSelection()\n\t}\n\ta.propagateChanges(oldRoute, r)\n}\n", Expect: "loc-rib-reranks-after-every-change"},
			{Name: "med-direction-flipped", File: "route/bgp_path.go", Old: "\tif c.BGPPathA.MED > b.BGPPathA.MED {\n\t\treturn 1\n\t}\n\n\tif c.BGPPathA.MED < b.BGPPathA.MED {\n\t\treturn -1\n\t}", New: "\tif c.BGPPathA.MED > b.BGPPathA.MED {\n\t\treturn -1\n\t}\n\n\tif c.BGPPathA.MED < b.BGPPathA.MED {\n\t\treturn 1\n\t}", Expect: "rfc-decision-step"},
			{Name: "origin-and-med-swapped", File: "route/bgp_path.go", Old: "c.BGPPathA.Origin > b.BGPPathA.Origin {\n\t\treturn 1\n\t}\n\n\tif c.BGPPathA.Origin < b.BGPPathA.Origin {", New: "c.BGPPathA.LocalPref > b.BGPPathA.LocalPref {\n\t\treturn 1\n\t}\n\n\tif c.BGPPathA.LocalPref < b.BGPPathA.LocalPref {", Expect: "rfc-decision-step"},
			{Name: "received-path-without-identifier", File: "protocols/bgp/server/fsm_address_family.go", Old: "\t\t\t\tBGPIdentifier: f.fsm.neighborID,\n", New: "", Expect: "decision-key-populated-on-receive"},
			{Name: "originator-id-not-substituted", File: "route/bgp_path.go", Old: "\tif b.BGPPathA.OriginatorID != 0 {\n\t\tbgpIdentifierB = b.BGPPathA.OriginatorID\n\t}\n", New: "", Expect: "rfc-decision-step"},
		},
	})
}

type rfcStep struct {
	name    string
	prefers string
	match   func(key string) bool
}

func runC03(c *core.Ctx) {
	asSetCountsOncePerSegment(c, "as-set-counts-once-per-segment")
	identityRefinesTheDecision(c, "identity-refines-the-decision")
	// the order Select defines is the order the Loc-RIB holds: every table mutation is re-ranked before anyone is told
	selectionBeforePropagation(c, "loc-rib-reranks-after-every-change", 3)
	// deduplication must not change a decision key
	internKeyCoversValue(c, "dedup-keeps-decision-keys")
	cs := analyseComparators(c)
	const k = "route.(*BGPPath).Select"
	form := cs.forms[k]
	if form == nil {
		return
	}
	has := func(subs ...string) func(string) bool {
		return func(key string) bool {
			for _, s := range subs {
				if !strings.Contains(key, s) {
					return false
				}
			}
			return true
		}
	}
	spec := []rfcStep{
		{"LOCAL_PREF", "higher", func(k string) bool { return k == "$.BGPPathA.LocalPref" }},
		{"AS_PATH length", "lower", func(k string) bool { return k == "$.ASPathLen" }},
		{"ORIGIN", "lower", func(k string) bool { return k == "$.BGPPathA.Origin" }},
		{"MED", "lower", func(k string) bool { return k == "$.BGPPathA.MED" }},
		{"eBGP over iBGP", "true", func(k string) bool { return k == "$.BGPPathA.EBGP" }},
		// identifier: local key initialised from BGPIdentifier and overridden by OriginatorID when that is non-zero
		{"BGP identifier / ORIGINATOR_ID", "lower", func(k string) bool {
			return k == "{; $.BGPPathA.BGPIdentifier; if $.BGPPathA.OriginatorID != 0: $.BGPPathA.OriginatorID}"
		}},
		// cluster list length with absent = 0: either a local key refined under `$.ClusterList != nil`, or len of a nil-safe accessor
		{"CLUSTER_LIST length (absent = 0)", "lower", func(k string) bool {
			return k == "{; 0; if $.ClusterList != nil: len(*$.ClusterList)}" || k == "{; zero; if $.ClusterList != nil: len(*$.ClusterList)}" ||
				k == "{; uint16(0); if $.ClusterList != nil: uint16(len(*$.ClusterList))}"
		}},
		{"peer address", "lower", has("$.BGPPathA.Source", " via net.(*IP).Compare")},
	}
	c.Floor("rfc-decision-step", len(spec))
	steps := form.Steps
	for i, want := range spec {
		construct := fmt.Sprintf("%s step %d = %s prefers %s", k, i+1, want.name, want.prefers)
		if i >= len(steps) {
			c.Fail("rfc-decision-step", construct, token.NoPos, "BGPPath.Select has no step at this position")
			continue
		}
		got := steps[i]
		switch {
		case got.Guarded != "":
			c.Fail("rfc-decision-step", construct, got.Pos, "step is applied only under the guard `"+got.Guarded+"` (key "+got.Key+")")
		case !want.match(got.Key):
			c.Fail("rfc-decision-step", construct, got.Pos, "step "+fmt.Sprint(i+1)+" compares key `"+got.Key+"`, the RFC order requires "+want.name+" here")
		case got.Prefers != want.prefers:
			c.Fail("rfc-decision-step", construct, got.Pos, "step compares the right key (`"+got.Key+"`) but prefers the "+got.Prefers+" value; RFC 4271 §9.1.2.2 / RFC 4456 §9 prefer the "+want.prefers+" one (+1 means the receiver wins, as in the LOCAL_PREF step)")
		default:
			c.Hold("rfc-decision-step", construct, got.Pos, "key `"+got.Key+"` prefers "+got.Prefers)
		}
	}
	// normal form is the premise of reading the list as the decision procedure
	nf := len(form.Problems) == 0 && form.Ends0
	for _, s := range form.Steps {
		if s.Guarded != "" {
			nf = false
		}
	}
	pos := cs.fns[k].Decl.Pos()
	what := ""
	if len(form.Problems) > 0 {
		pos, what = form.Problems[0].Pos, form.Problems[0].What
	}
	c.Check(nf, "rfc-decision-step", k+" is in normal form (premise)", pos, "BGPPath.Select is not in lexicographic normal form, so the extracted step list is not its decision procedure: "+what)
	// the decision keys are populated for paths received from peers: a key no receive-path code ever writes is the
	// zero value on every learned path and its step never decides anything
	if pu := c.MustFunc("protocols/bgp/server.(*fsmAddressFamily).processUpdate"); pu != nil {
		w := c.P.WritesTransitive(pu)
		seen := map[string]bool{}
		for _, st := range steps {
			for _, fv := range st.FieldKeys {
				owner := ""
				for _, t := range []string{"BGPPath", "BGPPathA"} {
					for _, x := range c.P.Fields("route", t) {
						if x == fv {
							owner = t
						}
					}
				}
				if owner == "" || fv.Name() == "BGPPathA" || seen[fv.Name()] {
					continue
				}
				seen[fv.Name()] = true
				c.Check(w[fv], "decision-key-populated-on-receive", "received paths set "+owner+"."+fv.Name(), pu.Decl.Pos(),
					"BGPPath.Select orders by "+owner+"."+fv.Name()+", but nothing reachable from processUpdate (path construction, attribute processing) ever writes it: the field is zero on every path learned from a peer, so this step of the decision process never decides and ties fall through to later steps")
			}
		}
		c.Check(len(seen) >= 9, "decision-key-populated-on-receive", "decision key fields found", pu.Decl.Pos(), "fewer decision-key fields than confirmed by hand (9)")
	}
	for i := len(spec); i < len(steps); i++ {
		c.Info("extra tie-refining step %d: key %s prefers %s", i+1, steps[i].Key, steps[i].Prefers)
	}
}
