package props

import (
	"fmt"
	"go/ast"
	"go/token"
	"go/types"
	"strings"

	"verif/engine/core"
)

func init() {
	Register(&Prop{
		Meta: core.Meta{
			ID: "C04", Title: "Loc-RIB clients hold exactly the selected paths they asked for", Level: "other",
			Technique:   "must-pass-through on go/cfg (mutation → selection → propagation, snapshot before mutation), def-use provenance of the per-client limits and diff operands, guard table of the inlined limit computation, who-may-call for client notifications",
			DesignRef:   "DESIGN.md §4 C04",
			Decided:     "(1) every Loc-RIB mutation entry (AddPath, RemovePath, ReplacePath) takes the OLD route copy before the table mutation, runs PathSelection after it, takes/uses the NEW route after selection and reaches propagateChanges on every non-error exit; (2) propagateChanges withdraws before it announces; (3) in the two diff functions the limit applied to a route's path list is computed from THAT route's equal-cost count and length only, the withdrawn set is diff(old top-N, new top-N) and the announced set diff(new top-N, old top-N), and the paths handed to RemovePath/AddPath are the elements of those sets; (4) the limit inlined in UpdateNewClient/RefreshClient follows the same option table as ClientOptions.GetMaxPaths (best-only → 1, ecmp-only → the route's equal-cost count, else MaxPaths bounded by the number of paths); the initial dump hands out copies and ends with EndOfRIB; (5) client notifications in package locRIB are issued only from these functions and Dispose. (+) the membership test behind route.PathsDiff relates two paths only by pointer identity or the full-content relation Path.Compare, never by a coarser relation (Equal/Select/ECMP).",
			NotDecided:  "equality of the accumulated client view with the selection at every quiescent point over all histories and registration interleavings (history/schedule-quantified); the min() arithmetic itself.",
			TrustedBase: stdTrusted,
		},
		Run: runC04,
		Controls: []Control{
			{Name: "initial-dump-from-a-snapshot-after-unlock", File: "routingtable/locRIB/loc_rib.go", Old: "func (a *LocRIB) UpdateNewClient(client routingtable.RouteTableClient) error {\n\ta.mu.RLock()\n\tdefer a.mu.RUnlock()\n", New: "func (a *LocRIB) UpdateNewClient(client routingtable.RouteTableClient) error {\n\ta.mu.RLock()\n\ta.mu.RUnlock()\n", Expect: "client-notified-under-table-lock"},
			{Name: "route-copy-on-the-receivers-array", File: "route/route.go", Old: "\tn.paths = make([]*Path, len(r.paths))\n\tcopy(n.paths, r.paths)\n", New: "\tn.paths = append(r.paths[:0], r.paths...)\n", Expect: "route-copy-owns-its-path-list"},
			{Name: "propagation-skipped-when-selection-unchanged", File: "routingtable/locRIB/loc_rib.go", Old: "func (a *LocRIB) propagateChanges(oldRoute *route.Route, newRoute *route.Route) {\n", New: "func (a *LocRIB) propagateChanges(oldRoute *route.Route, newRoute *route.Route) {\n\tif oldRoute.ECMPPathCount() == newRoute.ECMPPathCount() && oldRoute.BestPath() == newRoute.BestPath() {\n\t\treturn\n\t}\n", Expect: "withdraw-before-announce"},
			{Name: "diff-by-selection-equality", File: "route/path.go", Old: "\t\tif p == needle {\n", New: "\t\tif p == needle || p.Equal(needle) {\n", Expect: "diff-membership-is-identity"},
			{Name: "refactor-diff-operands-swapped", Silent: true, File: "route/path.go", Old: "\t\tif p == needle {\n", New: "\t\tif needle == p {\n"},
			{Name: "withdraw-limit-from-wrong-route", File: "routingtable/locRIB/loc_rib.go", Old: "\t\tnewPathsLimit := int(math.Min(int(newMaxPaths), len(newRoute.Paths())))\n\n\t\twithdraw", New: "\t\tnewPathsLimit := int(math.Min(int(oldMaxPaths), len(newRoute.Paths())))\n\t\t_ = newMaxPaths\n\n\t\twithdraw", Expect: "limit-from-own-route"},
			{Name: "diff-cached-by-one-limit", File: "routingtable/locRIB/loc_rib.go", Old: "\tfor _, client := range a.clientManager.Clients() {\n\t\topts := a.clientManager.GetOptions(client)\n\t\toldMaxPaths := opts.GetMaxPaths(oldRoute.ECMPPathCount())\n\t\tnewMaxPaths := opts.GetMaxPaths(newRoute.ECMPPathCount())\n\n\t\toldPathsLimit := int(math.Min(int(oldMaxPaths), len(oldRoute.Paths())))\n\t\tnewPathsLimit := int(math.Min(int(newMaxPaths), len(newRoute.Paths())))\n\n\t\twithdraw := route.PathsDiff(oldRoute.Paths()[0:oldPathsLimit], newRoute.Paths()[0:newPathsLimit])\n", New: "\tcache := map[int][]*route.Path{}\n\tfor _, client := range a.clientManager.Clients() {\n\t\topts := a.clientManager.GetOptions(client)\n\t\toldMaxPaths := opts.GetMaxPaths(oldRoute.ECMPPathCount())\n\t\tnewMaxPaths := opts.GetMaxPaths(newRoute.ECMPPathCount())\n\n\t\toldPathsLimit := int(math.Min(int(oldMaxPaths), len(oldRoute.Paths())))\n\t\tnewPathsLimit := int(math.Min(int(newMaxPaths), len(newRoute.Paths())))\n\n\t\twithdraw, found := cache[oldPathsLimit]\n\t\tif !found {\n\t\t\twithdraw = route.PathsDiff(oldRoute.Paths()[0:oldPathsLimit], newRoute.Paths()[0:newPathsLimit])\n\t\t\tcache[oldPathsLimit] = withdraw\n\t\t}\n", Expect: "diff-computed-for-this-client"},
			{Name: "diff-cached-by-both-limits", Silent: true, File: "routingtable/locRIB/loc_rib.go", Old: "\tfor _, client := range a.clientManager.Clients() {\n\t\topts := a.clientManager.GetOptions(client)\n\t\toldMaxPaths := opts.GetMaxPaths(oldRoute.ECMPPathCount())\n\t\tnewMaxPaths := opts.GetMaxPaths(newRoute.ECMPPathCount())\n\n\t\toldPathsLimit := int(math.Min(int(oldMaxPaths), len(oldRoute.Paths())))\n\t\tnewPathsLimit := int(math.Min(int(newMaxPaths), len(newRoute.Paths())))\n\n\t\twithdraw := route.PathsDiff(oldRoute.Paths()[0:oldPathsLimit], newRoute.Paths()[0:newPathsLimit])\n", New: "\tcache := map[[2]int][]*route.Path{}\n\tfor _, client := range a.clientManager.Clients() {\n\t\topts := a.clientManager.GetOptions(client)\n\t\toldMaxPaths := opts.GetMaxPaths(oldRoute.ECMPPathCount())\n\t\tnewMaxPaths := opts.GetMaxPaths(newRoute.ECMPPathCount())\n\n\t\toldPathsLimit := int(math.Min(int(oldMaxPaths), len(oldRoute.Paths())))\n\t\tnewPathsLimit := int(math.Min(int(newMaxPaths), len(newRoute.Paths())))\n\n\t\twithdraw, found := cache[[2]int{oldPathsLimit, newPathsLimit}]\n\t\tif !found {\n\t\t\twithdraw = route.PathsDiff(oldRoute.Paths()[0:oldPathsLimit], newRoute.Paths()[0:newPathsLimit])\n\t\t\tcache[[2]int{oldPathsLimit, newPathsLimit}] = withdraw\n\t\t}\n"},
			{Name: "announce-before-withdraw", File: "routingtable/locRIB/loc_rib.go", Old: "\ta.removePathsFromClients(oldRoute, newRoute)\n\ta.addPathsToClients(oldRoute, newRoute)", New: "\ta.addPathsToClients(oldRoute, newRoute)\n\ta.removePathsFromClients(oldRoute, newRoute)", Expect: "withdraw-before-announce"},
			{Name: "old-copy-after-mutation", File: "routingtable/locRIB/loc_rib.go", Old: "\toldRoute := r.Copy()\n\terr := r.ReplacePath(oldPath, newPath)", New: "\terr := r.ReplacePath(oldPath, newPath)\n\toldRoute := r.Copy()", Expect: "snapshot-select-propagate"},
			{Name: "initial-dump-ignores-ecmp-option", File: "routingtable/locRIB/loc_rib.go", Old: "\t\t} else if opts.EcmpOnly {\n\t\t\tn = r.ECMPPathCount()\n\t\t} else {\n\t\t\tn = opts.MaxPaths\n\t\t\tn = uint(math.Min(int(n), len(r.Paths())))\n\t\t}\n\n\t\tfor _, p := range r.Paths()[:n] {", New: "\t\t} else {\n\t\t\tn = opts.MaxPaths\n\t\t\tn = uint(math.Min(int(n), len(r.Paths())))\n\t\t}\n\n\t\tfor _, p := range r.Paths()[:n] {", Expect: "inline-limit-table"},
		},
	})
}

const locPkg = "routingtable/locRIB"

func runC04(c *core.Ctx) {
	routeCopyOwnsItsPathList(c, "route-copy-owns-its-path-list")
	clientNotifiedUnderTableLock(c, "client-notified-under-table-lock", "routingtable/locRIB", "LocRIB", 4)
	p := c.P
	diffMembership(c)
	sel := p.Func("route.(*Route).PathSelection")
	prop := p.Func(locPkg + ".(*LocRIB).propagateChanges")
	cp := p.Func("route.(*Route).Copy")
	if sel == nil || prop == nil || cp == nil {
		c.Undecided("anchor", "PathSelection/propagateChanges/Copy", token.NoPos, "anchors not found")
		return
	}
	muts := core.KeyIs("routingtable.(*RoutingTable).AddPath", "routingtable.(*RoutingTable).RemovePath", "routingtable.(*RoutingTable).ReplacePath", "routingtable.(*RoutingTable).RemovePfx", "route.(*Route).ReplacePath", "route.(*Route).AddPath", "route.(*Route).RemovePath")
	// (1) ------------------------------------------------------------------------------------------
	c.Floor("snapshot-select-propagate", 9)
	for _, f := range p.MethodsOf(locPkg, "LocRIB") {
		if f.Decl.Body == nil || len(core.Calls(f.Pkg, f.Decl.Body, muts)) == 0 {
			continue
		}
		c.Analysed(f)
		g := p.CFG(f)
		has := func(pred func(*types.Func) bool) func(ast.Node) bool {
			return func(n ast.Node) bool {
				return core.NodeHas(n, func(x ast.Node) bool {
					cl, ok := x.(*ast.CallExpr)
					return ok && core.Callee(f.Pkg, cl) != nil && pred(core.Callee(f.Pkg, cl))
				})
			}
		}
		isMut, isSel, isProp := has(muts), has(func(o *types.Func) bool { return o == sel.Obj }), has(func(o *types.Func) bool { return o == prop.Obj })
		// selection between mutation and propagation
		bad, started := core.PathAvoidingFromS(g, isMut, isSel, isProp)
		c.Check(started && len(bad) == 0, "snapshot-select-propagate", f.Name()+" selection between mutation and propagation", f.Decl.Pos(), "a path from the table mutation to propagateChanges does not pass PathSelection")
		// every non-error exit after the mutation passes propagateChanges: error exits are those dominated by a log.Errorf call
		isErrRet := func(n ast.Node) bool {
			r, ok := n.(*ast.ReturnStmt)
			if !ok {
				return false
			}
			// an exit is an error exit if its enclosing block logs an error
			path := core.PathTo(f.Decl.Body, r)
			for i := len(path) - 1; i >= 0; i-- {
				if b, ok := path[i].(*ast.BlockStmt); ok {
					for _, st := range b.List {
						if len(core.Calls(f.Pkg, st, func(o *types.Func) bool { return o.Name() == "Errorf" || o.Name() == "Error" })) > 0 {
							return true
						}
					}
					break
				}
			}
			return false
		}
		isRet := func(n ast.Node) bool { _, ok := n.(*ast.ReturnStmt); return ok && !isErrRet(n) }
		bad2, _ := core.PathAvoidingFromS(g, isMut, isProp, isRet)
		at := f.Decl.Pos()
		if len(bad2) > 0 {
			at = bad2[0].Pos()
		}
		c.Check(len(bad2) == 0, "snapshot-select-propagate", f.Name()+" every non-error exit after the mutation propagates", at, "the function can return after mutating the table without telling the clients")
		// arguments of propagateChanges
		for _, call := range core.Calls(f.Pkg, f.Decl.Body, func(o *types.Func) bool { return o == prop.Obj }) {
			if len(call.Args) != 2 {
				continue
			}
			// OLD: a local whose Copy() definitions all precede the mutation on every path
			oldObj := core.ObjOf(f.Pkg, call.Args[0])
			okOld := oldObj != nil
			nCopies := 0
			if oldObj != nil {
				for _, d := range core.DefsOf(f, oldObj) {
					dc, isCall := core.Unparen(d).(*ast.CallExpr)
					if isCall && core.Callee(f.Pkg, dc) == cp.Obj {
						nCopies++
						isThis := func(n ast.Node) bool { return core.NodeHas(n, func(x ast.Node) bool { return x == ast.Node(dc) }) }
						// reachable after a mutation? then it is not a pre-mutation snapshot
						if after := core.PathAvoidingFrom(g, isMut, func(ast.Node) bool { return false }, isThis); len(after) > 0 {
							okOld = false
						}
					}
				}
			}
			c.Check(okOld && nCopies >= 1, "snapshot-select-propagate", f.Name()+" old route is a copy taken before the mutation", call.Pos(), "the route handed to clients as the OLD state is not a copy taken before the table mutation (the diff against it misses or invents changes)")
			// NEW: either a Copy() taken after selection, or the live route used after selection
			newArg := call.Args[1]
			okNew := true
			if no := core.ObjOf(f.Pkg, newArg); no != nil {
				for _, d := range core.DefsOf(f, no) {
					dc, isCall := core.Unparen(d).(*ast.CallExpr)
					if isCall && core.Callee(f.Pkg, dc) == cp.Obj {
						isThis := func(n ast.Node) bool { return core.NodeHas(n, func(x ast.Node) bool { return x == ast.Node(dc) }) }
						if before := core.PathAvoidingFrom(g, isMut, isSel, isThis); len(before) > 0 {
							okNew = false
						}
						// a copy taken before the mutation is stale as well
						if pre := core.PathAvoiding(g, isMut, isThis); len(pre) > 0 {
							okNew = false
						}
					}
				}
			} else if dc, isCall := core.Unparen(newArg).(*ast.CallExpr); isCall && core.Callee(f.Pkg, dc) == cp.Obj {
				// inline r.Copy() in the argument: evaluated at the propagateChanges node, which is after selection (checked above)
			}
			c.Check(okNew, "snapshot-select-propagate", f.Name()+" new route reflects the selection", call.Pos(), "the route handed to clients as the NEW state is a copy taken before PathSelection (or before the mutation): clients are diffed against an unsorted path list and a stale equal-cost count")
		}
	}

	// (2) ------------------------------------------------------------------------------------------
	rm := p.Func(locPkg + ".(*LocRIB).removePathsFromClients")
	ad := p.Func(locPkg + ".(*LocRIB).addPathsToClients")
	if rm != nil && ad != nil {
		rc := core.Calls(prop.Pkg, prop.Decl.Body, func(o *types.Func) bool { return o == rm.Obj })
		ac := core.Calls(prop.Pkg, prop.Decl.Body, func(o *types.Func) bool { return o == ad.Obj })
		ok := len(rc) == 1 && len(ac) == 1 && rc[0].Pos() < ac[0].Pos()
		// same argument order (old, new) for both
		if ok {
			for _, cl := range []*ast.CallExpr{rc[0], ac[0]} {
				if len(cl.Args) != 2 || core.ObjOf(prop.Pkg, cl.Args[0]) != core.ParamObj(prop, 0) || core.ObjOf(prop.Pkg, cl.Args[1]) != core.ParamObj(prop, 1) {
					ok = false
				}
			}
		}
		c.Check(ok, "withdraw-before-announce", prop.Name(), prop.Decl.Pos(), "propagateChanges does not call removePathsFromClients(old,new) and then addPathsToClients(old,new): a best-only client would see the announcement of the new best path followed by a withdrawal for the same prefix")
		// … on every path: the per-client diff is the only place that knows each client's window (best-only, ECMP, max-paths N);
		// a shortcut that skips it because "the selection did not change" starves the clients whose window is wider
		for _, pr := range []struct {
			fn   *core.Fn
			what string
		}{{rm, "removePathsFromClients"}, {ad, "addPathsToClients"}} {
			gate := func(n ast.Node) bool {
				return core.NodeHas(n, func(x ast.Node) bool {
					cl, ok := x.(*ast.CallExpr)
					return ok && core.Callee(prop.Pkg, cl) == pr.fn.Obj
				})
			}
			rets, implicit := core.ExitsWithout(p.CFG(prop), gate)
			pos := prop.Decl.Pos()
			if len(rets) > 0 {
				pos = rets[0].Pos()
			}
			c.Check(len(rets) == 0 && !implicit, "withdraw-before-announce", prop.Name()+" runs "+pr.what+" on every path", pos,
				"propagateChanges can return without running the per-client diff ("+pr.what+"): a client whose window reaches beyond what the shortcut looks at (max-paths N beyond the equal-cost set) is never told that a path entered or left its window")
		}
		// the options of a client are looked up when the client is served (an unregistered client has none and gets nothing)
		getOpts := p.Func("routingtable.(*ClientManager).GetOptions")
		for _, df := range []*core.Fn{rm, ad} {
			okOpts := false
			ast.Inspect(df.Decl.Body, func(n ast.Node) bool {
				rs, isR := n.(*ast.RangeStmt)
				if !isR || rs.Value == nil && rs.Key == nil {
					return true
				}
				// the loop variable that is the client
				var clientObj types.Object
				for _, v := range []ast.Expr{rs.Key, rs.Value} {
					if v != nil && isClientIface(df, v) {
						clientObj = core.ObjOf(df.Pkg, v)
					}
				}
				if clientObj == nil {
					return true
				}
				for _, call := range core.Calls(df.Pkg, rs.Body, func(o *types.Func) bool { return getOpts != nil && o == getOpts.Obj }) {
					if len(call.Args) == 1 && core.ObjOf(df.Pkg, call.Args[0]) == clientObj {
						okOpts = true
					}
				}
				return true
			})
			c.Check(okOpts, "limit-from-own-route", df.Name()+" looks the client's options up when it serves the client", df.Decl.Pos(),
				"the per-client options are not obtained with ClientManager.GetOptions(client) inside the client loop (e.g. they come from a snapshot taken before the loop): a client that is unregistered while a change is being propagated is still served with its old options after Unregister has returned")
		}
	} else {
		c.Undecided("anchor", "removePathsFromClients/addPathsToClients", token.NoPos, "not found")
	}

	// (3) ------------------------------------------------------------------------------------------
	c.Floor("limit-from-own-route", 8)
	c.Floor("diff-computed-for-this-client", 2)
	for _, spec := range []struct {
		fn             *core.Fn
		method         string
		diffFirstIsNew bool
	}{{ad, "AddPath", true}, {rm, "RemovePath", false}} {
		f := spec.fn
		if f == nil {
			continue
		}
		c.Analysed(f)
		oldR, newR := core.ParamObj(f, 0), core.ParamObj(f, 1)
		// slices R.Paths()[0:L]
		ast.Inspect(f.Decl.Body, func(n ast.Node) bool {
			se, ok := n.(*ast.SliceExpr)
			if !ok {
				return true
			}
			call, ok := core.Unparen(se.X).(*ast.CallExpr)
			if !ok || core.FuncKey(core.Callee(f.Pkg, call)) != "route.(*Route).Paths" {
				return true
			}
			recv := core.ObjOf(f.Pkg, call.Fun.(*ast.SelectorExpr).X)
			if recv != oldR && recv != newR {
				return true
			}
			other := oldR
			name := "new"
			if recv == oldR {
				other, name = newR, "old"
			}
			if se.High == nil {
				c.Fail("limit-from-own-route", f.Name()+" "+name+" route slice has a limit", se.Pos(), "the "+name+" route's path list is not limited to the client's top-N")
				return true
			}
			mentions := mentionedParams(f, se.High, map[types.Object]bool{})
			c.Check(mentions[recv] && !mentions[other], "limit-from-own-route", f.Name()+" limit of the "+name+" route's paths derives from the "+name+" route", se.Pos(),
				fmt.Sprintf("the number of paths of the %s route shown to the client is computed from the other route (its equal-cost count or length): when the equal-cost set grows or shrinks the client's view and the selection diverge", name))
			return true
		})
		// the diff and the notification
		for _, call := range core.Calls(f.Pkg, f.Decl.Body, core.KeyIs("route.PathsDiff")) {
			if len(call.Args) != 2 {
				continue
			}
			root := func(e ast.Expr) types.Object {
				var o types.Object
				ast.Inspect(e, func(n ast.Node) bool {
					if cl, ok := n.(*ast.CallExpr); ok && core.FuncKey(core.Callee(f.Pkg, cl)) == "route.(*Route).Paths" {
						o = core.ObjOf(f.Pkg, cl.Fun.(*ast.SelectorExpr).X)
					}
					return true
				})
				return o
			}
			a0, a1 := root(call.Args[0]), root(call.Args[1])
			want0, want1 := oldR, newR
			if spec.diffFirstIsNew {
				want0, want1 = newR, oldR
			}
			c.Check(a0 == want0 && a1 == want1, "limit-from-own-route", f.Name()+" diff operands", call.Pos(), "PathsDiff operands are swapped or not (old top-N, new top-N): the wrong set is withdrawn/announced")
			for i, a := range call.Args {
				se, isSlice := core.Unparen(a).(*ast.SliceExpr)
				c.Check(isSlice && se.High != nil, "limit-from-own-route", fmt.Sprintf("%s diff operand %d is limited to the client's top-N", f.Name(), i), a.Pos(),
					"an operand of the path diff is the route's whole path list instead of its first N paths: a path that dropped out of the client's window but is still in the Loc-RIB is never withdrawn (or a path outside the window is announced)")
			}
		}
		for _, call := range clientCalls(f, spec.method) {
			// path argument is the range variable over the PathsDiff result; prefix from the matching route
			obj := core.ObjOf(f.Pkg, call.Args[1])
			ok := false
			stale := ""
			for _, d := range core.DefsOf(f, obj) {
				if lo := core.ObjOf(f.Pkg, d); lo != nil {
					// the limits the difference depends on (the High bounds of the PathsDiff operands)
					limits := map[types.Object]bool{}
					for _, dd := range core.DefsOf(f, lo) {
						if dc, isCall := core.Unparen(dd).(*ast.CallExpr); isCall && core.FuncKey(core.Callee(f.Pkg, dc)) == "route.PathsDiff" {
							ok = true
							for _, a := range dc.Args {
								if se, isSlice := core.Unparen(a).(*ast.SliceExpr); isSlice && se.High != nil {
									ast.Inspect(se.High, func(n ast.Node) bool {
										if id, isId := n.(*ast.Ident); isId {
											if v, isVar := f.Pkg.TypesInfo.Uses[id].(*types.Var); isVar && !v.IsField() {
												limits[v] = true
											}
										}
										return true
									})
								}
							}
						}
					}
					// every other value the list may hold is a difference computed for exactly these limits
					for _, dd := range core.DefsOf(f, lo) {
						dd = core.Unparen(dd)
						if dc, isCall := dd.(*ast.CallExpr); isCall && core.FuncKey(core.Callee(f.Pkg, dc)) == "route.PathsDiff" {
							continue
						}
						ix, isIx := dd.(*ast.IndexExpr)
						if !isIx {
							stale = "the list iterated for the client has a source other than the difference computed for this client"
							continue
						}
						inKey := map[types.Object]bool{}
						ast.Inspect(ix.Index, func(n ast.Node) bool {
							if id, isId := n.(*ast.Ident); isId {
								inKey[f.Pkg.TypesInfo.Uses[id]] = true
							}
							return true
						})
						for l := range limits {
							if !inKey[l] {
								stale = "the difference is looked up in a table whose key leaves out " + l.Name() + ", one of the two limits it was computed from: a client gets the difference computed for another client's window"
							}
						}
					}
				}
			}
			c.Check(ok, "limit-from-own-route", f.Name()+" client."+spec.method+" receives the diff's elements", call.Pos(), "the path handed to the client is not an element of the computed difference")
			c.Check(stale == "", "diff-computed-for-this-client", f.Name()+" client."+spec.method+" receives the difference of this client's two windows", call.Pos(), stale)
		}
		other := "RemovePath"
		if spec.method == "RemovePath" {
			other = "AddPath"
		}
		c.Check(len(clientCalls(f, spec.method)) == 1 && len(clientCalls(f, other, "AddPathInitialDump", "ReplacePath")) == 0, "limit-from-own-route", f.Name()+" issues only "+spec.method, f.Decl.Pos(), "unexpected client notification in this function")
	}

	inlineLimitTable(c, "inline-limit-table", "")
	optF := func(n string) *types.Var { return p.Field("routingtable", "ClientOptions", n) }
	// GetMaxPaths itself
	if f := c.MustFunc("routingtable.(*ClientOptions).GetMaxPaths"); f != nil {
		bad := 0
		for _, best := range []bool{false, true} {
			for _, ecmp := range []bool{false, true} {
				env := core.NewEnv()
				env.Fields[optF("BestOnly")] = core.BoolVal(best)
				env.Fields[optF("EcmpOnly")] = core.BoolVal(ecmp)
				env.Fields[optF("MaxPaths")] = core.IntVal(7)
				env.Objs[core.ParamObj(f, 0)] = core.IntVal(3)
				ret, err := core.Outcome(f, env)
				if err != nil {
					c.Undecided("inline-limit-table", f.Name(), f.Decl.Pos(), err.Error())
					bad = -1
					break
				}
				v, ok := core.Eval(f, ret.Results[0], env)
				want := int64(7)
				if best {
					want = 1
				} else if ecmp {
					want = 3
				}
				if !ok || v.I != want {
					bad++
				}
			}
		}
		if bad >= 0 {
			c.Check(bad == 0, "inline-limit-table", f.Name()+" option table", f.Decl.Pos(), fmt.Sprintf("GetMaxPaths disagrees with best-only → 1, ecmp-only → equal-cost count, else MaxPaths on %d of 4 option combinations", bad))
		}
	}

	// (5) ------------------------------------------------------------------------------------------
	allowed := map[string]bool{"addPathsToClients": true, "removePathsFromClients": true, "UpdateNewClient": true, "RefreshClient": true, "Dispose": true}
	for _, f := range p.FuncsIn(locPkg) {
		if f.Decl.Body == nil {
			continue
		}
		n := len(clientCalls(f, "AddPath", "AddPathInitialDump", "RemovePath", "ReplacePath", "RefreshRoute", "EndOfRIB", "Dispose"))
		if n == 0 {
			continue
		}
		c.Check(allowed[f.Decl.Name.Name], "who-notifies-clients", f.Name(), f.Decl.Pos(), "client notifications are issued from a function outside the propagation/dump/dispose set: clients can be told about paths that bypass the selection diff")
	}
}

// inlineLimitTable: the initial dump and the refresh hand a client the same window the incremental updates do (shared by C04 and C12).
func inlineLimitTable(c *core.Ctx, rule string, only string) {
	p := c.P
	// (4) ------------------------------------------------------------------------------------------
	optF := func(n string) *types.Var { return p.Field("routingtable", "ClientOptions", n) }
	for _, k := range []string{locPkg + ".(*LocRIB).UpdateNewClient", locPkg + ".(*LocRIB).RefreshClient"} {
		if only != "" && !strings.HasSuffix(k, only) {
			continue
		}
		f := c.MustFunc(k)
		if f == nil {
			continue
		}
		// find the slice r.Paths()[:n]
		var lim types.Object
		ast.Inspect(f.Decl.Body, func(n ast.Node) bool {
			if se, ok := n.(*ast.SliceExpr); ok && se.High != nil {
				if call, ok := core.Unparen(se.X).(*ast.CallExpr); ok && core.FuncKey(core.Callee(f.Pkg, call)) == "route.(*Route).Paths" {
					lim = core.ObjOf(f.Pkg, se.High)
				}
			}
			return true
		})
		if lim == nil {
			c.Fail(rule, k+" limits the dumped paths", f.Decl.Pos(), "no r.Paths()[:n] slice found: the initial dump / refresh hands out paths without the client's limit")
			continue
		}
		type row struct {
			best, ecmp int // 1 true, 0 false, -1 any
			what       string
			match      func(ast.Expr) bool
		}
		rows := []row{
			{1, -1, "best-only → 1", func(e ast.Expr) bool { v := core.ConstOf(f.Pkg, e); return v != nil && v.ExactString() == "1" }},
			{0, 1, "ecmp-only → the route's equal-cost count", func(e ast.Expr) bool {
				cl, ok := core.Unparen(e).(*ast.CallExpr)
				return ok && core.FuncKey(core.Callee(f.Pkg, cl)) == "route.(*Route).ECMPPathCount"
			}},
			{0, 0, "otherwise → MaxPaths", func(e ast.Expr) bool { return core.FieldOf(f.Pkg, e) == optF("MaxPaths") }},
			{0, 0, "otherwise → bounded by the number of paths", func(e ast.Expr) bool {
				found := false
				ast.Inspect(e, func(n ast.Node) bool {
					if cl, ok := n.(*ast.CallExpr); ok && (core.FuncKey(core.Callee(f.Pkg, cl)) == "util/math.Min" || core.FuncKey(core.Callee(f.Pkg, cl)) == "math.Min") && len(cl.Args) == 2 {
						// one operand is the number of paths of the route: len(r.Paths())
						for _, a := range cl.Args {
							if core.NodeHas(a, func(m ast.Node) bool {
								lc, ok := m.(*ast.CallExpr)
								if !ok || len(lc.Args) != 1 || core.ExprString(lc.Fun) != "len" {
									return false
								}
								pc, ok := core.Unparen(lc.Args[0]).(*ast.CallExpr)
								return ok && core.FuncKey(core.Callee(f.Pkg, pc)) == "route.(*Route).Paths"
							}) {
								found = true
							}
						}
					}
					return true
				})
				return found
			}},
		}
		for _, r := range rows {
			ok := false
			ast.Inspect(f.Decl.Body, func(n ast.Node) bool {
				as, isAs := n.(*ast.AssignStmt)
				if !isAs || len(as.Lhs) != 1 || core.ObjOf(f.Pkg, as.Lhs[0]) != lim || !r.match(as.Rhs[0]) {
					return true
				}
				b, e := -1, -1
				for _, ft := range core.CtlFactsAt(f, as) {
					if core.FieldOf(f.Pkg, ft.Expr) == optF("BestOnly") {
						b = btoi(ft.Truth)
					}
					if core.FieldOf(f.Pkg, ft.Expr) == optF("EcmpOnly") {
						e = btoi(ft.Truth)
					}
				}
				if b == r.best && (r.ecmp == -1 || e == r.ecmp) {
					ok = true
				}
				return true
			})
			c.Check(ok, rule, k+" "+r.what, f.Decl.Pos(), "the limit inlined here does not follow the option table of ClientOptions.GetMaxPaths for this case: the initial dump / refresh gives the client a different number of paths than incremental updates do")
		}
		if k == locPkg+".(*LocRIB).UpdateNewClient" {
			// hands out copies, ends with EndOfRIB on every path
			for _, call := range clientCalls(f, "AddPathInitialDump", "AddPath") {
				dc, isCall := core.Unparen(call.Args[1]).(*ast.CallExpr)
				c.Check(isCall && core.FuncKey(core.Callee(f.Pkg, dc)) == "route.(*Path).Copy", rule, k+" dumps copies", call.Pos(), "the initial dump hands the Loc-RIB's own path objects to the client")
			}
			g := p.CFG(f)
			isEOR := func(n ast.Node) bool {
				return core.NodeHas(n, func(x ast.Node) bool {
					cl, ok := x.(*ast.CallExpr)
					if !ok {
						return false
					}
					se, ok := cl.Fun.(*ast.SelectorExpr)
					return ok && se.Sel.Name == "EndOfRIB" && isClientIface(f, se.X)
				})
			}
			rets, end := core.ExitsWithout(g, isEOR)
			c.Check(len(rets) == 0 && !end, rule, k+" ends with EndOfRIB", f.Decl.Pos(), "a path through UpdateNewClient does not send EndOfRIB to the new client")
		}
	}
}

func btoi(b bool) int {
	if b {
		return 1
	}
	return 0
}

// mentionedParams collects the parameter objects an expression depends on, expanding locals through their definitions.
func mentionedParams(f *core.Fn, e ast.Expr, seen map[types.Object]bool) map[types.Object]bool {
	out := map[types.Object]bool{}
	ast.Inspect(e, func(n ast.Node) bool {
		id, ok := n.(*ast.Ident)
		if !ok {
			return true
		}
		o := core.ObjOf(f.Pkg, id)
		v, isVar := o.(*types.Var)
		if !isVar || v.IsField() || seen[o] {
			return true
		}
		seen[o] = true
		isParam := false
		for i := 0; ; i++ {
			po := core.ParamObj(f, i)
			if po == nil {
				break
			}
			if po == o {
				isParam = true
			}
		}
		if isParam {
			out[o] = true
			return true
		}
		for _, d := range core.DefsOf(f, o) {
			for k := range mentionedParams(f, d, seen) {
				out[k] = true
			}
		}
		return true
	})
	return out
}
