package props

import (
	"go/ast"
	"go/token"
	"go/types"

	"verif/engine/core"
)

// diffMembership: route.PathsDiff decides what a client is withdrawn/announced.  Its membership test must be at least
// as fine as "same content": pointer identity, or the full-content relation Path.Compare.  Any coarser relation
// (Equal = same selection keys, Select()==0, ECMP) makes a replaced path with new content look unchanged, so the
// client keeps the stale path.
func diffMembership(c *core.Ctx) {
	p := c.P
	const rule = "diff-membership-is-identity"
	c.Floor(rule, 1)
	root := c.MustFunc("route.PathsDiff")
	if root == nil {
		return
	}
	pathT := p.Named("route", "Path")
	if pathT == nil {
		c.Undecided(rule, "route.Path", token.NoPos, "type not found")
		return
	}
	isPathPtr := func(f *core.Fn, e ast.Expr) bool {
		t := f.Pkg.TypesInfo.TypeOf(e)
		pt, ok := t.(*types.Pointer)
		return ok && types.Identical(pt.Elem(), pathT)
	}
	fine := map[string]bool{"route.(*Path).Compare": true}
	seen := map[*core.Fn]bool{}
	atoms := 0
	var visit func(f *core.Fn)
	visit = func(f *core.Fn) {
		if f == nil || seen[f] || f.Decl.Body == nil {
			return
		}
		seen[f] = true
		c.Analysed(f)
		ast.Inspect(f.Decl.Body, func(n ast.Node) bool {
			switch x := n.(type) {
			case *ast.BinaryExpr:
				if (x.Op == token.EQL || x.Op == token.NEQ) && isPathPtr(f, x.X) && isPathPtr(f, x.Y) {
					atoms++
					c.Hold(rule, f.Name()+" compares paths by pointer identity", x.Pos(), "pointer identity is the finest relation")
				}
			case *ast.CallExpr:
				callee := core.Callee(f.Pkg, x)
				if callee == nil {
					return true
				}
				sel, isSel := x.Fun.(*ast.SelectorExpr)
				if isSel && len(x.Args) == 1 && isPathPtr(f, sel.X) && isPathPtr(f, x.Args[0]) {
					atoms++
					k := core.FuncKey(callee)
					c.Check(fine[k], rule, f.Name()+" relates two paths through "+k, x.Pos(),
						"the membership test behind PathsDiff uses "+k+", which is coarser than path content (it ignores attributes that do not take part in it): a path replaced by one with different content but equal under this relation is neither withdrawn nor announced, and the client keeps a path the Loc-RIB no longer holds")
					return true
				}
				visit(p.FnOf(callee))
			}
			return true
		})
	}
	visit(root)
	c.Check(atoms >= 1, rule, "route.PathsDiff membership test found", root.Decl.Pos(), "no comparison of two paths found below PathsDiff")
}
