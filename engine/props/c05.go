package props

import (
	"fmt"
	"go/ast"
	"go/token"
	"go/types"

	"verif/engine/core"
)

func init() {
	Register(&Prop{
		Meta: core.Meta{
			ID: "C05", Title: "Loc-RIB mirrors the accepted paths of each Adj-RIB-In", Level: "other",
			Technique:   "def-use provenance on the typed AST (only post-policy paths cross the Adj-RIB-In boundary) + must-pass-through on go/cfg (replaced/removed paths are withdrawn on every exit)",
			DesignRef:   "DESIGN.md §4 C05",
			Decided:     "(1) every path handed to a RouteTableClient by package adjRIBIn (AddPath, AddPathInitialDump, RemovePath, ReplacePath) is result 0 of the import policy chain's Process — necessary because clients remove by full attribute comparison and policies rewrite attributes; (2) in addPath every exit passes removePathsFromClients for the paths the announcement replaced (all paths of the prefix, or the same-path-identifier ones with add-path receive), which are exactly what the table operation returned/removed; (3) in removePath every path removed from the table is handed to removePathsFromClients on every exit; Flush removes through removePath; (0) the identity relation that finds the path to withdraw reads every field on both operands, and path identifiers are opaque: compared only with each other, never with a constant (identifier 0 is a path like any other); (4) Unregister withdraws through the policy, hidden paths excluded; (5) the eBGP default LOCAL_PREF is applied before the policy runs.",
			NotDecided:  "equality of the Loc-RIB contribution with the stored eligible announcements at every quiescent point over all histories (history-quantified); what the Loc-RIB does with the calls (C02/C04).",
			TrustedBase: stdTrusted,
		},
		Run: runC05,
		Controls: []Control{
			{Name: "late-client-dump-honours-best-only", File: "routingtable/adjRIBIn/adj_rib_in.go", Old: "\t\tpaths := route.Paths()\n\t\tfor _, path := range paths {\n\t\t\t// Ineligible paths are never announced\n", New: "\t\tpaths := route.Paths()\n\t\tif len(paths) > 1 && a.sessionAttrs.RouteServerClient {\n\t\t\tpaths = paths[:1]\n\t\t}\n\t\tfor _, path := range paths {\n\t\t\t// Ineligible paths are never announced\n", Expect: "late-client-gets-every-stored-path"},
			{Name: "withdrawal-revalidates-the-path", File: "routingtable/adjRIBIn/adj_rib_in.go", Old: "\t\t// If this path wasn't eligible in the first place, we didn't announce it\n\t\tif path.HiddenReason != route.HiddenReasonNone {", New: "\t\t// If this path wasn't eligible in the first place, we didn't announce it\n\t\tif a.validatePath(path) != route.HiddenReasonNone {", Expect: "withdrawal-uses-the-recorded-verdict"},
			{Name: "policy-rewrites-the-stored-path", File: "routingtable/filter/chain.go", Old: "\tmp := pa.Copy()\n", New: "\tmp := pa\n", Expect: "policy-works-on-a-copy"},
			{Name: "flush-removes-best-path-only", File: "routingtable/adjRIBIn/adj_rib_in.go", Old: "\t\tfor _, path := range route.Paths() {\n\t\t\ta.removePath(route.Prefix(), path)\n\t\t}\n", New: "\t\ta.removePath(route.Prefix(), route.BestPath())\n", Expect: "flush-removes-every-path"},
			{Name: "identifier-zero-means-none", File: "routingtable/adjRIBIn/adj_rib_in.go", Old: "\t\tif a.sessionAttrs.AddPathRX {\n\t\t\tif p != nil && path.BGPPath.PathIdentifier != p.BGPPath.PathIdentifier {", New: "\t\tif a.sessionAttrs.AddPathRX && p != nil && p.BGPPath.PathIdentifier != 0 {\n\t\t\tif p != nil && path.BGPPath.PathIdentifier != p.BGPPath.PathIdentifier {", Expect: "path-identifier-is-opaque"},
			{Name: "source-compared-with-itself", File: "route/bgp_path.go", Old: "\tif b.Source.Compare(c.Source) != 0 {", New: "\tif b.Source.Compare(b.Source) != 0 {", Expect: "withdrawal-matches-own-path"},
			{Name: "withdraw-sends-stored-path", File: "routingtable/adjRIBIn/adj_rib_in.go", Old: "\t\tpath, reject := a.exportFilterChain.Process(pfx, path)\n\t\tif reject {\n\t\t\tcontinue\n\t\t}\n\t\tfor _, client := range a.clientManager.Clients() {\n\t\t\tclient.RemovePath(pfx, path)", New: "\t\t_, reject := a.exportFilterChain.Process(pfx, path)\n\t\tif reject {\n\t\t\tcontinue\n\t\t}\n\t\tfor _, client := range a.clientManager.Clients() {\n\t\t\tclient.RemovePath(pfx, path)", Expect: "post-policy-paths-only"},
			{Name: "copy-stored-verdict-on-the-original", File: "routingtable/adjRIBIn/adj_rib_in.go", Old: "\t\ta.rt.AddPath(pfx, p)\n\t} else {", New: "\t\ta.rt.AddPath(pfx, p.Copy())\n\t} else {", Expect: "stored-object-carries-the-verdict"},
			{Name: "unregister-withdraws-from-everybody", File: "routingtable/adjRIBIn/adj_rib_in.go", Old: "\t\t\tclient.RemovePath(r.Prefix(), p)\n\t\t}\n\t}\n}\n\n// RefreshRoute", New: "\t\t\tclient.RemovePath(r.Prefix(), p)\n\t\t}\n\t\ta.removePathsFromClients(r.Prefix(), r.Paths())\n\t}\n}\n\n// RefreshRoute", Expect: "unregister-withdraws"},
			{Name: "replaced-path-withdrawn-after-bailout", File: "routingtable/adjRIBIn/adj_rib_in.go", Old: "\ta.removePathsFromClients(pfx, oldPaths)\n\n\t// Bail out if this path is considered ineligible\n\tp.HiddenReason = a.validatePath(p)\n\tif p.HiddenReason != route.HiddenReasonNone {\n\t\treturn nil\n\t}\n", New: "\t// Bail out if this path is considered ineligible\n\tp.HiddenReason = a.validatePath(p)\n\tif p.HiddenReason != route.HiddenReasonNone {\n\t\treturn nil\n\t}\n\ta.removePathsFromClients(pfx, oldPaths)\n", Expect: "replaced-paths-withdrawn"},
		},
	})
}

const adjIn = "routingtable/adjRIBIn"
const processKey = "routingtable/filter.(Chain).Process"

// clientCalls lists calls on a RouteTableClient value inside f with the given method names.
func clientCalls(f *core.Fn, names ...string) []*ast.CallExpr {
	var out []*ast.CallExpr
	ast.Inspect(f.Decl.Body, func(n ast.Node) bool {
		call, ok := n.(*ast.CallExpr)
		if !ok {
			return true
		}
		sel, ok := call.Fun.(*ast.SelectorExpr)
		if !ok || !isClientIface(f, sel.X) {
			return true
		}
		for _, nm := range names {
			if sel.Sel.Name == nm {
				out = append(out, call)
			}
		}
		return true
	})
	return out
}

// processDef returns the Process call that defines (result 0) the variable used as e, if that is its only definition.
func processDef(f *core.Fn, e ast.Expr) *ast.CallExpr {
	obj := core.ObjOf(f.Pkg, e)
	if obj == nil {
		return nil
	}
	var found *ast.CallExpr
	n := 0
	usePath := core.PathTo(f.Decl.Body, e)
	ast.Inspect(f.Decl.Body, func(nd ast.Node) bool {
		as, ok := nd.(*ast.AssignStmt)
		if !ok {
			return true
		}
		for i, l := range as.Lhs {
			if core.ObjOf(f.Pkg, l) != obj {
				continue
			}
			n++
			if i == 0 && len(as.Rhs) == 1 {
				if call, ok := core.Unparen(as.Rhs[0]).(*ast.CallExpr); ok && core.FuncKey(core.Callee(f.Pkg, call)) == processKey && dominatesStructurally(f, as, e, usePath) {
					found = call
					continue
				}
			}
			found = nil
			n += 100
		}
		return true
	})
	// parameters and range variables count as other definitions
	if n == 0 || n > 100 {
		return nil
	}
	return found
}

func runC05(c *core.Ctx) {
	clientNotifiedUnderTableLock(c, "client-notified-under-table-lock", "routingtable/adjRIBIn", "AdjRIBIn", 3)
	adjRIBInDumpAndVerdict(c)
	p := c.P
	// removing "what the session contributed" finds the path through the identity relation Path.Compare
	identityOperandCoverage(c, "withdrawal-matches-own-path")
	pathIDOpaque(c, "path-identifier-is-opaque")
	// the import policy never rewrites the stored path: it works on a copy (re-running it for a withdrawal gives the same result)
	processCopiesFirst(c, "policy-works-on-a-copy")
	flushRemovesEveryPath(c)
	if p.Pkg(adjIn) == nil {
		c.Undecided("anchor", adjIn, token.NoPos, "package not found")
		return
	}
	// (1) ------------------------------------------------------------------------------------------
	c.Floor("post-policy-paths-only", 6)
	for _, f := range p.MethodsOf(adjIn, "AdjRIBIn") {
		if f.Decl.Body == nil {
			continue
		}
		calls := clientCalls(f, "AddPath", "AddPathInitialDump", "RemovePath", "ReplacePath")
		if len(calls) == 0 {
			continue
		}
		c.Analysed(f)
		ord := map[string]int{}
		for _, call := range calls {
			name := call.Fun.(*ast.SelectorExpr).Sel.Name
			for ai := 1; ai < len(call.Args); ai++ {
				ord[name]++
				construct := fmt.Sprintf("%s client.%s #%d arg %d", f.Name(), name, ord[name], ai)
				pd := processDef(f, call.Args[ai])
				okv := pd != nil
				if okv {
					// the variable must not be a shadowing of a range/param variable that can reach the call undefined by Process:
					// with `x, reject := chain.Process(…)` the only definition is the Process call (checked by processDef).
				}
				c.Check(okv, "post-policy-paths-only", construct, call.Pos(),
					"a path that is not the output of the import policy (a stored, pre-policy path) is handed to a Loc-RIB client; the Loc-RIB matches removals by full attribute comparison, so for an attribute-rewriting policy the contributed path is never removed (or a path the policy never produced is announced)")
			}
		}
	}

	// (2) addPath ----------------------------------------------------------------------------------
	if f := c.MustFunc(adjIn + ".(*AdjRIBIn).addPath"); f != nil {
		rpc := p.Func(adjIn + ".(*AdjRIBIn).removePathsFromClients")
		g := p.CFG(f)
		isRPC := func(n ast.Node) bool {
			return core.NodeHas(n, func(x ast.Node) bool {
				cl, ok := x.(*ast.CallExpr)
				return ok && rpc != nil && core.Callee(f.Pkg, cl) == rpc.Obj
			})
		}
		rets, end := core.ExitsWithout(g, isRPC)
		at := f.Decl.Pos()
		if len(rets) > 0 {
			at = rets[0].Pos()
		}
		storedObjectCarriesTheVerdict(c, f)
		c.Check(len(rets) == 0 && !end, "replaced-paths-withdrawn", f.Name()+" every exit passes removePathsFromClients", at,
			"an exit of addPath is reachable without withdrawing the paths the announcement replaced (e.g. the ineligible-path bail-out comes first): the replaced path stays in the Loc-RIB although the Adj-RIB-In no longer holds it")
		// the withdrawn list is what the table operation handed back
		if rpc != nil {
			for _, call := range core.Calls(f.Pkg, f.Decl.Body, func(o *types.Func) bool { return o == rpc.Obj }) {
				obj := core.ObjOf(f.Pkg, call.Args[1])
				okSrc := obj != nil
				nDefs := 0
				if obj != nil {
					for _, d := range core.DefsOf(f, obj) {
						nDefs++
						switch x := core.Unparen(d).(type) {
						case *ast.CallExpr:
							k := core.FuncKey(core.Callee(f.Pkg, x))
							isMake := false
							if id, ok := x.Fun.(*ast.Ident); ok {
								if b, ok := f.Pkg.TypesInfo.Uses[id].(*types.Builtin); ok && (b.Name() == "make" || b.Name() == "append") {
									isMake = true
								}
							}
							if k != "routingtable.(*RoutingTable).ReplacePath" && !isMake {
								okSrc = false
							}
						default:
							okSrc = false
						}
					}
				}
				c.Check(okSrc && nDefs >= 2, "replaced-paths-withdrawn", f.Name()+" withdrawn list is what the table operation replaced", call.Pos(),
					"the list handed to removePathsFromClients is not (only) the result of RoutingTable.ReplacePath / the list of same-identifier paths removed")
				// appended elements must be the ones removed from the table in the same block
				ast.Inspect(f.Decl.Body, func(n ast.Node) bool {
					as, ok := n.(*ast.AssignStmt)
					if !ok || len(as.Lhs) != 1 || core.ObjOf(f.Pkg, as.Lhs[0]) != obj {
						return true
					}
					ap, ok := core.Unparen(as.Rhs[0]).(*ast.CallExpr)
					if !ok || len(ap.Args) != 2 {
						return true
					}
					if id, ok := ap.Fun.(*ast.Ident); !ok || id.Name != "append" {
						return true
					}
					elem := core.ObjOf(f.Pkg, ap.Args[1])
					// some rt.RemovePath(pfx, elem) with the same guard signature
					same := false
					for _, rc := range core.Calls(f.Pkg, f.Decl.Body, core.KeyIs("routingtable.(*RoutingTable).RemovePath")) {
						if len(rc.Args) == 2 && core.ObjOf(f.Pkg, rc.Args[1]) == elem && core.SameSig(core.GuardSig(f, rc), core.GuardSig(f, as)) {
							same = true
						}
					}
					c.Check(same, "replaced-paths-withdrawn", f.Name()+" add-path: removed-from-table ⇔ queued for withdrawal", as.Pos(), "a path is removed from the Adj-RIB-In table under a different condition than it is queued for withdrawal from the clients")
					return true
				})
			}
		}
		// (5) default local-pref before policy
		lp := p.Field("route", "BGPPathA", "LocalPref")
		proc := core.Calls(f.Pkg, f.Decl.Body, core.KeyIs(processKey))
		var store ast.Node
		ast.Inspect(f.Decl.Body, func(n ast.Node) bool {
			if as, ok := n.(*ast.AssignStmt); ok {
				for _, l := range as.Lhs {
					if core.FieldOf(f.Pkg, l) == lp {
						store = as
					}
				}
			}
			return true
		})
		if store != nil && len(proc) == 1 {
			c.Check(store.Pos() < proc[0].Pos(), "default-localpref-before-policy", f.Name(), store.Pos(), "the eBGP default LOCAL_PREF is applied after the import policy ran (relative policy changes would be lost)")
			okG := false
			for _, ft := range core.FactsAt(f, store) {
				if ft.Expr != nil && !ft.Truth && core.FieldOf(f.Pkg, ft.Expr) == p.Field("routingtable", "SessionAttrs", "IBGP") {
					okG = true
				}
			}
			c.Check(okG, "default-localpref-before-policy", f.Name()+" only on eBGP", store.Pos(), "the default LOCAL_PREF store is not restricted to eBGP sessions")
		} else {
			c.Undecided("default-localpref-before-policy", f.Name(), f.Decl.Pos(), "LOCAL_PREF default store or policy call not found in addPath")
		}
	}

	// (3) removePath -------------------------------------------------------------------------------
	if f := c.MustFunc(adjIn + ".(*AdjRIBIn).removePath"); f != nil {
		rpc := p.Func(adjIn + ".(*AdjRIBIn).removePathsFromClients")
		g := p.CFG(f)
		isRm := func(n ast.Node) bool {
			return core.NodeHas(n, func(x ast.Node) bool {
				cl, ok := x.(*ast.CallExpr)
				return ok && core.FuncKey(core.Callee(f.Pkg, cl)) == "routingtable.(*RoutingTable).RemovePath"
			})
		}
		isRPC := func(n ast.Node) bool {
			return core.NodeHas(n, func(x ast.Node) bool {
				cl, ok := x.(*ast.CallExpr)
				return ok && rpc != nil && core.Callee(f.Pkg, cl) == rpc.Obj
			})
		}
		isRet := func(n ast.Node) bool { _, ok := n.(*ast.ReturnStmt); return ok }
		bad, started := core.PathAvoidingFromS(g, isRm, isRPC, isRet)
		if !started {
			c.Undecided("removed-paths-withdrawn", f.Name(), f.Decl.Pos(), "table removal not found")
		} else {
			c.Check(len(bad) == 0, "removed-paths-withdrawn", f.Name()+" table removal is followed by removePathsFromClients on every exit", f.Decl.Pos(), "a path can be removed from the Adj-RIB-In table and the function return without withdrawing it from the clients")
		}
		// removed list = the paths removed
		for _, as := range assignsAppend(f) {
			elem := core.ObjOf(f.Pkg, as.Rhs[0].(*ast.CallExpr).Args[1])
			same := false
			for _, rc := range core.Calls(f.Pkg, f.Decl.Body, core.KeyIs("routingtable.(*RoutingTable).RemovePath")) {
				if len(rc.Args) == 2 && core.ObjOf(f.Pkg, rc.Args[1]) == elem && core.SameSig(core.GuardSig(f, rc), core.GuardSig(f, as)) {
					same = true
				}
			}
			c.Check(same, "removed-paths-withdrawn", f.Name()+" removed-from-table ⇔ queued for withdrawal", as.Pos(), "a path is removed from the table under a different condition than it is queued for withdrawal")
		}
	}
	if f := c.MustFunc(adjIn + ".(*AdjRIBIn).Flush"); f != nil {
		rp := p.Func(adjIn + ".(*AdjRIBIn).removePath")
		n := len(core.Calls(f.Pkg, f.Decl.Body, func(o *types.Func) bool { return rp != nil && o == rp.Obj }))
		c.Check(n >= 1, "removed-paths-withdrawn", f.Name()+" flushes through removePath", f.Decl.Pos(), "Flush no longer removes through removePath (which withdraws from clients)")
	}

	// (4) Unregister -------------------------------------------------------------------------------
	if f := c.MustFunc(adjIn + ".(*AdjRIBIn).Unregister"); f != nil {
		n := len(clientCalls(f, "RemovePath"))
		rpc := p.Func(adjIn + ".(*AdjRIBIn).removePathsFromClients")
		viaHelper := len(core.Calls(f.Pkg, f.Decl.Body, func(o *types.Func) bool { return rpc != nil && o == rpc.Obj })) > 0
		c.Check(n > 0 || viaHelper, "unregister-withdraws", f.Name()+" withdraws the client's paths", f.Decl.Pos(), "Unregister no longer withdraws the stored paths from the client that leaves")
		// … from that client only: the withdrawals go to the parameter, and nothing Unregister calls walks the client list
		leaving := core.ParamObj(f, 0)
		only := ""
		for _, call := range clientCalls(f, "RemovePath", "AddPath", "ReplacePath", "AddPathInitialDump") {
			if core.ObjOf(f.Pkg, call.Fun.(*ast.SelectorExpr).X) != leaving {
				only = "a notification in Unregister goes to a client other than the one that leaves"
			}
		}
		for _, g := range p.ReachableFns(f) {
			if g == f || g.Pkg != f.Pkg {
				continue
			}
			if len(clientCalls(g, "RemovePath", "AddPath", "ReplacePath", "AddPathInitialDump")) > 0 {
				only = "Unregister reaches " + g.Name() + ", which notifies every registered client: the clients that stay lose the paths although the Adj-RIB-In still holds them"
			}
		}
		c.Check(only == "", "unregister-withdraws", f.Name()+" withdraws from the leaving client only", f.Decl.Pos(), only)
	}
}

func assignsAppend(f *core.Fn) []*ast.AssignStmt {
	var out []*ast.AssignStmt
	ast.Inspect(f.Decl.Body, func(n ast.Node) bool {
		as, ok := n.(*ast.AssignStmt)
		if !ok || len(as.Lhs) != 1 || len(as.Rhs) != 1 {
			return true
		}
		ap, ok := core.Unparen(as.Rhs[0]).(*ast.CallExpr)
		if !ok || len(ap.Args) != 2 {
			return true
		}
		if id, ok := ap.Fun.(*ast.Ident); ok && id.Name == "append" && core.ObjOf(f.Pkg, as.Lhs[0]) == core.ObjOf(f.Pkg, ap.Args[0]) {
			out = append(out, as)
		}
		return true
	})
	return out
}

// dominatesStructurally: statement st precedes the use and sits directly in a block that encloses the use.
func dominatesStructurally(f *core.Fn, st ast.Stmt, use ast.Node, usePath []ast.Node) bool {
	if st.End() > use.Pos() {
		return false
	}
	for _, n := range usePath {
		var list []ast.Stmt
		switch b := n.(type) {
		case *ast.BlockStmt:
			list = b.List
		case *ast.CaseClause:
			list = b.Body
		case *ast.CommClause:
			list = b.Body
		}
		for _, s := range list {
			if s == st {
				return true
			}
		}
	}
	return false
}

// flushRemovesEveryPath: Flush (session end, BMP peer down) removes everything the session stored.  With add-path receive a
// prefix holds several paths and removePath matches one path identifier per call: the call has to be made for every
// path of every route — inside a range over the route's paths inside a range over the table dump, neither left early,
// with the inner loop variable as the path.
func flushRemovesEveryPath(c *core.Ctx) {
	const rule = "flush-removes-every-path"
	p := c.P
	c.Floor(rule, 1)
	f := c.MustFunc(adjIn + ".(*AdjRIBIn).Flush")
	rm := p.Func(adjIn + ".(*AdjRIBIn).removePath")
	if f == nil || rm == nil {
		return
	}
	c.Analysed(f)
	calls := core.Calls(f.Pkg, f.Decl.Body, func(o *types.Func) bool { return o == rm.Obj })
	ok, why := len(calls) >= 1, "Flush no longer removes paths through removePath"
	for _, call := range calls {
		var loops []*ast.RangeStmt
		for _, anc := range core.PathTo(f.Decl.Body, call) {
			if rs, isR := anc.(*ast.RangeStmt); isR {
				loops = append(loops, rs)
			}
		}
		overPaths := false
		for _, rs := range loops {
			if len(loopExits(rs.Body)) > 0 {
				ok, why = false, "a loop around the removal is left early"
			}
			if cl, isCall := core.Unparen(rs.X).(*ast.CallExpr); isCall && core.FuncKey(core.Callee(f.Pkg, cl)) == "route.(*Route).Paths" {
				if rs.Value != nil && len(call.Args) == 2 && core.ObjOf(f.Pkg, call.Args[1]) == core.ObjOf(f.Pkg, rs.Value) {
					overPaths = true
				}
			}
		}
		if len(loops) < 2 || !overPaths {
			ok, why = false, "removePath is not called for every path of every route (range over route.Paths() inside the range over the table, with the path of the inner loop)"
		}
	}
	pos := f.Decl.Pos()
	if len(calls) > 0 {
		pos = calls[0].Pos()
	}
	c.Check(ok, rule, f.Name()+" removes every stored path of every route", pos, why+": on an add-path session the paths with other identifiers stay in the Adj-RIB-In and in the Loc-RIB after the session ended")
}

// storedObjectCarriesTheVerdict: the verdict "was this path announced" (HiddenReason) is written once, in addPath, and read back from
// the STORED object by every later withdrawal. The object addPath hands to the table must therefore be the very object it writes the
// verdict to afterwards: storing a copy leaves the stored object with the sender's verdict (none), and the withdrawal of a path that
// was never announced is sent to the clients (or, the other way round, an announced path is never withdrawn).
func storedObjectCarriesTheVerdict(c *core.Ctx, f *core.Fn) {
	const rule = "stored-object-carries-the-verdict"
	hidden := c.P.Field("route", "Path", "HiddenReason")
	var verdictOn []types.Object
	ast.Inspect(f.Decl.Body, func(n ast.Node) bool {
		as, ok := n.(*ast.AssignStmt)
		if !ok || len(as.Lhs) != 1 || len(as.Rhs) != 1 {
			return true
		}
		sel, ok := core.Unparen(as.Lhs[0]).(*ast.SelectorExpr)
		if !ok || core.FieldOf(f.Pkg, sel) != hidden {
			return true
		}
		if call, isCall := core.Unparen(as.Rhs[0]).(*ast.CallExpr); isCall && core.FuncKey(core.Callee(f.Pkg, call)) == adjIn+".(*AdjRIBIn).validatePath" {
			verdictOn = append(verdictOn, core.ObjOf(f.Pkg, sel.X))
		}
		return true
	})
	c.Check(len(verdictOn) == 1 && verdictOn[0] != nil, rule, f.Name()+" writes the validation verdict to one named path object", f.Decl.Pos(), "the store HiddenReason = validatePath(…) was not found exactly once on a named object")
	if len(verdictOn) != 1 || verdictOn[0] == nil {
		return
	}
	n := 0
	for _, call := range core.Calls(f.Pkg, f.Decl.Body, core.KeyIs("routingtable.(*RoutingTable).AddPath", "routingtable.(*RoutingTable).ReplacePath")) {
		n++
		id, isId := core.Unparen(call.Args[1]).(*ast.Ident)
		c.Check(isId && core.ObjOf(f.Pkg, id) == verdictOn[0], rule, fmt.Sprintf("%s table store #%d stores the object the verdict is written to", f.Name(), n), call.Pos(),
			"the object put into the Adj-RIB-In table is not the object HiddenReason is written to afterwards (e.g. a copy): the stored path keeps the sender's verdict, so its later withdrawal is sent for a path that was never announced, or skipped for one that was")
	}
	// and the object is not re-bound between the store and the verdict
	c.Check(n >= 2, rule, f.Name()+" table stores found", f.Decl.Pos(), "expected the add-path and the replace store")
}
