package props

import (
	"fmt"
	"go/ast"
	"go/types"

	"verif/engine/core"
)

// adjRIBInDumpAndVerdict:
//
//	(a) the Adj-RIB-In holds one path per (prefix, identifier) and does not rank them: a client registered late gets
//	    EVERY stored path of every prefix — the loop that feeds the initial dump ranges over the route's full path list
//	    (route.Paths() or a local defined by exactly that call, never a re-slice or a single element);
//	(b) whether a path was announced to the clients is decided ONCE, when it is stored (HiddenReason); the removal
//	    side reads the recorded verdict.  Nothing reachable from the functions that tell clients about a removal may
//	    re-run the validation or write HiddenReason: loop-detection inputs (contributing ASNs, cluster IDs) change over
//	    time, and a path judged eligible when it came and ineligible when it goes is dropped without its withdrawal.
func adjRIBInDumpAndVerdict(c *core.Ctx) {
	p := c.P
	const in = "routingtable/adjRIBIn"
	// (a)
	const ruleA = "late-client-gets-every-stored-path"
	if f := c.MustFunc(in + ".(*AdjRIBIn).UpdateNewClient"); f != nil {
		c.Analysed(f)
		paths := p.Func("route.(*Route).Paths")
		n := 0
		ast.Inspect(f.Decl.Body, func(nd ast.Node) bool {
			rs, ok := nd.(*ast.RangeStmt)
			if !ok {
				return true
			}
			// the loop whose body announces to the client
			announces := core.NodeHas(rs.Body, func(x ast.Node) bool {
				call, ok := x.(*ast.CallExpr)
				if !ok {
					return false
				}
				se, ok := call.Fun.(*ast.SelectorExpr)
				return ok && se.Sel.Name == "AddPathInitialDump"
			})
			t := f.Pkg.TypesInfo.TypeOf(rs.X)
			if !announces || t == nil || t.String() != "[]*github.com/bio-routing/bio-rd/route.Path" {
				return true
			}
			n++
			full := func(e ast.Expr) bool {
				call, ok := core.Unparen(e).(*ast.CallExpr)
				return ok && paths != nil && core.Callee(f.Pkg, call) == paths.Obj
			}
			ok2 := full(rs.X)
			if id, isId := core.Unparen(rs.X).(*ast.Ident); isId && !ok2 {
				if o := core.ObjOf(f.Pkg, id); o != nil {
					defs := core.DefsOf(f, o)
					ok2 = len(defs) > 0
					for _, d := range defs {
						if !full(d) {
							ok2 = false
						}
					}
				}
			}
			c.Check(ok2, ruleA, fmt.Sprintf("%s dump loop #%d ranges over all paths of the route", f.Name(), n), rs.Pos(),
				"the initial dump of the Adj-RIB-In iterates a cut-down path list (a re-slice or a conditionally replaced list) instead of every stored path: a client registered after the paths were learned misses paths the Adj-RIB-In holds — on an add-path session all identifiers but one")
			return true
		})
		c.Check(n >= 1, ruleA, "dump loop found", f.Decl.Pos(), "no loop over a route's paths that announces to the new client found")
	}
	// (b)
	const ruleB = "withdrawal-uses-the-recorded-verdict"
	hidden := p.Field("route", "Path", "HiddenReason")
	validate := p.Func(in + ".(*AdjRIBIn).validatePath")
	if hidden == nil || validate == nil {
		c.Check(false, ruleB, "Path.HiddenReason / validatePath", 0, "anchors not found")
		return
	}
	n := 0
	for _, f := range p.MethodsOf(in, "AdjRIBIn") {
		if f.Decl.Body == nil {
			continue
		}
		// functions that tell clients about a removal
		tells := false
		ast.Inspect(f.Decl.Body, func(nd ast.Node) bool {
			if call, ok := nd.(*ast.CallExpr); ok {
				if se, ok := call.Fun.(*ast.SelectorExpr); ok && se.Sel.Name == "RemovePath" {
					if t := f.Pkg.TypesInfo.TypeOf(se.X); t != nil && t.String() == "github.com/bio-routing/bio-rd/routingtable.RouteTableClient" {
						tells = true
					}
				}
			}
			return true
		})
		if !tells {
			continue
		}
		n++
		c.Analysed(f)
		bad := ""
		for _, g := range p.ReachableFns(f) {
			if g.Decl.Body == nil || g.Pkg != f.Pkg {
				continue
			}
			if g == validate {
				bad = "calls validatePath (through " + g.Name() + ")"
			}
			for _, a := range core.FieldAccesses(g.Pkg, g.Decl.Body) {
				if a.Field == hidden && a.Write {
					bad = "writes HiddenReason in " + g.Name()
				}
			}
			for _, call := range core.Calls(g.Pkg, g.Decl.Body, func(o *types.Func) bool { return o == validate.Obj }) {
				_ = call
				bad = "re-validates the path in " + g.Name()
			}
		}
		c.Check(bad == "", ruleB, f.Name()+" reads the verdict recorded when the path was stored", f.Decl.Pos(),
			"the removal side "+bad+": the eligibility of a stored path is re-decided against the VRF's CURRENT contributing ASNs / cluster IDs — a path announced earlier and judged a loop now is dropped from the Adj-RIB-In without a withdrawal reaching the Loc-RIB")
	}
	c.Check(n >= 1, ruleB, "removal notifiers found", 0, "no AdjRIBIn method calls client.RemovePath")
}
