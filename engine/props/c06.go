package props

import (
	"fmt"
	"go/ast"
	"go/token"
	"go/types"
	"strings"

	"verif/engine/core"
)

func init() {
	Register(&Prop{
		Meta: core.Meta{
			ID: "C06", Title: "Ineligible paths never reach the Loc-RIB", Level: "other",
			Technique:   "hidden-path gate on every emission (typed-AST guard extraction at the policy call that produces the emitted path), reason-table agreement, allowed-atom check of the loop-detection predicates, RFC 9234 ingress truth table on extracted guards, init/dispose pairing of the loop-detection registrations",
			DesignRef:   "DESIGN.md §4 C06",
			Decided:     "(1) every announcement a client receives from package adjRIBIn (AddPath, AddPathInitialDump, the new path of ReplacePath) is the policy output for a stored path that a dominating test established as not hidden; addPath stores validatePath's verdict in HiddenReason before that test, and no return of a function that stores a path in the table is reachable from the store without that verdict assignment; (2) validatePath returns each of the five reasons of the statement (AS loop, our ORIGINATOR_ID, cluster loop, OTC mismatch, empty AS_PATH on eBGP) under a condition whose key atom has the required polarity, and no condition on the way mentions anything but the attributes/session facts of these five rules — in particular the AS-loop and cluster-loop scans look at every ASN of every segment / every cluster ID (no skip conditions); (3) validatePathOnlyToCustomer agrees with the RFC 9234 §5 ingress table on all role × OTC combinations (72 valuations), including the OTC stamp on routes from providers, peers and route servers; (4) fsmAddressFamily.init registers the local ASN (and the cluster ID for RR clients) with the VRF before the Adj-RIB-In gets its first client, and dispose/ removes them under the same conditions; (5) RefcounterUint32.Remove decrements the entry whose value was requested and, at zero, deletes exactly that entry (table of slice-deletion idioms: shift+truncate, append-splice, swap-with-last+truncate, each with the matched loop index).",
			NotDecided:  "the reference counters beyond the Remove rule (Add/IsPresent are read, not decided); behaviour over histories of policy replacements (only the gate on each emission is decided).",
			TrustedBase: stdTrusted,
		},
		Run: runC06,
		Controls: []Control{
			{Name: "cluster-id-default-applied-to-the-attributes-only", File: "protocols/bgp/server/fsm_address_family.go", Old: "\t\tClusterID:            f.fsm.peer.clusterID,\n", New: "\t\tClusterID:            f.fsm.peer.routerID,\n", Expect: "registered-loop-value-is-the-stamped-one"},
			{Name: "per-nlri-copy-written-by-hand", File: "protocols/bgp/server/fsm_address_family.go", Old: "\t\tp := path.Copy()\n\t\tp.BGPPath.PathIdentifier = n.PathIdentifier\n", New: "\t\tp := &route.Path{Type: path.Type, LTime: path.LTime, BGPPath: &route.BGPPath{BGPPathA: path.BGPPath.BGPPathA.Copy(), ASPath: path.BGPPath.ASPath, ASPathLen: path.BGPPath.ASPathLen, Communities: path.BGPPath.Communities, LargeCommunities: path.BGPPath.LargeCommunities}}\n\t\tp.BGPPath.PathIdentifier = n.PathIdentifier\n", Expect: "hand-written-copy-names-every-field"},
			{Name: "replace-chain-drops-hidden-gate", File: "routingtable/adjRIBIn/adj_rib_in.go", Old: "\t\t\t// Ineligible paths are never announced, whatever the policy says\n\t\t\tif path.IsHidden() {\n\t\t\t\tcontinue\n\t\t\t}\n", New: "", Expect: "hidden-gate"},
			{Name: "reannouncement-shortcut-skips-verdict", File: "routingtable/adjRIBIn/adj_rib_in.go", Old: "\t// Bail out if this path is considered ineligible\n", New: "\tif len(oldPaths) == 1 && oldPaths[0].IsHidden() && oldPaths[0].Equal(p) {\n\t\treturn nil\n\t}\n", Expect: "stored-path-has-verdict"},
			{Name: "refcounter-swap-wrong-way", File: "util/refcounter/refcounter_uint32.go", Old: "\t\t\tcopy(itemList[i:], itemList[i+1:])\n\t\t\titemList = itemList[:]\n\t\t\tr.items = itemList[:len(itemList)-1]\n", New: "\t\t\tlast := len(itemList) - 1\n\t\t\titemList[last] = itemList[i]\n\t\t\tr.items = itemList[:last]\n", Expect: "refcounter-removes-matched-entry"},
			{Name: "refactor-refcounter-swap-with-last", Silent: true, File: "util/refcounter/refcounter_uint32.go", Old: "\t\t\tcopy(itemList[i:], itemList[i+1:])\n\t\t\titemList = itemList[:]\n\t\t\tr.items = itemList[:len(itemList)-1]\n", New: "\t\t\tlast := len(itemList) - 1\n\t\t\titemList[i] = itemList[last]\n\t\t\tr.items = itemList[:last]\n"},
			{Name: "refactor-refcounter-append-delete", Silent: true, File: "util/refcounter/refcounter_uint32.go", Old: "\t\t\tcopy(itemList[i:], itemList[i+1:])\n\t\t\titemList = itemList[:]\n\t\t\tr.items = itemList[:len(itemList)-1]\n", New: "\t\t\tr.items = append(itemList[:i], itemList[i+1:]...)\n"},
			{Name: "initial-dump-without-the-table-lock", File: "routingtable/adjRIBIn/adj_rib_in.go", Old: "func (a *AdjRIBIn) UpdateNewClient(client routingtable.RouteTableClient) error {\n\ta.mu.RLock()\n\tdefer a.mu.RUnlock()\n", New: "func (a *AdjRIBIn) UpdateNewClient(client routingtable.RouteTableClient) error {\n\ta.mu.RLock()\n\ta.mu.RUnlock()\n", Expect: "hidden-gate"},
			{Name: "asloop-skips-sets", File: "routingtable/adjRIBIn/adj_rib_in.go", Old: "\tfor _, pathSegment := range *p.BGPPath.ASPath {\n", New: "\tfor _, pathSegment := range *p.BGPPath.ASPath {\n\t\tif pathSegment.Type != 2 {\n\t\t\tcontinue\n\t\t}\n", Expect: "eligibility-conditions"},
			{Name: "otc-peer-any-asn", File: "routingtable/adjRIBIn/adj_rib_in.go", Old: "if pr == packet.PeerRoleRolePeer && path.BGPPath.BGPPathA.OnlyToCustomer != a.sessionAttrs.PeerASN {", New: "if pr == packet.PeerRoleRoleRS && path.BGPPath.BGPPathA.OnlyToCustomer != a.sessionAttrs.PeerASN {", Expect: "otc-ingress-table"},
			{Name: "dispose-removes-clusterid-unconditionally", File: "protocols/bgp/server/fsm_address_family.go", Old: "\tif f.fsm.peer.routeReflectorClient {\n\t\tf.fsm.peer.vrf.RemoveContributingClusterID(f.fsm.peer.clusterID)\n\t}\n", New: "\tf.fsm.peer.vrf.RemoveContributingClusterID(f.fsm.peer.clusterID)\n", Expect: "loop-registration-paired"},
		},
	})
}

// notHiddenFact: do the facts establish that path variable obj is not hidden?
func notHiddenFact(f *core.Fn, facts []core.Fact, obj types.Object, hidden *types.Var, none types.Object, isHidden *types.Func) bool {
	for _, ft := range facts {
		if ft.Expr == nil {
			continue
		}
		switch x := core.Unparen(ft.Expr).(type) {
		case *ast.BinaryExpr:
			if x.Op != token.EQL {
				continue
			}
			a, b := x.X, x.Y
			if core.FieldOf(f.Pkg, b) == hidden {
				a, b = b, a
			}
			if core.FieldOf(f.Pkg, a) == hidden {
				if sel, ok := core.Unparen(a).(*ast.SelectorExpr); ok && core.ObjOf(f.Pkg, sel.X) == obj {
					if co := core.ConstObjOf(f.Pkg, b); co != nil && types.Object(co) == none && ft.Truth {
						return true
					}
				}
			}
		case *ast.CallExpr:
			if core.Callee(f.Pkg, x) == isHidden && isHidden != nil && !ft.Truth {
				if sel, ok := x.Fun.(*ast.SelectorExpr); ok && core.ObjOf(f.Pkg, sel.X) == obj {
					return true
				}
			}
		}
	}
	return false
}

func runC06(c *core.Ctx) {
	handWrittenCopiesAreComplete(c, "hand-written-copy-names-every-field")
	loopValuesRegisteredAreTheOnesStamped(c)
	p := c.P
	hidden := p.Field("route", "Path", "HiddenReason")
	none := p.Object("route", "HiddenReasonNone")
	var isHidden *types.Func
	if f := p.Func("route.(*Path).IsHidden"); f != nil {
		isHidden = f.Obj
	}
	if hidden == nil || none == nil {
		c.Undecided("anchor", "route.Path.HiddenReason", token.NoPos, "anchor not found")
		return
	}
	// (1) hidden gate ------------------------------------------------------------------------------
	c.Floor("hidden-gate", 5)
	for _, f := range p.MethodsOf(adjIn, "AdjRIBIn") {
		if f.Decl.Body == nil {
			continue
		}
		ord := 0
		for _, call := range clientCalls(f, "AddPath", "AddPathInitialDump", "ReplacePath") {
			name := call.Fun.(*ast.SelectorExpr).Sel.Name
			arg := call.Args[len(call.Args)-1] // the announced path
			ord++
			c.Analysed(f)
			construct := fmt.Sprintf("%s client.%s #%d", f.Name(), name, ord)
			pd := processDef(f, arg)
			if pd == nil {
				c.Fail("hidden-gate", construct, call.Pos(), "announced path is not the output of the policy for a stored path (see C05); the hidden gate cannot be established")
				continue
			}
			src := core.ObjOf(f.Pkg, pd.Args[1])
			if src == nil {
				c.Undecided("hidden-gate", construct, pd.Pos(), "policy input is not a plain variable")
				continue
			}
			ok := notHiddenFact(f, core.FactsAt(f, pd), src, hidden, none, isHidden)
			c.Check(ok, "hidden-gate", construct, call.Pos(),
				"the path announced to the client is derived from a stored path without a dominating test that the stored path is not hidden (HiddenReason == None / !IsHidden()): a path with an AS loop, our ORIGINATOR_ID/cluster ID, an OTC mismatch or an empty AS_PATH is handed to the Loc-RIB")
		}
	}
	// addPath stores the verdict before the gate
	if f := c.MustFunc(adjIn + ".(*AdjRIBIn).addPath"); f != nil {
		vp := p.Func(adjIn + ".(*AdjRIBIn).validatePath")
		okStore := false
		var storePos token.Pos
		ast.Inspect(f.Decl.Body, func(n ast.Node) bool {
			as, ok := n.(*ast.AssignStmt)
			if !ok || len(as.Lhs) != 1 || core.FieldOf(f.Pkg, as.Lhs[0]) != hidden {
				return true
			}
			if call, ok := core.Unparen(as.Rhs[0]).(*ast.CallExpr); ok && vp != nil && core.Callee(f.Pkg, call) == vp.Obj {
				okStore = true
				storePos = as.Pos()
			}
			return true
		})
		proc := core.Calls(f.Pkg, f.Decl.Body, core.KeyIs(processKey))
		c.Check(okStore && len(proc) == 1 && storePos < proc[0].Pos(), "hidden-gate", f.Name()+" stores validatePath's verdict before the policy runs", f.Decl.Pos(), "addPath does not record validatePath's verdict in HiddenReason before the gate")
	}

	// (1c) the verdict is read and the path handed out in one critical section with the code that stores it: addPath puts a path
	// into the table BEFORE it records the verdict, so anything that walks the table and hands paths out must exclude it —
	// at every emission in a method of AdjRIBIn the Adj-RIB-In lock is held (locally, or by every caller)
	{
		lp := core.BuildLockProg(p, func(f *core.Fn) bool { return strings.HasSuffix(f.Pkg.PkgPath, adjIn) })
		entry := lp.EntryMust()
		muF := p.Field(adjIn, "AdjRIBIn", "mu")
		nEm := 0
		for _, f := range p.MethodsOf(adjIn, "AdjRIBIn") {
			if f.Decl.Body == nil || muF == nil {
				continue
			}
			for k, call := range clientCalls(f, "AddPath", "AddPathInitialDump", "ReplacePath") {
				nEm++
				held := false
				_ = k
				if ls := lp.Sets[f]; ls != nil {
					for h := range ls.MustAt(call) {
						if hc := lp.KeyClass[f][h]; hc != nil && core.ClassKey2(hc) == core.ClassKey2(muF) {
							held = true
						}
					}
				}
				if entry[f][core.ClassKey2(muF)] {
					held = true
				}
				c.Check(held, "hidden-gate", fmt.Sprintf("%s hands a path out with the Adj-RIB-In lock held (emission #%d)", f.Name(), k+1), call.Pos(),
					"a stored path is tested for eligibility and handed to a client without the Adj-RIB-In lock: addPath stores a path in the table before it records the verdict, so a dump that runs concurrently reads an ineligible path that is not yet marked hidden and installs it in the Loc-RIB")
			}
		}
		c.Check(nEm >= 3, "hidden-gate", "emissions of package adjRIBIn checked for the lock", token.NoPos, fmt.Sprintf("found %d", nEm))
	}

	// every stored path gets a verdict: from each store into the table, no return is reachable without the verdict assignment
	c.Floor("stored-path-has-verdict", 2)
	for _, f := range p.MethodsOf(adjIn, "AdjRIBIn") {
		if f.Decl.Body == nil {
			continue
		}
		isStoreKey := core.KeyIs("routingtable.(*RoutingTable).AddPath", "routingtable.(*RoutingTable).ReplacePath")
		stores := core.Calls(f.Pkg, f.Decl.Body, isStoreKey)
		if len(stores) == 0 {
			continue
		}
		c.Analysed(f)
		vp := p.Func(adjIn + ".(*AdjRIBIn).validatePath")
		g := p.CFG(f)
		for i, st := range stores {
			stored := core.ObjOf(f.Pkg, st.Args[len(st.Args)-1])
			construct := fmt.Sprintf("%s store #%d", f.Name(), i+1)
			if stored == nil || vp == nil {
				c.Undecided("stored-path-has-verdict", construct, st.Pos(), "stored path is not a plain variable / validatePath not found")
				continue
			}
			isThis := func(n ast.Node) bool { return core.NodeHas(n, func(x ast.Node) bool { return x == ast.Node(st) }) }
			isVerdict := func(n ast.Node) bool {
				as, ok := n.(*ast.AssignStmt)
				if !ok || len(as.Lhs) != 1 || len(as.Rhs) != 1 || core.FieldOf(f.Pkg, as.Lhs[0]) != hidden {
					return false
				}
				sel, ok := core.Unparen(as.Lhs[0]).(*ast.SelectorExpr)
				if !ok || core.ObjOf(f.Pkg, sel.X) != stored {
					return false
				}
				call, ok := core.Unparen(as.Rhs[0]).(*ast.CallExpr)
				return ok && core.Callee(f.Pkg, call) == vp.Obj && len(call.Args) == 1 && core.ObjOf(f.Pkg, call.Args[0]) == stored
			}
			isRet := func(n ast.Node) bool { _, ok := n.(*ast.ReturnStmt); return ok }
			bad, started := core.PathAvoidingFromS(g, isThis, isVerdict, isRet)
			pos := st.Pos()
			if len(bad) > 0 {
				pos = bad[0].Pos()
			}
			c.Check(started && len(bad) == 0, "stored-path-has-verdict", construct, pos,
				"a path stored in the Adj-RIB-In can leave "+f.Name()+" without validatePath's verdict recorded in its HiddenReason: the stored object reads as eligible (HiddenReason None), so a later policy replacement or client registration announces an ineligible path")
		}
	}

	refcounterRemove(c, "refcounter-removes-matched-entry")

	// (2) reasons and their conditions ---------------------------------------------------------------
	vp := c.MustFunc(adjIn + ".(*AdjRIBIn).validatePath")
	if vp != nil {
		type reason struct {
			name string
			key  func(f *core.Fn, ft core.Fact) bool
		}
		fld := func(rel, t, n string) *types.Var { return p.Field(rel, t, n) }
		asp, cl, orig, rid, ibgp, otc := fld("route", "BGPPath", "ASPath"), fld("route", "BGPPath", "ClusterList"), fld("route", "BGPPathA", "OriginatorID"), fld("routingtable", "SessionAttrs", "RouterID"), fld("routingtable", "SessionAttrs", "IBGP"), fld("route", "BGPPathA", "OnlyToCustomer")
		callTo := func(f *core.Fn, e ast.Expr, key string) bool {
			cl, ok := core.Unparen(e).(*ast.CallExpr)
			return ok && core.FuncKey(core.Callee(f.Pkg, cl)) == key
		}
		reasons := []reason{
			{"HiddenReasonEmptyASPath", func(f *core.Fn, ft core.Fact) bool { return core.FieldOf(f.Pkg, ft.Expr) == ibgp && !ft.Truth }},
			{"HiddenReasonASLoop", func(f *core.Fn, ft core.Fact) bool {
				return callTo(f, ft.Expr, adjIn+".(*AdjRIBIn).ourASNsInPath") && ft.Truth
			}},
			{"HiddenReasonOurOriginatorID", func(f *core.Fn, ft core.Fact) bool {
				be, ok := ft.Expr.(*ast.BinaryExpr)
				return ok && be.Op == token.EQL && ft.Truth && ((core.FieldOf(f.Pkg, be.X) == orig && core.FieldOf(f.Pkg, be.Y) == rid) || (core.FieldOf(f.Pkg, be.Y) == orig && core.FieldOf(f.Pkg, be.X) == rid))
			}},
			{"HiddenReasonClusterLoop", func(f *core.Fn, ft core.Fact) bool {
				return callTo(f, ft.Expr, "routingtable/vrf.(*VRF).IsContributingClusterID") && ft.Truth
			}},
			{"HiddenReasonOTCMismatch", func(f *core.Fn, ft core.Fact) bool {
				return callTo(f, ft.Expr, adjIn+".(*AdjRIBIn).validatePathOnlyToCustomer") && !ft.Truth
			}},
		}
		allowedFields := map[*types.Var]bool{asp: true, cl: true, orig: true, rid: true, ibgp: true, otc: true,
			fld("route", "Path", "BGPPath"): true, fld("route", "BGPPath", "BGPPathA"): true, fld(adjIn, "AdjRIBIn", "sessionAttrs"): true, fld(adjIn, "AdjRIBIn", "vrf"): true}
		allowedCalls := map[string]bool{adjIn + ".(*AdjRIBIn).ourASNsInPath": true, "routingtable/vrf.(*VRF).IsContributingClusterID": true, adjIn + ".(*AdjRIBIn).validatePathOnlyToCustomer": true, "routingtable/vrf.(*VRF).IsContributingASN": true}
		checkAllowed := func(f *core.Fn, facts []core.Fact, extraFields ...*types.Var) (bool, string) {
			for _, ft := range facts {
				if ft.Expr == nil {
					return false, "switch guard"
				}
				bad := ""
				ast.Inspect(ft.Expr, func(n ast.Node) bool {
					switch x := n.(type) {
					case *ast.SelectorExpr:
						if fv := core.FieldOf(f.Pkg, x); fv != nil && !allowedFields[fv] {
							ok := false
							for _, e := range extraFields {
								if e == fv {
									ok = true
								}
							}
							if !ok {
								bad = "field " + fv.Name()
							}
						}
					case *ast.CallExpr:
						if cal := core.Callee(f.Pkg, x); cal != nil && !allowedCalls[core.FuncKey(cal)] {
							if _, isB := f.Pkg.TypesInfo.Uses[identOf(x.Fun)].(*types.Builtin); !isB {
								bad = "call " + core.FuncKey(cal)
							}
						}
					}
					return true
				})
				if bad != "" {
					return false, bad + " in `" + core.ExprString(ft.Expr) + "`"
				}
			}
			return true, ""
		}
		for _, r := range reasons {
			co := p.Object("route", r.name)
			found := false
			ast.Inspect(vp.Decl.Body, func(n ast.Node) bool {
				ret, ok := n.(*ast.ReturnStmt)
				if !ok || len(ret.Results) != 1 || co == nil {
					return true
				}
				if rc := core.ConstObjOf(vp.Pkg, ret.Results[0]); rc == nil || types.Object(rc) != co {
					return true
				}
				found = true
				facts := core.FactsAt(vp, ret)
				keyOK := false
				for _, ft := range facts {
					if ft.Enclosing && ft.Expr != nil && r.key(vp, ft) {
						keyOK = true
					}
				}
				c.Check(keyOK, "eligibility-conditions", vp.Name()+" "+r.name+" key condition", ret.Pos(), "the return of "+r.name+" is not (any more) under its defining condition with the required polarity")
				ok2, why := checkAllowed(vp, facts)
				c.Check(ok2, "eligibility-conditions", vp.Name()+" "+r.name+" condition mentions only eligibility atoms", ret.Pos(), "the path condition of this verdict depends on "+why+", which is not part of the five eligibility rules: some ineligible paths are let through")
				return true
			})
			c.Check(found, "reason-table", vp.Name()+" returns "+r.name, vp.Decl.Pos(), "validatePath never returns "+r.name+": that class of ineligible paths is no longer detected")
		}
		// the scans look at every element
		if f := c.MustFunc(adjIn + ".(*AdjRIBIn).ourASNsInPath"); f != nil {
			asns := fld("protocols/bgp/types", "ASPathSegment", "ASNs")
			n := 0
			ast.Inspect(f.Decl.Body, func(nd ast.Node) bool {
				ret, ok := nd.(*ast.ReturnStmt)
				if !ok || len(ret.Results) != 1 {
					return true
				}
				if v := core.ConstOf(f.Pkg, ret.Results[0]); v == nil || v.ExactString() != "true" {
					return true
				}
				n++
				ok2, why := checkAllowed(f, core.FactsAt(f, ret), asns)
				c.Check(ok2, "eligibility-conditions", f.Name()+" scan has no skip condition", ret.Pos(), "the AS-loop scan depends on "+why+": some segments/ASNs are skipped, a path containing a local ASN there is accepted")
				return true
			})
			// loops range over the AS path and the ASNs, no break/continue
			hasSkip := false
			ast.Inspect(f.Decl.Body, func(nd ast.Node) bool {
				if b, ok := nd.(*ast.BranchStmt); ok && (b.Tok == token.BREAK || b.Tok == token.CONTINUE || b.Tok == token.GOTO) {
					hasSkip = true
				}
				return true
			})
			c.Check(n >= 1 && !hasSkip, "eligibility-conditions", f.Name()+" scans every ASN of every segment", f.Decl.Pos(), "the AS-loop scan contains break/continue or no longer returns true on a contributing ASN")
		}
	}

	// (3) OTC ingress table ---------------------------------------------------------------------------
	otcTable(c)

	// (4) registration pairing --------------------------------------------------------------------
	loopRegistrationPairing(c, "loop-registration-paired")
}

func identOf(e ast.Expr) *ast.Ident {
	switch x := core.Unparen(e).(type) {
	case *ast.Ident:
		return x
	case *ast.SelectorExpr:
		return x.Sel
	}
	return nil
}

func otcTable(c *core.Ctx) {
	p := c.P
	f := c.MustFunc(adjIn + ".(*AdjRIBIn).validatePathOnlyToCustomer")
	if f == nil {
		return
	}
	role := func(n string) (int64, bool) {
		o, _ := p.Object("protocols/bgp/packet", n).(*types.Const)
		if o == nil {
			return 0, false
		}
		v, ok := constInt64(o)
		return v, ok
	}
	names := []string{"PeerRoleRoleProvider", "PeerRoleRoleRS", "PeerRoleRoleRSClient", "PeerRoleRoleCustomer", "PeerRoleRolePeer"}
	vals := map[string]int64{}
	for _, n := range names {
		v, ok := role(n)
		if !ok {
			c.Undecided("otc-ingress-table", "packet."+n, token.NoPos, "role constant not found")
			return
		}
		vals[n] = v
	}
	sa := func(n string) *types.Var { return p.Field("routingtable", "SessionAttrs", n) }
	otcF := p.Field("route", "BGPPathA", "OnlyToCustomer")
	const peerASN, otherASN = 65100, 65999
	// the OTC stamp
	var stamp *ast.AssignStmt
	ast.Inspect(f.Decl.Body, func(n ast.Node) bool {
		if as, ok := n.(*ast.AssignStmt); ok && len(as.Lhs) == 1 && core.FieldOf(f.Pkg, as.Lhs[0]) == otcF {
			stamp = as
		}
		return true
	})
	rows, bad := 0, 0
	var first string
	roleVals := []int64{vals["PeerRoleRoleProvider"], vals["PeerRoleRoleRS"], vals["PeerRoleRoleRSClient"], vals["PeerRoleRoleCustomer"], vals["PeerRoleRolePeer"], 200}
	for _, en := range []bool{false, true} {
		for _, adv := range []bool{false, true} {
			for _, pr := range roleVals {
				for _, otc := range []int64{0, peerASN, otherASN} {
					env := core.NewEnv()
					env.Fields[sa("PeerRoleEnabled")] = core.BoolVal(en)
					env.Fields[sa("PeerRoleAdvByPeer")] = core.BoolVal(adv)
					env.Fields[sa("PeerRoleRemote")] = core.IntVal(pr)
					env.Fields[sa("PeerASN")] = core.IntVal(peerASN)
					env.Fields[otcF] = core.IntVal(otc)
					rows++
					isIn := func(ns ...string) bool {
						for _, n := range ns {
							if vals[n] == pr {
								return true
							}
						}
						return false
					}
					wantValid := !(en && adv && otc != 0 && (isIn("PeerRoleRoleCustomer", "PeerRoleRoleRSClient") || (isIn("PeerRoleRolePeer") && otc != peerASN)))
					wantStamp := en && adv && otc == 0 && isIn("PeerRoleRoleProvider", "PeerRoleRolePeer", "PeerRoleRoleRS")
					ret, err := core.Outcome(f, env)
					desc := fmt.Sprintf("enabled=%v advertised=%v remoteRole=%d otc=%d", en, adv, pr, otc)
					if err != nil {
						c.Undecided("otc-ingress-table", f.Name(), f.Decl.Pos(), "guards not in the formula language: "+err.Error())
						return
					}
					v, ok := core.Eval(f, ret.Results[0], env)
					if !ok {
						c.Undecided("otc-ingress-table", f.Name(), ret.Pos(), "return value not evaluable")
						return
					}
					gotStamp := false
					if stamp != nil {
						h, err := core.StmtHolds(f, stamp, env)
						if err != nil {
							c.Undecided("otc-ingress-table", f.Name(), stamp.Pos(), "stamp guard not evaluable: "+err.Error())
							return
						}
						gotStamp = h
					}
					if v.B != wantValid || gotStamp != wantStamp {
						bad++
						if first == "" {
							first = fmt.Sprintf("%s: code says valid=%v stamp=%v, RFC 9234 §5 says valid=%v stamp=%v", desc, v.B, gotStamp, wantValid, wantStamp)
						}
					}
				}
			}
		}
	}
	c.Check(bad == 0, "otc-ingress-table", f.Name()+fmt.Sprintf(" agrees with RFC 9234 §5 on %d valuations", rows), f.Decl.Pos(), fmt.Sprintf("%d of %d valuations disagree; first: %s", bad, rows, first))
	// the stamp value is the peer's ASN
	if stamp != nil {
		c.Check(core.FieldOf(f.Pkg, stamp.Rhs[0]) == sa("PeerASN"), "otc-ingress-table", f.Name()+" stamps OTC with the peer's ASN", stamp.Pos(), "the OTC stamped on ingress is not the neighbour's ASN")
	} else {
		c.Fail("otc-ingress-table", f.Name()+" stamps OTC with the peer's ASN", f.Decl.Pos(), "no OTC stamp on routes received from providers, peers and route servers")
	}
}

func constInt64(o *types.Const) (int64, bool) {
	v := o.Val()
	if v == nil {
		return 0, false
	}
	s := v.ExactString()
	var i int64
	_, err := fmt.Sscan(s, &i)
	return i, err == nil
}

// loopRegistrationPairing: init registers ASN / cluster id before the Adj-RIB-In gets a client; dispose removes them under the same guards.
func loopRegistrationPairing(c *core.Ctx, rule string) {
	_ = c.P
	const srv = "protocols/bgp/server"
	initF := c.MustFunc(srv + ".(*fsmAddressFamily).init")
	dispF := c.MustFunc(srv + ".(*fsmAddressFamily).dispose")
	if initF == nil || dispF == nil {
		return
	}
	pairs := [][2]string{{"AddContributingASN", "RemoveContributingASN"}, {"AddContributingClusterID", "RemoveContributingClusterID"}}
	sig := func(f *core.Fn, call *ast.CallExpr) []string {
		var out []string
		for _, s := range core.GuardSig(f, call) {
			// drop the initialised bail-out, which only dispose has
			if s == "f.initialized=T" || s == "f.initialized=F" {
				continue
			}
			out = append(out, s)
		}
		return out
	}
	for _, pr := range pairs {
		adds := core.Calls(initF.Pkg, initF.Decl.Body, core.KeyIs("routingtable/vrf.(*VRF)."+pr[0]))
		rems := core.Calls(dispF.Pkg, dispF.Decl.Body, core.KeyIs("routingtable/vrf.(*VRF)."+pr[1]))
		c.Check(len(adds) == 1, rule, initF.Name()+" calls "+pr[0]+" once", initF.Decl.Pos(), "init does not register the value with the VRF exactly once")
		c.Check(len(rems) == 1, rule, dispF.Name()+" calls "+pr[1]+" once", dispF.Decl.Pos(), "dispose does not remove the value from the VRF exactly once")
		if len(adds) == 1 && len(rems) == 1 {
			sa, sr := sig(initF, adds[0]), sig(dispF, rems[0])
			c.Check(core.SameSig(sa, sr), rule, "init/dispose "+pr[0]+" ⇔ "+pr[1]+" under the same condition", rems[0].Pos(),
				fmt.Sprintf("registered under %v but removed under %v: the VRF's reference count drifts; a removal without a matching registration releases ANOTHER session's reference, after which paths carrying the local ASN / cluster ID are accepted on that session", sa, sr))
			c.Check(len(adds[0].Args) == 1 && len(rems[0].Args) == 1 && core.ExprString(adds[0].Args[0]) == core.ExprString(rems[0].Args[0]), rule, "init/dispose "+pr[0]+" ⇔ "+pr[1]+" same value", rems[0].Pos(), "registered and removed values differ")
			// before the Adj-RIB-In gets its client
			regs := core.Calls(initF.Pkg, initF.Decl.Body, func(f *types.Func) bool { return f.Name() == "Register" })
			if len(regs) > 0 {
				c.Check(adds[0].Pos() < regs[0].Pos(), rule, initF.Name()+" "+pr[0]+" before the first Register", adds[0].Pos(), "loop detection values are registered after the Adj-RIB-In already has a client")
			}
		}
	}
}
