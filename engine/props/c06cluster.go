package props

import (
	"fmt"
	"go/ast"
	"go/types"

	"verif/engine/core"
)

// loopValuesRegisteredAreTheOnesStamped: a reflected route is recognised on its way back by the cluster ID the VRF has
// registered, and a route of ours by the local ASN.  The value a session REGISTERS with the VRF (AddContributing…) has
// to be the same value the session STAMPS into what it sends (SessionAttrs.ClusterID / LocalASN, from which the
// Adj-RIB-Out builds CLUSTER_LIST and prepends the AS path): both must read the same field, or call the same function.
// A default applied on one side only (cluster ID = router ID when unset) makes the loop check compare against a value
// that is never on the wire.
func loopValuesRegisteredAreTheOnesStamped(c *core.Ctx) {
	const rule = "registered-loop-value-is-the-stamped-one"
	p := c.P
	attrs := c.MustFunc(srv + ".(*fsmAddressFamily).getSessionAttrs")
	if attrs == nil {
		return
	}
	c.Analysed(attrs)
	// what the session attributes take their ClusterID / LocalASN from
	source := func(e ast.Expr, f *core.Fn) string {
		e = core.Unparen(e)
		if call, ok := e.(*ast.CallExpr); ok {
			if cal := core.Callee(f.Pkg, call); cal != nil {
				return "call " + cal.FullName()
			}
		}
		if fv := core.FieldOf(f.Pkg, e); fv != nil {
			return "field " + fv.Pkg().Path() + "." + fv.Name() + fmt.Sprint(fv.Pos())
		}
		return "expr " + core.ExprString(e)
	}
	stamped := map[string]string{}
	stampedText := map[string]string{}
	ast.Inspect(attrs.Decl.Body, func(n ast.Node) bool {
		kv, ok := n.(*ast.KeyValueExpr)
		if !ok {
			return true
		}
		if id, ok := kv.Key.(*ast.Ident); ok && (id.Name == "ClusterID" || id.Name == "LocalASN") {
			stamped[id.Name] = source(kv.Value, attrs)
			stampedText[id.Name] = core.ExprString(kv.Value)
		}
		return true
	})
	pairs := []struct{ reg, unreg, attr string }{
		{"AddContributingClusterID", "RemoveContributingClusterID", "ClusterID"},
		{"AddContributingASN", "RemoveContributingASN", "LocalASN"},
	}
	n := 0
	for _, f := range p.MethodsOf(srv, "fsmAddressFamily") {
		if f.Decl.Body == nil {
			continue
		}
		for _, pr := range pairs {
			for _, call := range core.CallsAll(f.Pkg, f.Decl.Body, func(o *types.Func) bool { return o.Name() == pr.reg || o.Name() == pr.unreg }) {
				if len(call.Args) != 1 {
					continue
				}
				n++
				c.Analysed(f)
				got := source(call.Args[0], f)
				c.Check(stamped[pr.attr] != "" && got == stamped[pr.attr], rule, fmt.Sprintf("%s %s(%s)", f.Name(), core.ExprString(call.Fun), core.ExprString(call.Args[0])), call.Pos(),
					fmt.Sprintf("the session registers `%s` with the VRF's loop detection but stamps `%s` into its session attributes (%s): a default or translation applied on one side only means a route that comes back carrying the stamped value is not recognised as a loop and is installed", core.ExprString(call.Args[0]), stampedText[pr.attr], pr.attr))
			}
		}
	}
	c.Check(n >= 4, rule, "registrations found", 0, fmt.Sprintf("found %d Add/RemoveContributing calls in fsmAddressFamily, expected at least 4 (init/dispose × ASN/cluster ID)", n))
}
