package props

import (
	"go/ast"
	"go/token"
	"go/types"

	"verif/engine/core"
)

// refcounterRemove: the loop-detection values (local ASNs, cluster IDs) live in util/refcounter.  Remove must take out
// exactly the entry it matched.  The deletion is checked against the table of slice-deletion idioms; in each the
// index removed must be the loop index of the matched entry:
//
//	shift : copy(L[i:], L[i+1:]) ; F = L[:len(L)-1]
//	append: F = append(L[:i], L[i+1:]...)
//	swap  : L[i] = L[len(L)-1]   ; F = L[:len(L)-1]
//
// where L is the field F or a local alias of it (x := F, x = x[:]).
func refcounterRemove(c *core.Ctx, rule string) {
	p := c.P
	f := c.MustFunc("util/refcounter.(*RefcounterUint32).Remove")
	if f == nil {
		return
	}
	c.Analysed(f)
	items := p.Field("util/refcounter", "RefcounterUint32", "items")
	valueF := p.Field("util/refcounter", "item", "value")
	countF := p.Field("util/refcounter", "item", "count")
	if items == nil || valueF == nil || countF == nil {
		c.Undecided(rule, f.Name(), f.Decl.Pos(), "refcounter fields not found")
		return
	}
	var isAlias func(e ast.Expr, depth int) bool
	onStack := map[types.Object]bool{}
	isAlias = func(e ast.Expr, depth int) bool {
		e = core.Unparen(e)
		if core.FieldOf(f.Pkg, e) == items {
			return true
		}
		switch x := e.(type) {
		case *ast.SliceExpr:
			return x.Low == nil && x.High == nil && isAlias(x.X, depth+1)
		case *ast.Ident:
			o := f.Pkg.TypesInfo.ObjectOf(x)
			if o == nil || onStack[o] {
				return o != nil
			}
			onStack[o] = true
			defer delete(onStack, o)
			defs := core.DefsOf(f, o)
			if len(defs) == 0 {
				return false
			}
			for _, d := range defs {
				if !isAlias(d, depth+1) {
					return false
				}
			}
			return true
		}
		return false
	}
	// the matching loop
	var loop *ast.RangeStmt
	ast.Inspect(f.Decl.Body, func(n ast.Node) bool {
		if r, ok := n.(*ast.RangeStmt); ok && loop == nil && isAlias(r.X, 0) {
			loop = r
		}
		return true
	})
	if loop == nil || loop.Key == nil {
		c.Undecided(rule, f.Name()+" scan", f.Decl.Pos(), "no indexed range over the item list found")
		return
	}
	idx := core.ObjOf(f.Pkg, loop.Key)
	isIdx := func(e ast.Expr) bool { return e != nil && core.ObjOf(f.Pkg, e) == idx && idx != nil }
	ok, wrong, pos := sliceDeletion(f, items, isIdx, loop.Body)
	c.Check(ok, rule, f.Name()+" deletes the matched entry", pos, wrong+": when a value's count drops to zero a different entry leaves the list (or the matched one stays), so another session's local ASN / cluster ID stops being recognised as a loop")
	// the decrement and the deletion sit under "this entry's value is the requested one"
	okDec := false
	ast.Inspect(loop.Body, func(n ast.Node) bool {
		inc, isInc := n.(*ast.IncDecStmt)
		if !isInc || inc.Tok != token.DEC || core.FieldOf(f.Pkg, inc.X) != countF {
			return true
		}
		sel, _ := core.Unparen(inc.X).(*ast.SelectorExpr)
		if sel == nil || loop.Value == nil || core.ObjOf(f.Pkg, sel.X) != core.ObjOf(f.Pkg, loop.Value) {
			return true
		}
		for _, ft := range core.FactsAt(f, inc) {
			be, isBin := ft.Expr.(*ast.BinaryExpr)
			if !isBin {
				continue
			}
			a, b := be.X, be.Y
			if core.FieldOf(f.Pkg, b) == valueF {
				a, b = b, a
			}
			if core.FieldOf(f.Pkg, a) != valueF || !isParamExpr(f, b) {
				continue
			}
			if (be.Op == token.EQL && ft.Truth) || (be.Op == token.NEQ && !ft.Truth) {
				okDec = true
			}
		}
		return true
	})
	c.Check(okDec, rule, f.Name()+" decrements the entry whose value was requested", loop.Pos(), "the decrement is not guarded by entry.value == value")
}

func isParamExpr(f *core.Fn, e ast.Expr) bool {
	id, ok := core.Unparen(e).(*ast.Ident)
	if !ok {
		return false
	}
	o := f.Pkg.TypesInfo.ObjectOf(id)
	sig := f.Obj.Type().(*types.Signature)
	for i := 0; i < sig.Params().Len(); i++ {
		if sig.Params().At(i) == o {
			return true
		}
	}
	return false
}

func isAppendDelete(f *core.Fn, e ast.Expr, isAlias func(ast.Expr, int) bool, isIdx, isIdxPlus1 func(ast.Expr) bool) bool {
	call, ok := core.Unparen(e).(*ast.CallExpr)
	if !ok || len(call.Args) != 2 || !call.Ellipsis.IsValid() {
		return false
	}
	if fn, ok := call.Fun.(*ast.Ident); !ok || fn.Name != "append" {
		return false
	}
	a, ok1 := core.Unparen(call.Args[0]).(*ast.SliceExpr)
	b, ok2 := core.Unparen(call.Args[1]).(*ast.SliceExpr)
	return ok1 && ok2 && isAlias(a.X, 0) && isAlias(b.X, 0) && a.Low == nil && isIdx(a.High) && isIdxPlus1(b.Low) && b.High == nil
}

// sliceDeletion checks the statements under body that delete one element of the slice held in field `items` of f's
// receiver against the table of deletion idioms (shift+truncate, append-splice, swap-with-last+truncate); isIdx says
// whether an expression is the index of the element that must go.
func sliceDeletion(f *core.Fn, items *types.Var, isIdx func(ast.Expr) bool, body ast.Node) (bool, string, token.Pos) {
	onStack := map[types.Object]bool{}
	var isAlias func(e ast.Expr, depth int) bool
	isAlias = func(e ast.Expr, depth int) bool {
		e = core.Unparen(e)
		if core.FieldOf(f.Pkg, e) == items {
			return true
		}
		switch x := e.(type) {
		case *ast.SliceExpr:
			return x.Low == nil && x.High == nil && isAlias(x.X, depth+1)
		case *ast.Ident:
			o := f.Pkg.TypesInfo.ObjectOf(x)
			if o == nil {
				return false
			}
			if onStack[o] {
				return true // x = x[:] and the like
			}
			onStack[o] = true
			defer delete(onStack, o)
			defs := core.DefsOf(f, o)
			if len(defs) == 0 {
				return false
			}
			for _, d := range defs {
				if !isAlias(d, depth+1) {
					return false
				}
			}
			return true
		}
		return false
	}
	isIdxPlus1 := func(e ast.Expr) bool {
		be, ok := core.Unparen(e).(*ast.BinaryExpr)
		if !ok || be.Op != token.ADD {
			return false
		}
		v := core.ConstOf(f.Pkg, be.Y)
		return isIdx(be.X) && v != nil && v.ExactString() == "1"
	}
	var isLast func(e ast.Expr, depth int) bool
	isLast = func(e ast.Expr, depth int) bool { // len(L)-1, or a local defined as that
		if depth > 3 {
			return false
		}
		e = core.Unparen(e)
		if be, ok := e.(*ast.BinaryExpr); ok && be.Op == token.SUB {
			v := core.ConstOf(f.Pkg, be.Y)
			call, isCall := core.Unparen(be.X).(*ast.CallExpr)
			if v == nil || v.ExactString() != "1" || !isCall || len(call.Args) != 1 {
				return false
			}
			fn, ok := call.Fun.(*ast.Ident)
			return ok && fn.Name == "len" && isAlias(call.Args[0], 0)
		}
		if id, ok := e.(*ast.Ident); ok {
			o := f.Pkg.TypesInfo.ObjectOf(id)
			defs := core.DefsOf(f, o)
			if len(defs) != 1 {
				return false
			}
			return isLast(defs[0], depth+1)
		}
		return false
	}
	isTruncByOne := func(e ast.Expr) bool {
		se, ok := core.Unparen(e).(*ast.SliceExpr)
		return ok && se.Low == nil && se.High != nil && isAlias(se.X, 0) && isLast(se.High, 0)
	}
	// collect the statements of the deletion
	var copyShift, appendDel, swapIn, truncStore, otherStore bool
	var wrong string
	var wrongPos token.Pos
	ast.Inspect(body, func(n ast.Node) bool {
		switch s := n.(type) {
		case *ast.ExprStmt:
			call, ok := s.X.(*ast.CallExpr)
			if !ok {
				return true
			}
			if fn, ok := call.Fun.(*ast.Ident); ok && fn.Name == "copy" && len(call.Args) == 2 {
				d, ok1 := core.Unparen(call.Args[0]).(*ast.SliceExpr)
				sr, ok2 := core.Unparen(call.Args[1]).(*ast.SliceExpr)
				if ok1 && ok2 && isAlias(d.X, 0) && isAlias(sr.X, 0) {
					if isIdx(d.Low) && d.High == nil && isIdxPlus1(sr.Low) && sr.High == nil {
						copyShift = true
					} else {
						wrong, wrongPos = "the tail is not shifted onto the matched index (copy(L[i:], L[i+1:]) expected)", s.Pos()
					}
				}
			}
		case *ast.AssignStmt:
			if len(s.Lhs) != 1 || len(s.Rhs) != 1 {
				return true
			}
			lhs, rhs := core.Unparen(s.Lhs[0]), core.Unparen(s.Rhs[0])
			if ie, ok := lhs.(*ast.IndexExpr); ok && isAlias(ie.X, 0) {
				// element write: only L[i] = L[last] is a deletion step
				re, ok := rhs.(*ast.IndexExpr)
				if ok && isAlias(re.X, 0) && isIdx(ie.Index) && isLast(re.Index, 0) {
					swapIn = true
				} else {
					wrong, wrongPos = "an element other than the matched one is overwritten (L[i] = L[len(L)-1] expected, found "+core.ExprString(lhs)+" = "+core.ExprString(rhs)+")", s.Pos()
				}
				return true
			}
			if core.FieldOf(f.Pkg, lhs) == items {
				switch {
				case isTruncByOne(rhs):
					truncStore = true
				case isAppendDelete(f, rhs, isAlias, isIdx, isIdxPlus1):
					appendDel = true
				case isAlias(rhs, 0):
					// storing an alias back: neutral
				default:
					otherStore = true
					wrong, wrongPos = "the item list is replaced by "+core.ExprString(rhs)+", which is not a recognised deletion of the matched index", s.Pos()
				}
			}
		}
		return true
	})
	ok := wrong == "" && !otherStore && ((copyShift && truncStore && !swapIn) || (swapIn && truncStore && !copyShift) || (appendDel && !truncStore && !copyShift && !swapIn))
	pos := body.Pos()
	if wrongPos.IsValid() {
		pos = wrongPos
	}
	if wrong == "" && !ok {
		wrong = "the deletion is not one of the recognised idioms (shift+truncate, append(L[:i], L[i+1:]...), swap-with-last+truncate)"
	}
	return ok, wrong, pos
}
