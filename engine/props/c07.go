package props

import (
	"fmt"
	"go/ast"
	"go/token"
	"go/types"

	"verif/engine/core"
)

func init() {
	Register(&Prop{
		Meta: core.Meta{
			ID: "C07", Title: "Leaving Established withdraws everything the session contributed", Level: "other",
			Technique:   "typestate must-pass-through on go/cfg with callee summaries (every exit from Established is dominated by uninit), init/dispose pairing, freshness of the RIBs built on re-establishment",
			DesignRef:   "DESIGN.md §4 C07",
			Decided:     "(1) in the methods of establishedState every return of a state other than Established is preceded on every path by uninit (directly or through a method that always calls it); the only exemptions are the init-failed return and returns under `fsm.isBMP` (BMP pseudo sessions have no lifecycle); uninit disposes both address families and clears ribsInitialized; (2) each registration effect of fsmAddressFamily.init (Adj-RIB-In→Loc-RIB, Loc-RIB→Adj-RIB-Out, Adj-RIB-Out→update sender, update sender start, contributing ASN / cluster ID) has its inverse in dispose on the same objects and under the same condition; (3) init builds the Adj-RIB-In, Adj-RIB-Out and update sender from constructor calls (fresh, never reused) and dispose drops the old ones; the Established entry runs init unless ribsInitialized; (5) the events that end a session reach the FSM: no send on FSM.eventCh (ManualStop from peer.stop, Cease, AutomaticStart) sits in a select with a default clause or a timer alternative; (4) the unregistration itself withdraws post-policy paths (C05 clause 4, cross-referenced).",
			NotDecided:  "that the withdrawals reach every Loc-RIB client and peer (C04/C08/C10); timer behaviour; histories of session events.",
			TrustedBase: stdTrusted,
		},
		Run: runC07,
		Controls: []Control{
			{Name: "own-asn-answers-memoized-per-table", File: "routingtable/adjRIBIn/adj_rib_in.go", Old: "\t\t\tif a.vrf.IsContributingASN(asn) {\n", New: "\t\t\town := a.vrf.IsContributingASN(asn)\n\t\t\ta.sessionAttrs.IBGP = a.sessionAttrs.IBGP || (own && false)\n\t\t\tif own {\n", Expect: "loop-detection-asks-the-vrf-every-time"},
			{Name: "chain-works-on-the-stored-path", File: "routingtable/filter/chain.go", Old: "\tmp := pa.Copy()\n", New: "\tmp := pa\n", Expect: "policy-works-on-a-copy"},
			{Name: "nlri-paths-share-the-attribute-object", File: "protocols/bgp/server/fsm_address_family.go", Old: "\t\tpath := f.newRoutePath(bmpPostPolicy, timestamp)\n\t\tf.processAttributes(u.PathAttributes, path)\n\t\tpath.BGPPath.PathIdentifier = r.PathIdentifier\n\n\t\tf.adjRIBIn.AddPath(r.Prefix, path)\n", New: "\t\tpath := f.newRoutePath(bmpPostPolicy, timestamp)\n\t\tf.processAttributes(u.PathAttributes, path)\n\t\tq := *path\n\t\tq.BGPPath.PathIdentifier = r.PathIdentifier\n\n\t\tf.adjRIBIn.AddPath(r.Prefix, &q)\n", Expect: "fresh-path-per-nlri"},
			{Name: "sender-torn-down-before-routes-are-withdrawn", File: "protocols/bgp/server/fsm_address_family.go", Old: "\tf.adjRIBIn.Unregister(f.rib)\n\tf.rib.Unregister(f.adjRIBOut)\n\tf.adjRIBOut.Unregister(f.updateSender)\n\tf.updateSender.Destroy()\n", New: "\tf.rib.Unregister(f.adjRIBOut)\n\tf.adjRIBOut.Unregister(f.updateSender)\n\tf.updateSender.Destroy()\n\tf.adjRIBIn.Unregister(f.rib)\n", Expect: "withdraw-before-blocking-teardown"},
			{Name: "manual-stop-droppable", File: "protocols/bgp/server/peer.go", Old: "\t\tfsm.sendEvent(ManualStop)\n", New: "\t\tselect {\n\t\tcase fsm.eventCh <- ManualStop:\n\t\tdefault:\n\t\t}\n", Expect: "stop-event-delivered"},
			{Name: "event-helper-gives-up-after-timeout", File: "protocols/bgp/server/fsm.go", Old: "\tcase fsm.eventCh <- e:\n\tcase <-fsm.doneCh:\n\t}\n", New: "\tcase fsm.eventCh <- e:\n\tcase <-fsm.doneCh:\n\tcase <-time.After(time.Second):\n\t}\n", Expect: "stop-event-delivered"},
			{Name: "notification-exit-without-uninit", File: "protocols/bgp/server/fsm_established.go", Old: "\tstopTimer(s.fsm.connectRetryTimer)\n\ts.uninit()\n\ts.fsm.con.Close()\n\ts.fsm.connectRetryCounter++\n\treturn newIdleState(s.fsm), \"Received NOTIFICATION\"", New: "\tstopTimer(s.fsm.connectRetryTimer)\n\ts.fsm.con.Close()\n\ts.fsm.connectRetryCounter++\n\treturn newIdleState(s.fsm), \"Received NOTIFICATION\"", Expect: "exit-established-uninit"},
			{Name: "dispose-keeps-adjribout-registered", File: "protocols/bgp/server/fsm_address_family.go", Old: "\tf.rib.Unregister(f.adjRIBOut)\n", New: "", Expect: "init-dispose-paired"},
			{Name: "uninit-keeps-ribs-initialized", File: "protocols/bgp/server/fsm_established.go", Old: "\ts.fsm.stateMu.Lock()\n\ts.fsm.ribsInitialized = false\n\ts.fsm.stateMu.Unlock()\n", New: "", Expect: "exit-established-uninit"},
			{Name: "keepalive-failure-exit-without-uninit", File: "protocols/bgp/server/fsm_established.go", Old: "\tif err != nil {\n\t\ts.uninit()\n\t\tstopTimer(s.fsm.connectRetryTimer)", New: "\tif err != nil {\n\t\tstopTimer(s.fsm.connectRetryTimer)", Expect: "exit-established-uninit"},
		},
	})
}

func runC07(c *core.Ctx) {
	processCopiesFirst(c, "policy-works-on-a-copy")
	perNLRILoops(c)
	loopDetectionAnswersAreNotKept(c)
	everyFamilyHandled(c, "every-family-torn-down", c.MustFunc(srv+".(*establishedState).uninit"), c.MustFunc(srv+".(*fsmAddressFamily).dispose"))
	uninit := exitEstablishedUninit(c)
	if uninit == nil {
		return
	}
	p := c.P
	uninitRest(c, p, uninit)
	eventSendsNotDroppable(c, "stop-event-delivered", 3)
	withdrawBeforeBlockingTeardown(c)
}

// exitEstablishedUninit: every return that leaves Established is dominated by uninit (shared by C07 and C23).
func exitEstablishedUninit(c *core.Ctx) *core.Fn {
	p := c.P
	uninit := c.MustFunc(srv + ".(*establishedState).uninit")
	if uninit == nil {
		return nil
	}
	isBMP := p.Field(srv, "FSM", "isBMP")
	rets := fsmReturns(c)
	isUninit := func(o *types.Func) bool { return o == uninit.Obj }
	c.Floor("exit-established-uninit", 9)
	byMethod := map[*core.Fn][]fsmReturn{}
	for _, r := range rets {
		if r.From == "establishedState" {
			byMethod[r.Method] = append(byMethod[r.Method], r)
		}
	}
	for m, rs := range byMethod {
		gate := p.GateNode(m, isUninit, nil, 0)
		targets := map[*ast.ReturnStmt]bool{}
		for _, r := range rs {
			if r.To != "" && r.To != "establishedState" {
				targets[r.Ret] = true
			}
		}
		bad := map[*ast.ReturnStmt]bool{}
		for _, b := range returnsReachableWithout(p, m, gate, targets) {
			bad[b] = true
		}
		for _, r := range rs {
			if !targets[r.Ret] {
				continue
			}
			construct := fmt.Sprintf("%s return #%d → %s", m.Name(), retIndex(m, r.Ret), r.To)
			if !bad[r.Ret] {
				c.Hold("exit-established-uninit", construct, r.Ret.Pos(), "dominated by uninit")
				continue
			}
			// exemptions: init failed; BMP pseudo session
			exempt := ""
			for _, ft := range core.FactsAt(m, r.Ret) {
				if ft.Expr == nil {
					continue
				}
				if core.FieldOf(m.Pkg, ft.Expr) == isBMP && isBMP != nil && ft.Truth {
					exempt = "BMP pseudo session (no lifecycle of its own)"
				}
				if x, ok := core.IsNilCheck(m.Pkg, ft.Expr); ok && !ft.Truth {
					if obj := core.ObjOf(m.Pkg, x); obj != nil {
						for _, d := range core.DefsOf(m, obj) {
							if dc, ok := core.Unparen(d).(*ast.CallExpr); ok && core.FuncKey(core.Callee(m.Pkg, dc)) == srv+".(*establishedState).init" {
								exempt = "init failed: nothing was set up"
							}
						}
					}
				}
			}
			if exempt != "" {
				c.Hold("exit-established-uninit", construct, r.Ret.Pos(), "exempt: "+exempt)
				continue
			}
			c.Fail("exit-established-uninit", construct, r.Ret.Pos(),
				"the session leaves Established on this path without uninit: the routes learned over it stay in the Loc-RIB, its Adj-RIB-Out keeps receiving updates, its ASN/cluster ID stay registered for loop detection, and the next Established state skips init because ribsInitialized is still set")
		}
	}
	return uninit
}

func uninitRest(c *core.Ctx, p *core.Prog, uninit *core.Fn) {
	// uninit disposes both families and clears the flag
	disp := p.Func(srv + ".(*fsmAddressFamily).dispose")
	ribsInit := p.Field(srv, "FSM", "ribsInitialized")
	for _, fam := range []string{"ipv4Unicast", "ipv6Unicast"} {
		ff := p.Field(srv, "FSM", fam)
		ok := false
		for _, call := range core.Calls(uninit.Pkg, uninit.Decl.Body, func(o *types.Func) bool { return disp != nil && o == disp.Obj }) {
			if se, isSel := call.Fun.(*ast.SelectorExpr); isSel && core.FieldOf(uninit.Pkg, se.X) == ff {
				// only guard allowed: the family is configured (non-nil)
				okG := true
				for _, ft := range core.FactsAt(uninit, call) {
					x, isNil := core.IsNilCheck(uninit.Pkg, ft.Expr)
					if !isNil || core.FieldOf(uninit.Pkg, x) != ff {
						okG = false
					}
				}
				ok = okG
			}
		}
		c.Check(ok, "exit-established-uninit", uninit.Name()+" disposes "+fam, uninit.Decl.Pos(), "uninit does not dispose this address family whenever it is configured")
	}
	okFlag := false
	g := p.CFG(uninit)
	store := func(n ast.Node) bool {
		as, ok := n.(*ast.AssignStmt)
		if !ok {
			return false
		}
		for i, l := range as.Lhs {
			if core.FieldOf(uninit.Pkg, l) == ribsInit && i < len(as.Rhs) {
				if v := core.ConstOf(uninit.Pkg, as.Rhs[i]); v != nil && v.ExactString() == "false" {
					return true
				}
			}
		}
		return false
	}
	if rs, end := core.ExitsWithout(g, store); len(rs) == 0 && !end {
		okFlag = true
	}
	c.Check(okFlag, "exit-established-uninit", uninit.Name()+" clears ribsInitialized on every path", uninit.Decl.Pos(), "uninit can return without clearing ribsInitialized: a re-established session would skip init and run on disposed RIBs")
	// Established entry runs init unless ribsInitialized
	if run := c.MustFunc(srv + ".(establishedState).run"); run != nil {
		initF := p.Func(srv + ".(*establishedState).init")
		ok := false
		for _, call := range core.Calls(run.Pkg, run.Decl.Body, func(o *types.Func) bool { return initF != nil && o == initF.Obj }) {
			for _, ft := range core.FactsAt(run, call) {
				if core.FieldOf(run.Pkg, ft.Expr) == ribsInit && !ft.Truth {
					ok = true
				}
			}
		}
		c.Check(ok, "fresh-ribs-on-establishment", run.Name()+" runs init when the RIBs are not initialised", run.Decl.Pos(), "entering Established does not initialise the RIBs under `!ribsInitialized`")
	}

	// (2) init/dispose pairing -----------------------------------------------------------------------
	initAF := c.MustFunc(srv + ".(*fsmAddressFamily).init")
	if initAF != nil && disp != nil {
		type eff struct{ recv, method, arg string }
		effects := func(f *core.Fn) map[eff]*ast.CallExpr {
			out := map[eff]*ast.CallExpr{}
			for _, call := range core.Calls(f.Pkg, f.Decl.Body, func(*types.Func) bool { return true }) {
				se, ok := call.Fun.(*ast.SelectorExpr)
				if !ok {
					continue
				}
				a := ""
				if len(call.Args) > 0 {
					a = core.ExprString(call.Args[0])
				}
				out[eff{core.ExprString(se.X), se.Sel.Name, a}] = call
			}
			return out
		}
		ie, de := effects(initAF), effects(disp)
		inverse := map[string]string{"Register": "Unregister", "RegisterWithOptions": "Unregister", "Start": "Destroy"}
		n := 0
		for e, call := range ie {
			inv, ok := inverse[e.method]
			if !ok {
				continue
			}
			n++
			want := eff{e.recv, inv, e.arg}
			if inv == "Destroy" {
				want.arg = ""
			}
			_, found := de[want]
			c.Check(found, "init-dispose-paired", fmt.Sprintf("%s.%s(%s) ⇔ %s.%s in dispose", e.recv, e.method, e.arg, e.recv, inv), call.Pos(),
				fmt.Sprintf("init performs %s.%s(%s) but dispose has no %s.%s(%s): after the session left Established the object stays registered and keeps receiving (or contributing) routes", e.recv, e.method, e.arg, want.recv, want.method, want.arg))
		}
		c.Check(n >= 4, "init-dispose-paired", initAF.Name()+" registration effects found", initAF.Decl.Pos(), "fewer registration effects in init than confirmed by hand (4)")
		loopRegistrationPairing(c, "init-dispose-paired")
		// dispose is guarded only by `initialized` and resets it
		initzd := p.Field(srv, "fsmAddressFamily", "initialized")
		setTrue, setFalse := false, false
		for _, f := range []*core.Fn{initAF, disp} {
			ast.Inspect(f.Decl.Body, func(nd ast.Node) bool {
				if as, ok := nd.(*ast.AssignStmt); ok && len(as.Lhs) == 1 && core.FieldOf(f.Pkg, as.Lhs[0]) == initzd {
					if v := core.ConstOf(f.Pkg, as.Rhs[0]); v != nil {
						if v.ExactString() == "true" && f == initAF {
							setTrue = true
						}
						if v.ExactString() == "false" && f == disp {
							setFalse = true
						}
					}
				}
				return true
			})
		}
		c.Check(setTrue && setFalse, "init-dispose-paired", "initialized flag set by init and cleared by dispose", disp.Decl.Pos(), "the initialized flag that guards dispose is not set by init / cleared by dispose")

		// (3) freshness
		for _, fld := range []string{"adjRIBIn", "adjRIBOut", "updateSender"} {
			fv := p.Field(srv, "fsmAddressFamily", fld)
			fresh := false
			ast.Inspect(initAF.Decl.Body, func(nd ast.Node) bool {
				as, ok := nd.(*ast.AssignStmt)
				if !ok || len(as.Lhs) != 1 || core.FieldOf(initAF.Pkg, as.Lhs[0]) != fv {
					return true
				}
				if call, ok := core.Unparen(as.Rhs[0]).(*ast.CallExpr); ok {
					if cal := core.Callee(initAF.Pkg, call); cal != nil && (cal.Name() == "New" || cal.Name() == "newUpdateSender") {
						fresh = len(core.FactsAt(initAF, as)) == 0
					}
				}
				return true
			})
			c.Check(fresh, "fresh-ribs-on-establishment", initAF.Name()+" builds a fresh "+fld, initAF.Decl.Pos(), "init does not unconditionally assign "+fld+" from a constructor call: a re-established session could reuse the previous object with its old contents")
		}
	}
	_ = token.NoPos
}

// withdrawBeforeBlockingTeardown: dispose() takes the session's contribution out of the shared tables (unregisters the
// Adj-RIB-In from the Loc-RIB, which withdraws its routes; removes the contributing ASN / cluster ID) and tears the sending
// side down.  The tear-down of the update sender waits for the sender goroutine (an unbuffered hand-off), which may be
// stuck writing to a peer that stopped reading.  Rule: no call that can block on another goroutine (it sends on an
// unbuffered channel field or waits on a WaitGroup, directly) precedes, on any path through dispose, one of the
// withdrawal effects — otherwise a stalled peer keeps its routes in the Loc-RIB for as long as it likes.
func withdrawBeforeBlockingTeardown(c *core.Ctx) {
	const rule = "withdraw-before-blocking-teardown"
	p := c.P
	c.Floor(rule, 2)
	f := c.MustFunc(srv + ".(*fsmAddressFamily).dispose")
	if f == nil {
		return
	}
	c.Analysed(f)
	blocks := func(g *core.Fn) bool {
		if g == nil || g.Decl.Body == nil {
			return false
		}
		b := false
		ast.Inspect(g.Decl.Body, func(n ast.Node) bool {
			switch x := n.(type) {
			case *ast.SendStmt:
				if fv := core.FieldOf(g.Pkg, x.Chan); fv != nil {
					b = true
				}
			case *ast.CallExpr:
				if core.FuncKey(core.Callee(g.Pkg, x)) == "sync.(*WaitGroup).Wait" {
					b = true
				}
			}
			return true
		})
		return b
	}
	isBlocking := func(n ast.Node) bool {
		return core.NodeHas(n, func(x ast.Node) bool {
			call, ok := x.(*ast.CallExpr)
			return ok && blocks(p.FnOf(core.Callee(f.Pkg, call)))
		})
	}
	adjInF := p.Field(srv, "fsmAddressFamily", "adjRIBIn")
	effects := []struct {
		name string
		is   func(call *ast.CallExpr) bool
	}{
		{"the Adj-RIB-In is unregistered from the Loc-RIB (routes withdrawn)", func(call *ast.CallExpr) bool {
			sel, ok := call.Fun.(*ast.SelectorExpr)
			return ok && sel.Sel.Name == "Unregister" && core.FieldOf(f.Pkg, sel.X) == adjInF && adjInF != nil
		}},
		{"the contributing ASN is removed", func(call *ast.CallExpr) bool {
			return core.FuncKey(core.Callee(f.Pkg, call)) == "routingtable/vrf.(*VRF).RemoveContributingASN"
		}},
	}
	g := p.CFG(f)
	for _, ef := range effects {
		isEffect := func(n ast.Node) bool {
			return core.NodeHas(n, func(x ast.Node) bool {
				call, ok := x.(*ast.CallExpr)
				return ok && ef.is(call)
			})
		}
		late, started := core.PathAvoidingFromS(g, isBlocking, func(ast.Node) bool { return false }, isEffect)
		pos := f.Decl.Pos()
		if len(late) > 0 {
			pos = late[0].Pos()
		}
		_ = started
		c.Check(len(late) == 0, rule, f.Name()+": "+ef.name+" before anything that can block", pos,
			"a call that waits for another goroutine (the update sender's tear-down) comes first: when the peer has stopped reading, the sender is stuck in its write, dispose() blocks there and the session's routes stay in the Loc-RIB (and its ASN keeps contributing) although the session has left Established")
	}
}
