package props

import (
	"fmt"
	"go/ast"
	"go/types"

	"verif/engine/core"
)

// loopDetectionAnswersAreNotKept: what counts as "our" ASN / cluster ID in a VRF changes when sessions come and go
// (AddContributing… in init, RemoveContributing… in dispose).  A session leaving Established withdraws its contribution
// — that only reaches the other sessions if they ask the VRF every time.  An answer of IsContributingASN /
// IsContributingClusterID that is stored in a field or map of the table outlives the contribution it was computed
// from.  Rule: in the Adj-RIB-In package the result of such a call flows only into conditions, returns and locals —
// never (directly or through a local) into a field or an element of a field.
func loopDetectionAnswersAreNotKept(c *core.Ctx) {
	const rule = "loop-detection-asks-the-vrf-every-time"
	p := c.P
	const in = "routingtable/adjRIBIn"
	isAsk := func(o *types.Func) bool {
		return (o.Name() == "IsContributingASN" || o.Name() == "IsContributingClusterID") && core.RecvName(o) == "VRF"
	}
	n := 0
	for _, f := range p.FuncsIn(in) {
		if f.Decl.Body == nil || isTestFn(p, f) {
			continue
		}
		calls := core.CallsAll(f.Pkg, f.Decl.Body, isAsk)
		if len(calls) == 0 {
			continue
		}
		c.Analysed(f)
		// locals that hold an answer
		holds := map[types.Object]bool{}
		isAnswer := func(e ast.Expr) bool {
			return core.NodeHas(e, func(x ast.Node) bool {
				if call, ok := x.(*ast.CallExpr); ok {
					if cal := core.Callee(f.Pkg, call); cal != nil && isAsk(cal) {
						return true
					}
				}
				if id, ok := x.(*ast.Ident); ok && holds[core.ObjOf(f.Pkg, id)] {
					return true
				}
				return false
			})
		}
		for ch := true; ch; {
			ch = false
			ast.Inspect(f.Decl.Body, func(nd ast.Node) bool {
				as, ok := nd.(*ast.AssignStmt)
				if !ok || len(as.Lhs) != len(as.Rhs) {
					return true
				}
				for i, l := range as.Lhs {
					if id, ok := core.Unparen(l).(*ast.Ident); ok && isAnswer(as.Rhs[i]) {
						if o := core.ObjOf(f.Pkg, id); o != nil && !holds[o] {
							holds[o] = true
							ch = true
						}
					}
				}
				return true
			})
		}
		for i := range calls {
			n++
			_ = i
		}
		kept := ""
		var at ast.Node = f.Decl
		ast.Inspect(f.Decl.Body, func(nd ast.Node) bool {
			as, ok := nd.(*ast.AssignStmt)
			if !ok || len(as.Lhs) != len(as.Rhs) {
				return true
			}
			for i, l := range as.Lhs {
				if _, isId := core.Unparen(l).(*ast.Ident); isId {
					continue
				}
				if isAnswer(as.Rhs[i]) && core.BaseIdent(l) != nil {
					// a store through a selector / index chain: a field or a map element
					hasField := core.NodeHas(l, func(x ast.Node) bool {
						se, ok := x.(*ast.SelectorExpr)
						return ok && core.FieldOf(f.Pkg, se) != nil
					})
					if hasField {
						kept, at = core.ExprString(l), as
					}
				}
			}
			return true
		})
		c.Check(kept == "", rule, fmt.Sprintf("%s uses the VRF's answer at once", f.Name()), at.Pos(),
			"the answer of the VRF's loop detection is stored in `"+kept+"`: when another session leaves Established and its ASN / cluster ID stops being ours, this table keeps treating paths through it as loops (or keeps accepting loops) — the contribution is not withdrawn for the other sessions")
	}
	c.Check(n >= 2, rule, "loop-detection queries found", 0, fmt.Sprintf("found %d IsContributing… calls in the Adj-RIB-In package, floor 2", n))
}
