package props

import (
	"fmt"
	"go/ast"
	"go/token"
	"go/types"
	"sort"
	"strings"

	"verif/engine/core"
)

func init() {
	Register(&Prop{
		Meta: core.Meta{
			ID: "C08", Title: "Adj-RIB-Out equals the export view of the Loc-RIB", Level: "other",
			Technique:   "pairing analysis (R-PAIR): the set of export transformers on the def-use chain from each API entry to the key of every Adj-RIB-Out table operation, compared between add side and remove side; must-pass-through gates before every store; provenance of the withdrawal handed to the update sender",
			DesignRef:   "DESIGN.md §3 R-PAIR, §4 C08",
			Decided:     "(w) every removal from the Adj-RIB-Out table is followed, on every feasible path, by a withdrawal handed to the clients (error branches and exits ruled out by a flag set after the removal excepted); (1) for every operation on the Adj-RIB-Out's routing table (AddPath/ReplacePath on the add side; RemovePath and the preference comparison that finds the stored path on the remove side) the key path is derived from the API parameter through the same export transformers — redistribution (CheckRedistribute), the session's propagation/rewrite rules (checkPropagateUpdate → iBGP/eBGP) and the export policy (Chain.Process), each once: a remove-side key that lacks a rewrite the add side applied can never equal the stored path; (2) every store into the table is preceded on every path by the propagation rules and the policy, whose negative verdict leaves the function without storing; (3) with add-path the stored path carries the identifier the id manager returned, best-only replaces and withdraws the replaced paths; (4) the Loc-RIB side of the view (which paths a session is shown) is C04's clauses, included here because the Loc-RIB is this property's other anchor.",
			NotDecided:  "equality of the Adj-RIB-Out with the export view over whole Loc-RIB histories; the attribute values the rewrites produce (C09).",
			TrustedBase: stdTrusted,
		},
		Run: runC08,
		Controls: []Control{
			{Name: "attribute-equality-completed-by-otc", File: "route/bgp_path.go", Old: "\tif b.EBGP != c.EBGP || b.AtomicAggregate != c.AtomicAggregate || b.Origin != c.Origin {", New: "\tif b.EBGP != c.EBGP || b.AtomicAggregate != c.AtomicAggregate || b.Origin != c.Origin || b.OnlyToCustomer != c.OnlyToCustomer {", Expect: "removal-key-avoids-export-only-rewrites"},
			{Name: "route-copy-on-the-receivers-array", File: "route/route.go", Old: "\tn.paths = make([]*Path, len(r.paths))\n\tcopy(n.paths, r.paths)\n", New: "\tn.paths = append(r.paths[:0], r.paths...)\n", Expect: "route-copy-owns-its-path-list"},
			{Name: "route-copy-by-append-to-nil", Silent: true, File: "route/route.go", Old: "\tn.paths = make([]*Path, len(r.paths))\n\tcopy(n.paths, r.paths)\n", New: "\tn.paths = append([]*Path(nil), r.paths...)\n"},
			{Name: "refresh-skipped-for-empty-table", File: "routingtable/adjRIBOut/adj_rib_out.go", Old: "\ta.exportFilterChainPending = c\n\ta.rib.RefreshClient(a)\n", New: "\ta.exportFilterChainPending = c\n\tif a.rt.GetRouteCount() > 0 {\n\t\ta.rib.RefreshClient(a)\n\t}\n", Expect: "refresh-is-unconditional"},
			{Name: "not-found-decided-by-pointer-identity", File: "routingtable/adjRIBOut/adj_rib_out.go", Old: "\t\tif !found {\n\t\t\treturn false\n\t\t}\n", New: "\t\tif !found || sentPath == p {\n\t\t\treturn false\n\t\t}\n", Expect: "table-removal-is-withdrawn"},
			{Name: "remove-uses-pre-policy-key", File: "routingtable/adjRIBOut/adj_rib_out.go", Old: "\tp, reject := a.exportFilterChain.Process(pfx, p)\n\tif reject {\n\t\treturn false\n\t}\n\n\treturn a.removeExportedPath(pfx, p)", New: "\t_, reject := a.exportFilterChain.Process(pfx, p)\n\tif reject {\n\t\treturn false\n\t}\n\n\treturn a.removeExportedPath(pfx, p)", Expect: "export-transformers-paired"},
			{Name: "add-skips-propagation-rules", File: "routingtable/adjRIBOut/adj_rib_out.go", Old: "\tp, propagate := a.checkPropagateUpdate(pfx, p)\n\tif !propagate {\n\t\treturn nil\n\t}\n\n\tp, reject := a.exportFilterChain.Process(pfx, p)\n\tif reject {\n\t\treturn nil\n\t}\n\n\tp.BGPPath = p.BGPPath.Dedup()", New: "\tp, reject := a.exportFilterChain.Process(pfx, p)\n\tif reject {\n\t\treturn nil\n\t}\n\n\tp.BGPPath = p.BGPPath.Dedup()", Expect: "export-transformers-paired"},
			{Name: "rejected-path-stored-anyway", File: "routingtable/adjRIBOut/adj_rib_out.go", Old: "\tp, reject := a.exportFilterChain.Process(pfx, p)\n\tif reject {\n\t\treturn nil\n\t}\n\n\tp.BGPPath = p.BGPPath.Dedup()", New: "\tp, reject := a.exportFilterChain.Process(pfx, p)\n\tif reject && a.sessionAttrs.AddPathTX {\n\t\treturn nil\n\t}\n\n\tp.BGPPath = p.BGPPath.Dedup()", Expect: "store-gated-by-verdicts"},
		},
	})
}

const outPkg = "routingtable/adjRIBOut"

var exportTransformers = map[string]string{
	"route.(*Path).CheckRedistribute":             "redistribute(CheckRedistribute)",
	outPkg + ".(*AdjRIBOut).checkPropagateUpdate": "propagation-rules(checkPropagateUpdate)",
	"routingtable/filter.(Chain).Process":         "export-policy(Chain.Process)",
}

// transChain follows the definitions of expression e (used at `at` in f) backwards and collects the export
// transformers applied; it returns the parameter index of f the chain starts from (-2: not a parameter, e.g. a stored path).
func transChain(p *core.Prog, f *core.Fn, e ast.Expr, at token.Pos, depth int) (trans []string, param int, src string) {
	param = -2
	if depth > 12 {
		return nil, -2, "?"
	}
	e = core.Unparen(e)
	switch x := e.(type) {
	case *ast.CallExpr:
		key := core.FuncKey(core.Callee(f.Pkg, x))
		if name, ok := exportTransformers[key]; ok {
			// input: receiver for CheckRedistribute, last argument otherwise
			var in ast.Expr
			if key == "route.(*Path).CheckRedistribute" {
				in = x.Fun.(*ast.SelectorExpr).X
			} else if len(x.Args) > 0 {
				in = x.Args[len(x.Args)-1]
			}
			t, pi, s := transChain(p, f, in, x.Pos(), depth+1)
			return append(t, name), pi, s
		}
		if key == "route.(*Path).Copy" {
			return transChain(p, f, x.Fun.(*ast.SelectorExpr).X, x.Pos(), depth+1)
		}
		return nil, -2, "call " + key
	case *ast.Ident:
		obj := core.ObjOf(f.Pkg, x)
		if obj == nil {
			return nil, -2, "?"
		}
		// latest plain assignment before `at` that does not contain `at`
		var last ast.Expr
		var lastPos token.Pos
		ast.Inspect(f.Decl.Body, func(n ast.Node) bool {
			switch as := n.(type) {
			case *ast.AssignStmt:
				if as.Pos() >= at || as.End() > at {
					return true
				}
				for i, l := range as.Lhs {
					if id, ok := core.Unparen(l).(*ast.Ident); ok && core.ObjOf(f.Pkg, id) == obj {
						var rhs ast.Expr
						if len(as.Rhs) == len(as.Lhs) {
							rhs = as.Rhs[i]
						} else if len(as.Rhs) == 1 {
							rhs = as.Rhs[0]
						}
						if as.Pos() > lastPos {
							last, lastPos = rhs, as.Pos()
						}
					}
				}
			case *ast.RangeStmt:
				if as.Value != nil && core.ObjOf(f.Pkg, as.Value) == obj && as.Pos() < at && as.Pos() > lastPos {
					last, lastPos = as.X, as.Pos()
				}
			}
			return true
		})
		if last != nil {
			return transChain(p, f, last, lastPos, depth+1)
		}
		for i := 0; ; i++ {
			po := core.ParamObj(f, i)
			if po == nil {
				break
			}
			if po == obj {
				return nil, i, "parameter " + obj.Name()
			}
		}
		return nil, -2, "variable " + obj.Name()
	}
	return nil, -2, core.ExprString(e)
}

type keyChain struct {
	entry string
	trans []string
	src   string
}

// chainsTo computes, for the key expression e in function f, the transformer sets along every call chain from an
// exported AdjRIBOut method.
func chainsTo(p *core.Prog, f *core.Fn, e ast.Expr, at token.Pos, seen map[*core.Fn]bool) []keyChain {
	tr, pi, src := transChain(p, f, e, at, 0)
	if pi == -2 {
		return []keyChain{{entry: f.Name() + " (" + src + ")", trans: tr, src: src}}
	}
	exported := f.Decl.Name.IsExported()
	var out []keyChain
	if exported {
		out = append(out, keyChain{entry: f.Name(), trans: tr, src: src})
	}
	if seen[f] {
		return out
	}
	seen[f] = true
	defer delete(seen, f)
	for _, g := range p.FuncsIn(outPkg) {
		if g.Decl.Body == nil {
			continue
		}
		for _, call := range core.CallsAll(g.Pkg, g.Decl.Body, func(o *types.Func) bool { return o == f.Obj }) {
			if pi >= len(call.Args) {
				continue
			}
			for _, kc := range chainsTo(p, g, call.Args[pi], call.Pos(), seen) {
				kc.trans = append(append([]string{}, kc.trans...), tr...)
				out = append(out, kc)
			}
		}
	}
	return out
}

// exportTransformerPairing is clause (1) of C08; C09 includes it because a table store that skips the session-kind
// rewrites advertises routes without prepend / next-hop-self / ORIGINATOR_ID / OTC.
func exportTransformerPairing(c *core.Ctx) { exportTransformerPairingOf(c, "") }

// exportTransformerPairingOf restricts the clause to the transformers whose name contains only (all of them for "").
// C10 runs it for the export policy alone: the removal must look the path up (and release its identifier) under the key the
// policy produced; the other two transformers are C08's (their removal-side gaps are the recorded C08 finding).
func exportTransformerPairingOf(c *core.Ctx, only string) {
	p := c.P
	rtF := p.Field(outPkg, "AdjRIBOut", "rt")
	if rtF == nil {
		c.Undecided("anchor", outPkg+".AdjRIBOut.rt", token.NoPos, "not found")
		return
	}
	var want []string
	for _, n := range exportTransformers {
		if only == "" || strings.Contains(n, only) {
			want = append(want, n)
		}
	}
	sort.Strings(want)
	if only == "" {
		c.Floor("export-transformers-paired", 6)
	}
	for _, f := range p.MethodsOf(outPkg, "AdjRIBOut") {
		if f.Decl.Body == nil {
			continue
		}
		ast.Inspect(f.Decl.Body, func(n ast.Node) bool {
			call, ok := n.(*ast.CallExpr)
			if !ok {
				return true
			}
			se, ok := call.Fun.(*ast.SelectorExpr)
			if !ok {
				return true
			}
			var key ast.Expr
			op := ""
			switch {
			case core.FieldOf(f.Pkg, se.X) == rtF && (se.Sel.Name == "AddPath" || se.Sel.Name == "ReplacePath" || se.Sel.Name == "RemovePath") && len(call.Args) == 2:
				key, op = call.Args[1], "rt."+se.Sel.Name
			case se.Sel.Name == "Select" && len(call.Args) == 1 && core.FuncKey(core.Callee(f.Pkg, call)) == "route.(*Path).Select":
				key, op = call.Args[0], "stored.Select(key)"
			default:
				return true
			}
			c.Analysed(f)
			for _, kc := range chainsTo(p, f, key, call.Pos(), map[*core.Fn]bool{}) {
				have := map[string]int{}
				for _, t := range kc.trans {
					have[t]++
				}
				entry := kc.entry
				for _, w := range want {
					construct := fmt.Sprintf("%s ⇒ %s in %s: key passes %s", entry, op, f.Decl.Name.Name, w)
					switch {
					case strings.HasSuffix(entry, ")") && (strings.Contains(kc.src, "variable") || strings.Contains(kc.src, "(*Route).Paths") || strings.Contains(kc.src, "(*RoutingTable)")):
						// key is a stored path (read from the table): it already is in exported form
						if have[w] == 0 {
							c.Hold("export-transformers-paired", construct, call.Pos(), "key is a path read from the Adj-RIB-Out table (already exported form)")
						} else {
							c.Fail("export-transformers-paired", construct, call.Pos(), "a path read from the Adj-RIB-Out (already in exported form) is run through "+w+" again before it is used as key")
						}
					case have[w] == 1:
						c.Hold("export-transformers-paired", construct, call.Pos(), "applied once")
					case have[w] == 0:
						c.Fail("export-transformers-paired", construct, call.Pos(),
							"the key used for this table operation is derived from the caller's (Loc-RIB) path WITHOUT "+w+", which the add side applies before storing: whenever that step rewrites the path (AS prepend / next-hop-self on eBGP, ORIGINATOR_ID / CLUSTER_LIST towards RR clients, type change on redistribution, policy rewrites) the key can never equal the stored path, so a withdrawn route stays in the Adj-RIB-Out (or the wrong path is removed)")
					default:
						c.Fail("export-transformers-paired", construct, call.Pos(), fmt.Sprintf("%s is applied %d times on the way to the key (non-idempotent rewrites such as AS path prepend make the key differ from the stored path)", w, have[w]))
					}
				}
			}
			return true
		})
	}
}

func runC08(c *core.Ctx) {
	routeCopyOwnsItsPathList(c, "route-copy-owns-its-path-list")
	refreshIsUnconditional(c, "refresh-is-unconditional")
	tableRemovalIsWithdrawn(c, "table-removal-is-withdrawn")
	p := c.P
	exportTransformerPairing(c)
	removalKeyAvoidsExportOnlyRewrites(c)

	// (2) stores are gated by the verdicts ---------------------------------------------------------------
	for _, k := range []string{outPkg + ".(*AdjRIBOut).AddPath"} {
		f := c.MustFunc(k)
		if f == nil {
			continue
		}
		ad := p.Func(outPkg + ".(*AdjRIBOut).addPath")
		for _, call := range core.Calls(f.Pkg, f.Decl.Body, func(o *types.Func) bool { return ad != nil && o == ad.Obj }) {
			facts := core.FactsAt(f, call)
			verdict := func(calleeKey string, wantTruth bool) bool {
				for _, ft := range facts {
					obj := core.ObjOf(f.Pkg, ft.Expr)
					if obj == nil || ft.Truth != wantTruth {
						continue
					}
					for _, d := range core.DefsOf(f, obj) {
						if dc, ok := core.Unparen(d).(*ast.CallExpr); ok && core.FuncKey(core.Callee(f.Pkg, dc)) == calleeKey {
							return true
						}
					}
				}
				return false
			}
			c.Check(verdict(outPkg+".(*AdjRIBOut).checkPropagateUpdate", true), "store-gated-by-verdicts", k+" stores only when the propagation rules allow", call.Pos(), "the store into the Adj-RIB-Out is reachable although checkPropagateUpdate said `do not propagate`")
			c.Check(verdict("routingtable/filter.(Chain).Process", false), "store-gated-by-verdicts", k+" stores only when the export policy accepts", call.Pos(), "the store into the Adj-RIB-Out is reachable although the export policy rejected the path")
		}
	}
	// checkPropagateUpdate consults ShouldPropagateUpdate first and dispatches on the session kind
	if f := c.MustFunc(outPkg + ".(*AdjRIBOut).checkPropagateUpdate"); f != nil {
		g := p.CFG(f)
		isSPU := callNode(f, core.KeyIs("routingtable.ShouldPropagateUpdate"))
		isKind := callNode(f, core.KeyIs(outPkg+".(*AdjRIBOut).checkPropagateUpdateIBGP", outPkg+".(*AdjRIBOut).checkPropagateUpdateEBGP"))
		c.Check(len(core.PathAvoiding(g, isSPU, isKind)) == 0, "store-gated-by-verdicts", f.Name()+" own-path/community checks precede the session-kind rules", f.Decl.Pos(), "the session-kind rules are reachable without the own-path / NO_EXPORT / NO_ADVERTISE check")
		ibgp := p.Field("routingtable", "SessionAttrs", "IBGP")
		for _, call := range core.Calls(f.Pkg, f.Decl.Body, core.KeyIs(outPkg+".(*AdjRIBOut).checkPropagateUpdateIBGP", outPkg+".(*AdjRIBOut).checkPropagateUpdateEBGP")) {
			wantIBGP := strings.HasSuffix(core.FuncKey(core.Callee(f.Pkg, call)), "IBGP")
			ok := false
			for _, ft := range core.FactsAt(f, call) {
				if core.FieldOf(f.Pkg, ft.Expr) == ibgp && ft.Truth == wantIBGP {
					ok = true
				}
			}
			c.Check(ok, "store-gated-by-verdicts", f.Name()+" dispatch to "+core.Callee(f.Pkg, call).Name(), call.Pos(), "the iBGP/eBGP rule set is not selected by the session's IBGP attribute")
		}
	}
	// (3) addPath: identifier and replace semantics
	if f := c.MustFunc(outPkg + ".(*AdjRIBOut).addPath"); f != nil {
		tx := p.Field("routingtable", "SessionAttrs", "AddPathTX")
		pid := p.Field("route", "BGPPath", "PathIdentifier")
		okID := false
		ast.Inspect(f.Decl.Body, func(n ast.Node) bool {
			as, ok := n.(*ast.AssignStmt)
			if !ok || len(as.Lhs) != 1 || core.FieldOf(f.Pkg, as.Lhs[0]) != pid {
				return true
			}
			obj := core.ObjOf(f.Pkg, as.Rhs[0])
			for _, d := range core.DefsOf(f, obj) {
				if dc, ok := core.Unparen(d).(*ast.CallExpr); ok && core.FuncKey(core.Callee(f.Pkg, dc)) == outPkg+".(*pathIDManager).addPath" {
					okID = true
				}
			}
			return true
		})
		c.Check(okID, "stored-path-identifier", f.Name()+" stamps the identifier the id manager returned", f.Decl.Pos(), "the stored/advertised path does not carry the path identifier allocated for it")
		for _, call := range core.Calls(f.Pkg, f.Decl.Body, core.KeyIs("routingtable.(*RoutingTable).AddPath", "routingtable.(*RoutingTable).ReplacePath")) {
			wantTX := core.Callee(f.Pkg, call).Name() == "AddPath"
			ok := false
			for _, ft := range core.CtlFactsAt(f, call) {
				if core.FieldOf(f.Pkg, ft.Expr) == tx && ft.Truth == wantTX {
					ok = true
				}
			}
			c.Check(ok, "stored-path-identifier", f.Name()+" "+core.Callee(f.Pkg, call).Name()+" under AddPathTX="+fmt.Sprint(wantTX), call.Pos(), "add-path sessions must add (keep several paths), best-only sessions must replace; the table operation is not selected by AddPathTX")
		}
		rpc := p.Func(outPkg + ".(*AdjRIBOut).removePathsFromClients")
		okW := false
		for _, call := range core.Calls(f.Pkg, f.Decl.Body, func(o *types.Func) bool { return rpc != nil && o == rpc.Obj }) {
			obj := core.ObjOf(f.Pkg, call.Args[1])
			for _, d := range core.DefsOf(f, obj) {
				if dc, ok := core.Unparen(d).(*ast.CallExpr); ok && core.FuncKey(core.Callee(f.Pkg, dc)) == "routingtable.(*RoutingTable).ReplacePath" {
					okW = true
				}
			}
		}
		c.Check(okW, "stored-path-identifier", f.Name()+" withdraws what ReplacePath replaced", f.Decl.Pos(), "the paths replaced in a best-only Adj-RIB-Out are not withdrawn from the update sender")
	}
	// (4) Loc-RIB side
	runC04(c)
}
