package props

import (
	"fmt"
	"go/types"
	"sort"

	"verif/engine/core"
)

// removalKeyAvoidsExportOnlyRewrites: a path is withdrawn from the Adj-RIB-Out by looking its stored form up with
// Path.Compare / Path.Select.  As long as the removal side does not run the export rewrites (checkPropagateUpdate:
// AS path prepend, CLUSTER_LIST/ORIGINATOR_ID, RFC 9234 OTC, next hop), every attribute that those rewrites write AND
// the lookup compares is a way for a stored path to become unfindable.  The fields for which that is already the case
// are the recorded known finding (eBGP / route-reflector-client withdrawals never match); any FURTHER field — an
// equality "completed" by one more attribute, a new rewrite — is a new way to strand routes in the table and is
// reported under its own construct.
func removalKeyAvoidsExportOnlyRewrites(c *core.Ctx) {
	const rule = "removal-key-avoids-export-only-rewrites"
	p := c.P
	rewrite := c.MustFunc(outPkg + ".(*AdjRIBOut).checkPropagateUpdate")
	remove := c.MustFunc(outPkg + ".(*AdjRIBOut).RemovePath")
	cmp := c.MustFunc("route.(*Path).Compare")
	sel := c.MustFunc("route.(*Path).Select")
	if rewrite == nil || remove == nil || cmp == nil || sel == nil {
		return
	}
	c.Analysed(rewrite, remove, cmp, sel)
	for _, g := range p.ReachableFns(remove) {
		if g == rewrite {
			c.Hold(rule, "RemovePath applies the export rewrites to its key", remove.Decl.Pos(), "the removal side runs checkPropagateUpdate: stored form and key agree")
			return
		}
	}
	isAttr := func(fv *types.Var) bool {
		for _, tn := range []string{"BGPPath", "BGPPathA"} {
			for _, x := range p.Fields("route", tn) {
				if x == fv {
					return true
				}
			}
		}
		return false
	}
	written := p.WritesTransitive(rewrite)
	for name, reader := range map[string]*core.Fn{"Compare": cmp, "Select": sel} {
		reads := p.ReadsTransitive(reader)
		var fs []*types.Var
		for fv := range written {
			if reads[fv] && isAttr(fv) {
				fs = append(fs, fv)
			}
		}
		sort.Slice(fs, func(i, j int) bool { return fs[i].Name() < fs[j].Name() })
		for _, fv := range fs {
			c.Fail(rule, fmt.Sprintf("Path.%s reads %s, which only the add side of the Adj-RIB-Out rewrites", name, fv.Name()), reader.Decl.Pos(),
				fmt.Sprintf("the export pipeline rewrites %s when a path is added (checkPropagateUpdate) but not when its withdrawal is looked up, and Path.%s compares that attribute: on sessions where the rewrite applies the stored path is never found again, the route stays in the Adj-RIB-Out table after the Loc-RIB withdrew it", fv.Name(), name))
		}
	}
}
