package props

import (
	"fmt"
	"go/ast"
	"go/token"
	"go/types"

	"verif/engine/core"
)

// tableRemovalIsWithdrawn: what leaves the Adj-RIB-Out table leaves the peer's view — every path from a removal in the
// table (RoutingTable.RemovePath / RemovePfx in package adjRIBOut) to an exit of the function passes a withdrawal to the
// clients (the update sender).  An exit without one is accepted only when it is an error branch (control-dependent on
// `err != nil`) or provably infeasible after the removal: it is taken only when a boolean local is false that is set
// to true on every path from the removal to the test.  In particular "not found" must not be decided by comparing the
// stored path pointer with the argument — the argument may BE the stored path.
func tableRemovalIsWithdrawn(c *core.Ctx, rule string) {
	p := c.P
	const pkg = "routingtable/adjRIBOut"
	c.Floor(rule, 1)
	one := p.Func(pkg + ".(*AdjRIBOut).removePathFromClients")
	many := p.Func(pkg + ".(*AdjRIBOut).removePathsFromClients")
	n := 0
	for _, f := range p.MethodsOf(pkg, "AdjRIBOut") {
		if f.Decl.Body == nil {
			continue
		}
		rms := core.Calls(f.Pkg, f.Decl.Body, core.KeyIs("routingtable.(*RoutingTable).RemovePath", "routingtable.(*RoutingTable).RemovePfx"))
		if len(rms) == 0 {
			continue
		}
		c.Analysed(f)
		g := p.CFG(f)
		notifies := func(nd ast.Node) bool {
			return core.NodeHas(nd, func(x ast.Node) bool {
				call, ok := x.(*ast.CallExpr)
				if !ok {
					return false
				}
				callee := core.Callee(f.Pkg, call)
				if (one != nil && callee == one.Obj) || (many != nil && callee == many.Obj) {
					return true
				}
				sel, isSel := call.Fun.(*ast.SelectorExpr)
				return isSel && sel.Sel.Name == "RemovePath" && isClientIface(f, sel.X)
			})
		}
		for i, rm := range rms {
			n++
			isRm := func(nd ast.Node) bool { return core.NodeHas(nd, func(x ast.Node) bool { return x == ast.Node(rm) }) }
			isRet := func(nd ast.Node) bool { _, ok := nd.(*ast.ReturnStmt); return ok }
			hits := core.PathAvoidingFrom(g, isRm, notifies, isRet)
			var bad []ast.Node
			for _, h := range hits {
				ret := h.(*ast.ReturnStmt)
				okExit := false
				for _, ft := range core.CtlFactsAt(f, ret) {
					if ft.Expr == nil {
						continue
					}
					// (a) error branch
					if be, ok := core.Unparen(ft.Expr).(*ast.BinaryExpr); ok && ((be.Op == token.NEQ && ft.Truth) || (be.Op == token.EQL && !ft.Truth)) {
						if id, isId := core.Unparen(be.Y).(*ast.Ident); isId && id.Name == "nil" {
							if t := f.Pkg.TypesInfo.TypeOf(be.X); t != nil && types.Identical(t, types.Universe.Lookup("error").Type()) {
								okExit = true
							}
						}
					}
					// (b) a flag that is true on every path from the removal
					e := core.Unparen(ft.Expr)
					want := ft.Truth
					if u, ok := e.(*ast.UnaryExpr); ok && u.Op == token.NOT {
						e, want = core.Unparen(u.X), !want
					}
					if id, ok := e.(*ast.Ident); ok && !want {
						flag := f.Pkg.TypesInfo.ObjectOf(id)
						setsTrue := func(nd ast.Node) bool {
							as, ok := nd.(*ast.AssignStmt)
							if !ok || len(as.Lhs) != 1 || len(as.Rhs) != 1 || core.ObjOf(f.Pkg, as.Lhs[0]) != flag {
								return false
							}
							v, ok := core.Unparen(as.Rhs[0]).(*ast.Ident)
							return ok && v.Name == "true"
						}
						isThis := func(nd ast.Node) bool { return nd == ast.Node(ret) }
						if flag != nil && len(core.PathAvoidingFrom(g, isRm, setsTrue, isThis)) == 0 {
							okExit = true
						}
					}
				}
				if !okExit {
					bad = append(bad, h)
				}
			}
			pos := rm.Pos()
			if len(bad) > 0 {
				pos = bad[0].Pos()
			}
			c.Check(len(bad) == 0, rule, fmt.Sprintf("%s removal #%d from the table is followed by a withdrawal on every path", f.Name(), i+1), pos,
				"after a path was taken out of the Adj-RIB-Out table the function can return without handing a withdrawal to the clients (the exit is neither an error branch nor ruled out by a flag set after the removal — e.g. `not found` decided by comparing the stored path pointer with the argument, which IS the stored path when a prefix is wiped): the peer keeps a route the Adj-RIB-Out no longer holds")
		}
	}
	c.Check(n >= 1, rule, "removals from the Adj-RIB-Out table found", token.NoPos, "none found")
}
