package props

import (
	"fmt"
	"go/ast"
	"go/token"
	"go/types"
	"strings"

	"verif/engine/core"
)

func init() {
	Register(&Prop{
		Meta: core.Meta{
			ID: "C09", Title: "Export eligibility and attribute rewriting follow the BGP RFCs", Level: "other",
			Technique:   "abstract interpretation of the prepend routine over a five-state model of the first AS_PATH segment; guard-formula agreement (R-FORM): exact path conditions of every export verdict and rewrite, extracted from the structured code and evaluated against the RFC tables on all valuations of their atoms; attribute-table agreement between the rewrites and the wire attribute list",
			DesignRef:   "DESIGN.md §3 R-FORM, §4 C09",
			Decided:     "(1) isDisallowedByCommunity says `do not advertise` for a community c exactly when c = NO_ADVERTISE ∨ (c = NO_EXPORT ∧ ¬iBGP), and the scan over the communities is never cut short by another return; (2) isOwnPath ⇔ path type = session type = BGP ∧ source = peer; ShouldPropagateUpdate is the conjunction of the two negations; (3) the iBGP rule set refuses exactly ¬redistributed ∧ ¬eBGP-learned ∧ ¬RR-client, stamps ORIGINATOR_ID exactly when RR-client ∧ none present (with the source's id) and puts the local cluster ID at the head of the CLUSTER_LIST exactly for RR clients; (4) the eBGP rule set prepends the local ASN once and sets next-hop-self exactly for non-route-server-clients, refuses exactly `roles negotiated ∧ OTC present ∧ peer is provider/peer/RS` and stamps OTC with the local ASN exactly for `roles negotiated ∧ OTC absent ∧ peer is customer/peer/RS-client` (RFC 9234 §5 egress, 288 valuations); (4b) BGPPath.Prepend never grows a leading AS_SET and never indexes an empty path: by abstract interpretation over the state of the first segment (none / AS_SEQUENCE / AS_SET × below / at 255 ASNs), started from every state, a new leading AS_SEQUENCE is in place whenever the ASN is written (RFC 4271 §5.1.2 b); (5) PathAttributes emits LOCAL_PREF exactly for iBGP, ORIGINATOR_ID and CLUSTER_LIST exactly for RR clients; (6) every attribute the export rewrites can set is read by PathAttributes, i.e. has a way onto the wire.",
			NotDecided:  "byte-level content of the serialised attributes (C17); which sessions a path is shown to (C04/C08).",
			TrustedBase: append([]string{"RFC 1997 / 4271 / 4456 / 9234 export tables transcribed in engine/props/c09.go"}, stdTrusted...),
		},
		Run: runC09,
		Controls: []Control{
			{Name: "attribute-cache-keyed-without-otc", File: "route/bgp_path_cache.go", Old: "\tif x, ok := bgpc.cache[*p]; ok {", New: "\tk := *p\n\tk.OnlyToCustomer = 0\n\tif x, ok := bgpc.cache[k]; ok {", Expect: "dedup-keeps-rewritten-attributes"},
			{Name: "reflection-attributes-only-with-originator", File: "protocols/bgp/server/update_sender.go", Old: "packet.PathAttributes(pathNLRIs.path, u.iBGP, u.rrClient)", New: "packet.PathAttributes(pathNLRIs.path, u.iBGP, u.rrClient && pathNLRIs.path.BGPPath.BGPPathA.OriginatorID != 0)", Expect: "reflection-flag-is-per-session"},
			{Name: "prepend-into-leading-as-set", File: "route/bgp_path.go", Old: "\tif first.Type == types.ASSet {\n\t\tb.insertNewASSequence()\n\t}\n", New: "\tif first.Type == types.ASSet && len(first.ASNs) >= types.MaxASNsSegment {\n\t\tb.insertNewASSequence()\n\t}\n", Expect: "prepend-into-sequence"},
			{Name: "refactor-prepend-through-helper", Silent: true, File: "route/bgp_path.go", Old: "\tif len(*b.ASPath) == 0 {\n\t\tb.insertNewASSequence()\n\t}\n\n\tfirst := (*b.ASPath)[0]\n\tif first.Type == types.ASSet {\n\t\tb.insertNewASSequence()\n\t}\n\n\tfor i := 0; i < int(times); i++ {\n\t\tif len((*b.ASPath)[0].ASNs) >= types.MaxASNsSegment {\n\t\t\tb.insertNewASSequence()\n\t\t}\n", New: "\tfor i := 0; i < int(times); i++ {\n\t\tif len(*b.ASPath) == 0 || (*b.ASPath)[0].Type != types.ASSequence || len((*b.ASPath)[0].ASNs) > types.MaxASNsSegment-1 {\n\t\t\tb.insertNewASSequence()\n\t\t}\n"},
			{Name: "no-export-to-ibgp-blocked", File: "routingtable/update_helper.go", Old: "(com == types.WellKnownCommunityNoExport && !sa.IBGP)", New: "(com == types.WellKnownCommunityNoExport)", Expect: "community-table"},
			{Name: "ibgp-to-ibgp-reflected-to-non-client", File: "routingtable/adjRIBOut/adj_rib_out.go", Old: "if !p.BGPPath.BGPPathA.EBGP && a.sessionAttrs.IBGP && !a.sessionAttrs.RouteReflectorClient {", New: "if !p.BGPPath.BGPPathA.EBGP && a.sessionAttrs.IBGP && a.sessionAttrs.RouteReflectorClient {", Expect: "ibgp-rule-table"},
			{Name: "otc-egress-to-provider", File: "routingtable/adjRIBOut/adj_rib_out.go", Old: "(pr == packet.PeerRoleRoleProvider || pr == packet.PeerRoleRolePeer || pr == packet.PeerRoleRoleRS) {\n\t\t\treturn nil, false", New: "(pr == packet.PeerRoleRolePeer || pr == packet.PeerRoleRoleRS) {\n\t\t\treturn nil, false", Expect: "ebgp-rule-table"},
			{Name: "localpref-sent-to-ebgp", File: "protocols/bgp/packet/path_attributes.go", Old: "\tif iBGP {\n\t\tlocalPref := &PathAttribute{", New: "\tif iBGP || rrClient || p.BGPPath.BGPPathA.LocalPref != 0 {\n\t\tlocalPref := &PathAttribute{", Expect: "wire-attribute-table"},
			{Name: "rs-client-gets-prepend", File: "routingtable/adjRIBOut/adj_rib_out.go", Old: "\tif !a.sessionAttrs.RouteServerClient {\n\t\tp.BGPPath.Prepend(a.sessionAttrs.LocalASN, 1)", New: "\tif !a.sessionAttrs.RouteServerClient || a.sessionAttrs.PeerRoleEnabled {\n\t\tp.BGPPath.Prepend(a.sessionAttrs.LocalASN, 1)", Expect: "ebgp-rule-table"},
		},
	})
}

func runC09(c *core.Ctx) {
	reflectionFlagIsPerSession(c, "reflection-flag-is-per-session")
	// Adj-RIB-Out paths end in Dedup(): a cache key that leaves an attribute out (OnlyToCustomer, ORIGINATOR_ID …) hands one
	// session the attribute set rewritten for another (shared with C03)
	internKeyCoversValue(c, "dedup-keeps-rewritten-attributes")
	p := c.P
	prependIntoSequence(c)
	sa := func(n string) *types.Var { return p.Field("routingtable", "SessionAttrs", n) }
	pa := func(n string) *types.Var { return p.Field("route", "BGPPathA", n) }
	// (1) communities ------------------------------------------------------------------------------
	if f := c.MustFunc("routingtable.isDisallowedByCommunity"); f != nil {
		noExp, _ := p.Object("protocols/bgp/types", "WellKnownCommunityNoExport").(*types.Const)
		noAdv, _ := p.Object("protocols/bgp/types", "WellKnownCommunityNoAdvertise").(*types.Const)
		var loop *ast.RangeStmt
		ast.Inspect(f.Decl.Body, func(n ast.Node) bool {
			if r, ok := n.(*ast.RangeStmt); ok && loop == nil {
				loop = r
			}
			return true
		})
		if loop == nil || noExp == nil || noAdv == nil {
			c.Undecided("community-table", f.Name(), f.Decl.Pos(), "community scan loop or well-known community constants not found")
		} else {
			comObj := core.ObjOf(f.Pkg, loop.Value)
			ne, _ := constInt64(noExp)
			na, _ := constInt64(noAdv)
			var trueRets, otherRets []*ast.ReturnStmt
			ast.Inspect(loop.Body, func(n ast.Node) bool {
				if r, ok := n.(*ast.ReturnStmt); ok {
					if v := core.ConstOf(f.Pkg, r.Results[0]); v != nil && v.ExactString() == "true" {
						trueRets = append(trueRets, r)
					} else {
						otherRets = append(otherRets, r)
					}
				}
				return true
			})
			brk := false
			ast.Inspect(loop.Body, func(n ast.Node) bool {
				if b, ok := n.(*ast.BranchStmt); ok && b.Tok == token.BREAK {
					brk = true
				}
				return true
			})
			c.Check(len(otherRets) == 0 && !brk, "community-table", f.Name()+" scans all communities", loop.Pos(), "the scan over the path's communities can be cut short by a return other than `true` (or a break): a NO_ADVERTISE after an earlier well-known community is never seen")
			bad, rows := 0, 0
			first := ""
			for _, com := range []int64{ne, na, 0x00010001} {
				for _, ibgp := range []bool{false, true} {
					env := core.NewEnv()
					env.Objs[comObj] = core.IntVal(com)
					env.Fields[sa("IBGP")] = core.BoolVal(ibgp)
					got := false
					for _, r := range trueRets {
						if core.HoldsAtLenient(f, r, env) {
							got = true
						}
					}
					want := com == na || (com == ne && !ibgp)
					rows++
					if got != want {
						bad++
						if first == "" {
							first = fmt.Sprintf("community=%#x iBGP=%v: code blocks=%v, RFC 1997 blocks=%v", com, ibgp, got, want)
						}
					}
				}
			}
			c.Check(bad == 0, "community-table", f.Name()+fmt.Sprintf(" NO_ADVERTISE / NO_EXPORT table (%d valuations)", rows), f.Decl.Pos(), fmt.Sprintf("%d disagreements; first: %s", bad, first))
			// the communities scanned are the path's
			c.Check(core.MentionsField(f.Pkg, loop.X, p.Field("route", "BGPPath", "Communities")), "community-table", f.Name()+" scans the path's communities", loop.Pos(), "the loop does not range over the path's COMMUNITIES")
		}
	}
	// (2) own path / conjunction
	if f := c.MustFunc("routingtable.isOwnPath"); f != nil {
		bgpT, _ := p.Object("route", "BGPPathType").(*types.Const)
		bv, _ := constInt64(bgpT)
		bad, rows := 0, 0
		first := ""
		for _, pt := range []int64{1, bv, 5} {
			for _, st := range []int64{1, bv} {
				for _, cmp := range []int64{-1, 0, 1} {
					env := core.NewEnv()
					env.Prog = p
					env.Fields[p.Field("route", "Path", "Type")] = core.IntVal(pt)
					env.Fields[sa("Type")] = core.IntVal(st)
					env.Calls["net.(*IP).Compare"] = core.IntVal(cmp)
					rows++
					ret, err := core.Outcome(f, env)
					if err != nil {
						c.Undecided("own-path-table", f.Name(), f.Decl.Pos(), err.Error())
						bad = -1
						break
					}
					v, ok := core.Eval(f, ret.Results[0], env)
					want := pt == st && pt == bv && cmp == 0
					if !ok || v.B != want {
						bad++
						if first == "" {
							first = fmt.Sprintf("path type=%d session type=%d source-vs-peer=%d: code=%v expected=%v", pt, st, cmp, v.B, want)
						}
					}
				}
			}
		}
		if bad >= 0 {
			c.Check(bad == 0, "own-path-table", f.Name()+fmt.Sprintf(" (%d valuations)", rows), f.Decl.Pos(), fmt.Sprintf("%d disagreements; first: %s", bad, first))
		}
		// compares the path's SOURCE with the session's PEER address
		ok := false
		for _, call := range core.Calls(f.Pkg, f.Decl.Body, core.KeyIs("net.(*IP).Compare")) {
			se := call.Fun.(*ast.SelectorExpr)
			if (core.FieldOf(f.Pkg, se.X) == pa("Source") && core.FieldOf(f.Pkg, call.Args[0]) == sa("PeerIP")) || (core.FieldOf(f.Pkg, se.X) == sa("PeerIP") && core.FieldOf(f.Pkg, call.Args[0]) == pa("Source")) {
				ok = true
			}
		}
		c.Check(ok, "own-path-table", f.Name()+" compares path source with the peer address", f.Decl.Pos(), "the own-path test does not compare the path's source with the session's peer address")
	}
	if f := c.MustFunc("routingtable.ShouldPropagateUpdate"); f != nil {
		bad := 0
		for _, own := range []bool{false, true} {
			for _, dis := range []bool{false, true} {
				env := core.NewEnv()
				env.Calls["routingtable.isOwnPath"] = core.BoolVal(own)
				env.Calls["routingtable.isDisallowedByCommunity"] = core.BoolVal(dis)
				ret, err := core.Outcome(f, env)
				if err != nil {
					bad = 99
					break
				}
				v, ok := core.Eval(f, ret.Results[0], env)
				if !ok || v.B != (!own && !dis) {
					bad++
				}
			}
		}
		c.Check(bad == 0, "own-path-table", f.Name()+" = ¬own ∧ ¬blocked-by-community", f.Decl.Pos(), "ShouldPropagateUpdate is not the conjunction of `not the peer's own path` and `not blocked by a well-known community`")
	}

	// (3) iBGP rules -----------------------------------------------------------------------------------
	if f := c.MustFunc(outPkg + ".(*AdjRIBOut).checkPropagateUpdateIBGP"); f != nil {
		origStore := findStore(f, pa("OriginatorID"))
		var headStore *ast.AssignStmt
		ast.Inspect(f.Decl.Body, func(n ast.Node) bool {
			if as, ok := n.(*ast.AssignStmt); ok && len(as.Lhs) == 1 {
				if ie, ok := core.Unparen(as.Lhs[0]).(*ast.IndexExpr); ok {
					if v := core.ConstOf(f.Pkg, ie.Index); v != nil && v.ExactString() == "0" && core.FieldOf(f.Pkg, as.Rhs[0]) == sa("ClusterID") {
						headStore = as
					}
				}
			}
			return true
		})
		clStore := findStore(f, p.Field("route", "BGPPath", "ClusterList"))
		bad, rows := 0, 0
		first := ""
		for mask := 0; mask < 32; mask++ {
			redist, ebgp, ibgp, rr, hasOrig := mask&1 != 0, mask&2 != 0, mask&4 != 0, mask&8 != 0, mask&16 != 0
			env := core.NewEnv()
			env.Prog = p
			env.Calls["route.(*Path).IsRedistributed"] = core.BoolVal(redist)
			env.Fields[pa("EBGP")] = core.BoolVal(ebgp)
			env.Fields[sa("IBGP")] = core.BoolVal(ibgp)
			env.Fields[sa("RouteReflectorClient")] = core.BoolVal(rr)
			o := int64(0)
			if hasOrig {
				o = 77
			}
			env.Fields[pa("OriginatorID")] = core.IntVal(o)
			env.Exprs["p.BGPPath.ClusterList != nil"] = core.BoolVal(false)
			rows++
			ret, err := core.Outcome(f, env)
			if err != nil {
				c.Undecided("ibgp-rule-table", f.Name(), f.Decl.Pos(), err.Error())
				bad = -1
				break
			}
			v, ok := core.Eval(f, ret.Results[1], env)
			wantProp := redist || !(!ebgp && ibgp && !rr)
			holds := func(st ast.Stmt) bool {
				if st == nil {
					return false
				}
				h, err := core.StmtHolds(f, st, env)
				return err == nil && h
			}
			wantOrig := !redist && wantProp && ibgp && rr && !hasOrig
			wantCL := !redist && wantProp && ibgp && rr
			gotOrig, gotHead, gotCL := origStore != nil && holds(origStore), headStore != nil && holds(headStore), clStore != nil && holds(clStore)
			if !ok || v.B != wantProp || gotOrig != wantOrig || gotHead != wantCL || gotCL != wantCL {
				bad++
				if first == "" {
					first = fmt.Sprintf("redistributed=%v learned-via-eBGP=%v session-iBGP=%v RR-client=%v ORIGINATOR_ID-present=%v: code propagate=%v stampOriginator=%v clusterListHead=%v; RFC 4456: propagate=%v stampOriginator=%v clusterList=%v", redist, ebgp, ibgp, rr, hasOrig, v.B, gotOrig, gotHead, wantProp, wantOrig, wantCL)
				}
			}
		}
		if bad >= 0 {
			c.Check(bad == 0, "ibgp-rule-table", f.Name()+fmt.Sprintf(" agrees with RFC 4271 §9.2 / RFC 4456 (%d valuations)", rows), f.Decl.Pos(), fmt.Sprintf("%d disagreements; first: %s", bad, first))
		}
		okSrc := origStore != nil && core.MentionsField(f.Pkg, origStore.Rhs[0], pa("Source"))
		c.Check(okSrc, "ibgp-rule-table", f.Name()+" ORIGINATOR_ID is the source's identifier", f.Decl.Pos(), "the ORIGINATOR_ID stamped on a reflected route is not derived from the path's source")
		c.Check(headStore != nil && clStore != nil, "ibgp-rule-table", f.Name()+" CLUSTER_LIST starts with the local cluster ID", f.Decl.Pos(), "no `clusterList[0] = local cluster ID` store / no store of the new CLUSTER_LIST into the path")
	}

	// (4) eBGP rules -----------------------------------------------------------------------------------
	if f := c.MustFunc(outPkg + ".(*AdjRIBOut).checkPropagateUpdateEBGP"); f != nil {
		const pkt = "protocols/bgp/packet"
		roles := map[string]int64{}
		for _, n := range []string{"PeerRoleRoleProvider", "PeerRoleRoleRS", "PeerRoleRoleRSClient", "PeerRoleRoleCustomer", "PeerRoleRolePeer"} {
			o, _ := p.Object(pkt, n).(*types.Const)
			if o == nil {
				c.Undecided("ebgp-rule-table", n, token.NoPos, "constant not found")
				return
			}
			roles[n], _ = constInt64(o)
		}
		var prepend ast.Stmt
		ast.Inspect(f.Decl.Body, func(n ast.Node) bool {
			if es, ok := n.(*ast.ExprStmt); ok {
				if cl, ok := es.X.(*ast.CallExpr); ok && core.FuncKey(core.Callee(f.Pkg, cl)) == "route.(*BGPPath).Prepend" {
					prepend = es
					okArgs := len(cl.Args) == 2 && core.FieldOf(f.Pkg, cl.Args[0]) == sa("LocalASN")
					if v := core.ConstOf(f.Pkg, cl.Args[1]); v == nil || v.ExactString() != "1" {
						okArgs = false
					}
					c.Check(okArgs, "ebgp-rule-table", f.Name()+" prepends the local ASN once", cl.Pos(), "the prepend towards eBGP peers is not Prepend(local ASN, 1)")
				}
			}
			return true
		})
		nhStore := findStore(f, pa("NextHop"))
		otcStore := findStore(f, pa("OnlyToCustomer"))
		bad, rows := 0, 0
		first := ""
		for _, rsc := range []bool{false, true} {
			for _, en := range []bool{false, true} {
				for _, adv := range []bool{false, true} {
					for _, otc := range []int64{0, 65001} {
						for _, pr := range []int64{roles["PeerRoleRoleProvider"], roles["PeerRoleRoleRS"], roles["PeerRoleRoleRSClient"], roles["PeerRoleRoleCustomer"], roles["PeerRoleRolePeer"], 200} {
							env := core.NewEnv()
							env.Prog = p
							env.Fields[sa("RouteServerClient")] = core.BoolVal(rsc)
							env.Fields[sa("PeerRoleEnabled")] = core.BoolVal(en)
							env.Fields[sa("PeerRoleAdvByPeer")] = core.BoolVal(adv)
							env.Fields[sa("PeerRoleRemote")] = core.IntVal(pr)
							env.Fields[pa("OnlyToCustomer")] = core.IntVal(otc)
							rows++
							ret, err := core.Outcome(f, env)
							if err != nil {
								c.Undecided("ebgp-rule-table", f.Name(), f.Decl.Pos(), err.Error())
								return
							}
							v, ok := core.Eval(f, ret.Results[1], env)
							in := func(ns ...string) bool {
								for _, n := range ns {
									if roles[n] == pr {
										return true
									}
								}
								return false
							}
							wantProp := !(en && adv && otc != 0 && in("PeerRoleRoleProvider", "PeerRoleRolePeer", "PeerRoleRoleRS"))
							wantStamp := en && adv && otc == 0 && in("PeerRoleRoleCustomer", "PeerRoleRolePeer", "PeerRoleRoleRSClient")
							holds := func(st ast.Stmt) bool {
								if st == nil {
									return false
								}
								h, err := core.StmtHolds(f, st, env)
								return err == nil && h
							}
							var otcS, nhS ast.Stmt
							if otcStore != nil {
								otcS = otcStore
							}
							if nhStore != nil {
								nhS = nhStore
							}
							gotStamp, gotPre, gotNH := holds(otcS), holds(prepend), holds(nhS)
							if !ok || v.B != wantProp || gotStamp != wantStamp || gotPre != !rsc || gotNH != !rsc {
								bad++
								if first == "" {
									first = fmt.Sprintf("RS-client=%v roles-enabled=%v advertised=%v OTC=%d remote-role=%d: code propagate=%v stampOTC=%v prepend=%v nexthop-self=%v; expected propagate=%v stampOTC=%v prepend=%v nexthop-self=%v", rsc, en, adv, otc, pr, v.B, gotStamp, gotPre, gotNH, wantProp, wantStamp, !rsc, !rsc)
								}
							}
						}
					}
				}
			}
		}
		c.Check(bad == 0, "ebgp-rule-table", f.Name()+fmt.Sprintf(" agrees with RFC 4271 §5.1 / RFC 9234 §5 egress (%d valuations)", rows), f.Decl.Pos(), fmt.Sprintf("%d disagreements; first: %s", bad, first))
		c.Check(nhStore != nil && core.FieldOf(f.Pkg, nhStore.Rhs[0]) == sa("LocalIP"), "ebgp-rule-table", f.Name()+" next-hop-self uses the local address", f.Decl.Pos(), "next hop towards eBGP peers is not set to the session's local address")
		c.Check(otcStore != nil && core.FieldOf(f.Pkg, otcStore.Rhs[0]) == sa("LocalASN"), "ebgp-rule-table", f.Name()+" OTC is stamped with the local ASN", f.Decl.Pos(), "the OTC stamped on egress is not the local ASN")
	}

	// every store into an Adj-RIB-Out passes the session-kind rewrites (shared with C08)
	exportTransformerPairing(c)

	// (5) wire attribute list --------------------------------------------------------------------------
	if f := c.MustFunc("protocols/bgp/packet.PathAttributes"); f != nil {
		ibgp, rr := core.ParamObj(f, 1), core.ParamObj(f, 2)
		lits := map[string]ast.Stmt{}
		ast.Inspect(f.Decl.Body, func(n ast.Node) bool {
			as, ok := n.(*ast.AssignStmt)
			if !ok || len(as.Rhs) != 1 {
				return true
			}
			u, ok := core.Unparen(as.Rhs[0]).(*ast.UnaryExpr)
			if !ok {
				return true
			}
			cl, ok := u.X.(*ast.CompositeLit)
			if !ok {
				return true
			}
			for _, e := range cl.Elts {
				if kv, ok := e.(*ast.KeyValueExpr); ok {
					if id, ok := kv.Key.(*ast.Ident); ok && id.Name == "TypeCode" {
						if co := core.ConstObjOf(f.Pkg, kv.Value); co != nil {
							lits[co.Name()] = as
						}
					}
				}
			}
			return true
		})
		bad := 0
		first := ""
		for _, ib := range []bool{false, true} {
			for _, r := range []bool{false, true} {
				env := core.NewEnv()
				env.Objs[ibgp], env.Objs[rr] = core.BoolVal(ib), core.BoolVal(r)
				for name, want := range map[string]bool{"LocalPrefAttr": ib, "OriginatorIDAttr": r, "ClusterListAttr": r, "ASPathAttr": true, "OriginAttr": true, "NextHopAttr": true} {
					st := lits[name]
					if st == nil {
						bad++
						first = name + " is never created"
						continue
					}
					h, err := core.StmtHolds(f, st, env)
					if err != nil {
						// guards on path fields (MED != 0 …) are not in the table; only the session-kind atoms are
						h = core.HoldsAtLenient(f, st, env)
					}
					if h != want {
						bad++
						if first == "" {
							first = fmt.Sprintf("iBGP=%v RR-client=%v: %s emitted=%v, expected=%v", ib, r, name, h, want)
						}
					}
				}
			}
		}
		c.Check(bad == 0, "wire-attribute-table", f.Name()+" LOCAL_PREF only to iBGP, ORIGINATOR_ID/CLUSTER_LIST only to RR clients, mandatory attributes always", f.Decl.Pos(), fmt.Sprintf("%d disagreements; first: %s", bad, first))
		// (6) every attribute the export side can set reaches the attribute list
		reads := p.ReadsTransitive(f)
		for _, fv := range []*types.Var{pa("OriginatorID"), p.Field("route", "BGPPath", "ClusterList"), p.Field("route", "BGPPath", "ASPath"), pa("NextHop"), pa("OnlyToCustomer"), pa("LocalPref"), pa("MED"), pa("Origin"), p.Field("route", "BGPPath", "Communities"), p.Field("route", "BGPPath", "LargeCommunities"), p.Field("route", "BGPPath", "UnknownAttributes"), pa("AtomicAggregate"), pa("Aggregator")} {
			if fv == nil {
				continue
			}
			c.Check(reads[fv], "wire-attribute-table", f.Name()+" puts "+fv.Name()+" on the wire", f.Decl.Pos(),
				"the export side sets/keeps the attribute "+fv.Name()+" in the path, but PathAttributes never reads it: it is never encoded into an UPDATE, so the peer does not see it")
		}
	}
}

func findStore(f *core.Fn, field *types.Var) *ast.AssignStmt {
	var out *ast.AssignStmt
	ast.Inspect(f.Decl.Body, func(n ast.Node) bool {
		if as, ok := n.(*ast.AssignStmt); ok && len(as.Lhs) == 1 && core.FieldOf(f.Pkg, as.Lhs[0]) == field && field != nil {
			out = as
		}
		return true
	})
	return out
}

// prependIntoSequence: RFC 4271 §5.1.2 b – the local ASN goes into a leading AS_SEQUENCE; when the path starts with an
// AS_SET (or has no segment) a new AS_SEQUENCE is put in front first.  Decided by the abstract interpreter in prependai.go.
func prependIntoSequence(c *core.Ctx) {
	const rule = "prepend-into-sequence"
	c.Floor(rule, 1)
	res := prependAbstract(c)
	if res.Fn == nil {
		return
	}
	f := res.Fn
	c.Analysed(f)
	construct := f.Name() + " writes the ASN into a leading AS_SEQUENCE"
	if len(res.Undecided) > 0 {
		c.Undecided(rule, construct, f.Decl.Pos(), "abstract interpretation of Prepend incomplete: "+strings.Join(res.Undecided, "; "))
		return
	}
	var bad []string
	pos := f.Decl.Pos()
	for _, v := range res.Viol {
		if v.kind == "set" || v.kind == "empty" {
			bad = append(bad, c.P.Pos(v.pos)+" reached with first segment = "+v.st.String())
			pos = v.pos
		}
	}
	c.Check(len(bad) == 0 && res.Writes >= 1, rule, construct, pos,
		"the prepend can touch the first segment while the path is empty or starts with an AS_SET ("+strings.Join(bad, "; ")+"): the local ASN is inserted into the set (or the code indexes an empty path) instead of a new leading AS_SEQUENCE, so the exported AS_PATH no longer shows the local AS in sequence")
}
