package props

import (
	"fmt"
	"go/ast"
	"go/token"
	"go/types"
	"sort"

	"verif/engine/core"
)

func init() {
	Register(&Prop{
		Meta: core.Meta{
			ID: "C10", Title: "The peer's view equals the Adj-RIB-Out under any timing", Level: "other",
			Technique:   "dependence necessity (the withdrawal path must touch the pending-announcement queue), guarded-by lockset of the queue, lock hand-over analysis on go/cfg (writes to the peer keep queue order), critical-section integrity of the sender loop",
			DesignRef:   "DESIGN.md §4 C10",
			Decided:     "(w) every removal from the Adj-RIB-Out table is followed, on every feasible path, by a withdrawal handed to the clients (error branches and exits ruled out by a flag set after the removal excepted); (0) in the Adj-RIB-Out, the withdrawal of a replaced path is handed to the update sender before the replacing announcement on every path (never after, never deferred); (1) UpdateSender.RemovePath reaches code that reads and prunes the pending-announcement queue under its lock: if the withdrawal never consulted the queue, `announce queued, withdrawn before the tick` would always end with the announcement sent last; (2) every access to the queue holds toSendMu (entry locksets of the underscore helpers are the intersection over their call sites); (3) every write to the peer from the update sender (queued announcements, withdrawals, End-of-RIB) happens with the send lock held, and the send lock is always acquired while the queue lock is still held, so the order of writes equals the order in which the queue was consulted; (4) in the sender loop an entry is removed from the queue in the same critical section in which it was read, so a prefix queued while the UPDATE is being written is kept for the next round; (5) AddPath appends to the entry of its attribute hash or creates it; a best-only replacement withdraws the old path before the new one is queued.",
			NotDecided:  "the interleaving semantics proper — equality of the replayed peer view with the Adj-RIB-Out over all schedules — is schedule-quantified and not decided by this family; only these structural preconditions are.",
			TrustedBase: stdTrusted,
		},
		Run: runC10,
		Controls: []Control{
			{Name: "withdrawal-skipped-when-something-was-queued", File: "protocols/bgp/server/update_sender.go", Old: "\tu.toSendMu.Lock()\n\tu._dequeue(pfx, p)\n\tu.sendMu.Lock()\n\tu.toSendMu.Unlock()\n", New: "\tu.toSendMu.Lock()\n\tu._dequeue(pfx, p)\n\tif len(u.toSend) > 0 {\n\t\tu.toSendMu.Unlock()\n\t\treturn true\n\t}\n\tu.sendMu.Lock()\n\tu.toSendMu.Unlock()\n", Expect: "withdrawal-always-written"},
			{Name: "removal-key-before-the-export-policy", File: "routingtable/adjRIBOut/adj_rib_out.go", Old: "\tp, reject := a.exportFilterChain.Process(pfx, p)\n\tif reject {\n\t\treturn false\n\t}\n\n\treturn a.removeExportedPath(pfx, p)\n", New: "\t_, reject := a.exportFilterChain.Process(pfx, p)\n\tif reject {\n\t\treturn false\n\t}\n\n\treturn a.removeExportedPath(pfx, p)\n", Expect: "export-transformers-paired"},
			{Name: "removal-drops-every-match", File: "route/route.go", Old: "\t\tif paths[j].Compare(remove) {\n\t\t\ti = j\n\t\t\tbreak\n\t\t}\n", New: "\t\tif paths[j].Compare(remove) {\n\t\t\ti = j\n\t\t}\n", Expect: "removal-takes-one-match"},
			{Name: "clients-told-about-the-callers-path", File: "routingtable/adjRIBOut/adj_rib_out.go", Old: "\t\t\t\tsentPath = sp\n", New: "", Expect: "withdrawal-carries-released-identifier"},
			{Name: "known-path-identifier-not-counted", File: "routingtable/adjRIBOut/path_id_manager.go", Old: "\t\tid := fm.idByPath[hash]\n\t\tfm.ids[id]++\n\t\treturn id, nil\n", New: "\t\tid := fm.idByPath[hash]\n\t\treturn id, nil\n", Expect: "refcount-follows-users"},
			{Name: "dequeue-filters-without-storing", File: "protocols/bgp/server/update_sender.go", Old: "\tqueued.pfxs = remaining\n}", New: "\t_ = remaining\n}", Expect: "dequeue-stores-the-filtered-list"},
			{Name: "not-found-decided-by-pointer-identity", File: "routingtable/adjRIBOut/adj_rib_out.go", Old: "\t\tif !found {\n\t\t\treturn false\n\t\t}\n", New: "\t\tif !found || sentPath == p {\n\t\t\treturn false\n\t\t}\n", Expect: "table-removal-is-withdrawn"},
			{Name: "replaced-path-withdrawn-after-announcement", File: "routingtable/adjRIBOut/adj_rib_out.go", Old: "\t\toldPaths := a.rt.ReplacePath(pfx, p)\n\t\ta.removePathsFromClients(pfx, oldPaths)\n\t}\n\n\tfor _, client := range a.clientManager.Clients() {\n\t\terr := client.AddPath(pfx, p)\n\t\tif err != nil {\n\t\t\tlog.WithFields(log.Fields{\n\t\t\t\t\"sender\": \"AdjRIBOutAddPath\",\n\t\t\t}).WithError(err).Error(\"Could not send update to client\")\n\t\t}\n\t}\n\treturn nil\n", New: "\t\toldPaths := a.rt.ReplacePath(pfx, p)\n\t\tdefer a.removePathsFromClients(pfx, oldPaths)\n\t}\n\n\tfor _, client := range a.clientManager.Clients() {\n\t\terr := client.AddPath(pfx, p)\n\t\tif err != nil {\n\t\t\tlog.WithFields(log.Fields{\n\t\t\t\t\"sender\": \"AdjRIBOutAddPath\",\n\t\t\t}).WithError(err).Error(\"Could not send update to client\")\n\t\t}\n\t}\n\treturn nil\n", Expect: "withdraw-then-announce"},
			{Name: "withdrawal-ignores-queue", File: "protocols/bgp/server/update_sender.go", Old: "\tu.toSendMu.Lock()\n\tu._dequeue(pfx, p)\n\tu.sendMu.Lock()\n\tu.toSendMu.Unlock()\n\n\terr := u.withdrawPrefix(u.fsm.con, pfx, p)", New: "\tu.toSendMu.Lock()\n\tu.sendMu.Lock()\n\tu.toSendMu.Unlock()\n\n\terr := u.withdrawPrefix(u.fsm.con, pfx, p)", Expect: "withdrawal-consults-queue"},
			{Name: "delete-after-send", File: "protocols/bgp/server/update_sender.go", Old: "\t\t\tdelete(u.toSend, key)\n\t\t\tu.sendMu.Lock()\n\t\t\tu.toSendMu.Unlock()\n\n\t\t\tu.sendUpdates(pathAttrs, updatesPrefixes, pathID)\n\t\t\tu.sendMu.Unlock()\n\t\t\tu.toSendMu.Lock()", New: "\t\t\tu.sendMu.Lock()\n\t\t\tu.toSendMu.Unlock()\n\n\t\t\tu.sendUpdates(pathAttrs, updatesPrefixes, pathID)\n\t\t\tu.sendMu.Unlock()\n\t\t\tu.toSendMu.Lock()\n\t\t\tdelete(u.toSend, key)", Expect: "entry-taken-in-one-critical-section"},
			{Name: "send-lock-after-queue-unlock", File: "protocols/bgp/server/update_sender.go", Old: "\tu._dequeue(pfx, p)\n\tu.sendMu.Lock()\n\tu.toSendMu.Unlock()\n", New: "\tu._dequeue(pfx, p)\n\tu.toSendMu.Unlock()\n\tu.sendMu.Lock()\n", Expect: "writes-keep-queue-order"},
			{Name: "queue-read-without-lock", File: "protocols/bgp/server/update_sender.go", Old: "func (u *UpdateSender) AddPath(pfx *bnet.Prefix, p *route.Path) error {\n\tu.toSendMu.Lock()\n\tdefer u.toSendMu.Unlock()\n", New: "func (u *UpdateSender) AddPath(pfx *bnet.Prefix, p *route.Path) error {\n", Expect: "queue-guarded-by-lock"},
		},
	})
}

// entryLocks computes, per function of a receiver type, the mutex fields that are held at EVERY call site inside the
// given method set (class-level: same receiver object assumed, which holds for methods calling each other on `u`).
func classHeldAt(p *core.Prog, f *core.Fn, ls *core.Locksets, n ast.Node, entry map[*types.Func]map[string]bool) map[string]bool {
	out := map[string]bool{}
	for k := range ls.MustAt(n) {
		out[k[lastDot(k)+1:]] = true
	}
	for k := range entry[f.Obj] {
		out[k] = true
	}
	return out
}

func lastDot(s string) int {
	for i := len(s) - 1; i >= 0; i-- {
		if s[i] == '.' {
			return i
		}
	}
	return -1
}

// methodLocksets computes intra-procedural locksets for all methods of a type and the entry locksets of helpers
// (methods only called from other methods of the type) as the intersection over call sites, to a fixpoint.
func methodLocksets(p *core.Prog, rel, typ string) (map[*core.Fn]*core.Locksets, map[*types.Func]map[string]bool) {
	ms := p.MethodsOf(rel, typ)
	lsets := map[*core.Fn]*core.Locksets{}
	for _, m := range ms {
		if m.Decl.Body != nil {
			lsets[m] = p.ComputeLocksets(m, nil)
		}
	}
	entry := map[*types.Func]map[string]bool{}
	for iter := 0; iter < 5; iter++ {
		next := map[*types.Func]map[string]bool{}
		seen := map[*types.Func]bool{}
		for _, m := range ms {
			if m.Decl.Body == nil {
				continue
			}
			for _, call := range core.CallsAll(m.Pkg, m.Decl.Body, func(o *types.Func) bool { return core.RecvName(o) == typ && o.Pkg() == m.Pkg.Types }) {
				cal := core.Callee(m.Pkg, call)
				held := classHeldAt(p, m, lsets[m], call, entry)
				if !seen[cal] {
					seen[cal] = true
					next[cal] = held
				} else {
					for k := range next[cal] {
						if !held[k] {
							delete(next[cal], k)
						}
					}
				}
			}
		}
		// exported methods and goroutine entries can be called from anywhere: no entry locks
		for _, m := range ms {
			if m.Decl.Name.IsExported() || m.Decl.Name.Name == "sender" {
				next[m.Obj] = map[string]bool{}
			}
		}
		entry = next
	}
	return lsets, entry
}

func runC10(c *core.Ctx) {
	exportTransformerPairingOf(c, "export-policy")
	removalTakesOneMatch(c, "removal-takes-one-match")
	tableRemovalIsWithdrawn(c, "table-removal-is-withdrawn")
	// the withdrawal is skipped on the "identifier not found" branch: identifiers must live as long as their users (shared with C11)
	refcountFollowsUsers(c, "refcount-follows-users")
	dequeueStoresResult(c)
	withdrawalAlwaysWritten(c)
	withdrawalCarriesTheReleasedIdentifier(c)
	p := c.P
	withdrawThenAnnounce(c)
	const typ = "UpdateSender"
	toSend := p.Field(srv, typ, "toSend")
	if toSend == nil || p.Field(srv, typ, "toSendMu") == nil {
		c.Undecided("anchor", srv+".UpdateSender.toSend", token.NoPos, "queue fields not found")
		return
	}
	lsets, entry := methodLocksets(p, srv, typ)
	var methods []*core.Fn
	for m := range lsets {
		methods = append(methods, m)
	}
	sort.Slice(methods, func(i, j int) bool { return methods[i].Name() < methods[j].Name() })

	// (1) -----------------------------------------------------------------------------------------
	if f := c.MustFunc(srv + ".(*UpdateSender).RemovePath"); f != nil {
		reads, writes := false, false
		for _, g := range p.ReachableFns(f) {
			if core.RecvName(g.Obj) != typ {
				continue
			}
			for _, a := range core.FieldAccesses(g.Pkg, g.Decl.Body) {
				if a.Field == toSend {
					reads = true
				}
			}
			ast.Inspect(g.Decl.Body, func(n ast.Node) bool {
				switch x := n.(type) {
				case *ast.CallExpr:
					if id, ok := x.Fun.(*ast.Ident); ok && id.Name == "delete" && len(x.Args) == 2 && core.FieldOf(g.Pkg, x.Args[0]) == toSend {
						writes = true
					}
				case *ast.AssignStmt:
					for _, l := range x.Lhs {
						if core.MentionsField(g.Pkg, l, p.Field(srv, "pathPfxs", "pfxs")) {
							writes = true
						}
					}
				}
				return true
			})
		}
		c.Check(reads && writes, "withdrawal-consults-queue", f.Name()+" reads and prunes the pending-announcement queue", f.Decl.Pos(),
			"the withdrawal path never looks at (or never removes from) the queue of announcements waiting for the next aggregation tick: a route announced and withdrawn within one interval is withdrawn first and announced afterwards, so the peer keeps a route that is not in the Adj-RIB-Out")
	}

	// (2) guarded-by --------------------------------------------------------------------------------
	c.Floor("queue-guarded-by-lock", 6)
	for _, m := range methods {
		ord := 0
		ast.Inspect(m.Decl.Body, func(n ast.Node) bool {
			e, ok := n.(ast.Expr)
			if !ok || core.FieldOf(m.Pkg, e) != toSend {
				return true
			}
			ord++
			if m.Decl.Name.Name == "newUpdateSender" {
				return true
			}
			held := classHeldAt(p, m, lsets[m], e, entry)
			c.Check(held["toSendMu"], "queue-guarded-by-lock", fmt.Sprintf("%s access #%d to toSend", m.Name(), ord), e.Pos(),
				"the pending-announcement queue is accessed without toSendMu (held here: "+core.SetString(held)+"); AddPath, the sender goroutine, EndOfRIB and RemovePath run concurrently")
			return true
		})
	}

	// (3) writes keep queue order ----------------------------------------------------------------------
	isWriter := core.KeyIs(srv+".(*UpdateSender).sendUpdates", srv+".(*UpdateSender).withdrawPrefix", srv+".(*UpdateSender).sendEndOfRIB", srv+".serializeAndSendUpdate")
	c.Floor("writes-keep-queue-order", 5)
	for _, m := range methods {
		// the writer helpers themselves are judged at their call sites
		switch m.Decl.Name.Name {
		case "sendUpdates", "withdrawPrefix", "withdrawPrefixIPv4", "withdrawPrefixMultiProtocol", "sendEndOfRIB":
			continue
		}
		ord := 0
		for _, call := range core.CallsAll(m.Pkg, m.Decl.Body, isWriter) {
			ord++
			held := classHeldAt(p, m, lsets[m], call, entry)
			c.Check(held["sendMu"], "writes-keep-queue-order", fmt.Sprintf("%s write #%d (%s) under the send lock", m.Name(), ord, core.Callee(m.Pkg, call).Name()), call.Pos(),
				"a message is written to the peer without the send lock: it can overtake (or interleave with) a message whose place in the queue order was taken earlier")
		}
		// hand-over: at every sendMu.Lock() the queue lock is held
		ast.Inspect(m.Decl.Body, func(n ast.Node) bool {
			call, ok := n.(*ast.CallExpr)
			if !ok {
				return true
			}
			op, ok := core.LockOpOf(m, call)
			if !ok || !op.Acquire || op.Class.Name() != "sendMu" {
				return true
			}
			held := classHeldAt(p, m, lsets[m], call, entry)
			c.Check(held["toSendMu"], "writes-keep-queue-order", m.Name()+" takes the send lock while holding the queue lock", call.Pos(),
				"the send lock is acquired after the queue lock was released: between the two another goroutine can consult the queue AND write first, so a withdrawal can overtake the announcement it should follow (or vice versa)")
			return true
		})
	}

	senderEntryCriticalSection(c)

	// (5) AddPath queues
	if f := c.MustFunc(srv + ".(*UpdateSender).AddPath"); f != nil {
		appendOK, createOK := false, false
		ast.Inspect(f.Decl.Body, func(n ast.Node) bool {
			as, ok := n.(*ast.AssignStmt)
			if !ok || len(as.Lhs) != 1 {
				return true
			}
			if core.MentionsField(f.Pkg, as.Lhs[0], p.Field(srv, "pathPfxs", "pfxs")) {
				if cl, ok := core.Unparen(as.Rhs[0]).(*ast.CallExpr); ok {
					if id, ok := cl.Fun.(*ast.Ident); ok && id.Name == "append" && core.ObjOf(f.Pkg, cl.Args[len(cl.Args)-1]) == core.ParamObj(f, 0) {
						appendOK = true
					}
				}
			}
			if ie, ok := core.Unparen(as.Lhs[0]).(*ast.IndexExpr); ok && core.FieldOf(f.Pkg, ie.X) == toSend {
				createOK = true
			}
			return true
		})
		c.Check(appendOK && createOK, "withdrawal-consults-queue", f.Name()+" queues the prefix under its attribute hash", f.Decl.Pos(), "AddPath does not append the prefix to the queue entry of its attribute hash / create the entry")
	}
}

// withdrawThenAnnounce: the update sender withdraws at once and announces with a delay; a withdrawal for a prefix also
// takes the prefix out of the announcement queue.  So when the Adj-RIB-Out replaces a path (session without add-path:
// implicit replacement), the withdrawal of the replaced path must reach the sender BEFORE the new announcement is
// queued — the other order dequeues the new announcement (same attributes) or withdraws after the announcement went
// out (timer in between), and the peer loses a route the Adj-RIB-Out still holds.
// Rule: in no method of AdjRIBOut does a withdrawal to the clients follow, on some path, an announcement to the clients
// (deferred withdrawals run last and count as following).
func withdrawThenAnnounce(c *core.Ctx) {
	const rule = "withdraw-then-announce"
	p := c.P
	const out = "routingtable/adjRIBOut"
	c.Floor(rule, 1)
	rm := p.Func(out + ".(*AdjRIBOut).removePathsFromClients")
	n := 0
	for _, f := range p.MethodsOf(out, "AdjRIBOut") {
		if f.Decl.Body == nil {
			continue
		}
		adds := clientCalls(f, "AddPath", "AddPathInitialDump")
		if len(adds) == 0 {
			continue
		}
		isWithdraw := func(nd ast.Node) bool {
			return core.NodeHas(nd, func(x ast.Node) bool {
				call, ok := x.(*ast.CallExpr)
				if !ok {
					return false
				}
				if rm != nil && core.Callee(f.Pkg, call) == rm.Obj {
					return true
				}
				sel, ok := call.Fun.(*ast.SelectorExpr)
				return ok && sel.Sel.Name == "RemovePath" && isClientIface(f, sel.X)
			})
		}
		hasWithdraw := false
		deferred := false
		ast.Inspect(f.Decl.Body, func(nd ast.Node) bool {
			if d, ok := nd.(*ast.DeferStmt); ok && isWithdraw(d.Call) {
				deferred = true
			}
			if st, ok := nd.(ast.Stmt); ok && isWithdraw(st) {
				hasWithdraw = true
			}
			return true
		})
		if !hasWithdraw {
			continue
		}
		n++
		c.Analysed(f)
		g := p.CFG(f)
		isAdd := func(nd ast.Node) bool {
			return core.NodeHas(nd, func(x ast.Node) bool {
				for _, a := range adds {
					if x == ast.Node(a) {
						return true
					}
				}
				return false
			})
		}
		isPlainWithdraw := func(nd ast.Node) bool {
			if _, isDefer := nd.(*ast.DeferStmt); isDefer {
				return false
			}
			return isWithdraw(nd)
		}
		late := core.PathAvoidingFrom(g, isAdd, func(ast.Node) bool { return false }, isPlainWithdraw)
		pos := f.Decl.Pos()
		if len(late) > 0 {
			pos = late[0].Pos()
		}
		c.Check(len(late) == 0 && !deferred, rule, f.Name()+" withdraws what it replaces before it announces", pos,
			"a withdrawal is handed to the clients after (or deferred past) the announcement of the replacing path: the update sender writes withdrawals at once and a withdrawal dequeues a pending announcement for the prefix, so the peer ends up without a route the Adj-RIB-Out holds")
	}
	c.Check(n >= 1, rule, "AdjRIBOut methods that withdraw and announce found", token.NoPos, "none found")
}

// dequeueStoresResult: cancelling a queued announcement filters the prefix list of the queue entry.  Filtering builds the
// kept elements (in a fresh slice, onto list[:0], or compacted in place); the entry must then be given the filtered list:
// every exit of _dequeue behind the filtering loop passes an assignment to the entry's list or the deletion of the
// entry.  Otherwise the list keeps its old length and the cancelled prefix (a stale tail element) is announced at the
// next flush although the withdrawal already went out.
func dequeueStoresResult(c *core.Ctx) {
	const rule = "dequeue-stores-the-filtered-list"
	p := c.P
	c.Floor(rule, 1)
	f := c.MustFunc(srv + ".(*UpdateSender)._dequeue")
	pfxsF := p.Field(srv, "pathPfxs", "pfxs")
	toSend := p.Field(srv, "UpdateSender", "toSend")
	if f == nil || pfxsF == nil || toSend == nil {
		if f != nil {
			c.Undecided(rule, f.Name(), f.Decl.Pos(), "queue entry fields not found")
		}
		return
	}
	c.Analysed(f)
	var loop ast.Stmt
	ast.Inspect(f.Decl.Body, func(n ast.Node) bool {
		if rs, ok := n.(*ast.RangeStmt); ok && core.FieldOf(f.Pkg, rs.X) == pfxsF {
			loop = rs
		}
		return true
	})
	if loop == nil {
		c.Undecided(rule, f.Name(), f.Decl.Pos(), "no loop over the entry's prefix list found")
		return
	}
	gate := func(n ast.Node) bool {
		if as, ok := n.(*ast.AssignStmt); ok {
			for _, l := range as.Lhs {
				if core.FieldOf(f.Pkg, l) == pfxsF {
					if _, isIdx := core.Unparen(l).(*ast.IndexExpr); !isIdx {
						return true
					}
				}
			}
		}
		return core.NodeHas(n, func(x ast.Node) bool {
			call, ok := x.(*ast.CallExpr)
			if !ok || len(call.Args) != 2 {
				return false
			}
			id, ok := call.Fun.(*ast.Ident)
			return ok && id.Name == "delete" && core.FieldOf(f.Pkg, call.Args[0]) == toSend
		})
	}
	// exits reachable from the loop without the gate
	g := p.CFG(f)
	isLoopNode := func(n ast.Node) bool { return n.Pos() >= loop.Pos() && n.End() <= loop.End() }
	isRet := func(n ast.Node) bool { _, ok := n.(*ast.ReturnStmt); return ok }
	rets := core.PathAvoidingFrom(g, isLoopNode, gate, isRet)
	// implicit fall off the end: the last statement of the body must be (or be dominated by) a gate
	implicit := false
	if last := f.Decl.Body.List[len(f.Decl.Body.List)-1]; !gate(last) {
		if _, isRetStmt := last.(*ast.ReturnStmt); !isRetStmt {
			implicit = true
		}
	}
	pos := loop.Pos()
	if len(rets) > 0 {
		pos = rets[0].Pos()
	}
	c.Check(len(rets) == 0 && !implicit, rule, f.Name()+" stores the filtered prefix list (or deletes the entry) on every path", pos,
		"_dequeue can return after filtering without assigning the filtered list to the queue entry: the entry keeps its old length, so the cancelled prefix survives as a stale tail element and is announced at the next flush although its withdrawal was already written — the peer keeps a route the Adj-RIB-Out dropped")
}

// senderEntryCriticalSection: the sender loop reads a queue entry and deletes it inside one critical section of the
// queue lock; otherwise a prefix appended to the entry while its UPDATE is written is deleted unsent.  Shared by C10
// (announce/withdraw ordering) and C18 (every queued prefix is sent).
func senderEntryCriticalSection(c *core.Ctx) {
	p := c.P
	toSend := p.Field(srv, "UpdateSender", "toSend")
	// (4) sender loop critical section ---------------------------------------------------------------------
	if f := c.MustFunc(srv + ".(*UpdateSender).sender"); f != nil {
		g := p.CFG(f)
		gi := p.Func(srv + ".(*UpdateSender)._getUpdateInformation")
		isRead := callNode(f, func(o *types.Func) bool { return gi != nil && o == gi.Obj })
		isUnlock := func(n ast.Node) bool {
			return core.NodeHas(n, func(x ast.Node) bool {
				cl, ok := x.(*ast.CallExpr)
				if !ok {
					return false
				}
				op, ok := core.LockOpOf(f, cl)
				return ok && !op.Acquire && op.Class.Name() == "toSendMu"
			})
		}
		isDelete := func(n ast.Node) bool {
			return core.NodeHas(n, func(x ast.Node) bool {
				cl, ok := x.(*ast.CallExpr)
				if !ok {
					return false
				}
				id, ok := cl.Fun.(*ast.Ident)
				return ok && id.Name == "delete" && len(cl.Args) == 2 && core.FieldOf(f.Pkg, cl.Args[0]) == toSend
			})
		}
		// from the read, the unlock must not be reachable without passing the delete
		bad, started := core.PathAvoidingFromS(g, isRead, isDelete, isUnlock)
		c.Check(started && len(bad) == 0, "entry-taken-in-one-critical-section", f.Name(), f.Decl.Pos(),
			"the sender releases the queue lock between reading an entry and deleting it: a prefix appended to that entry while the UPDATE is being written is deleted with it and never announced")
	}
	if f := c.MustFunc(srv + ".(*UpdateSender)._flush"); f != nil {
		n := 0
		ast.Inspect(f.Decl.Body, func(x ast.Node) bool {
			if cl, ok := x.(*ast.CallExpr); ok {
				if id, ok := cl.Fun.(*ast.Ident); ok && id.Name == "delete" && len(cl.Args) == 2 && core.FieldOf(f.Pkg, cl.Args[0]) == toSend {
					n++
				}
			}
			return true
		})
		c.Check(n == 1, "entry-taken-in-one-critical-section", f.Name()+" deletes what it sends", f.Decl.Pos(), "_flush does not delete the entries it sends")
	}

}
