package props

import (
	"fmt"
	"go/ast"
	"go/types"

	"verif/engine/core"
)

// withdrawalAlwaysWritten: the update sender keeps no record of what the peer has been sent.  A prefix being dequeued
// says nothing about whether an EARLIER announcement of it went out (an implicit replacement: sent A, queued A'), so
// every RemovePath has to write the withdrawal: each return of UpdateSender.RemovePath lies behind the call that
// writes it.
func withdrawalAlwaysWritten(c *core.Ctx) {
	const rule = "withdrawal-always-written"
	p := c.P
	f := c.MustFunc(srv + ".(*UpdateSender).RemovePath")
	w := c.MustFunc(srv + ".(*UpdateSender).withdrawPrefix")
	if f == nil || w == nil {
		return
	}
	c.Analysed(f)
	isW := callNode(f, func(o *types.Func) bool { return o == w.Obj })
	rets, implicit := core.ExitsWithout(p.CFG(f), isW)
	pos := f.Decl.Pos()
	if len(rets) > 0 {
		pos = rets[0].Pos()
	}
	c.Check(len(rets) == 0 && !implicit, rule, f.Name()+" writes the withdrawal on every path", pos,
		"UpdateSender.RemovePath can return without writing a withdrawal (e.g. because an announcement was still queued): the sender does not know whether an earlier announcement of the prefix already went out, so the peer may keep a route the Adj-RIB-Out no longer holds")
}

// withdrawalCarriesTheReleasedIdentifier: on an add-path session the withdrawal handed to the clients must be for the
// STORED path — the one whose identifier is released — not for the Loc-RIB path the caller passed in (identifier 0 /
// the receive-side identifier).  In the function that releases the identifier, the value given to the client
// notification is the released path itself or a variable assigned from it.
func withdrawalCarriesTheReleasedIdentifier(c *core.Ctx) {
	const rule = "withdrawal-carries-released-identifier"
	p := c.P
	rel := p.Func(outPkg + ".(*pathIDManager).releasePath")
	notify := p.Func(outPkg + ".(*AdjRIBOut).removePathFromClients")
	if rel == nil || notify == nil {
		c.Check(false, rule, "releasePath / removePathFromClients", 0, "anchors not found")
		return
	}
	n := 0
	for _, f := range p.MethodsOf(outPkg, "AdjRIBOut") {
		if f.Decl.Body == nil {
			continue
		}
		rels := core.Calls(f.Pkg, f.Decl.Body, func(o *types.Func) bool { return o == rel.Obj })
		nots := core.Calls(f.Pkg, f.Decl.Body, func(o *types.Func) bool { return o == notify.Obj })
		if len(rels) == 0 || len(nots) == 0 {
			continue
		}
		c.Analysed(f)
		released := map[types.Object]bool{}
		for _, r := range rels {
			if len(r.Args) == 1 {
				if o := core.ObjOf(f.Pkg, r.Args[0]); o != nil {
					released[o] = true
				}
			}
		}
		for _, nt := range nots {
			if len(nt.Args) != 2 {
				continue
			}
			n++
			x := core.ObjOf(f.Pkg, nt.Args[1])
			ok := x != nil && released[x]
			if x != nil && !ok {
				// x = <released> somewhere in the function
				ast.Inspect(f.Decl.Body, func(m ast.Node) bool {
					as, isAs := m.(*ast.AssignStmt)
					if !isAs || len(as.Lhs) != len(as.Rhs) {
						return true
					}
					for i, l := range as.Lhs {
						if core.ObjOf(f.Pkg, l) == x {
							if r := core.ObjOf(f.Pkg, as.Rhs[i]); r != nil && released[r] {
								ok = true
							}
						}
					}
					return true
				})
			}
			c.Check(ok, rule, fmt.Sprintf("%s notification #%d", f.Name(), n), nt.Pos(),
				"the path whose identifier is released and the path announced as withdrawn to the update sender are different objects with no assignment between them: on an add-path session the withdrawal goes out with the caller's identifier instead of the one the peer knows the path by, and a queued announcement (hashed with the assigned identifier) is not cancelled")
		}
	}
	c.Check(n >= 1, rule, "release+notify functions found", 0, "no AdjRIBOut method both releases an identifier and notifies the clients")
}
