package props

import (
	"fmt"
	"go/ast"
	"go/token"
	"go/types"
	"strings"

	"verif/engine/core"
)

func init() {
	Register(&Prop{
		Meta: core.Meta{
			ID: "C11", Title: "Add-path identifiers are unique per prefix and never exhausted spuriously", Level: "other",
			Technique:   "typed-AST control-equivalence (counter update ⇔ map insert/delete), field-coverage of the identifier hash against the attribute comparison, key-provenance of the released path",
			DesignRef:   "DESIGN.md §4 C11",
			Decided:     "(1) the in-use counter tracks the cardinality of the id map: every `used++` is control-equivalent with the insertion of a new id, every `used--` with the delete of the id, and the exhaustion test reads that counter; (1c) the per-identifier reference count follows its users: every successful return of addPath passes an increment (or the initial 1) of the count, every successful return of releasePath a decrement; the count is at least 32 bits wide; every function of the Adj-RIB-Out that takes paths out of the table also releases their identifiers; (1b) the hash → id map and the id → refcount map gain and lose an entry under the same condition (an id's hash entry lives exactly as long as the id); (2) the attribute hash that keys identifiers (ComputeHash) and the one that groups queued announcements (ComputeHashWithPathID) read every attribute field that the path comparison BGPPath.Compare/BGPPathA.compare distinguishes (PathIdentifier excepted for the former) and the OTC attribute the export side writes — two paths that differ in a field outside the hash share an identifier for the same prefix; (3) the path handed to releasePath is the stored object found in the Adj-RIB-Out (the one that was hashed when the id was allocated), and the withdrawal handed to clients is that stored path.",
			NotDecided:  "hash collisions (SHA-256, ignored); wrap-around search of a free id near 2^32-1; uniqueness over whole add/remove histories.",
			TrustedBase: stdTrusted,
		},
		Run: runC11,
		Controls: []Control{
			{Name: "cursor-adjusted-after-the-probing-loop", File: "routingtable/adjRIBOut/path_id_manager.go", Old: "\tfm.idByPath[hash] = fm.last\n\tfm.ids[fm.last] = 1\n", New: "\tif fm.last == 0 {\n\t\tfm.last++\n\t}\n\tfm.idByPath[hash] = fm.last\n\tfm.ids[fm.last] = 1\n", Expect: "identifier-probed-free-before-use"},
			{Name: "removal-matched-by-received-identifier", File: "routingtable/adjRIBOut/adj_rib_out.go", Old: "\t\t\tif sp.Select(p) == 0 {\n\t\t\t\ta.rt.RemovePath(pfx, sp)\n", New: "\t\t\tif sp.Select(p) == 0 || (p.BGPPath != nil && p.BGPPath.PathIdentifier != 0 && sp.BGPPath.PathIdentifier == p.BGPPath.PathIdentifier) {\n\t\t\t\ta.rt.RemovePath(pfx, sp)\n", Expect: "received-identifier-not-interpreted-on-export"},
			{Name: "refactor-first-match-by-helper", Silent: true, File: "route/route.go", Old: "\ti := -1\n\tfor j := range paths {\n\t\tif paths[j].Compare(remove) {\n\t\t\ti = j\n\t\t\tbreak\n\t\t}\n\t}\n", New: "\ti := func() int {\n\t\tfor j := range paths {\n\t\t\tif paths[j].Compare(remove) {\n\t\t\t\treturn j\n\t\t\t}\n\t\t}\n\t\treturn -1\n\t}()\n"},
			{Name: "removal-drops-every-match", File: "route/route.go", Old: "\t\tif paths[j].Compare(remove) {\n\t\t\ti = j\n\t\t\tbreak\n\t\t}\n", New: "\t\tif paths[j].Compare(remove) {\n\t\t\ti = j\n\t\t}\n", Expect: "removal-takes-one-match"},
			{Name: "removal-by-decision-equality", File: "route/route.go", Old: "\t\tif paths[j].Compare(remove) {\n", New: "\t\tif paths[j].Equal(remove) {\n", Expect: "decision-equality-is-not-identity"},
			{Name: "known-path-not-counted", File: "routingtable/adjRIBOut/path_id_manager.go", Old: "\t\tid := fm.idByPath[hash]\n\t\tfm.ids[id]++\n\t\treturn id, nil\n", New: "\t\tid := fm.idByPath[hash]\n\t\treturn id, nil\n", Expect: "refcount-follows-users"},
			{Name: "prefix-wiped-without-releasing-ids", File: "routingtable/adjRIBOut/adj_rib_out.go", Old: "\tfor _, path := range r.Paths() {\n\t\ta.removeExportedPath(pfx, path)\n\t}\n", New: "\ta.removePathsFromClients(pfx, a.rt.RemovePfx(pfx))\n", Expect: "refcount-follows-users"},
			{Name: "hash-entry-dropped-on-every-release", File: "routingtable/adjRIBOut/path_id_manager.go", Old: "\t\tdelete(fm.idByPath, hash)\n\t\tfm.used--\n\t}\n", New: "\t\tfm.used--\n\t}\n\tdelete(fm.idByPath, hash)\n", Expect: "hash-map-tracks-id-map"},
			{Name: "refactor-release-single-lookup", Silent: true, File: "routingtable/adjRIBOut/path_id_manager.go", Old: "\tif _, exists := fm.idByPath[hash]; !exists {\n\t\treturn 0, fmt.Errorf(\"ID not found for path: %s\", p.Print())\n\t}\n\n\tid := fm.idByPath[hash]\n\tfm.ids[id]--\n\tif fm.ids[id] == 0 {\n\t\tdelete(fm.ids, fm.idByPath[hash])\n", New: "\tid, exists := fm.idByPath[hash]\n\tif !exists {\n\t\treturn 0, fmt.Errorf(\"ID not found for path: %s\", p.Print())\n\t}\n\n\tfm.ids[id]--\n\tif fm.ids[id] == 0 {\n\t\tdelete(fm.ids, id)\n"},
			{Name: "used-decrement-outside-delete", File: "routingtable/adjRIBOut/path_id_manager.go", Old: "\t\tdelete(fm.idByPath, hash)\n\t\tfm.used--\n\t}\n", New: "\t\tdelete(fm.idByPath, hash)\n\t}\n\tfm.used--\n", Expect: "counter-tracks-map"},
			{Name: "hash-drops-med", File: "route/bgp_path.go", Old: "\t\tb.BGPPathA.Origin,\n\t\tb.BGPPathA.MED,\n\t\tb.BGPPathA.EBGP,\n\t\tb.BGPPathA.BGPIdentifier,\n\t\tb.BGPPathA.Source.String(),\n\t\tb.Communities.String(),\n\t\tb.LargeCommunities.String(),\n\t\tb.BGPPathA.OriginatorID,", New: "\t\tb.BGPPathA.Origin,\n\t\tb.BGPPathA.Origin,\n\t\tb.BGPPathA.EBGP,\n\t\tb.BGPPathA.BGPIdentifier,\n\t\tb.BGPPathA.Source.String(),\n\t\tb.Communities.String(),\n\t\tb.LargeCommunities.String(),\n\t\tb.BGPPathA.OriginatorID,", Expect: "hash-covers-attributes"},
			{Name: "release-with-parameter-path", File: "routingtable/adjRIBOut/adj_rib_out.go", Old: "a.pathIDManager.releasePath(sp)", New: "a.pathIDManager.releasePath(p)", Expect: "release-stored-path"},
		},
	})
}

func runC11(c *core.Ctx) {
	receivedIdentifierNotInterpretedOnExport(c, "received-identifier-not-interpreted-on-export")
	removalTakesOneMatch(c, "removal-takes-one-match")
	decisionEqualityIsNotIdentity(c, "decision-equality-is-not-identity")
	p := c.P
	refcountFollowsUsers(c, "refcount-follows-users")
	identifierIsProbedFree(c)
	const pkg = "routingtable/adjRIBOut"
	used := p.Field(pkg, "pathIDManager", "used")
	ids := p.Field(pkg, "pathIDManager", "ids")
	if used == nil || ids == nil {
		c.Undecided("anchor", pkg+".pathIDManager.{used,ids}", token.NoPos, "fields not found")
		return
	}
	// (1) -----------------------------------------------------------------------------------------
	c.Floor("counter-tracks-map", 3)
	c.Floor("hash-map-tracks-id-map", 4)
	idByPath := p.Field(pkg, "pathIDManager", "idByPath")
	for _, f := range p.MethodsOf(pkg, "pathIDManager") {
		if f.Decl.Body == nil {
			continue
		}
		c.Analysed(f)
		var incs, decs, inserts, deletes, hInserts, hDeletes []ast.Node
		ast.Inspect(f.Decl.Body, func(n ast.Node) bool {
			switch s := n.(type) {
			case *ast.IncDecStmt:
				if core.FieldOf(f.Pkg, s.X) == used {
					if s.Tok == token.INC {
						incs = append(incs, s)
					} else {
						decs = append(decs, s)
					}
				}
			case *ast.AssignStmt:
				for i, l := range s.Lhs {
					if core.FieldOf(f.Pkg, l) == used {
						c.Fail("counter-tracks-map", f.Name()+" assigns used", s.Pos(), "the in-use counter is assigned by something other than ++/--")
					}
					if ie, ok := core.Unparen(l).(*ast.IndexExpr); ok && idByPath != nil && core.FieldOf(f.Pkg, ie.X) == idByPath && s.Tok == token.ASSIGN {
						hInserts = append(hInserts, s)
					}
					if ie, ok := core.Unparen(l).(*ast.IndexExpr); ok && core.FieldOf(f.Pkg, ie.X) == ids && s.Tok == token.ASSIGN && i < len(s.Rhs) {
						if v := core.ConstOf(f.Pkg, s.Rhs[i]); v != nil && v.ExactString() == "1" {
							inserts = append(inserts, s)
						}
					}
				}
			case *ast.CallExpr:
				if id, ok := s.Fun.(*ast.Ident); ok {
					if b, ok := f.Pkg.TypesInfo.Uses[id].(*types.Builtin); ok && b.Name() == "delete" && len(s.Args) == 2 && core.FieldOf(f.Pkg, s.Args[0]) == ids {
						deletes = append(deletes, s)
					}
					if b, ok := f.Pkg.TypesInfo.Uses[id].(*types.Builtin); ok && b.Name() == "delete" && len(s.Args) == 2 && idByPath != nil && core.FieldOf(f.Pkg, s.Args[0]) == idByPath {
						hDeletes = append(hDeletes, s)
					}
				}
			}
			return true
		})
		pair := func(what string, cnt, mapOps []ast.Node, why string) {
			for _, m := range mapOps {
				ok := false
				for _, cn := range cnt {
					if core.SameSig(core.GuardSig(f, m), core.GuardSig(f, cn)) {
						ok = true
					}
				}
				c.Check(ok, "counter-tracks-map", f.Name()+" "+what+" has control-equivalent counter update", m.Pos(), why)
			}
			for _, cn := range cnt {
				ok := false
				for _, m := range mapOps {
					if core.SameSig(core.GuardSig(f, m), core.GuardSig(f, cn)) {
						ok = true
					}
				}
				c.Check(ok, "counter-tracks-map", f.Name()+" counter update has control-equivalent "+what, cn.Pos(), why)
			}
		}
		// the attribute-hash → id map and the id → refcount map hold the same ids: an entry enters and leaves both under the same condition
		pairMaps := func(what string, a, b []ast.Node, why string) {
			for _, m := range a {
				ok := false
				for _, n := range b {
					if core.SameSig(core.GuardSig(f, m), core.GuardSig(f, n)) {
						ok = true
					}
				}
				c.Check(ok, "hash-map-tracks-id-map", f.Name()+" "+what, m.Pos(), why)
			}
		}
		pairMaps("hash entry inserted with the new id", hInserts, inserts, "the attribute hash is mapped to an id under a different condition than the id's insertion into the id map")
		pairMaps("new id inserted with its hash entry", inserts, hInserts, "a new id enters the id map without its hash entry (under the same condition)")
		pairMaps("hash entry deleted with the id", hDeletes, deletes, "the hash → id entry is deleted under a different condition than the id itself (e.g. on every release while the reference count is still positive): the next release of a path with the same attributes fails with `ID not found`, no withdrawal is sent for it, and the id is never freed")
		pairMaps("id deleted with its hash entry", deletes, hDeletes, "the id leaves the id map while its hash entry stays: a later path with these attributes is announced with an id that is free for reuse by a different path of the same prefix")
		pair("id insert", incs, inserts, "`used` is incremented under a different condition than the insertion of a new id into the id map: the counter drifts from the number of ids in use")
		pair("id delete", decs, deletes, "`used` is decremented under a different condition than the delete of the id from the id map (e.g. on every release although the id stays allocated while its reference count is positive): the counter underflows to 2^32-1 and allocation reports exhaustion with ids free")
		// exhaustion test reads the counter
		ast.Inspect(f.Decl.Body, func(n ast.Node) bool {
			ret, ok := n.(*ast.ReturnStmt)
			if !ok || len(ret.Results) != 2 {
				return true
			}
			call, isCall := core.Unparen(ret.Results[1]).(*ast.CallExpr)
			if !isCall || len(call.Args) == 0 {
				return true
			}
			if v := core.ConstOf(f.Pkg, call.Args[0]); v == nil || !strings.Contains(v.ExactString(), "out of path IDs") {
				return true
			}
			okRead := false
			for _, ft := range core.FactsAt(f, ret) {
				if ft.Expr != nil && ft.Truth && core.MentionsField(f.Pkg, ft.Expr, used) {
					okRead = true
				}
			}
			c.Check(okRead, "counter-tracks-map", f.Name()+" exhaustion test reads used", ret.Pos(), "the exhaustion error is not guarded by a test of the in-use counter")
			return true
		})
	}

	// (2) -----------------------------------------------------------------------------------------
	cmp := c.MustFunc("route.(*BGPPath).Compare")
	attrFields := map[*types.Var]bool{}
	isAttr := func(v *types.Var) bool {
		for _, t := range []string{"BGPPath", "BGPPathA"} {
			for _, f := range p.Fields("route", t) {
				if f == v {
					return true
				}
			}
		}
		return false
	}
	if cmp != nil {
		for v := range p.ReadsTransitive(cmp) {
			if isAttr(v) {
				attrFields[v] = true
			}
		}
	}
	if otc := p.Field("route", "BGPPathA", "OnlyToCustomer"); otc != nil {
		attrFields[otc] = true
	}
	pathA := p.Field("route", "BGPPath", "BGPPathA")
	pid := p.Field("route", "BGPPath", "PathIdentifier")
	for _, hk := range []string{"route.(*BGPPath).ComputeHash", "route.(*BGPPath).ComputeHashWithPathID"} {
		h := c.MustFunc(hk)
		if h == nil {
			continue
		}
		reads := p.ReadsTransitive(h)
		var names []string
		for v := range attrFields {
			names = append(names, v.Name())
		}
		for _, name := range sortedStrs(names) {
			var v *types.Var
			for x := range attrFields {
				if x.Name() == name {
					v = x
				}
			}
			if v == pathA {
				continue
			}
			if v == pid && hk == "route.(*BGPPath).ComputeHash" {
				continue
			}
			c.Check(reads[v], "hash-covers-attributes", hk+" reads "+v.Name(), h.Decl.Pos(),
				"attribute field "+v.Name()+" distinguishes paths (BGPPath.Compare / the export rewrite looks at it) but the hash does not read it: two paths for one prefix that differ only in this attribute get the same add-path identifier (and are merged into one queued announcement)")
		}
	}

	// (3) -----------------------------------------------------------------------------------------
	rp := c.MustFunc(pkg + ".(*AdjRIBOut).removeExportedPath")
	rel := p.Func(pkg + ".(*pathIDManager).releasePath")
	rtF := p.Field(pkg, "AdjRIBOut", "rt")
	if rp != nil && rel != nil && rtF != nil {
		calls := core.CallsAll(rp.Pkg, rp.Decl.Body, func(f *types.Func) bool { return f == rel.Obj })
		c.Check(len(calls) >= 1, "release-stored-path", rp.Name()+" releases the identifier", rp.Decl.Pos(), "removePath no longer releases the path identifier")
		for _, call := range calls {
			ok := false
			if len(call.Args) == 1 {
				if obj := core.ObjOf(rp.Pkg, call.Args[0]); obj != nil {
					ok = isStoredPathVar(rp, obj, rtF)
				}
			}
			c.Check(ok, "release-stored-path", rp.Name()+" releasePath argument is the stored path", call.Pos(),
				"releasePath is called with the path derived from the caller's argument, not with the stored path found in the Adj-RIB-Out: the identifier was allocated for the stored path's hash (after the export rewrites), so the release can fail or hit another id and the withdrawal is lost")
		}
		// the withdrawal handed to clients in the add-path branch is the stored path
		rc := p.Func(pkg + ".(*AdjRIBOut).removePathFromClients")
		if rc != nil {
			for _, call := range core.CallsAll(rp.Pkg, rp.Decl.Body, func(f *types.Func) bool { return f == rc.Obj }) {
				if len(call.Args) != 2 {
					continue
				}
				obj := core.ObjOf(rp.Pkg, call.Args[1])
				ok := false
				for _, d := range core.DefsOf(rp, obj) {
					if o2 := core.ObjOf(rp.Pkg, d); o2 != nil && isStoredPathVar(rp, o2, rtF) {
						ok = true
					}
				}
				c.Check(ok, "release-stored-path", rp.Name()+" withdrawal carries the stored path", call.Pos(), "the withdrawal handed to clients does not carry the stored path (with its path identifier) on the add-path branch")
			}
		}
	}
}

// isStoredPathVar: obj is a range variable over X.Paths() where X is defined from a.rt.Get(...)
func isStoredPathVar(f *core.Fn, obj types.Object, rtF *types.Var) bool {
	for _, d := range core.DefsOf(f, obj) {
		call, ok := core.Unparen(d).(*ast.CallExpr)
		if !ok || core.FuncKey(core.Callee(f.Pkg, call)) != "route.(*Route).Paths" {
			continue
		}
		sel, ok := call.Fun.(*ast.SelectorExpr)
		if !ok {
			continue
		}
		ro := core.ObjOf(f.Pkg, sel.X)
		for _, rd := range core.DefsOf(f, ro) {
			rc, ok := core.Unparen(rd).(*ast.CallExpr)
			if ok && core.FuncKey(core.Callee(f.Pkg, rc)) == "routingtable.(*RoutingTable).Get" {
				if s2, ok := rc.Fun.(*ast.SelectorExpr); ok && core.FieldOf(f.Pkg, s2.X) == rtF {
					return true
				}
			}
		}
	}
	return false
}

func sortedStrs(s []string) []string {
	for i := 1; i < len(s); i++ {
		for j := i; j > 0 && s[j] < s[j-1]; j-- {
			s[j], s[j-1] = s[j-1], s[j]
		}
	}
	return s
}

// refcountFollowsUsers: one identifier is shared by all prefixes whose exported path has the same attributes; the
// identifier lives as long as its reference count is positive.  (a) addPath: every success return is preceded by
// `ids[x]++` or `ids[x] = 1`; (b) releasePath: every success return by `ids[x]--`; (c) the count is wide enough for the
// number of prefixes of a full table (≥ 32 bits); (d) in package adjRIBOut paths leave the table only in functions that
// release their identifier.
func refcountFollowsUsers(c *core.Ctx, rule string) {
	p := c.P
	const pkg = "routingtable/adjRIBOut"
	c.Floor(rule, 4)
	ids := p.Field(pkg, "pathIDManager", "ids")
	if ids == nil {
		c.Undecided(rule, "pathIDManager.ids", token.NoPos, "field not found")
		return
	}
	isIDsElem := func(f *core.Fn, e ast.Expr) bool {
		ie, ok := core.Unparen(e).(*ast.IndexExpr)
		return ok && core.FieldOf(f.Pkg, ie.X) == ids
	}
	for _, spec := range []struct {
		fn  string
		inc bool
	}{{"addPath", true}, {"releasePath", false}} {
		f := c.MustFunc(pkg + ".(*pathIDManager)." + spec.fn)
		if f == nil {
			continue
		}
		c.Analysed(f)
		gate := func(n ast.Node) bool {
			switch x := n.(type) {
			case *ast.IncDecStmt:
				return isIDsElem(f, x.X) && (x.Tok == token.INC) == spec.inc
			case *ast.AssignStmt:
				if spec.inc && len(x.Lhs) == 1 && len(x.Rhs) == 1 && isIDsElem(f, x.Lhs[0]) {
					if v := core.ConstOf(f.Pkg, x.Rhs[0]); v != nil && v.ExactString() == "1" {
						return true
					}
					return x.Tok == token.ADD_ASSIGN
				}
				if !spec.inc && len(x.Lhs) == 1 && isIDsElem(f, x.Lhs[0]) && x.Tok == token.SUB_ASSIGN {
					return true
				}
			}
			return false
		}
		rets, _ := core.ExitsWithout(p.CFG(f), gate)
		var bad []*ast.ReturnStmt
		for _, r := range rets {
			// success returns: the error result is nil
			if len(r.Results) == 2 {
				if id, ok := core.Unparen(r.Results[1]).(*ast.Ident); ok && id.Name == "nil" {
					bad = append(bad, r)
				}
			}
		}
		pos := f.Decl.Pos()
		if len(bad) > 0 {
			pos = bad[0].Pos()
		}
		what := "counts the new user of the identifier on every successful return"
		why := "addPath can hand out an identifier without counting the new user: the first prefix that withdraws the path frees the identifier while other prefixes still carry it; their withdrawals then fail (`ID not found`) and are never sent, and the identifier is handed to a different path of the same prefix"
		if !spec.inc {
			what = "uncounts the user on every successful return"
			why = "releasePath can succeed without decrementing the count: the identifier is never freed and allocation eventually reports exhaustion with identifiers unused"
		}
		c.Check(len(bad) == 0, rule, f.Name()+" "+what, pos, why)
	}
	// (c) width
	if mt, ok := ids.Type().Underlying().(*types.Map); ok {
		w := typeWidth(mt.Elem())
		c.Check(w >= 32, rule, "pathIDManager.ids counts in at least 32 bits", ids.Pos(), fmt.Sprintf("the reference count is %d bits wide: with more prefixes sharing one exported path than it can count it wraps to 0 and the identifier is freed while in use", w))
	}
	// (d) removals release
	rel := p.Func(pkg + ".(*pathIDManager).releasePath")
	n := 0
	for _, f := range p.FuncsIn(pkg) {
		if f.Decl.Body == nil || isTestFn(p, f) {
			continue
		}
		rms := core.Calls(f.Pkg, f.Decl.Body, core.KeyIs("routingtable.(*RoutingTable).RemovePath", "routingtable.(*RoutingTable).RemovePfx"))
		if len(rms) == 0 {
			continue
		}
		n++
		c.Analysed(f)
		releases := rel != nil && len(core.Calls(f.Pkg, f.Decl.Body, func(o *types.Func) bool { return o == rel.Obj })) > 0
		c.Check(releases, rule, f.Name()+" releases the identifiers of the paths it takes out of the table", rms[0].Pos(),
			"paths are removed from the Adj-RIB-Out table in a function that does not release their add-path identifiers: every such removal leaks an identifier (allocation reports exhaustion although nothing is advertised)")
	}
	c.Check(n >= 1, rule, "functions that take paths out of the Adj-RIB-Out table", token.NoPos, "none found")
}
