package props

import (
	"go/ast"
	"go/token"

	"verif/engine/core"
)

// identifierIsProbedFree: the identifier a new path gets is the value of the manager's cursor at the moment it is
// stored.  Every change of the cursor has to be followed by a look-up of that value in the in-use map before it is
// handed out — an adjustment after the probing loop ("skip 0", "wrap to 1") assigns an identifier that may belong to
// another path.
func identifierIsProbedFree(c *core.Ctx) {
	const rule = "identifier-probed-free-before-use"
	p := c.P
	const pkg = "routingtable/adjRIBOut"
	f := c.MustFunc(pkg + ".(*pathIDManager).addPath")
	ids := p.Field(pkg, "pathIDManager", "ids")
	byPath := p.Field(pkg, "pathIDManager", "idByPath")
	last := p.Field(pkg, "pathIDManager", "last")
	if f == nil || ids == nil || last == nil {
		c.Check(false, rule, "pathIDManager.{ids,last}", 0, "anchors not found")
		return
	}
	c.Analysed(f)
	writesLast := func(n ast.Node) bool {
		switch x := n.(type) {
		case *ast.IncDecStmt:
			return core.FieldOf(f.Pkg, x.X) == last
		case *ast.AssignStmt:
			for _, l := range x.Lhs {
				if core.FieldOf(f.Pkg, l) == last {
					return true
				}
			}
		}
		return false
	}
	isProbe := func(n ast.Node) bool {
		// a read ids[last] that is not a store
		if as, ok := n.(*ast.AssignStmt); ok {
			for _, l := range as.Lhs {
				if ie, ok := core.Unparen(l).(*ast.IndexExpr); ok && core.FieldOf(f.Pkg, ie.X) == ids {
					return false
				}
			}
		}
		return core.NodeHas(n, func(x ast.Node) bool {
			ie, ok := x.(*ast.IndexExpr)
			return ok && core.FieldOf(f.Pkg, ie.X) == ids && core.FieldOf(f.Pkg, ie.Index) == last
		})
	}
	isStore := func(n ast.Node) bool {
		as, ok := n.(*ast.AssignStmt)
		if !ok || as.Tok != token.ASSIGN {
			return false
		}
		for i, l := range as.Lhs {
			ie, ok := core.Unparen(l).(*ast.IndexExpr)
			if !ok {
				continue
			}
			if core.FieldOf(f.Pkg, ie.X) == ids && core.FieldOf(f.Pkg, ie.Index) == last {
				return true
			}
			if byPath != nil && core.FieldOf(f.Pkg, ie.X) == byPath && i < len(as.Rhs) && core.FieldOf(f.Pkg, as.Rhs[i]) == last {
				return true
			}
		}
		return false
	}
	hits, started := core.PathAvoidingFromS(p.CFG(f), writesLast, isProbe, isStore)
	pos := f.Decl.Pos()
	if len(hits) > 0 {
		pos = hits[0].Pos()
	}
	c.Check(started && len(hits) == 0, rule, f.Name()+" stores the cursor value only after looking it up in the in-use map", pos,
		"the cursor is changed and then used as the new path's identifier without checking that this value is free: the identifier may already belong to another path of the prefix, and the two are no longer distinguishable on the wire")
}
