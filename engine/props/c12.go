package props

import (
	"fmt"
	"go/ast"
	"go/token"
	"go/types"
	"strings"

	"verif/engine/core"
)

func init() {
	Register(&Prop{
		Meta: core.Meta{
			ID: "C12", Title: "Replacing a policy converges to the new policy's result", Level: "other",
			Technique:   "field-coverage (R-DEP) on the typed AST: equality methods vs. behaviour methods of the policy types; fields policy actions may write vs. fields the change detector reads; provenance of withdrawn/announced paths in ReplaceFilterChain",
			DesignRef:   "DESIGN.md §4 C12",
			Decided:     "(1) `equal ⇒ same behaviour`: for every policy type with an Equal/equal method (filter chain elements, term conditions, route filters, matchers, actions) every field its behaviour methods (Do/Matches/Match/Process) read — and that some non-test code can set — is compared by the equality method on both operands, contents not only lengths; so a replacement is never skipped for a policy that differs in a behaviour-relevant field; (2) `the change detector sees what policies can change`: every path attribute field that some policy action can write is read by the comparison that decides, in AdjRIBIn.ReplaceFilterChain and AdjRIBOut.RefreshRoute, whether the re-filtered path is re-announced; (3) in AdjRIBIn.ReplaceFilterChain the path withdrawn/replaced is the output of the CURRENT chain and the path announced the output of the NEW chain, and the new chain is installed on every path through the function; (4) the verdict of a policy is never recorded on a path the Adj-RIB-In stores: every assignment of HiddenReasonFilteredByPolicy targets the copy a Chain.Process call returned (the replacement walk skips stored paths that read as hidden, so a stored \"filtered\" mark would exempt the path from every later policy); (5) LocRIB.ReplacePath — the import-side replacement's way into the Loc-RIB — re-runs PathSelection on the stored route before propagation.",
			NotDecided:  "equality of the resulting Loc-RIB/Adj-RIB-Out with a freshly established session over all (old policy, new policy, route set) triples; C05/C13 cover the withdraw-what-was-exported and no-corruption prerequisites.",
			TrustedBase: stdTrusted,
		},
		Run: runC12,
		Controls: []Control{
			{Name: "refresh-window-clamped-to-ecmp-count", File: "routingtable/locRIB/loc_rib.go", Old: "\t\t\tn = opts.MaxPaths\n\t\t\tn = uint(math.Min(int(n), len(r.Paths())))\n\t\t}\n\n\t\tclient.RefreshRoute(", New: "\t\t\tn = opts.MaxPaths\n\t\t\tn = uint(math.Min(int(n), int(r.ECMPPathCount())))\n\t\t}\n\n\t\tclient.RefreshRoute(", Expect: "refresh-covers-the-clients-window"},
			{Name: "reload-installs-the-configured-chain-raw", File: "protocols/bgp/server/peer.go", Old: "func (p *peer) replaceImportFilterChain(c filter.Chain) {\n\t// the same default as for a chain configured at start (see newPeer): no policy means reject all\n\tc = filterOrDefault(c)\n", New: "func (p *peer) replaceImportFilterChain(c filter.Chain) {\n", Expect: "in-place-policy-normalised-like-fresh-start"},
			{Name: "removal-by-decision-equality", File: "route/route.go", Old: "\t\tif paths[j].Compare(remove) {\n", New: "\t\tif paths[j].Equal(remove) {\n", Expect: "decision-equality-is-not-identity"},
			{Name: "refresh-skipped-for-empty-table", File: "routingtable/adjRIBOut/adj_rib_out.go", Old: "\ta.exportFilterChainPending = c\n\ta.rib.RefreshClient(a)\n", New: "\ta.exportFilterChainPending = c\n\tif a.rt.GetRouteCount() > 0 {\n\t\ta.rib.RefreshClient(a)\n\t}\n", Expect: "refresh-is-unconditional"},
			{Name: "policy-verdict-marked-on-stored-path", File: "routingtable/adjRIBIn/adj_rib_in.go", Old: "\tp, reject := a.exportFilterChain.Process(pfx, p)\n\tif reject {\n\t\tp.HiddenReason = route.HiddenReasonFilteredByPolicy\n\t\treturn nil\n\t}\n\n\tfor _, client := range a.clientManager.Clients() {\n\t\tclient.AddPath(pfx, p)\n\t}\n", New: "\tfiltered, reject := a.exportFilterChain.Process(pfx, p)\n\tif reject {\n\t\tp.HiddenReason = route.HiddenReasonFilteredByPolicy\n\t\treturn nil\n\t}\n\n\tfor _, client := range a.clientManager.Clients() {\n\t\tclient.AddPath(pfx, filtered)\n\t}\n", Expect: "policy-verdict-not-stored"},
			{Name: "replace-selects-on-a-copy", File: "routingtable/locRIB/loc_rib.go", Old: "\tr.PathSelection()\n\ta.propagateChanges(oldRoute, r)\n}\n", New: "\tnewRoute := r.Copy()\n\tnewRoute.PathSelection()\n\ta.propagateChanges(oldRoute, newRoute)\n}\n", Expect: "replacement-reranks-stored-route"},
			{Name: "replacement-assumes-established-session", File: "protocols/bgp/server/fsm_address_family.go", Old: "\tif f.adjRIBIn != nil {\n\t\tf.adjRIBIn.ReplaceFilterChain(c)\n\t}\n", New: "\tf.adjRIBIn.ReplaceFilterChain(c)\n", Expect: "replacement-in-any-session-state"},
			{Name: "peer-settings-keep-old-policy", File: "protocols/bgp/server/peer.go", Old: "\tif p.ipv4 != nil {\n\t\tp.ipv4.importFilterChain = c\n\t}\n", New: "", Expect: "replacement-in-any-session-state"},
			{Name: "med-action-equal-ignores-value", File: "routingtable/filter/actions/set_med_action.go", Old: "return a.med == b.(*SetMEDAction).med", New: "return true", Expect: "equal-covers-behaviour"},
			{Name: "term-equal-ignores-actions", File: "routingtable/filter/term.go", Old: "\tfor i := range t.then {\n\t\tif !t.then[i].Equal(x.then[i]) {\n\t\t\treturn false\n\t\t}\n\t}\n", New: "", Expect: "equal-covers-behaviour"},
			{Name: "change-detector-preference-only", File: "routingtable/adjRIBIn/adj_rib_in.go", Old: "if !currentPath.Compare(newPath) {", New: "if !currentPath.Equal(newPath) {", Expect: "change-detector-reads-policy-writes"},
		},
	})
}

// eqCoverage is shared by C12 and C14.
func eqCoverage(c *core.Ctx, rule string) {
	p := c.P
	n := 0
	for _, rel := range []string{"routingtable/filter", "routingtable/filter/actions"} {
		pk := p.Pkg(rel)
		if pk == nil {
			c.Undecided("anchor", rel, token.NoPos, "package not found")
			continue
		}
		// which fields are ever written in non-test code?
		written := map[*types.Var]bool{}
		for _, f := range p.AllFuncs() {
			if f.Decl.Body == nil {
				continue
			}
			for _, a := range core.FieldAccesses(f.Pkg, f.Decl.Body) {
				if a.Write {
					written[a.Field] = true
				}
			}
		}
		names := pk.Types.Scope().Names()
		for _, tn := range names {
			nt := p.Named(rel, tn)
			if nt == nil {
				continue
			}
			st, isStruct := nt.Underlying().(*types.Struct)
			var eq *core.Fn
			var beh []*core.Fn
			for _, m := range p.MethodsOf(rel, tn) {
				switch m.Decl.Name.Name {
				case "Equal", "equal":
					eq = m
				case "Do", "Matches", "Match", "Process":
					beh = append(beh, m)
				}
			}
			if eq == nil || !isStruct {
				continue
			}
			c.Analysed(eq)
			own := map[*types.Var]bool{}
			for i := 0; i < st.NumFields(); i++ {
				own[st.Field(i)] = true
			}
			need := map[*types.Var]bool{}
			for _, b := range beh {
				c.Analysed(b)
				for v := range p.ReadsTransitive(b) {
					if own[v] {
						need[v] = true
					}
				}
			}
			// reads in eq (transitively through helpers of the same package)
			type use struct{ total, nonLen int }
			uses := map[*types.Var]*use{}
			for _, g := range p.ReachableFns(eq) {
				if g.Pkg != eq.Pkg {
					continue
				}
				parents := core.Parents(g.Decl.Body)
				for _, a := range core.FieldAccesses(g.Pkg, g.Decl.Body) {
					if a.Write || a.Sel == nil || !own[a.Field] {
						continue
					}
					u := uses[a.Field]
					if u == nil {
						u = &use{}
						uses[a.Field] = u
					}
					u.total++
					inLen := false
					if call, ok := parents[a.Sel].(*ast.CallExpr); ok {
						if id, ok := call.Fun.(*ast.Ident); ok {
							if b, ok := g.Pkg.TypesInfo.Uses[id].(*types.Builtin); ok && b.Name() == "len" {
								inLen = true
							}
						}
					}
					if !inLen {
						u.nonLen++
					}
				}
			}
			eqTruthTable(c, rule, rel, tn, nt, eq, need)
			for i := 0; i < st.NumFields(); i++ {
				fv := st.Field(i)
				if !need[fv] {
					continue
				}
				n++
				construct := rel + "." + tn + "." + eq.Decl.Name.Name + " compares field " + fv.Name()
				if !written[fv] {
					c.Hold(rule, construct, eq.Decl.Pos(), "field is read by the behaviour but never set by non-test code (always zero): equality need not look at it")
					continue
				}
				u := uses[fv]
				switch {
				case u == nil || u.total < 2:
					c.Fail(rule, construct, eq.Decl.Pos(), "behaviour ("+behNames(beh)+") depends on field "+fv.Name()+" but the equality method never compares it: two policies differing only in this field compare equal, and replacing one by the other is skipped")
				case u.nonLen < 2:
					c.Fail(rule, construct, eq.Decl.Pos(), "field "+fv.Name()+" is compared by length only: two policies whose lists have the same length but different contents compare equal, and the replacement is skipped")
				default:
					c.Hold(rule, construct, eq.Decl.Pos(), "compared on both operands")
				}
			}
		}
	}
	c.Check(n >= 8, rule, "field-coverage instances found", token.NoPos, "fewer behaviour-relevant policy fields than confirmed by hand (8)")
}

func behNames(fs []*core.Fn) string {
	s := ""
	for i, f := range fs {
		if i > 0 {
			s += ", "
		}
		s += f.Decl.Name.Name
	}
	return s
}

func runC12(c *core.Ctx) {
	inPlacePolicyIsNormalisedLikeAFreshStart(c)
	decisionEqualityIsNotIdentity(c, "decision-equality-is-not-identity")
	refreshIsUnconditional(c, "refresh-is-unconditional")
	eqNotSubset(c, "equality-is-not-inclusion")
	selectionBeforePropagation(c, "replacement-reranks-stored-route", 3)
	policyVerdictNotStored(c)
	// the export-side replacement refreshes the window the session is entitled to
	inlineLimitTable(c, "refresh-covers-the-clients-window", "RefreshClient")
	p := c.P
	eqCoverage(c, "equal-covers-behaviour")
	replacementInAnySessionState(c)

	// (2) fields policy actions may write ----------------------------------------------------------
	action := p.Named("routingtable/filter/actions", "Action")
	attrOwner := map[*types.Var]string{}
	for _, t := range [][2]string{{"route", "Path"}, {"route", "BGPPath"}, {"route", "BGPPathA"}, {"route", "StaticPath"}, {"protocols/bgp/types", "ASPathSegment"}} {
		for _, f := range p.Fields(t[0], t[1]) {
			attrOwner[f] = t[1]
		}
	}
	writes := map[*types.Var]string{}
	if action != nil {
		iface := action.Underlying().(*types.Interface)
		for _, f := range p.FuncsIn("routingtable/filter/actions") {
			if f.Decl.Name.Name != "Do" || f.Decl.Recv == nil {
				continue
			}
			rt := f.Obj.Type().(*types.Signature).Recv().Type()
			if !types.Implements(rt, iface) {
				continue
			}
			c.Analysed(f)
			for v := range p.WritesTransitiveExcept(f, func(g *core.Fn) bool { return g.Decl.Name.Name == "Copy" && g.Pkg == p.Pkg("route") }) {
				if _, ok := attrOwner[v]; ok {
					if writes[v] == "" || f.Name() < writes[v] {
						writes[v] = f.Name()
					}
				}
			}
		}
	} else {
		c.Undecided("anchor", "actions.Action", token.NoPos, "interface not found")
	}
	process := "routingtable/filter.(Chain).Process"
	for _, site := range []string{"routingtable/adjRIBIn.(*AdjRIBIn).ReplaceFilterChain", "routingtable/adjRIBOut.(*AdjRIBOut).RefreshRoute"} {
		f := c.MustFunc(site)
		if f == nil {
			continue
		}
		// find the detector call X.M(Y) with X, Y defined from Process calls
		var det *ast.CallExpr
		fromProcess := func(e ast.Expr) bool {
			obj := core.ObjOf(f.Pkg, e)
			if obj == nil {
				return false
			}
			for _, d := range core.DefsOf(f, obj) {
				if call, ok := core.Unparen(d).(*ast.CallExpr); ok && core.FuncKey(core.Callee(f.Pkg, call)) == process {
					return true
				}
			}
			return false
		}
		ast.Inspect(f.Decl.Body, func(n ast.Node) bool {
			call, ok := n.(*ast.CallExpr)
			if !ok || len(call.Args) != 1 {
				return true
			}
			sel, ok := call.Fun.(*ast.SelectorExpr)
			if ok && fromProcess(sel.X) && fromProcess(call.Args[0]) && core.ObjOf(f.Pkg, sel.X) != core.ObjOf(f.Pkg, call.Args[0]) {
				if t := f.Pkg.TypesInfo.TypeOf(call); t != nil && types.Identical(t, types.Typ[types.Bool]) {
					det = call
				}
			}
			return true
		})
		if det == nil {
			c.Undecided("change-detector-reads-policy-writes", site, f.Decl.Pos(), "no comparison between the current chain's output and the new chain's output found; cannot tell how changes are detected")
			continue
		}
		df := p.FnOf(core.Callee(f.Pkg, det))
		if df == nil {
			c.Undecided("change-detector-reads-policy-writes", site, det.Pos(), "change detector is not a repository function")
			continue
		}
		reads := p.ReadsTransitive(df)
		var names []string
		byName := map[string]*types.Var{}
		for v := range writes {
			k := attrOwner[v] + "." + v.Name()
			names = append(names, k)
			byName[k] = v
		}
		for _, k := range sortedStrs(names) {
			v := byName[k]
			if !reads[v] {
				if src := derivedFrom(p, v); src != nil && reads[src] {
					c.Hold("change-detector-reads-policy-writes", site+" detector "+df.Name()+" reads "+k, det.Pos(), "derived field: every write in the repository assigns "+src.Name()+".Length() to it, and the detector reads "+src.Name())
					continue
				}
			}
			c.Check(reads[v], "change-detector-reads-policy-writes", site+" detector "+df.Name()+" reads "+k, det.Pos(),
				"policy action "+writes[v]+" can change "+k+", but the comparison deciding whether the re-filtered path is re-announced ("+df.Name()+") never reads it: after replacing the policy by one that differs only in that effect (e.g. prepend of another ASN the same number of times) the old attributes stay installed")
		}
		c.Check(len(names) >= 5, "change-detector-reads-policy-writes", site+" policy-writable fields found", det.Pos(), "fewer policy-writable attribute fields than confirmed by hand (5)")
	}

	// (3) provenance in AdjRIBIn.ReplaceFilterChain ---------------------------------------------------
	replaceChainProvenance(c)
	refreshRouteCases(c)
	skipComparesCurrentChain(c)
}

// skipComparesCurrentChain: replaceImport/ExportFilterChain skip only when the new chain equals the chain it is about to
// replace, store the new chain in that same field and hand it to the matching table.
func skipComparesCurrentChain(c *core.Ctx) {
	p := c.P
	for _, spec := range []struct{ fn, field, table string }{
		{srv + ".(*fsmAddressFamily).replaceImportFilterChain", "importFilterChain", "adjRIBIn"},
		{srv + ".(*fsmAddressFamily).replaceExportFilterChain", "exportFilterChain", "adjRIBOut"},
	} {
		f := c.MustFunc(spec.fn)
		if f == nil {
			continue
		}
		fld := p.Field(srv, "fsmAddressFamily", spec.field)
		tbl := p.Field(srv, "fsmAddressFamily", spec.table)
		par := core.ParamObj(f, 0)
		okEq, okStore, okCall := false, false, false
		ast.Inspect(f.Decl.Body, func(n ast.Node) bool {
			switch x := n.(type) {
			case *ast.CallExpr:
				k := core.FuncKey(core.Callee(f.Pkg, x))
				se, isSel := x.Fun.(*ast.SelectorExpr)
				if k == "routingtable/filter.(Chain).Equal" && isSel && len(x.Args) == 1 {
					a, b := se.X, x.Args[0]
					if (core.ObjOf(f.Pkg, a) == par && core.FieldOf(f.Pkg, b) == fld) || (core.ObjOf(f.Pkg, b) == par && core.FieldOf(f.Pkg, a) == fld) {
						okEq = true
					}
				}
				if isSel && se.Sel.Name == "ReplaceFilterChain" && core.FieldOf(f.Pkg, se.X) == tbl && len(x.Args) == 1 && core.ObjOf(f.Pkg, x.Args[0]) == par {
					okCall = true
				}
			case *ast.AssignStmt:
				if len(x.Lhs) == 1 && core.FieldOf(f.Pkg, x.Lhs[0]) == fld && core.ObjOf(f.Pkg, x.Rhs[0]) == par {
					okStore = true
				}
			}
			return true
		})
		// every Equal call in the function must be the right one
		nEq := len(core.Calls(f.Pkg, f.Decl.Body, core.KeyIs("routingtable/filter.(Chain).Equal")))
		c.Check(okEq && nEq == 1, "skip-compares-current-chain", f.Name()+" skips iff new chain equals "+spec.field, f.Decl.Pos(),
			"the replacement is skipped on a comparison with another chain than the one being replaced ("+spec.field+"): a replacement whose new chain happens to equal that other chain is dropped although the session's "+spec.field+" differs")
		c.Check(okStore && okCall, "skip-compares-current-chain", f.Name()+" stores the new chain and hands it to "+spec.table, f.Decl.Pos(), "the new chain is not stored in "+spec.field+" and passed to "+spec.table+".ReplaceFilterChain")
	}
}

// refreshRouteCases: AdjRIBOut.RefreshRoute reacts to (current verdict, new verdict, changed) as a policy replacement must.
func refreshRouteCases(c *core.Ctx) {
	p := c.P
	const out = "routingtable/adjRIBOut"
	f := c.MustFunc(out + ".(*AdjRIBOut).RefreshRoute")
	if f == nil {
		return
	}
	cur := p.Field(out, "AdjRIBOut", "exportFilterChain")
	pend := p.Field(out, "AdjRIBOut", "exportFilterChainPending")
	rm := p.Func(out + ".(*AdjRIBOut).removeExportedPath")
	ad := p.Func(out + ".(*AdjRIBOut).addPath")
	// locals: (path, reject) of each chain
	var curPath, curRej, newPath, newRej types.Object
	ast.Inspect(f.Decl.Body, func(n ast.Node) bool {
		as, ok := n.(*ast.AssignStmt)
		if !ok || len(as.Lhs) != 2 || len(as.Rhs) != 1 {
			return true
		}
		call, ok := core.Unparen(as.Rhs[0]).(*ast.CallExpr)
		if !ok || core.FuncKey(core.Callee(f.Pkg, call)) != "routingtable/filter.(Chain).Process" {
			return true
		}
		se := call.Fun.(*ast.SelectorExpr)
		switch core.FieldOf(f.Pkg, se.X) {
		case cur:
			curPath, curRej = core.ObjOf(f.Pkg, as.Lhs[0]), core.ObjOf(f.Pkg, as.Lhs[1])
		case pend:
			newPath, newRej = core.ObjOf(f.Pkg, as.Lhs[0]), core.ObjOf(f.Pkg, as.Lhs[1])
		}
		return true
	})
	if curPath == nil || newPath == nil || rm == nil || ad == nil {
		c.Undecided("refresh-case-table", f.Name(), f.Decl.Pos(), "the two policy evaluations (current chain, pending chain) were not found")
		return
	}
	rmCalls := core.Calls(f.Pkg, f.Decl.Body, func(o *types.Func) bool { return o == rm.Obj })
	adCalls := core.Calls(f.Pkg, f.Decl.Body, func(o *types.Func) bool { return o == ad.Obj })
	for _, call := range rmCalls {
		c.Check(len(call.Args) == 2 && core.ObjOf(f.Pkg, call.Args[1]) == curPath, "refresh-case-table", f.Name()+" removePath argument is the current chain's output", call.Pos(), "the path removed from the Adj-RIB-Out on a policy change is not what the CURRENT policy exported")
	}
	for _, call := range adCalls {
		c.Check(len(call.Args) == 2 && core.ObjOf(f.Pkg, call.Args[1]) == newPath, "refresh-case-table", f.Name()+" addPath argument is the pending chain's output", call.Pos(), "the path added to the Adj-RIB-Out on a policy change is not what the NEW policy exports")
	}
	type row struct {
		cr, nr, same   bool
		wantRm, wantAd bool
	}
	rows := []row{{true, true, false, false, false}, {true, false, false, false, true}, {false, true, false, true, false}, {false, false, false, true, true}, {false, false, true, false, false}}
	for _, r := range rows {
		env := core.NewEnv()
		env.Objs[curRej], env.Objs[newRej] = core.BoolVal(r.cr), core.BoolVal(r.nr)
		// other boolean results of calls (the propagate verdict of checkPropagateUpdate): the case table is about routes
		// that pass the export rules
		ast.Inspect(f.Decl.Body, func(n ast.Node) bool {
			as, ok := n.(*ast.AssignStmt)
			if !ok || len(as.Rhs) != 1 {
				return true
			}
			if _, isCall := core.Unparen(as.Rhs[0]).(*ast.CallExpr); !isCall {
				return true
			}
			for _, l := range as.Lhs {
				o := core.ObjOf(f.Pkg, l)
				if o == nil || o == curRej || o == newRej {
					continue
				}
				if b, isB := o.Type().Underlying().(*types.Basic); isB && b.Kind() == types.Bool {
					env.Objs[o] = core.BoolVal(true)
				}
			}
			return true
		})
		env.Calls["route.(*Path).Compare"] = core.BoolVal(r.same)
		env.Calls["route.(*Path).Equal"] = core.BoolVal(r.same)
		reached := func(calls []*ast.CallExpr) (bool, bool) {
			any := false
			for _, cl := range calls {
				h, ok := core.HoldsAt(f, cl, env)
				if !ok {
					return false, false
				}
				if h {
					any = true
				}
			}
			return any, true
		}
		gotRm, ok1 := reached(rmCalls)
		gotAd, ok2 := reached(adCalls)
		construct := fmt.Sprintf("%s case currentReject=%v newReject=%v unchanged=%v", f.Name(), r.cr, r.nr, r.same)
		if !ok1 || !ok2 {
			c.Undecided("refresh-case-table", construct, f.Decl.Pos(), "guards not evaluable")
			continue
		}
		c.Check(gotRm == r.wantRm && gotAd == r.wantAd, "refresh-case-table", construct, f.Decl.Pos(),
			fmt.Sprintf("in this case the Adj-RIB-Out must see remove(old export)=%v add(new export)=%v, the code does remove=%v add=%v: after the policy replacement the Adj-RIB-Out differs from what a session started with the new policy holds (stale old-policy paths stay, or new ones are missing)", r.wantRm, r.wantAd, gotRm, gotAd))
	}
}

// replaceChainProvenance: in AdjRIBIn.ReplaceFilterChain the old/withdrawn path comes from the current chain, the new/announced one from the new chain.
func replaceChainProvenance(c *core.Ctx) {
	p := c.P
	f := c.MustFunc("routingtable/adjRIBIn.(*AdjRIBIn).ReplaceFilterChain")
	chainF := p.Field("routingtable/adjRIBIn", "AdjRIBIn", "exportFilterChain")
	if f == nil || chainF == nil {
		return
	}
	newChain := core.ParamObj(f, 0)
	src := func(e ast.Expr) string {
		obj := core.ObjOf(f.Pkg, e)
		if obj == nil {
			return "?"
		}
		out := "?"
		for _, d := range core.DefsOf(f, obj) {
			call, ok := core.Unparen(d).(*ast.CallExpr)
			if !ok || core.FuncKey(core.Callee(f.Pkg, call)) != "routingtable/filter.(Chain).Process" {
				return "?"
			}
			sel := call.Fun.(*ast.SelectorExpr)
			switch {
			case core.FieldOf(f.Pkg, sel.X) == chainF:
				out = "current"
			case core.ObjOf(f.Pkg, sel.X) == newChain:
				out = "new"
			default:
				return "?"
			}
		}
		return out
	}
	n := 0
	for _, call := range core.CallsAll(f.Pkg, f.Decl.Body, func(*types.Func) bool { return true }) {
		sel, ok := call.Fun.(*ast.SelectorExpr)
		if !ok || !isClientIface(f, sel.X) {
			continue
		}
		switch sel.Sel.Name {
		case "RemovePath":
			n++
			c.Check(src(call.Args[1]) == "current", "replace-chain-provenance", f.Name()+" RemovePath argument comes from the current chain", call.Pos(),
				"the path withdrawn from clients when the new policy rejects is not the output of the CURRENT policy (what was exported); clients remove by full attribute comparison, so a policy-rewritten path stays installed")
		case "AddPath", "AddPathInitialDump":
			n++
			c.Check(src(call.Args[1]) == "new", "replace-chain-provenance", f.Name()+" "+sel.Sel.Name+" argument comes from the new chain", call.Pos(), "the path announced after the policy change is not the output of the NEW policy")
		case "ReplacePath":
			n++
			c.Check(src(call.Args[1]) == "current" && src(call.Args[2]) == "new", "replace-chain-provenance", f.Name()+" ReplacePath(old=current chain, new=new chain)", call.Pos(), "ReplacePath's old/new arguments are not (current policy output, new policy output)")
		}
	}
	c.Check(n >= 3, "replace-chain-provenance", f.Name()+" client notifications found", f.Decl.Pos(), "fewer than the three client notifications (add, remove, replace) found")
	// the new chain is installed on every path to the end of the function
	g := p.CFG(f)
	store := func(nd ast.Node) bool {
		as, ok := nd.(*ast.AssignStmt)
		if !ok {
			return false
		}
		for i, l := range as.Lhs {
			if core.FieldOf(f.Pkg, l) == chainF && i < len(as.Rhs) && core.ObjOf(f.Pkg, as.Rhs[i]) == newChain {
				return true
			}
		}
		return false
	}
	rets, end := core.ExitsWithout(g, store)
	c.Check(len(rets) == 0 && !end, "replace-chain-provenance", f.Name()+" installs the new chain on every path", f.Decl.Pos(), "some path through ReplaceFilterChain leaves without storing the new chain")
}

func isClientIface(f *core.Fn, e ast.Expr) bool {
	t := f.Pkg.TypesInfo.TypeOf(e)
	if t == nil {
		return false
	}
	nt, ok := t.(*types.Named)
	return ok && nt.Obj().Name() == "RouteTableClient"
}

// derivedFrom recognises a field that is, at every write in non-test code, assigned X.<src>.Length() (or src.Length())
// of a sibling field src of the same struct; returns src.
func derivedFrom(p *core.Prog, v *types.Var) *types.Var {
	var src *types.Var
	ok := true
	n := 0
	note := func(f *core.Fn, rhs ast.Expr) {
		n++
		call, isCall := core.Unparen(rhs).(*ast.CallExpr)
		if !isCall {
			ok = false
			return
		}
		sel, isSel := call.Fun.(*ast.SelectorExpr)
		if !isSel || sel.Sel.Name != "Length" {
			ok = false
			return
		}
		var fv *types.Var
		if x := core.FieldOf(f.Pkg, sel.X); x != nil {
			fv = x
		} else if obj := core.ObjOf(f.Pkg, sel.X); obj != nil {
			// local defined from ... accept only if some sibling composite key uses the same local
			ast.Inspect(f.Decl.Body, func(nd ast.Node) bool {
				if kv, isKV := nd.(*ast.KeyValueExpr); isKV && core.ObjOf(f.Pkg, kv.Value) == obj {
					if k, isVar := core.ObjOf(f.Pkg, kv.Key).(*types.Var); isVar && k.IsField() {
						fv = k
					}
				}
				return true
			})
		}
		if fv == nil || (src != nil && src != fv) {
			ok = false
			return
		}
		src = fv
	}
	for _, f := range p.AllFuncs() {
		if f.Decl.Body == nil {
			continue
		}
		ast.Inspect(f.Decl.Body, func(nd ast.Node) bool {
			switch s := nd.(type) {
			case *ast.AssignStmt:
				for i, l := range s.Lhs {
					if core.FieldOf(f.Pkg, l) == v && i < len(s.Rhs) {
						note(f, s.Rhs[i])
					}
				}
			case *ast.KeyValueExpr:
				if core.ObjOf(f.Pkg, s.Key) == types.Object(v) {
					note(f, s.Value)
				}
			case *ast.IncDecStmt:
				if core.FieldOf(f.Pkg, s.X) == v {
					ok = false
				}
			}
			return true
		})
	}
	if !ok || n == 0 {
		return nil
	}
	return src
}

// eqTruthTable: for policy types whose behaviour-relevant fields are all scalars, the equality method must be exactly
// `same dynamic type ∧ every such field equal` — decided by evaluating its extracted path conditions on all valuations.
func eqTruthTable(c *core.Ctx, rule, rel, tn string, nt *types.Named, eq *core.Fn, need map[*types.Var]bool) {
	var fields []*types.Var
	st := nt.Underlying().(*types.Struct)
	for i := 0; i < st.NumFields(); i++ {
		fv := st.Field(i)
		if !need[fv] {
			continue
		}
		b, ok := fv.Type().Underlying().(*types.Basic)
		if !ok || b.Info()&(types.IsInteger|types.IsBoolean) == 0 {
			return // non-scalar field: only the coverage rule applies
		}
		fields = append(fields, fv)
	}
	recv, par := core.RecvObj(eq), core.ParamObj(eq, 0)
	if recv == nil || par == nil {
		return
	}
	self := types.NewPointer(nt).String()
	construct := rel + "." + tn + "." + eq.Decl.Name.Name + " is `same type ∧ all fields equal`"
	rows, bad := 0, 0
	first := ""
	n := len(fields)
	for mask := 0; mask < 1<<(2*n); mask++ {
		for _, same := range []bool{true, false} {
			env := core.NewEnv()
			env.Prog = c.P
			env.ObjFields[recv] = map[*types.Var]core.Val{}
			env.ObjFields[par] = map[*types.Var]core.Val{}
			allEq := true
			for i, fv := range fields {
				a, b := int64(mask>>(2*i)&1), int64(mask>>(2*i+1)&1)
				if bt := fv.Type().Underlying().(*types.Basic); bt.Info()&types.IsBoolean != 0 {
					env.ObjFields[recv][fv], env.ObjFields[par][fv] = core.BoolVal(a == 1), core.BoolVal(b == 1)
				} else {
					env.ObjFields[recv][fv], env.ObjFields[par][fv] = core.IntVal(a+1), core.IntVal(b+1)
				}
				if a != b {
					allEq = false
				}
			}
			if same {
				env.DynType[par] = self
			} else {
				env.DynType[par] = "<another type>"
			}
			// pointer-typed parameter of the same named type (no interface): always the same type
			if _, isIface := par.Type().Underlying().(*types.Interface); !isIface {
				if !same {
					continue
				}
			}
			rows++
			ret, err := core.Outcome(eq, env)
			if err != nil {
				c.Undecided(rule, construct, eq.Decl.Pos(), "equality method is outside the loop-free subset or uses atoms outside the table: "+err.Error())
				return
			}
			v, ok := core.Eval(eq, ret.Results[0], env)
			if !ok {
				c.Undecided(rule, construct, ret.Pos(), "result of the equality method is not evaluable over its fields")
				return
			}
			want := same && allEq
			if v.B != want {
				bad++
				if first == "" {
					first = fmt.Sprintf("same type=%v, fields pairwise equal=%v: Equal returns %v", same, allEq, v.B)
				}
			}
		}
	}
	if rows == 0 {
		return
	}
	c.Check(bad == 0, rule, construct, eq.Decl.Pos(), fmt.Sprintf("%d of %d valuations disagree (first: %s): two policies that behave differently compare equal (a replacement is skipped) or equal ones compare different", bad, rows, first))
}

// replacementInAnySessionState: a policy replacement arrives in whatever state the session is.  The per-FSM address
// family has its Adj-RIBs only while Established (assigned in init, cleared in dispose), so (a) the replacement stores
// the new chain in the family unconditionally (init() builds the RIBs from it) and touches the RIBs only behind a test
// that they exist; (b) the peer's own family settings, from which later FSMs are built, are updated too.
func replacementInAnySessionState(c *core.Ctx) {
	p := c.P
	const rule = "replacement-in-any-session-state"
	for _, dir := range []struct{ method, chainField, ribField string }{
		{"replaceImportFilterChain", "importFilterChain", "adjRIBIn"},
		{"replaceExportFilterChain", "exportFilterChain", "adjRIBOut"},
	} {
		f := c.MustFunc(srv + ".(*fsmAddressFamily)." + dir.method)
		if f == nil {
			continue
		}
		c.Analysed(f)
		chainF := p.Field(srv, "fsmAddressFamily", dir.chainField)
		ribF := p.Field(srv, "fsmAddressFamily", dir.ribField)
		par := core.ParamObj(f, 0)
		// the chain is stored on every path on which the function goes on (the early return for an equal chain is fine)
		stored := false
		ast.Inspect(f.Decl.Body, func(n ast.Node) bool {
			if as, ok := n.(*ast.AssignStmt); ok && len(as.Lhs) == 1 && core.FieldOf(f.Pkg, as.Lhs[0]) == chainF && chainF != nil && core.ObjOf(f.Pkg, as.Rhs[0]) == par {
				guarded := false
				for _, ft := range core.CtlFactsAt(f, as) {
					if ft.Enclosing {
						guarded = true
					}
				}
				if !guarded {
					stored = true
				}
			}
			return true
		})
		c.Check(stored, rule, f.Name()+" stores the new chain whatever the session state", f.Decl.Pos(), "the new chain is not stored in the address family unconditionally: a session that is down at the time of the reload comes up with the old policy")
		n := 0
		ast.Inspect(f.Decl.Body, func(nd ast.Node) bool {
			call, ok := nd.(*ast.CallExpr)
			if !ok {
				return true
			}
			se, isSel := call.Fun.(*ast.SelectorExpr)
			if !isSel || core.FieldOf(f.Pkg, se.X) != ribF || ribF == nil {
				return true
			}
			n++
			guarded := false
			for _, ft := range core.FactsAt(f, call) {
				if x, isNil := core.IsNilCheck(f.Pkg, ft.Expr); isNil && !ft.Truth && core.FieldOf(f.Pkg, x) == ribF {
					guarded = true
				}
				if fv := core.FieldOf(f.Pkg, ft.Expr); fv != nil && fv.Name() == "initialized" && ft.Truth {
					guarded = true
				}
			}
			c.Check(guarded, rule, fmt.Sprintf("%s use #%d of %s behind a test that it exists", f.Name(), n, dir.ribField), call.Pos(),
				"the "+dir.ribField+" exists only while the session is Established (init assigns it, dispose clears it), but the policy replacement calls a method on it unconditionally: a configuration reload that changes a policy of a neighbor whose session is down dereferences nil and crashes the daemon")
			return true
		})
		c.Check(n >= 1, rule, f.Name()+" reaches the table of an established session", f.Decl.Pos(), "the replacement no longer calls ReplaceFilterChain on the "+dir.ribField)
		// peer level
		pf := c.MustFunc(srv + ".(*peer)." + dir.method)
		if pf == nil {
			continue
		}
		pchain := p.Field(srv, "peerAddressFamily", dir.chainField)
		fams := map[string]bool{}
		ast.Inspect(pf.Decl.Body, func(nd ast.Node) bool {
			if as, ok := nd.(*ast.AssignStmt); ok && len(as.Lhs) == 1 && core.FieldOf(pf.Pkg, as.Lhs[0]) == pchain && pchain != nil && core.ObjOf(pf.Pkg, as.Rhs[0]) == core.ParamObj(pf, 0) {
				if se, isSel := core.Unparen(as.Lhs[0]).(*ast.SelectorExpr); isSel {
					if fv := core.FieldOf(pf.Pkg, se.X); fv != nil {
						fams[fv.Name()] = true
					}
				}
			}
			return true
		})
		c.Check(fams["ipv4"] && fams["ipv6"], rule, pf.Name()+" updates the peer's own family settings (both families)", pf.Decl.Pos(),
			"only the FSMs that exist now get the new chain; the peer's address family settings, from which the FSM of the next incoming connection is built, keep the old one: the next session of a passive peer runs with the old policy")
	}
}

// policyVerdictNotStored: AdjRIBIn.ReplaceFilterChain skips stored paths whose HiddenReason is set (ineligible whatever the
// policy says).  That is only right while a policy verdict is never written onto a stored path.  Rule: wherever
// HiddenReasonFilteredByPolicy is assigned, the path written to is — on every path through the function — the value a
// filter.Chain.Process call returned (Process always returns a copy).
func policyVerdictNotStored(c *core.Ctx) {
	const rule = "policy-verdict-not-stored"
	p := c.P
	c.Floor(rule, 1)
	hidden := p.Field("route", "Path", "HiddenReason")
	byPolicy := p.Object("route", "HiddenReasonFilteredByPolicy")
	if hidden == nil || byPolicy == nil {
		c.Undecided(rule, "route.Path.HiddenReason / HiddenReasonFilteredByPolicy", token.NoPos, "anchors not found")
		return
	}
	n := 0
	for _, f := range p.AllFuncs() {
		if f.Decl.Body == nil || strings.HasSuffix(p.Pos(f.Decl.Pos()), "_test.go") {
			continue
		}
		ast.Inspect(f.Decl.Body, func(nd ast.Node) bool {
			as, ok := nd.(*ast.AssignStmt)
			if !ok || len(as.Lhs) != 1 || len(as.Rhs) != 1 || core.FieldOf(f.Pkg, as.Lhs[0]) != hidden {
				return true
			}
			if co := core.ConstObjOf(f.Pkg, as.Rhs[0]); co == nil || types.Object(co) != byPolicy {
				return true
			}
			n++
			c.Analysed(f)
			construct := f.Name() + " marks a path as filtered by policy"
			sel, _ := core.Unparen(as.Lhs[0]).(*ast.SelectorExpr)
			var target types.Object
			if sel != nil {
				target = core.ObjOf(f.Pkg, sel.X)
			}
			if target == nil {
				c.Undecided(rule, construct, as.Pos(), "the marked path is not a plain variable")
				return true
			}
			g := p.CFG(f)
			isProcessDef := func(x ast.Node) bool {
				d, ok := x.(*ast.AssignStmt)
				if !ok || len(d.Rhs) != 1 || len(d.Lhs) < 1 || core.ObjOf(f.Pkg, d.Lhs[0]) != target {
					return false
				}
				call, ok := core.Unparen(d.Rhs[0]).(*ast.CallExpr)
				return ok && core.FuncKey(core.Callee(f.Pkg, call)) == processKey
			}
			isThis := func(x ast.Node) bool { return x == ast.Node(as) }
			bad := core.PathAvoiding(g, isProcessDef, isThis)
			// … and not re-defined by anything else in between
			isOtherDef := func(x ast.Node) bool {
				d, ok := x.(*ast.AssignStmt)
				if !ok || isProcessDef(x) {
					return false
				}
				for _, l := range d.Lhs {
					if core.ObjOf(f.Pkg, l) == target {
						return true
					}
				}
				return false
			}
			redefined := core.PathAvoidingFrom(g, isOtherDef, isProcessDef, isThis)
			c.Check(len(bad) == 0 && len(redefined) == 0, rule, construct, as.Pos(),
				"the path marked HiddenReasonFilteredByPolicy is not (on every path) the copy returned by Chain.Process — it can be the path the Adj-RIB-In stores: ReplaceFilterChain skips stored paths that read as hidden, so a route rejected by the old policy is never re-evaluated and the Loc-RIB lacks a route the new policy accepts")
			return true
		})
	}
	c.Check(n >= 1, rule, "assignments of HiddenReasonFilteredByPolicy found", token.NoPos, "none found (the rule would pass vacuously)")
}
