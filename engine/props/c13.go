package props

import (
	"fmt"
	"go/ast"
	"go/token"
	"go/types"
	"strings"

	"verif/engine/core"
)

func init() {
	Register(&Prop{
		Meta: core.Meta{
			ID: "C13", Title: "Tables are isolated: exporting a route never alters stored routes", Level: "other",
			Technique:   "ownership analysis (R-OWN): whole-repository mutation summaries for route path objects (fixpoint over static calls), borrowed/owned classification of every argument of a mutating callee, post-dedup immutability by must-not-reach on go/cfg",
			DesignRef:   "DESIGN.md §3 R-OWN, §4 C13",
			Decided:     "(1) no implementation of RouteTableClient other than the Adj-RIB-In (which owns what the FSM hands it) mutates the path objects it is given (AddPath, AddPathInitialDump, RemovePath, ReplacePath, RefreshRoute), according to mutation summaries computed over the whole repository; (2) at every call site in the RIB pipeline and session layer of a function that may mutate a path parameter (the export rewrites checkPropagateUpdate*, redistribution, Prepend, SetNextHop, the Adj-RIB-In's AddPath …) the argument is OWNED: the result of Copy/CheckRedistribute/Chain.Process/a constructor, or a local re-bound to one before the call — never a callback parameter, an element of a parameter slice or a path read out of a routing table; (3) after BGPPath.Dedup() swapped in the shared attribute block no store into that block is reachable in AdjRIBOut.AddPath/RefreshRoute; (4) Chain.Process copies its input before the first action and never returns the caller's object, which is what makes in-place actions safe; (5) no element of an attribute sequence (the ASNs of an AS_PATH segment, communities, large communities, cluster list, unknown attributes — shared between copies of a path) is overwritten in place anywhere in the repository except in storage the same function allocated before on every path.",
			NotDecided:  "in-place append into spare capacity of a shared backing array (element stores and copy() are decided, rule 5); interface calls other than RouteTableClient are not followed by the summaries.",
			TrustedBase: stdTrusted,
		},
		Run: runC13,
		Controls: []Control{
			{Name: "export-flags-unknown-attributes-in-place", File: "routingtable/adjRIBOut/adj_rib_out.go", Old: "\tif a.sessionAttrs.IBGP {\n\t\treturn a.checkPropagateUpdateIBGP(pfx, p)\n\t}\n", New: "\tfor i := range p.BGPPath.UnknownAttributes {\n\t\tattr := &p.BGPPath.UnknownAttributes[i]\n\t\tattr.Partial = true\n\t}\n\tif a.sessionAttrs.IBGP {\n\t\treturn a.checkPropagateUpdateIBGP(pfx, p)\n\t}\n", Expect: "attribute-sequences-written-only-when-fresh"},
			{Name: "redistribute-check-writes-its-input", File: "route/path.go", Old: "\tp = p.Copy()\n\n\tif p.Type == newPathType {\n\t\tp.RedistributedFrom = 0\n\t\treturn p, false\n", New: "\tcp := p.Copy()\n\n\tif p.Type == newPathType {\n\t\tp.RedistributedFrom = 0\n\t\treturn cp, false\n\t}\n\tp = cp\n\tif false {\n", Expect: "check-redistribute-leaves-its-input-alone"},
			{Name: "copy-only-for-rewriting-sessions", File: "routingtable/adjRIBOut/adj_rib_out.go", Old: "\tp, redist := p.CheckRedistribute(route.BGPPathType)\n\tif redist {\n\t\terr := a.redistributePath(p)", New: "\tredist := false\n\tif p.Type != route.BGPPathType || !a.sessionAttrs.RouteServerClient {\n\t\tp, redist = p.CheckRedistribute(route.BGPPathType)\n\t}\n\tif redist {\n\t\terr := a.redistributePath(p)", Expect: "own-copy-before-session-rewrites"},
			{Name: "per-nlri-copy-written-by-hand", File: "protocols/bgp/server/fsm_address_family.go", Old: "\t\tp := path.Copy()\n\t\tp.BGPPath.PathIdentifier = n.PathIdentifier\n", New: "\t\tp := &route.Path{Type: path.Type, LTime: path.LTime, BGPPath: &route.BGPPath{BGPPathA: path.BGPPath.BGPPathA.Copy(), ASPath: path.BGPPath.ASPath, ASPathLen: path.BGPPath.ASPathLen, Communities: path.BGPPath.Communities, LargeCommunities: path.BGPPath.LargeCommunities}}\n\t\tp.BGPPath.PathIdentifier = n.PathIdentifier\n", Expect: "hand-written-copy-names-every-field"},
			{Name: "copy-skips-empty-lists", File: "route/bgp_path.go", Old: "\tif cp.ASPath != nil {\n", New: "\tif cp.ASPath != nil && len(*cp.ASPath) > 0 {\n", Expect: "copy-gives-own-list-headers"},
			{Name: "prepend-appends-to-a-callers-buffer", File: "route/bgp_path.go", Old: "\t\told := (*b.ASPath)[0].ASNs\n\t\tasns := make([]uint32, len(old)+1)\n\t\tcopy(asns[1:], old)\n\t\tasns[0] = asn\n\t\t(*b.ASPath)[0].ASNs = asns\n", New: "\t\told := (*b.ASPath)[0].ASNs\n\t\t(*b.ASPath)[0].ASNs = append((*b.Communities)[:1], old...)\n", Expect: "attribute-sequences-written-only-when-fresh"},
			{Name: "serializer-rewrites-shared-asns", File: "protocols/bgp/packet/path_attributes.go", Old: "\t\tsegmentsBuf.WriteByte(segment.Type)\n\t\tsegmentsBuf.WriteByte(uint8(len(segment.ASNs)))\n", New: "\t\tfor i := range segment.ASNs {\n\t\t\tif !opt.Use32BitASN && segment.ASNs[i] > 65535 {\n\t\t\t\tsegment.ASNs[i] = 23456\n\t\t\t}\n\t\t}\n\t\tsegmentsBuf.WriteByte(segment.Type)\n\t\tsegmentsBuf.WriteByte(uint8(len(segment.ASNs)))\n", Expect: "attribute-sequences-written-only-when-fresh"},
			{Name: "refresh-rewrites-locrib-path", File: "routingtable/adjRIBOut/adj_rib_out.go", Old: "\t\tp, redist := p.CheckRedistribute(route.BGPPathType)\n", New: "\t\tvar redist bool\n", Expect: "mutator-gets-owned-path"},
			{Name: "store-after-dedup", File: "routingtable/adjRIBOut/adj_rib_out.go", Old: "\tp.BGPPath = p.BGPPath.Dedup()\n\n\treturn a.addPath(pfx, p)", New: "\tp.BGPPath = p.BGPPath.Dedup()\n\tif a.sessionAttrs.RouteServerClient {\n\t\tp.BGPPath.BGPPathA.MED = 0\n\t}\n\n\treturn a.addPath(pfx, p)", Expect: "no-store-after-dedup"},
			{Name: "chain-returns-callers-path", File: "routingtable/filter/chain.go", Old: "\tmp := pa.Copy()\n", New: "\tif len(c) == 0 {\n\t\treturn pa, false\n\t}\n\n\tmp := pa.Copy()\n", Expect: "process-copies-first"},
			{Name: "update-sender-clears-path-id", File: "protocols/bgp/server/update_sender.go", Old: "\thash := p.BGPPath.ComputeHashWithPathID()\n\tif _, exists := u.toSend[hash]; exists {", New: "\tif !u.options.UseAddPath {\n\t\tp.BGPPath.PathIdentifier = 0\n\t}\n\thash := p.BGPPath.ComputeHashWithPathID()\n\tif _, exists := u.toSend[hash]; exists {", Expect: "client-does-not-mutate"},
		},
	})
}

func runC13(c *core.Ctx) {
	checkRedistributeLeavesItsInputAlone(c, "check-redistribute-leaves-its-input-alone")
	ownCopyBeforeSessionRewrites(c, "own-copy-before-session-rewrites")
	handWrittenCopiesAreComplete(c, "hand-written-copy-names-every-field")
	attributeSequencesFresh(c)
	p := c.P
	mut := p.Mutators()
	client := p.Named("routingtable", "RouteTableClient")
	if client == nil {
		c.Undecided("anchor", "routingtable.RouteTableClient", token.NoPos, "interface not found")
		return
	}
	iface := client.Underlying().(*types.Interface)
	// (1) clients ------------------------------------------------------------------------------------
	nImpl := 0
	for _, pk := range p.List {
		for _, name := range pk.Types.Scope().Names() {
			tn, ok := pk.Types.Scope().Lookup(name).(*types.TypeName)
			if !ok {
				continue
			}
			nt, ok := tn.Type().(*types.Named)
			if !ok {
				continue
			}
			if _, isIface := nt.Underlying().(*types.Interface); isIface {
				continue
			}
			if !types.Implements(types.NewPointer(nt), iface) {
				continue
			}
			rel := strings.TrimPrefix(pk.PkgPath, core.Mod+"/")
			if strings.Contains(name, "Mock") || strings.Contains(strings.ToLower(name), "mock") {
				continue
			}
			nImpl++
			for _, m := range []string{"AddPath", "AddPathInitialDump", "RemovePath", "ReplacePath", "RefreshRoute"} {
				f := p.Func(rel + ".(*" + name + ")." + m)
				if f == nil {
					continue
				}
				c.Analysed(f)
				construct := f.Name() + " leaves the paths it is given untouched"
				if rel == "routingtable/adjRIBIn" {
					c.Hold("client-does-not-mutate", construct, f.Decl.Pos(), "exempt: the Adj-RIB-In owns the path objects the session layer hands it (ownership transfer); its callers are checked under rule 2")
					continue
				}
				bad := ""
				for i := range mut[f.Obj] {
					if i >= 0 {
						if po := core.ParamObj(f, i); po != nil && (core.PathLike(po.Type()) || isPathSlice(po.Type())) {
							bad = po.Name()
						}
					}
				}
				// slices of paths: stores rooted at a range variable over the parameter
				if bad == "" {
					bad = mutatesRangeOverParam(p, f, mut)
				}
				c.Check(bad == "", "client-does-not-mutate", construct, f.Decl.Pos(),
					"this table client may write into the path object(s) it receives (parameter "+bad+"): the object is shared with the table that sent it (Loc-RIB / Adj-RIB), so the stored route changes under everyone else")
			}
		}
	}
	c.Check(nImpl >= 5, "client-does-not-mutate", "RouteTableClient implementations found", token.NoPos, fmt.Sprintf("found %d implementations, hand-confirmed floor is 5 (AdjRIBOut, LocRIB, UpdateSender, ribClient, Kernel)", nImpl))

	// (2) call sites of mutators -----------------------------------------------------------------------
	c.Floor("mutator-gets-owned-path", 8)
	scope := []string{"routingtable/adjRIBOut", "routingtable/adjRIBIn", "routingtable/locRIB", "routingtable", "protocols/bgp/server", "routingtable/mergedlocrib", "cmd/ris/risserver", "protocols/kernel", "risclient"}
	for _, rel := range scope {
		for _, f := range p.FuncsIn(rel) {
			if f.Decl.Body == nil {
				continue
			}
			ord := map[string]int{}
			ast.Inspect(f.Decl.Body, func(n ast.Node) bool {
				call, ok := n.(*ast.CallExpr)
				if !ok {
					return true
				}
				cal := core.Callee(f.Pkg, call)
				if cal == nil || mut[cal] == nil {
					return true
				}
				for j := range mut[cal] {
					var arg ast.Expr
					if j == -1 {
						if se, ok := call.Fun.(*ast.SelectorExpr); ok {
							arg = se.X
						}
					} else if j < len(call.Args) {
						arg = call.Args[j]
					}
					if arg == nil {
						continue
					}
					if t := f.Pkg.TypesInfo.TypeOf(arg); t == nil || !core.PathLike(t) {
						continue
					}
					key := core.FuncKey(cal)
					ord[key]++
					construct := fmt.Sprintf("%s → %s #%d (param %d)", f.Name(), key, ord[key], j)
					c.Analysed(f)
					// the argument is rooted at one of f's own path parameters: then f itself is a mutator and ITS callers are checked
					if root := rootObj(f, arg); root != nil && isParamOf(f, root) && mut[f.Obj] != nil && !reboundBefore(p, f, root, call.Pos()) && !isBorrowedEntry(p, f) {
						c.Hold("mutator-gets-owned-path", construct, call.Pos(), "passes on its own parameter; the obligation moves to the callers of "+f.Name())
						continue
					}
					ok := p.Owned(f, arg, call.Pos())
					c.Check(ok, "mutator-gets-owned-path", construct, call.Pos(),
						"a path object the function does not own ("+core.ExprString(arg)+": a callback parameter, an element of a parameter slice or a path read from a table) is passed to "+key+", which may write into it: exporting/refreshing for one session alters the route as stored in the Loc-RIB / another table")
				}
				return true
			})
		}
	}

	// (3) post-dedup immutability ------------------------------------------------------------------------
	for _, k := range []string{"routingtable/adjRIBOut.(*AdjRIBOut).AddPath", "routingtable/adjRIBOut.(*AdjRIBOut).RefreshRoute", "routingtable/adjRIBOut.(*AdjRIBOut).addPath"} {
		f := c.MustFunc(k)
		if f == nil {
			continue
		}
		g := p.CFG(f)
		isDedup := callNode(f, core.KeyIs("route.(*BGPPath).Dedup", "route.(*BGPPathA).Dedup"))
		pathA := p.Field("route", "BGPPath", "BGPPathA")
		isStoreA := func(n ast.Node) bool {
			as, ok := n.(*ast.AssignStmt)
			if !ok {
				return false
			}
			for _, l := range as.Lhs {
				// a store THROUGH BGPPathA (x.BGPPathA.f = …), not the swap of the pointer itself
				if se, ok := core.Unparen(l).(*ast.SelectorExpr); ok && core.FieldOf(f.Pkg, se) != nil {
					if core.FieldOf(f.Pkg, se.X) == pathA {
						return true
					}
				}
			}
			return false
		}
		bad, started := core.PathAvoidingFromS(g, isDedup, func(ast.Node) bool { return false }, isStoreA)
		if !started {
			if k == "routingtable/adjRIBOut.(*AdjRIBOut).AddPath" {
				c.Fail("no-store-after-dedup", k+" deduplicates the attribute block", f.Decl.Pos(), "AddPath no longer deduplicates; the rule lost its anchor")
			}
			continue
		}
		c.Check(len(bad) == 0, "no-store-after-dedup", k, f.Decl.Pos(), "a store into the BGPPathA block is reachable after Dedup() swapped in the shared, cached block: every route that shares the block (other prefixes, other sessions' Adj-RIB-Outs) changes with it")
	}
	// callees reached after dedup that mutate BGPPathA: setters called between Dedup and the end of AddPath
	if f := p.Func("routingtable/adjRIBOut.(*AdjRIBOut).AddPath"); f != nil {
		g := p.CFG(f)
		isDedup := callNode(f, core.KeyIs("route.(*BGPPath).Dedup"))
		isMutCall := func(n ast.Node) bool {
			return core.NodeHas(n, func(x ast.Node) bool {
				cl, ok := x.(*ast.CallExpr)
				if !ok {
					return false
				}
				cal := core.Callee(f.Pkg, cl)
				if cal == nil || mut[cal] == nil {
					return false
				}
				g2 := p.FnOf(cal)
				return g2 != nil && writesThroughPathA(p, g2)
			})
		}
		bad, _ := core.PathAvoidingFromS(g, isDedup, func(ast.Node) bool { return false }, isMutCall)
		c.Check(len(bad) == 0, "no-store-after-dedup", f.Name()+" calls no attribute-block writer after Dedup", f.Decl.Pos(), "a function that writes attributes of the BGPPathA block is called after Dedup()")
	}

	processCopiesFirst(c, "process-copies-first")
}

// processCopiesFirst: Chain.Process starts with `copy := input.Copy()` and that is the only use of its input (shared by C13 and C05).
func processCopiesFirst(c *core.Ctx, rule string) {
	const fpkg = "routingtable/filter"
	// (4) Chain.Process copies
	if f := c.MustFunc(fpkg + ".(Chain).Process"); f != nil {
		pa := core.ParamObj(f, 1)
		okFirst := false
		if as, isAs := f.Decl.Body.List[0].(*ast.AssignStmt); isAs && len(as.Rhs) == 1 {
			if cl, isCall := core.Unparen(as.Rhs[0]).(*ast.CallExpr); isCall && core.FuncKey(core.Callee(f.Pkg, cl)) == "route.(*Path).Copy" {
				if se, isSel := cl.Fun.(*ast.SelectorExpr); isSel && core.ObjOf(f.Pkg, se.X) == pa {
					okFirst = true
				}
			}
		}
		usesPa := 0
		ast.Inspect(f.Decl.Body, func(n ast.Node) bool {
			if id, ok := n.(*ast.Ident); ok && core.ObjOf(f.Pkg, id) == pa {
				usesPa++
			}
			return true
		})
		c.Check(okFirst && usesPa == 1, rule, f.Name(), f.Decl.Pos(), "Chain.Process does not begin with `copy := input.Copy()` as the only use of its input: actions that rewrite in place (AS path prepend) or callers that keep rewriting the result would write into the caller's stored path")
	}
}

func isPathSlice(t types.Type) bool {
	s, ok := t.Underlying().(*types.Slice)
	return ok && core.PathLike(s.Elem())
}

func rootObj(f *core.Fn, e ast.Expr) types.Object {
	for {
		switch x := core.Unparen(e).(type) {
		case *ast.Ident:
			return core.ObjOf(f.Pkg, x)
		case *ast.SelectorExpr:
			e = x.X
		case *ast.StarExpr:
			e = x.X
		case *ast.IndexExpr:
			e = x.X
		default:
			return nil
		}
	}
}

func isParamOf(f *core.Fn, o types.Object) bool {
	if core.RecvObj(f) == o {
		return true
	}
	for i := 0; ; i++ {
		po := core.ParamObj(f, i)
		if po == nil {
			return false
		}
		if po == o {
			return true
		}
	}
}

func reboundBefore(p *core.Prog, f *core.Fn, obj types.Object, at token.Pos) bool {
	re := false
	ast.Inspect(f.Decl.Body, func(n ast.Node) bool {
		as, ok := n.(*ast.AssignStmt)
		if !ok || as.Pos() >= at || as.End() > at {
			return true
		}
		for _, l := range as.Lhs {
			if id, ok := core.Unparen(l).(*ast.Ident); ok && core.ObjOf(f.Pkg, id) == obj {
				re = true
			}
		}
		return true
	})
	return re
}

// isBorrowedEntry: f is a method through which other tables hand in paths they keep (RouteTableClient callbacks).
func isBorrowedEntry(p *core.Prog, f *core.Fn) bool {
	if f.Decl.Recv == nil {
		return false
	}
	switch f.Decl.Name.Name {
	case "AddPath", "AddPathInitialDump", "RemovePath", "ReplacePath", "RefreshRoute":
		return core.RecvName(f.Obj) != "AdjRIBIn" && core.RecvName(f.Obj) != "RoutingTable"
	}
	return false
}

// mutatesRangeOverParam: a store / mutator call rooted at the range variable of a loop over a slice parameter.
func mutatesRangeOverParam(p *core.Prog, f *core.Fn, mut map[*types.Func]map[int]bool) string {
	bad := ""
	ast.Inspect(f.Decl.Body, func(n ast.Node) bool {
		rs, ok := n.(*ast.RangeStmt)
		if !ok || rs.Value == nil {
			return true
		}
		src := core.ObjOf(f.Pkg, rs.X)
		if src == nil || !isParamOf(f, src) || !isPathSlice(src.Type()) {
			return true
		}
		rv := core.ObjOf(f.Pkg, rs.Value)
		ast.Inspect(rs.Body, func(m ast.Node) bool {
			switch s := m.(type) {
			case *ast.AssignStmt:
				for _, l := range s.Lhs {
					if _, plain := core.Unparen(l).(*ast.Ident); !plain && rootObj(f, l) == rv && !reboundBefore(p, f, rv, s.Pos()) {
						bad = src.Name()
					}
				}
			case *ast.CallExpr:
				cal := core.Callee(f.Pkg, s)
				if cal == nil || mut[cal] == nil {
					return true
				}
				for j := range mut[cal] {
					var arg ast.Expr
					if j == -1 {
						if se, ok := s.Fun.(*ast.SelectorExpr); ok {
							arg = se.X
						}
					} else if j < len(s.Args) {
						arg = s.Args[j]
					}
					if arg != nil && rootObj(f, arg) == rv {
						if _, isCall := core.Unparen(arg).(*ast.CallExpr); !isCall && !reboundBefore(p, f, rv, s.Pos()) {
							bad = src.Name()
						}
					}
				}
			}
			return true
		})
		return true
	})
	return bad
}

func writesThroughPathA(p *core.Prog, g *core.Fn) bool {
	pathA := p.Field("route", "BGPPath", "BGPPathA")
	found := false
	for _, h := range p.ReachableFns(g) {
		ast.Inspect(h.Decl.Body, func(n ast.Node) bool {
			as, ok := n.(*ast.AssignStmt)
			if !ok {
				return true
			}
			for _, l := range as.Lhs {
				if se, ok := core.Unparen(l).(*ast.SelectorExpr); ok && core.FieldOf(h.Pkg, se) != nil && core.FieldOf(h.Pkg, se.X) == pathA {
					found = true
				}
			}
			return true
		})
	}
	return found
}
