package props

import (
	"go/ast"
	"go/token"
	"go/types"

	"verif/engine/core"
)

// attributeSequencesFresh: Path.Copy/BGPPath.Copy copy the attribute sequences shallowly where they can (the ASNs of an
// AS_PATH segment share their backing array between the Adj-RIB-In, the Loc-RIB and every Adj-RIB-Out).  That is safe
// only while nobody stores into an element of such a sequence after it was published.  Rule: an element store
// (`seq[i] = v`, `copy(seq, …)`) into an attribute sequence — ASPathSegment.ASNs, *BGPPath.ASPath / Communities /
// LargeCommunities / ClusterList, BGPPath.UnknownAttributes, or a local that aliases one — happens only when the very
// expression written through was assigned fresh storage (make, composite literal, &local-made) earlier in the same
// function on every path.
func attributeSequencesFresh(c *core.Ctx) {
	const rule = "attribute-sequences-written-only-when-fresh"
	p := c.P
	c.Floor(rule, 3)
	attr := map[*types.Var]bool{}
	for _, fv := range []*types.Var{
		p.Field("protocols/bgp/types", "ASPathSegment", "ASNs"),
		p.Field("route", "BGPPath", "ASPath"), p.Field("route", "BGPPath", "Communities"), p.Field("route", "BGPPath", "LargeCommunities"),
		p.Field("route", "BGPPath", "ClusterList"), p.Field("route", "BGPPath", "UnknownAttributes"),
	} {
		if fv != nil {
			attr[fv] = true
		}
	}
	if len(attr) < 6 {
		c.Undecided(rule, "attribute fields", token.NoPos, "anchors not found")
		return
	}
	for _, f := range p.AllFuncs() {
		if f.Decl.Body == nil || isTestFn(p, f) {
			continue
		}
		// is e attribute storage (directly or through a local alias)?  returns the expression that must have been assigned fresh
		var storage func(e ast.Expr, depth int) (ast.Expr, bool)
		storage = func(e ast.Expr, depth int) (ast.Expr, bool) {
			e = core.Unparen(e)
			if depth > 4 {
				return nil, false
			}
			switch x := e.(type) {
			case *ast.StarExpr:
				if attr[core.FieldOf(f.Pkg, x.X)] {
					return core.Unparen(x.X), true
				}
				return storage(x.X, depth+1)
			case *ast.SelectorExpr:
				if attr[core.FieldOf(f.Pkg, x)] {
					return x, true
				}
			case *ast.SliceExpr:
				return storage(x.X, depth+1)
			case *ast.Ident:
				o := f.Pkg.TypesInfo.ObjectOf(x)
				if o == nil {
					return nil, false
				}
				for _, d := range core.DefsOf(f, o) {
					if _, is := storage(d, depth+1); is {
						return x, true // an alias: cannot be fresh
					}
				}
			}
			return nil, false
		}
		isFresh := func(e ast.Expr) bool {
			e = core.Unparen(e)
			if u, ok := e.(*ast.UnaryExpr); ok && u.Op == token.AND {
				e = core.Unparen(u.X)
			}
			switch x := e.(type) {
			case *ast.CallExpr:
				if id, ok := x.Fun.(*ast.Ident); ok && id.Name == "make" {
					return true
				}
			case *ast.CompositeLit:
				return true
			case *ast.Ident:
				o := f.Pkg.TypesInfo.ObjectOf(x)
				defs := core.DefsOf(f, o)
				if len(defs) == 0 {
					return false
				}
				for _, d := range defs {
					dc, ok := core.Unparen(d).(*ast.CallExpr)
					if ok {
						if id, ok := dc.Fun.(*ast.Ident); ok && id.Name == "make" {
							continue
						}
					}
					if _, ok := core.Unparen(d).(*ast.CompositeLit); ok {
						continue
					}
					return false
				}
				return true
			}
			return false
		}
		check := func(target ast.Expr, at ast.Node, what string) {
			key, is := storage(target, 0)
			if !is {
				return
			}
			c.Analysed(f)
			construct := f.Name() + " " + what + " " + core.ExprString(target)
			// a dominating fresh assignment to the same expression
			g := p.CFG(f)
			isFreshAssign := func(nd ast.Node) bool {
				as, ok := nd.(*ast.AssignStmt)
				if !ok || len(as.Lhs) != len(as.Rhs) {
					return false
				}
				for i, l := range as.Lhs {
					if core.SameExpr(f.Pkg, core.Unparen(l), key) && isFresh(as.Rhs[i]) {
						return true
					}
					// s := T{F: make(…)} assigns s.F fresh storage
					if ks, ok := key.(*ast.SelectorExpr); ok && core.SameExpr(f.Pkg, core.Unparen(l), core.Unparen(ks.X)) {
						if cl, ok := core.Unparen(as.Rhs[i]).(*ast.CompositeLit); ok {
							for _, el := range cl.Elts {
								if kv, ok := el.(*ast.KeyValueExpr); ok && core.ExprString(kv.Key) == ks.Sel.Name && isFresh(kv.Value) {
									return true
								}
							}
						}
					}
				}
				return false
			}
			isThis := func(nd ast.Node) bool { return core.NodeHas(nd, func(x ast.Node) bool { return x == at }) }
			_, isAlias := key.(*ast.Ident)
			bad := core.PathAvoiding(g, isFreshAssign, isThis)
			c.Check(!isAlias && len(bad) == 0, rule, construct, at.Pos(),
				"an element of an attribute sequence is overwritten in place, and the sequence was not allocated in this function on every path before: the backing array is shared with the copies of the path held by the Adj-RIB-In, the Loc-RIB and other sessions' Adj-RIB-Out (Copy() is shallow for it), so the rewrite shows up in all of them")
		}
		ast.Inspect(f.Decl.Body, func(nd ast.Node) bool {
			switch x := nd.(type) {
			case *ast.AssignStmt:
				for _, l := range x.Lhs {
					if ie, ok := core.Unparen(l).(*ast.IndexExpr); ok {
						check(ie.X, x, "stores into an element of")
					}
				}
				// attribute storage = append(base, …): the result lives in base's backing array whenever base has spare
				// capacity, so base must be storage of this function's own (or the attribute itself being extended)
				if len(x.Lhs) == len(x.Rhs) {
					for i, l := range x.Lhs {
						if _, is := storage(l, 0); !is {
							continue
						}
						call, ok := core.Unparen(x.Rhs[i]).(*ast.CallExpr)
						if !ok || len(call.Args) < 1 {
							continue
						}
						if id, ok := call.Fun.(*ast.Ident); !ok || id.Name != "append" {
							continue
						}
						base := core.Unparen(call.Args[0])
						if core.SameExpr(f.Pkg, base, core.Unparen(l)) || isFresh(base) {
							continue
						}
						if se, ok := base.(*ast.SliceExpr); ok && se.Max != nil {
							continue // full slice expression: append must reallocate
						}
						if _, ok := base.(*ast.CompositeLit); ok {
							continue
						}
						c.Analysed(f)
						c.Fail(rule, f.Name()+" builds "+core.ExprString(l)+" by appending to "+core.ExprString(base), x.Pos(),
							"an attribute sequence is assigned `append("+core.ExprString(base)+", …)` where the base slice is neither allocated in this function nor the attribute itself: when the base has spare capacity the route's sequence lives in the base's backing array (e.g. a buffer kept by a policy action), and the next route built the same way overwrites it — the AS path already stored in another table changes")
					}
				}
			case *ast.IncDecStmt:
				if ie, ok := core.Unparen(x.X).(*ast.IndexExpr); ok {
					check(ie.X, x, "stores into an element of")
				}
			case *ast.CallExpr:
				if id, ok := x.Fun.(*ast.Ident); ok && id.Name == "copy" && len(x.Args) == 2 {
					check(x.Args[0], x, "copies into")
				}
			}
			return true
		})
	}
}
