package props

import (
	"go/ast"
	"go/token"
	"go/types"

	"verif/engine/core"
)

// attributeSequencesFresh: Path.Copy/BGPPath.Copy copy the attribute sequences shallowly where they can (the ASNs of an
// AS_PATH segment share their backing array between the Adj-RIB-In, the Loc-RIB and every Adj-RIB-Out).  That is safe
// only while nobody stores into an element of such a sequence after it was published.  Rule: an element store
// (`seq[i] = v`, `copy(seq, …)`) into an attribute sequence — ASPathSegment.ASNs, *BGPPath.ASPath / Communities /
// LargeCommunities / ClusterList, BGPPath.UnknownAttributes, or a local that aliases one — happens only when the very
// expression written through was assigned fresh storage (make, composite literal, &local-made) earlier in the same
// function on every path.
func attributeSequencesFresh(c *core.Ctx) {
	const rule = "attribute-sequences-written-only-when-fresh"
	p := c.P
	c.Floor(rule, 3)
	attr := map[*types.Var]bool{}
	for _, fv := range []*types.Var{
		p.Field("protocols/bgp/types", "ASPathSegment", "ASNs"),
		p.Field("route", "BGPPath", "ASPath"), p.Field("route", "BGPPath", "Communities"), p.Field("route", "BGPPath", "LargeCommunities"),
		p.Field("route", "BGPPath", "ClusterList"), p.Field("route", "BGPPath", "UnknownAttributes"),
	} {
		if fv != nil {
			attr[fv] = true
		}
	}
	shallow := map[*types.Var]bool{}
	for _, fv := range []*types.Var{p.Field("protocols/bgp/types", "ASPathSegment", "ASNs"), p.Field("route", "BGPPath", "UnknownAttributes")} {
		if fv != nil {
			shallow[fv] = true
		}
	}
	copyGivesOwnHeaders(c)
	if len(attr) < 6 {
		c.Undecided(rule, "attribute fields", token.NoPos, "anchors not found")
		return
	}
	for _, f := range p.AllFuncs() {
		if f.Decl.Body == nil || isTestFn(p, f) {
			continue
		}
		// is e attribute storage (directly or through a local alias)?  returns the expression that must have been assigned fresh
		var storage func(e ast.Expr, depth int) (ast.Expr, bool)
		storage = func(e ast.Expr, depth int) (ast.Expr, bool) {
			e = core.Unparen(e)
			if depth > 4 {
				return nil, false
			}
			switch x := e.(type) {
			case *ast.StarExpr:
				if attr[core.FieldOf(f.Pkg, x.X)] {
					return core.Unparen(x.X), true
				}
				return storage(x.X, depth+1)
			case *ast.SelectorExpr:
				if attr[core.FieldOf(f.Pkg, x)] {
					return x, true
				}
			case *ast.SliceExpr:
				return storage(x.X, depth+1)
			case *ast.Ident:
				o := f.Pkg.TypesInfo.ObjectOf(x)
				if o == nil {
					return nil, false
				}
				for _, d := range core.DefsOf(f, o) {
					if _, is := storage(d, depth+1); is {
						return x, true // an alias: cannot be fresh
					}
				}
			}
			return nil, false
		}
		isFresh := func(e ast.Expr) bool {
			e = core.Unparen(e)
			if u, ok := e.(*ast.UnaryExpr); ok && u.Op == token.AND {
				e = core.Unparen(u.X)
			}
			switch x := e.(type) {
			case *ast.CallExpr:
				if id, ok := x.Fun.(*ast.Ident); ok && id.Name == "make" {
					return true
				}
			case *ast.CompositeLit:
				return true
			case *ast.Ident:
				o := f.Pkg.TypesInfo.ObjectOf(x)
				defs := core.DefsOf(f, o)
				if len(defs) == 0 {
					return false
				}
				for _, d := range defs {
					dc, ok := core.Unparen(d).(*ast.CallExpr)
					if ok {
						if id, ok := dc.Fun.(*ast.Ident); ok && id.Name == "make" {
							continue
						}
					}
					if _, ok := core.Unparen(d).(*ast.CompositeLit); ok {
						continue
					}
					return false
				}
				return true
			}
			return false
		}
		check := func(target ast.Expr, at ast.Node, what string) {
			key, is := storage(target, 0)
			if !is {
				return
			}
			c.Analysed(f)
			construct := f.Name() + " " + what + " " + core.ExprString(target)
			// a dominating fresh assignment to the same expression
			g := p.CFG(f)
			isFreshAssign := func(nd ast.Node) bool {
				as, ok := nd.(*ast.AssignStmt)
				if !ok || len(as.Lhs) != len(as.Rhs) {
					return false
				}
				for i, l := range as.Lhs {
					if core.SameExpr(f.Pkg, core.Unparen(l), key) && isFresh(as.Rhs[i]) {
						return true
					}
					// s := T{F: make(…)} assigns s.F fresh storage
					if ks, ok := key.(*ast.SelectorExpr); ok && core.SameExpr(f.Pkg, core.Unparen(l), core.Unparen(ks.X)) {
						if cl, ok := core.Unparen(as.Rhs[i]).(*ast.CompositeLit); ok {
							for _, el := range cl.Elts {
								if kv, ok := el.(*ast.KeyValueExpr); ok && core.ExprString(kv.Key) == ks.Sel.Name && isFresh(kv.Value) {
									return true
								}
							}
						}
					}
				}
				return false
			}
			isThis := func(nd ast.Node) bool { return core.NodeHas(nd, func(x ast.Node) bool { return x == at }) }
			_, isAlias := key.(*ast.Ident)
			bad := core.PathAvoiding(g, isFreshAssign, isThis)
			c.Check(!isAlias && len(bad) == 0, rule, construct, at.Pos(),
				"an element of an attribute sequence is overwritten in place, and the sequence was not allocated in this function on every path before: the backing array is shared with the copies of the path held by the Adj-RIB-In, the Loc-RIB and other sessions' Adj-RIB-Out (Copy() is shallow for it), so the rewrite shows up in all of them")
		}
		ast.Inspect(f.Decl.Body, func(nd ast.Node) bool {
			switch x := nd.(type) {
			case *ast.AssignStmt:
				for _, l := range x.Lhs {
					if ie, ok := core.Unparen(l).(*ast.IndexExpr); ok {
						check(ie.X, x, "stores into an element of")
						continue
					}
					// seq[i].F = v  — a field of an element
					// (only for the sequences Copy() does not duplicate: segment ASNs, unknown attributes)
					if inner := innermostIndex(l); inner != nil && shallow[core.FieldOf(f.Pkg, core.Unparen(inner.X))] {
						check(inner.X, x, "stores into a field of an element of")
						continue
					}
					// ptr := &seq[i]; ptr.F = v / *ptr = v
					if b := core.BaseIdent(l); b != nil {
						if _, plain := core.Unparen(l).(*ast.Ident); !plain {
							if o := core.ObjOf(f.Pkg, b); o != nil {
								for _, d := range core.DefsOf(f, o) {
									if u, ok := core.Unparen(d).(*ast.UnaryExpr); ok && u.Op == token.AND {
										if ie, ok := core.Unparen(u.X).(*ast.IndexExpr); ok && shallow[core.FieldOf(f.Pkg, core.Unparen(ie.X))] {
											check(ie.X, x, "stores through a pointer to an element of")
										}
									}
								}
							}
						}
					}
				}
				// attribute storage = append(base, …): the result lives in base's backing array whenever base has spare
				// capacity, so base must be storage of this function's own (or the attribute itself being extended)
				if len(x.Lhs) == len(x.Rhs) {
					for i, l := range x.Lhs {
						if _, is := storage(l, 0); !is {
							continue
						}
						call, ok := core.Unparen(x.Rhs[i]).(*ast.CallExpr)
						if !ok || len(call.Args) < 1 {
							continue
						}
						if id, ok := call.Fun.(*ast.Ident); !ok || id.Name != "append" {
							continue
						}
						base := core.Unparen(call.Args[0])
						if core.SameExpr(f.Pkg, base, core.Unparen(l)) || isFresh(base) {
							continue
						}
						if se, ok := base.(*ast.SliceExpr); ok && se.Max != nil {
							continue // full slice expression: append must reallocate
						}
						if _, ok := base.(*ast.CompositeLit); ok {
							continue
						}
						c.Analysed(f)
						c.Fail(rule, f.Name()+" builds "+core.ExprString(l)+" by appending to "+core.ExprString(base), x.Pos(),
							"an attribute sequence is assigned `append("+core.ExprString(base)+", …)` where the base slice is neither allocated in this function nor the attribute itself: when the base has spare capacity the route's sequence lives in the base's backing array (e.g. a buffer kept by a policy action), and the next route built the same way overwrites it — the AS path already stored in another table changes")
					}
				}
			case *ast.IncDecStmt:
				if ie, ok := core.Unparen(x.X).(*ast.IndexExpr); ok {
					check(ie.X, x, "stores into an element of")
				}
			case *ast.CallExpr:
				if id, ok := x.Fun.(*ast.Ident); ok && id.Name == "copy" && len(x.Args) == 2 {
					check(x.Args[0], x, "copies into")
				}
			}
			return true
		})
	}
}

// innermostIndex: for a.b[i].c.d returns the index expression a.b[i]; nil when the chain has no element access or is a
// plain element store (handled separately).
func innermostIndex(e ast.Expr) *ast.IndexExpr {
	e = core.Unparen(e)
	seenSel := false
	for {
		switch x := e.(type) {
		case *ast.SelectorExpr:
			seenSel = true
			e = core.Unparen(x.X)
		case *ast.IndexExpr:
			if seenSel {
				return x
			}
			return nil
		case *ast.StarExpr:
			e = core.Unparen(x.X)
		default:
			return nil
		}
	}
}

// copyGivesOwnHeaders: BGPPath.Copy gives the copy its own header (pointer target) for every list attribute held by
// pointer — AS_PATH, COMMUNITIES, LARGE_COMMUNITIES, CLUSTER_LIST — whenever the original has one.  Code that extends
// such a list on a copy (`*cp.X = append(*cp.X, …)`, a new first AS_PATH segment) writes through that pointer; a copy
// that shares the header with the original ("nothing to copy for an empty list") makes those writes appear in the
// Loc-RIB and in every other table.  Rule: in Copy the assignment of a fresh header to cp.F is controlled by nothing
// but the nil test of F.
func copyGivesOwnHeaders(c *core.Ctx) {
	const rule = "copy-gives-own-list-headers"
	p := c.P
	f := c.MustFunc("route.(*BGPPath).Copy")
	if f == nil {
		return
	}
	c.Analysed(f)
	for _, name := range []string{"ASPath", "Communities", "LargeCommunities", "ClusterList"} {
		fv := p.Field("route", "BGPPath", name)
		if fv == nil {
			c.Check(false, rule, "BGPPath."+name, f.Decl.Pos(), "field not found")
			continue
		}
		ok, cond := false, ""
		var at ast.Node = f.Decl
		ast.Inspect(f.Decl.Body, func(n ast.Node) bool {
			as, isAs := n.(*ast.AssignStmt)
			if !isAs || len(as.Lhs) != 1 || core.FieldOf(f.Pkg, as.Lhs[0]) != fv {
				return true
			}
			if u, isU := core.Unparen(as.Rhs[0]).(*ast.UnaryExpr); !isU || u.Op != token.AND {
				return true
			}
			at = as
			ok = true
			for _, ft := range core.CtlFactsAt(f, as) {
				x, isNil := core.IsNilCheck(f.Pkg, ft.Expr)
				if isNil && core.FieldOf(f.Pkg, x) == nil {
					continue // the receiver's own nil guard
				}
				if !isNil || core.FieldOf(f.Pkg, x) != fv {
					ok = false
					if ft.Expr != nil {
						cond = core.ExprString(ft.Expr)
					}
				}
			}
			return true
		})
		c.Check(ok, rule, "BGPPath.Copy gives the copy its own "+name+" header whenever there is one", at.Pos(),
			"the copy gets its own "+name+" header only under `"+cond+"` (or not at all): otherwise copy and original share the header, and a list extended on the copy (policy actions, AS path prepend on export) changes the route stored in the Loc-RIB and every other table")
	}
}
