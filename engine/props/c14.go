package props

import (
	"fmt"
	"go/ast"
	"go/token"
	"go/types"
	"strings"

	"verif/engine/core"
)

func init() {
	Register(&Prop{
		Meta: core.Meta{
			ID: "C14", Title: "Policy evaluation agrees with a reference interpreter", Level: "other",
			Technique:   "structural agreement of the four evaluators with the documented semantics (range order, terminate/thread-through, accept-by-default), field coverage of the condition matcher, truth tables of the prefix matchers over the containment atoms, equality-vs-behaviour field coverage, configuration-keyword → matcher table",
			DesignRef:   "DESIGN.md §4 C14",
			Decided:     "(1) `equal ⇒ identical outcome`: the same field-coverage instances as C12(1); (2) Chain.Process, Filter.Process and Term.processActions iterate their list in slice order, return the terminating element's (Path, Reject) as soon as one terminates, thread the rewritten path into the next element and accept (no reject, no terminate) when nothing terminates; Chain.Process starts from a copy; Term.Process runs the actions iff there are no conditions or SOME condition matches; TermCondition.Matches is the conjunction of the five part matchers, which together read every field of TermCondition, each part being `empty list or any element matches`; (3) the four prefix matchers agree with their definitions as boolean functions of the atoms (pattern equals prefix, pattern contains prefix, length bounds) on all valuations; RouteFilter.Matches applies its matcher to (pattern, prefix) in that order; (4) each matcher keyword of the configuration (exact | orlonger | longer | range) maps to the matcher type of that name.",
			NotDecided:  "the prefix arithmetic the matchers rest on (C15); outcome equality with a reference interpreter on generated chains, prefixes and paths; the actions' attribute arithmetic.",
			TrustedBase: stdTrusted,
		},
		Run: runC14,
		Controls: []Control{
			{Name: "next-hop-action-equal-by-ordering", File: "routingtable/filter/actions/set_nexthop_action.go", Old: "\treturn a.ip == b.(*SetNextHopAction).ip\n", New: "\treturn a.ip.Compare(b.(*SetNextHopAction).ip) == 0\n", Expect: "equality-not-via-partial-ordering"},
			{Name: "protocol-lists-compared-by-membership", File: "routingtable/filter/term_condition.go", Old: "\tfor i := range t.protocols {\n\t\tif t.protocols[i] != x.protocols[i] {\n\t\t\treturn false\n\t\t}\n\t}\n", New: "\tin := func(l []uint8, v uint8) bool {\n\t\tfor _, e := range l {\n\t\t\tif e == v {\n\t\t\t\treturn true\n\t\t\t}\n\t\t}\n\t\treturn false\n\t}\n\tfor _, pr := range t.protocols {\n\t\tif !in(x.protocols, pr) {\n\t\t\treturn false\n\t\t}\n\t}\n", Expect: "equality-is-not-inclusion"},
			{Name: "chain-rejects-by-default", File: "routingtable/filter/chain.go", Old: "\treturn mp, false\n}", New: "\treturn mp, len(c) > 0\n}", Expect: "evaluator-shape"},
			{Name: "term-needs-all-conditions", File: "routingtable/filter/term.go", Old: "\tfor _, f := range t.from {\n\t\tif f.Matches(p, pa) {\n\t\t\treturn t.processActions(p, pa)\n\t\t}\n\t}\n\n\treturn TermResult{Path: pa}", New: "\tfor _, f := range t.from {\n\t\tif !f.Matches(p, pa) {\n\t\t\treturn TermResult{Path: pa}\n\t\t}\n\t}\n\n\treturn t.processActions(p, pa)", Expect: "evaluator-shape"},
			{Name: "condition-ignores-protocols", File: "routingtable/filter/term_condition.go", Old: "\t\tf.matchesLargeCommunityFilters(pa) &&\n\t\tf.matchesProtocols(pa)", New: "\t\tf.matchesLargeCommunityFilters(pa)", Expect: "condition-is-conjunction-of-all-parts"},
			{Name: "longer-matcher-accepts-equal", File: "routingtable/filter/prefix_matcher.go", Old: "return pattern.Contains(prefix) && prefix.Len() > pattern.Len()", New: "return pattern.Contains(prefix) && prefix.Len() >= pattern.Len() || pattern.Equal(prefix)", Expect: "matcher-table"},
			{Name: "config-longer-maps-to-orlonger", File: "cmd/bio-rd/config/policy.go", Old: "\tcase \"longer\":\n\t\tm = filter.NewLongerMatcher()", New: "\tcase \"longer\":\n\t\tm = filter.NewOrLongerMatcher()", Expect: "config-matcher-table"},
		},
	})
}

const fpkg = "routingtable/filter"

// evaluatorShape checks a "first terminating element wins, thread the path, fall through" loop.
func evaluatorShape(c *core.Ctx, key, listField string, listIsRecv bool, elemCallee string, defaultReject bool) {
	p := c.P
	f := c.MustFunc(key)
	if f == nil {
		return
	}
	var loop *ast.RangeStmt
	ast.Inspect(f.Decl.Body, func(n ast.Node) bool {
		if r, ok := n.(*ast.RangeStmt); ok && loop == nil {
			loop = r
		}
		return true
	})
	name := f.Name()
	if loop == nil {
		c.Fail("evaluator-shape", name+" iterates its list", f.Decl.Pos(), "no range loop over the element list found")
		return
	}
	okList := false
	if listIsRecv {
		okList = core.ObjOf(f.Pkg, loop.X) == core.RecvObj(f)
	} else if fv := core.FieldOf(f.Pkg, loop.X); fv != nil && fv.Name() == listField {
		okList = true
	}
	c.Check(okList && loop.Value != nil, "evaluator-shape", name+" iterates "+listField+" in slice order", loop.Pos(), "the loop does not range over the element list ("+listField+") front to back")
	// call of the element evaluator on the loop variable, result bound to a local
	var res types.Object
	var call *ast.CallExpr
	ast.Inspect(loop.Body, func(n ast.Node) bool {
		as, ok := n.(*ast.AssignStmt)
		if !ok || len(as.Lhs) != 1 || len(as.Rhs) != 1 {
			return true
		}
		cl, ok := core.Unparen(as.Rhs[0]).(*ast.CallExpr)
		if !ok {
			return true
		}
		se, ok := cl.Fun.(*ast.SelectorExpr)
		if ok && se.Sel.Name == elemCallee && core.ObjOf(f.Pkg, se.X) == core.ObjOf(f.Pkg, loop.Value) {
			res, call = core.ObjOf(f.Pkg, as.Lhs[0]), cl
		}
		return true
	})
	if res == nil {
		c.Fail("evaluator-shape", name+" evaluates each element", loop.Pos(), "the loop body does not evaluate the current element")
		return
	}
	// the path handed to the element is the threaded variable
	thread := core.ObjOf(f.Pkg, call.Args[len(call.Args)-1])
	threaded := false
	ast.Inspect(loop.Body, func(n ast.Node) bool {
		as, ok := n.(*ast.AssignStmt)
		if ok && len(as.Lhs) == 1 && core.ObjOf(f.Pkg, as.Lhs[0]) == thread && as.Tok == token.ASSIGN {
			if se, ok := core.Unparen(as.Rhs[0]).(*ast.SelectorExpr); ok && se.Sel.Name == "Path" && core.ObjOf(f.Pkg, se.X) == res {
				// only guard allowed: the element did not terminate
				okG := true
				for _, ft := range core.CtlFactsAt(f, as) {
					tse, isSel := core.Unparen(ft.Expr).(*ast.SelectorExpr)
					if !isSel || tse.Sel.Name != "Terminate" || core.ObjOf(f.Pkg, tse.X) != res || ft.Truth {
						okG = false
					}
				}
				threaded = okG
			}
		}
		return true
	})
	c.Check(threaded && thread != nil, "evaluator-shape", name+" threads the rewritten path into the next element", loop.Pos(), "the path returned by an element is not (unconditionally) handed to the next element")
	// terminating return inside the loop
	termOK := false
	ast.Inspect(loop.Body, func(n ast.Node) bool {
		ret, ok := n.(*ast.ReturnStmt)
		if !ok {
			return true
		}
		guard := false
		extra := false
		for _, ft := range core.CtlFactsAt(f, ret) {
			if se, ok := core.Unparen(ft.Expr).(*ast.SelectorExpr); ok && se.Sel.Name == "Terminate" && core.ObjOf(f.Pkg, se.X) == res && ft.Truth {
				guard = true
			} else {
				extra = true
			}
		}
		pth, rej, _ := resultTriple(f, ret)
		isResField := func(e ast.Expr, name string) bool {
			se, ok := core.Unparen(e).(*ast.SelectorExpr)
			return ok && se.Sel.Name == name && core.ObjOf(f.Pkg, se.X) == res
		}
		if guard && !extra && pth != nil && rej != nil && isResField(pth, "Path") && isResField(rej, "Reject") {
			termOK = true
		}
		return true
	})
	c.Check(termOK, "evaluator-shape", name+" returns the terminating element's path and verdict", loop.Pos(), "the loop does not return (element.Path, element.Reject) exactly when the element terminates")
	// the final return: accept / no terminate
	var last *ast.ReturnStmt
	if n := len(f.Decl.Body.List); n > 0 {
		last, _ = f.Decl.Body.List[n-1].(*ast.ReturnStmt)
	}
	okLast := false
	if last != nil {
		pth, rej, term := resultTriple(f, last)
		isFalse := func(e ast.Expr) bool {
			if e == nil {
				return true
			}
			v := core.ConstOf(f.Pkg, e)
			return v != nil && v.ExactString() == "false"
		}
		okLast = pth != nil && core.ObjOf(f.Pkg, pth) == thread && isFalse(rej) && isFalse(term)
	}
	c.Check(okLast, "evaluator-shape", name+" accepts / continues when nothing terminates", f.Decl.Pos(), "when no element terminates the evaluator does not return the threaded path with `not rejected, not terminated`")
	_ = p
	_ = defaultReject
}

func runC14(c *core.Ctx) {
	equalityNotViaPartialOrdering(c, "equality-not-via-partial-ordering", []string{"routingtable/filter", "routingtable/filter/actions", "net"}, 10)
	eqNotSubset(c, "equality-is-not-inclusion")
	p := c.P
	eqCoverage(c, "equal-covers-behaviour")
	// (2)
	evaluatorShape(c, fpkg+".(Chain).Process", "the chain", true, "Process", false)
	evaluatorShape(c, fpkg+".(*Filter).Process", "terms", false, "Process", false)
	evaluatorShape(c, fpkg+".(*Term).processActions", "then", false, "Do", false)
	if f := c.MustFunc(fpkg + ".(Chain).Process"); f != nil {
		// starts from a copy
		ok := false
		if as, isAs := f.Decl.Body.List[0].(*ast.AssignStmt); isAs && len(as.Rhs) == 1 {
			if cl, isCall := core.Unparen(as.Rhs[0]).(*ast.CallExpr); isCall && core.FuncKey(core.Callee(f.Pkg, cl)) == "route.(*Path).Copy" {
				if se, isSel := cl.Fun.(*ast.SelectorExpr); isSel && core.ObjOf(f.Pkg, se.X) == core.ParamObj(f, 1) {
					ok = true
				}
			}
		}
		c.Check(ok, "evaluator-shape", f.Name()+" works on a copy of the caller's path", f.Decl.Pos(), "Chain.Process does not start by copying the path it was given: in-place actions would rewrite the caller's (stored) path (C13)")
	}
	if f := c.MustFunc(fpkg + ".(*Term).Process"); f != nil {
		pa := p.Func(fpkg + ".(*Term).processActions")
		from := p.Field(fpkg, "Term", "from")
		emptyOK, someOK := false, false
		nRets := 0
		ast.Inspect(f.Decl.Body, func(n ast.Node) bool {
			ret, ok := n.(*ast.ReturnStmt)
			if !ok || len(ret.Results) != 1 {
				return true
			}
			cl, isCall := core.Unparen(ret.Results[0]).(*ast.CallExpr)
			if !isCall || pa == nil || core.Callee(f.Pkg, cl) != pa.Obj {
				return true
			}
			nRets++
			facts := core.CtlFactsAt(f, ret)
			for _, ft := range facts {
				if !ft.Enclosing {
					continue
				}
				if be, isB := ft.Expr.(*ast.BinaryExpr); isB && be.Op == token.EQL && ft.Truth && core.MentionsField(f.Pkg, be.X, from) {
					if v := core.ConstOf(f.Pkg, be.Y); v != nil && v.ExactString() == "0" && len(facts) == 1 {
						emptyOK = true
					}
				}
				if mc := core.CallOf(f, ft.Expr); mc != nil && ft.Truth && core.FuncKey(core.Callee(f.Pkg, mc)) == fpkg+".(*TermCondition).Matches" {
					// inside a range over t.from, on the loop variable
					for _, anc := range core.PathTo(f.Decl.Body, ret) {
						if r, isR := anc.(*ast.RangeStmt); isR && core.FieldOf(f.Pkg, r.X) == from {
							if se, isSel := mc.Fun.(*ast.SelectorExpr); isSel && core.ObjOf(f.Pkg, se.X) == core.ObjOf(f.Pkg, r.Value) {
								someOK = true
							}
						}
					}
				}
			}
			return true
		})
		c.Check(emptyOK && someOK && nRets == 2, "evaluator-shape", f.Name()+" applies iff no conditions or some condition matches", f.Decl.Pos(), "the term's actions are not run exactly under `len(from) == 0` or `some condition in from matches`")
		var last *ast.ReturnStmt
		if n := len(f.Decl.Body.List); n > 0 {
			last, _ = f.Decl.Body.List[n-1].(*ast.ReturnStmt)
		}
		okLast := false
		if last != nil && len(last.Results) == 1 {
			pth, rej, term := resultTriple(f, last)
			okLast = pth != nil && core.ObjOf(f.Pkg, pth) == core.ParamObj(f, 1) && rej == nil && term == nil
		}
		c.Check(okLast, "evaluator-shape", f.Name()+" passes the path on when no condition matches", f.Decl.Pos(), "a term whose conditions do not match does not pass the path on unchanged and unterminated")
	}
	// TermCondition.Matches
	if f := c.MustFunc(fpkg + ".(*TermCondition).Matches"); f != nil {
		fields := p.Fields(fpkg, "TermCondition")
		covered := map[*types.Var]string{}
		okConj := false
		if len(f.Decl.Body.List) == 1 {
			if ret, ok := f.Decl.Body.List[0].(*ast.ReturnStmt); ok && len(ret.Results) == 1 {
				okConj = true
				var walk func(e ast.Expr)
				walk = func(e ast.Expr) {
					e = core.Unparen(e)
					if be, ok := e.(*ast.BinaryExpr); ok && be.Op == token.LAND {
						walk(be.X)
						walk(be.Y)
						return
					}
					cl, ok := e.(*ast.CallExpr)
					g := p.FnOf(core.Callee(f.Pkg, cl))
					if !ok || g == nil || core.RecvName(g.Obj) != "TermCondition" {
						okConj = false
						return
					}
					c.Analysed(g)
					// which field does the part read, and is it `empty or any`?
					var own []*types.Var
					for _, a := range core.FieldAccesses(g.Pkg, g.Decl.Body) {
						for _, fv := range fields {
							if a.Field == fv && !a.Write {
								dup := false
								for _, o := range own {
									if o == fv {
										dup = true
									}
								}
								if !dup {
									own = append(own, fv)
								}
							}
						}
					}
					if len(own) != 1 {
						c.Fail("condition-is-conjunction-of-all-parts", g.Name()+" reads one list", g.Decl.Pos(), "part matcher does not read exactly one field of TermCondition")
						return
					}
					covered[own[0]] = g.Name()
					emptyTrue, anyTrue, endFalse := false, false, false
					ast.Inspect(g.Decl.Body, func(n ast.Node) bool {
						r, isRet := n.(*ast.ReturnStmt)
						if !isRet || len(r.Results) != 1 {
							return true
						}
						v := core.ConstOf(g.Pkg, r.Results[0])
						if v == nil {
							return true
						}
						facts := core.CtlFactsAt(g, r)
						if v.ExactString() == "true" {
							for _, ft := range facts {
								if !ft.Enclosing {
									continue
								}
								if be, isB := ft.Expr.(*ast.BinaryExpr); isB && be.Op == token.EQL && ft.Truth && core.MentionsField(g.Pkg, be.X, own[0]) {
									emptyTrue = true
								}
								inLoop := false
								for _, anc := range core.PathTo(g.Decl.Body, r) {
									if rs, isR := anc.(*ast.RangeStmt); isR && core.FieldOf(g.Pkg, rs.X) == own[0] {
										inLoop = true
									}
								}
								if inLoop && ft.Truth && !core.MentionsField(g.Pkg, ft.Expr, own[0]) {
									anyTrue = true
								}
							}
						}
						if v.ExactString() == "false" && r == g.Decl.Body.List[len(g.Decl.Body.List)-1] {
							endFalse = true
						}
						return true
					})
					c.Check(emptyTrue && anyTrue && endFalse, "condition-is-conjunction-of-all-parts", g.Name()+" is `empty or any element matches`", g.Decl.Pos(), "part matcher is not of the form: empty list → true; some element matches → true; otherwise false")
				}
				walk(ret.Results[0])
			}
		}
		c.Check(okConj, "condition-is-conjunction-of-all-parts", f.Name()+" is a conjunction of part matchers", f.Decl.Pos(), "TermCondition.Matches is not a single `part && part && …` of its own part matchers")
		for _, fv := range fields {
			_, ok := covered[fv]
			c.Check(ok, "condition-is-conjunction-of-all-parts", f.Name()+" consults "+fv.Name(), f.Decl.Pos(), "the condition never consults its "+fv.Name()+": a term restricted by it applies to every route")
		}
	}
	// (3) matcher tables
	matcherTables(c)
	// the containment arithmetic the matchers rest on: the structural clauses of C15
	runC15(c)
	// RouteFilter.Matches argument order
	if f := c.MustFunc(fpkg + ".(*RouteFilter).Matches"); f != nil {
		ok := false
		pat := p.Field(fpkg, "RouteFilter", "pattern")
		for _, cl := range core.CallsAll(f.Pkg, f.Decl.Body, func(*types.Func) bool { return true }) {
			if se, isSel := cl.Fun.(*ast.SelectorExpr); isSel && se.Sel.Name == "Match" && len(cl.Args) == 2 {
				ok = core.FieldOf(f.Pkg, cl.Args[0]) == pat && core.ObjOf(f.Pkg, cl.Args[1]) == core.ParamObj(f, 0)
			}
		}
		c.Check(ok, "matcher-table", f.Name()+" calls matcher.Match(pattern, prefix)", f.Decl.Pos(), "the route filter hands (pattern, prefix) to its matcher in the wrong order or not at all")
	}
	// (4) config keywords
	if f := c.MustFunc("cmd/bio-rd/config.(*RouteFilter).toFilterRouteFilter"); f != nil {
		want := map[string]string{"exact": "NewExactMatcher", "orlonger": "NewOrLongerMatcher", "longer": "NewLongerMatcher", "range": "NewInRangeMatcher"}
		seen := map[string]bool{}
		ast.Inspect(f.Decl.Body, func(n ast.Node) bool {
			cc, ok := n.(*ast.CaseClause)
			if !ok || len(cc.List) != 1 {
				return true
			}
			v := core.ConstOf(f.Pkg, cc.List[0])
			if v == nil {
				return true
			}
			kw := strings.Trim(v.ExactString(), "\"")
			ctor := ""
			for _, cl := range core.CallsAll(f.Pkg, cc, func(o *types.Func) bool {
				return strings.HasPrefix(o.Name(), "New") && strings.HasSuffix(o.Name(), "Matcher")
			}) {
				ctor = core.Callee(f.Pkg, cl).Name()
			}
			if w, ok := want[kw]; ok {
				seen[kw] = true
				c.Check(ctor == w, "config-matcher-table", "config matcher keyword "+kw+" → "+w, cc.Pos(), fmt.Sprintf("keyword %q builds %s instead of %s", kw, ctor, w))
			}
			return true
		})
		for kw := range want {
			c.Check(seen[kw], "config-matcher-table", "config matcher keyword "+kw+" is handled", f.Decl.Pos(), "keyword not handled")
		}
	}
}

// matcherTables: evaluate each Match method over the atoms eq := pattern.Equal(prefix), cont := pattern.Contains(prefix)
// (strict: Contains implies longer) and the lengths.
func matcherTables(c *core.Ctx) {
	p := c.P
	type spec struct {
		typ  string
		want func(eq, cont bool, plen, patlen, min, max int64) bool
	}
	specs := []spec{
		{"ExactMatcher", func(eq, cont bool, plen, patlen, min, max int64) bool { return eq }},
		{"OrLongerMatcher", func(eq, cont bool, plen, patlen, min, max int64) bool { return eq || cont }},
		{"LongerMatcher", func(eq, cont bool, plen, patlen, min, max int64) bool { return cont && plen > patlen }},
		{"InRangeMatcher", func(eq, cont bool, plen, patlen, min, max int64) bool {
			return (eq || cont) && plen >= min && plen <= max
		}},
	}
	for _, s := range specs {
		f := c.MustFunc(fpkg + ".(*" + s.typ + ").Match")
		if f == nil {
			continue
		}
		pat, pfx := core.ParamObj(f, 0), core.ParamObj(f, 1)
		rows, bad := 0, 0
		first := ""
		for _, eq := range []bool{false, true} {
			for _, cont := range []bool{false, true} {
				if eq && cont {
					continue // Contains is strict
				}
				for _, patlen := range []int64{16} {
					for _, plen := range []int64{8, 16, 20, 24, 28} {
						// consistency of the atoms with the lengths
						if eq && plen != patlen {
							continue
						}
						if cont && plen <= patlen {
							continue
						}
						for _, mm := range [][2]int64{{18, 24}, {16, 16}, {20, 32}} {
							env := core.NewEnv()
							env.Prog = p
							env.Exprs[pat.Name()+".Equal("+pfx.Name()+")"] = core.BoolVal(eq)
							env.Exprs[pat.Name()+".Contains("+pfx.Name()+")"] = core.BoolVal(cont)
							env.Exprs[pfx.Name()+".Len()"] = core.IntVal(plen)
							env.Exprs[pat.Name()+".Len()"] = core.IntVal(patlen)
							if mn := p.Field(fpkg, "InRangeMatcher", "min"); mn != nil {
								env.Fields[mn] = core.IntVal(mm[0])
								env.Fields[p.Field(fpkg, "InRangeMatcher", "max")] = core.IntVal(mm[1])
							}
							rows++
							ret, err := core.Outcome(f, env)
							if err != nil {
								c.Undecided("matcher-table", f.Name(), f.Decl.Pos(), err.Error())
								return
							}
							v, ok := core.Eval(f, ret.Results[0], env)
							want := s.want(eq, cont, plen, patlen, mm[0], mm[1])
							if !ok {
								c.Undecided("matcher-table", f.Name(), ret.Pos(), "result not evaluable over the atoms (pattern.Equal(prefix), pattern.Contains(prefix), lengths)")
								return
							}
							if v.B != want {
								bad++
								if first == "" {
									first = fmt.Sprintf("equal=%v contains=%v prefixlen=%d patternlen=%d range=%v: code=%v definition=%v", eq, cont, plen, patlen, mm, v.B, want)
								}
							}
						}
					}
				}
			}
		}
		c.Check(bad == 0, "matcher-table", f.Name()+fmt.Sprintf(" agrees with its definition on %d valuations", rows), f.Decl.Pos(), fmt.Sprintf("%d disagreements; first: %s", bad, first))
	}
}

// resultTriple extracts (path, reject, terminate) expressions from a return of (path, reject) or of a result struct literal.
func resultTriple(f *core.Fn, ret *ast.ReturnStmt) (pth, rej, term ast.Expr) {
	if len(ret.Results) == 2 {
		return ret.Results[0], ret.Results[1], nil
	}
	if len(ret.Results) != 1 {
		return nil, nil, nil
	}
	cl, ok := core.Unparen(ret.Results[0]).(*ast.CompositeLit)
	if !ok {
		return nil, nil, nil
	}
	for _, e := range cl.Elts {
		kv, ok := e.(*ast.KeyValueExpr)
		if !ok {
			continue
		}
		id, _ := kv.Key.(*ast.Ident)
		if id == nil {
			continue
		}
		switch id.Name {
		case "Path":
			pth = kv.Value
		case "Reject":
			rej = kv.Value
		case "Terminate":
			term = kv.Value
		}
	}
	return
}
