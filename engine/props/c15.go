package props

import (
	"fmt"
	"go/ast"
	"go/constant"
	"go/token"
	"go/types"
	"math/big"

	"verif/engine/core"
)

func init() {
	Register(&Prop{
		Meta: core.Meta{
			ID: "C15", Title: "Prefix and address arithmetic matches the bit-level definitions", Level: "other",
			Technique:   "shift/mask width agreement (R-WIDTH) on the typed AST of package net: shift base vs. operand width, all-ones constant width, half-word thresholds and position bounds from the dominating guards",
			DesignRef:   "DESIGN.md §3 R-WIDTH, §4 C15",
			Decided:     "(0) IP.Compare is a lexicographic comparison in normal form of the high address word, then the low word, by the unsigned operators on the words themselves, +1 for the greater receiver (so address ordering is the numerical order of the 128-bit value); (0b) every equality in containsIPv4/containsIPv6 compares E[pfx.addr] with E[x.addr] for one and the same E (locals inlined): both addresses are masked alike; in every non-constant shift `K op (B − e)` of the address/prefix helpers of package net (containment, supernet, validity, base address, bit-at-position, last-N-bits masks): (1) the base B equals the width W of the shifted operand, or 2·W where the low half of a 128-bit address is selected; (2) an all-ones constant used as the shifted mask is all-ones of width W (a narrower one yields a mask that misses the high bits for every e); (3) the bounds the dominating guards put on e agree with B: the high-half branch is taken for exactly e ≤ 64, the low-half branch for e > 64, and a position guard does not exclude the legal position e = B.  Evaluating the idiom at the boundary shows any other constant gives a wrong mask/bit for some legal input.",
			NotDecided:  "everything else in the statement: containment, supernet, base address as numerical results over 2^128 values, and the print/parse round trip, are not decidable by this family; R-WIDTH does not see logic errors that keep widths consistent.",
			TrustedBase: stdTrusted,
		},
		Run: runC15,
		Controls: []Control{
			{Name: "address-equality-by-ordering", File: "net/ip.go", Old: "func (ip *IP) Equal(other IP) bool {\n", New: "func (ip *IP) Equal(other IP) bool {\n\tif ip.Compare(&other) != 0 {\n\t\treturn false\n\t}\n", Expect: "equality-not-via-partial-ordering"},
			{Name: "containment-masks-one-address-only", File: "net/prefix.go", Old: "\treturn (pfx.addr.ToUint32() & mask) == (x.addr.ToUint32() & mask)\n", New: "\treturn pfx.addr.ToUint32() == (x.addr.ToUint32() & mask)\n", Expect: "containment-treats-both-addresses-alike"},
			{Name: "refactor-containment-through-locals", Silent: true, File: "net/prefix.go", Old: "\treturn (pfx.addr.ToUint32() & mask) == (x.addr.ToUint32() & mask)\n", New: "\tmine := pfx.addr.ToUint32() & mask\n\ttheirs := x.addr.ToUint32() & mask\n\treturn theirs == mine\n"},
			{Name: "supernet-half-chosen-by-other-length", File: "net/prefix.go", Old: "\tif pfxLen > 64 {\n\t\tmask := uint64(math.MaxUint64 << (128 - pfxLen))", New: "\tif maxPfxLen > 64 {\n\t\tmask := uint64(math.MaxUint64 << (128 - pfxLen))", Expect: "bound-agrees-with-base"},
			{Name: "address-order-by-subtraction", File: "net/ip.go", Old: "\tif ip.lower > other.lower {\n\t\treturn 1\n\t}\n\n\tif ip.lower < other.lower {\n\t\treturn -1\n\t}\n", New: "\tif int64(ip.lower-other.lower) > 0 {\n\t\treturn 1\n\t}\n\n\tif int64(ip.lower-other.lower) < 0 {\n\t\treturn -1\n\t}\n", Expect: "address-ordering"},
			{Name: "address-order-low-word-first", File: "net/ip.go", Old: "\tif ip.higher > other.higher {\n\t\treturn 1\n\t}\n\n\tif ip.higher < other.higher {\n\t\treturn -1\n\t}\n\n\tif ip.lower > other.lower {\n\t\treturn 1\n\t}\n\n\tif ip.lower < other.lower {\n\t\treturn -1\n\t}\n", New: "\tif ip.lower > other.lower {\n\t\treturn 1\n\t}\n\n\tif ip.lower < other.lower {\n\t\treturn -1\n\t}\n\n\tif ip.higher > other.higher {\n\t\treturn 1\n\t}\n\n\tif ip.higher < other.higher {\n\t\treturn -1\n\t}\n", Expect: "address-ordering"},
			{Name: "ipv6-mask-from-32-bit-constant", File: "net/prefix.go", Old: "\t\tmaskHigh = math.MaxUint64 << (64 - pfx.len)", New: "\t\tmaskHigh = math.MaxUint32 << (64 - pfx.len)", Expect: "mask-constant-width"},
			{Name: "bit-position-guard-excludes-last-bit", File: "net/ip.go", Old: "\tif pos > 32 {\n\t\treturn false\n\t}", New: "\tif pos >= 32 {\n\t\treturn false\n\t}", Expect: "bound-agrees-with-base"},
			{Name: "half-threshold-off", File: "net/prefix.go", Old: "\tif p.len <= 64 {\n\t\taddr.lower = 0", New: "\tif p.len < 64 {\n\t\taddr.lower = 0", Expect: "bound-agrees-with-base"},
			{Name: "shift-base-wrong-width", File: "net/prefix.go", Old: "return x<<(32-n) == 0", New: "return x<<(64-n) == 0", Expect: "shift-base-width"},
		},
	})
}

func typeWidth(t types.Type) int {
	b, ok := t.Underlying().(*types.Basic)
	if !ok {
		return 0
	}
	switch b.Kind() {
	case types.Uint8, types.Int8:
		return 8
	case types.Uint16, types.Int16:
		return 16
	case types.Uint32, types.Int32:
		return 32
	case types.Uint64, types.Int64:
		return 64
	}
	return 0
}

// addressOrdering: IP.Compare orders addresses as 128-bit unsigned numbers: a lexicographic comparison of the high word,
// then the low word, each by the unsigned operators < and > on the words themselves (no arithmetic on them: a
// subtraction-based comparator inverts the order whenever the words are 2^63 or more apart).
func addressOrdering(c *core.Ctx) {
	const rule = "address-ordering"
	c.Floor(rule, 3)
	f := c.MustFunc("net.(*IP).Compare")
	if f == nil {
		return
	}
	c.Analysed(f)
	form := core.AnalyzeComparator(f, func(*types.Func) bool { return false })
	for _, pr := range form.Problems {
		c.Fail(rule, f.Name()+" "+pr.Key+" shape", pr.Pos, pr.What+" — the comparison is not a lexicographic comparison of the address words by < and >")
	}
	c.Check(form.Ends0, rule, f.Name()+" reports equality last", f.Decl.Pos(), "the comparator does not end in `return 0`")
	want := []string{"$.higher", "$.lower"}
	for i, w := range want {
		ok := i < len(form.Steps) && form.Steps[i].Key == w && form.Steps[i].Prefers == "higher" && form.Steps[i].Guarded == ""
		pos := f.Decl.Pos()
		got := "no such step"
		if i < len(form.Steps) {
			pos = form.Steps[i].Pos
			got = form.Steps[i].Key + " (+1 for the " + form.Steps[i].Prefers + " one)"
		}
		c.Check(ok, rule, fmt.Sprintf("%s step %d compares %s, greater receiver first", f.Name(), i+1, w), pos, "step "+fmt.Sprint(i+1)+" of the address comparison is "+got+", expected the word "+w+" with +1 for the greater receiver: the order of addresses (and everything sorted by it: best-path tie-break on peer address, next hops) is not the numerical order")
	}
	c.Check(len(form.Steps) == len(want), rule, f.Name()+" compares exactly the two address words", f.Decl.Pos(), fmt.Sprintf("%d comparison steps found, expected 2", len(form.Steps)))
}

func runC15(c *core.Ctx) {
	equalityNotViaPartialOrdering(c, "equality-not-via-partial-ordering", []string{"net"}, 2)
	p := c.P
	addressOrdering(c)
	containmentMirror(c)
	pk := p.Pkg("net")
	if pk == nil {
		c.Undecided("anchor", "net", token.NoPos, "package not found")
		return
	}
	c.Floor("shift-base-width", 14)
	c.Floor("mask-constant-width", 4)
	c.Floor("bound-agrees-with-base", 6)
	shiftRules(c, func(*core.Fn) bool { return true })
	// both halves take part in IPv6 containment: every return of containsIPv6 compares the upper halves, and the
	// return(s) reachable for lengths above 64 compare the lower halves too
	if f := c.MustFunc("net.(*Prefix).containsIPv6"); f != nil {
		hiF, loF := p.Field("net", "IP", "higher"), p.Field("net", "IP", "lower")
		lenF := p.Field("net", "Prefix", "len")
		nRet := 0
		ast.Inspect(f.Decl.Body, func(n ast.Node) bool {
			ret, ok := n.(*ast.ReturnStmt)
			if !ok || len(ret.Results) != 1 || core.ConstOf(f.Pkg, ret.Results[0]) != nil {
				return true
			}
			nRet++
			count := func(fv *types.Var) int {
				k := 0
				var walk func(e ast.Node, depth int)
				walk = func(e ast.Node, depth int) {
					ast.Inspect(e, func(m ast.Node) bool {
						if ex, isE := m.(ast.Expr); isE {
							if core.FieldOf(f.Pkg, ex) == fv {
								k++
							}
							if id, isId := ex.(*ast.Ident); isId && depth < 3 {
								if o := core.ObjOf(f.Pkg, id); o != nil {
									if v, isV := o.(*types.Var); isV && !v.IsField() {
										for _, d := range core.DefsOf(f, o) {
											walk(d, depth+1)
										}
									}
								}
							}
						}
						return true
					})
				}
				walk(ret.Results[0], 0)
				return k
			}
			// which lengths reach this return?
			_, hi, _, haveHi := core.BoundsOn(f, ret, &ast.SelectorExpr{})
			_ = hi
			lenLE64 := false
			for _, ft := range core.FactsAt(f, ret) {
				if be, isB := ft.Expr.(*ast.BinaryExpr); isB && core.FieldOf(f.Pkg, be.X) == lenF {
					if v := core.ConstOf(f.Pkg, be.Y); v != nil && v.ExactString() == "64" && ((be.Op == token.LEQ && ft.Truth) || (be.Op == token.GTR && !ft.Truth)) {
						lenLE64 = true
					}
				}
			}
			_ = haveHi
			c.Check(count(hiF) >= 2, "both-halves-compared", fmt.Sprintf("%s return #%d compares the upper halves", f.Name(), nRet), ret.Pos(), "IPv6 containment result does not depend on the upper 64 bits of both addresses: prefixes that differ there are reported as contained")
			if !lenLE64 {
				c.Check(count(loF) >= 2, "both-halves-compared", fmt.Sprintf("%s return #%d compares the lower halves for lengths above 64", f.Name(), nRet), ret.Pos(), "for prefix lengths above 64 the containment result does not depend on the lower 64 bits of both addresses")
			}
			return true
		})
		c.Check(nRet >= 1, "both-halves-compared", f.Name()+" has a computed result", f.Decl.Pos(), "no computed return")
	}
	// constant shifts by a variable n (maskLastNBits): mask constant must match the target width
	for _, k := range []string{"net.(IP).maskLastNBitsIPv4", "net.(IP).maskLastNBitsIPv6"} {
		f := p.Func(k)
		if f == nil {
			continue
		}
		ast.Inspect(f.Decl.Body, func(n ast.Node) bool {
			be, ok := n.(*ast.BinaryExpr)
			if !ok || be.Op != token.SHL {
				return true
			}
			xv := core.ConstOf(f.Pkg, be.X)
			xt := f.Pkg.TypesInfo.TypeOf(be.X)
			if xv == nil || xt == nil {
				return true
			}
			bi, _ := new(big.Int).SetString(xv.ExactString(), 10)
			if bi == nil {
				return true
			}
			plus := new(big.Int).Add(bi, big.NewInt(1))
			kbits := plus.BitLen() - 1
			c.Check(kbits == typeWidth(xt), "mask-constant-width", f.Name()+" `"+core.ExprString(be)+"`", be.Pos(), fmt.Sprintf("all-ones constant of %d bits used for a %d-bit mask", kbits, typeWidth(xt)))
			return true
		})
	}
}

// shiftRules applies the R-WIDTH rules to the shift idioms of package net (shared by C15 and, for the functions the trie
// relies on, C01).
func shiftRules(c *core.Ctx, scope func(*core.Fn) bool) {
	p := c.P
	fam := addressFamilies(p)
	for _, f := range p.FuncsIn("net") {
		if f.Decl.Body == nil || !scope(f) {
			continue
		}
		ord := 0
		ast.Inspect(f.Decl.Body, func(n ast.Node) bool {
			be, ok := n.(*ast.BinaryExpr)
			if !ok || (be.Op != token.SHL && be.Op != token.SHR) {
				return true
			}
			// shift count of the form (B - e) with constant B and non-constant e
			cnt, ok := core.Unparen(be.Y).(*ast.BinaryExpr)
			if !ok || cnt.Op != token.SUB {
				return true
			}
			bv := core.ConstOf(f.Pkg, cnt.X)
			if bv == nil || core.ConstOf(f.Pkg, cnt.Y) != nil {
				return true
			}
			B, _ := constant.Int64Val(bv)
			// operand width
			xt := f.Pkg.TypesInfo.TypeOf(be.X)
			W := 0
			if xt != nil {
				W = typeWidth(xt)
			}
			ord++
			c.Analysed(f)
			site := fmt.Sprintf("%s shift #%d `%s`", f.Name(), ord, core.ExprString(be))
			if W == 0 {
				c.Undecided("shift-base-width", site, be.Pos(), "cannot determine the width of the shifted operand")
				return true
			}
			switch fam[f] {
			case 4:
				c.Check(B == 32, "shift-base-width", site, be.Pos(),
					fmt.Sprintf("shift count is (%d − e) in a function that is only reached for IPv4 addresses (32 bits): for prefix length/position e = 32 the idiom must shift by 0; with base %d it does not", B, B))
			case 6:
				c.Check(B == 64 || B == 128, "shift-base-width", site, be.Pos(),
					fmt.Sprintf("shift count is (%d − e) in a function that is only reached for IPv6 addresses (two 64-bit halves): the base must be 64 (high half) or 128 (low half)", B))
			default:
				c.Check(int(B) == W || (W == 64 && B == 128), "shift-base-width", site, be.Pos(),
					fmt.Sprintf("shift count is (%d − e) but the shifted operand is %d bits wide: for e = %d the idiom must shift by 0 and for e = 0 by the full width; with base %d it does neither", B, W, W, B))
			}
			if fam[f] == 6 && B == 128 {
				W = 64
			}
			// (2) all-ones constants
			if xv := core.ConstOf(f.Pkg, be.X); xv != nil && xv.Kind() == constant.Int {
				bi, okb := new(big.Int).SetString(xv.ExactString(), 10)
				if okb && bi.Cmp(big.NewInt(1)) > 0 {
					plus := new(big.Int).Add(bi, big.NewInt(1))
					if plus.BitLen()-1 > 0 && new(big.Int).Lsh(big.NewInt(1), uint(plus.BitLen()-1)).Cmp(plus) == 0 {
						k := plus.BitLen() - 1
						c.Check(k == W, "mask-constant-width", site, be.Pos(),
							fmt.Sprintf("the shifted mask constant is all-ones of %d bits but the mask is %d bits wide: the upper %d bits of the result are always 0, so those address bits are ignored", k, W, W-k))
					}
				}
			}
			// (3) bounds on e from the dominating guards
			lo, hi, haveLo, haveHi := core.BoundsOn(f, be, cnt.Y)
			// an IPv6 prefix length (0..128) subtracted from a base without the matching half-word guard wraps around
			if fam[f] == 6 && isPrefixLen(f, cnt.Y) {
				switch B {
				case 64:
					c.Check(haveHi && hi <= 64, "bound-agrees-with-base", site+" guarded by len ≤ 64", be.Pos(),
						"shift by (64 − prefix length) is not dominated by a `length ≤ 64` guard: for lengths above 64 the uint8 subtraction wraps, the shift clears the whole word and the upper 64 address bits are ignored")
				case 128:
					c.Check(haveLo && lo >= 65, "bound-agrees-with-base", site+" guarded by len > 64", be.Pos(),
						"shift by (128 − prefix length) is not dominated by a `length > 64` guard: for lengths up to 64 the shift is ≥ 64 and the mask degenerates")
				}
			}
			if haveHi {
				c.Check(hi == B, "bound-agrees-with-base", site+" upper bound", be.Pos(),
					fmt.Sprintf("the guards admit e ≤ %d here but the shift base is %d: legal value e = %d is excluded or values beyond the base are admitted", hi, B, B))
			}
			if haveLo && B == 128 && W == 64 {
				c.Check(lo == 65, "bound-agrees-with-base", site+" lower bound", be.Pos(),
					fmt.Sprintf("the low-half branch is taken for e ≥ %d; it must be taken exactly for e > 64 (shift (128 − e) must stay below 64)", lo))
			}
			return true
		})
	}
}

// addressFamilies infers, for the functions of package net, whether they are reached only for IPv4 (4) or only for
// IPv6 (6) addresses: from the `isLegacy` facts at their call sites inside the package, transitively.
func addressFamilies(p *core.Prog) map[*core.Fn]int {
	legacy := p.Field("net", "IP", "isLegacy")
	fam := map[*core.Fn]int{}
	if legacy == nil {
		return fam
	}
	type site struct {
		caller *core.Fn
		call   *ast.CallExpr
	}
	sites := map[*core.Fn][]site{}
	fns := p.FuncsIn("net")
	for _, f := range fns {
		if f.Decl.Body == nil {
			continue
		}
		for _, call := range core.CallsAll(f.Pkg, f.Decl.Body, func(*types.Func) bool { return true }) {
			if g := p.FnOf(core.Callee(f.Pkg, call)); g != nil && g.Pkg == f.Pkg {
				sites[g] = append(sites[g], site{f, call})
			}
		}
	}
	for changed, iter := true, 0; changed && iter < 10; iter++ {
		changed = false
		for _, f := range fns {
			if fam[f] != 0 || len(sites[f]) == 0 {
				continue
			}
			v := 0
			ok := true
			for _, s := range sites[f] {
				sv := fam[s.caller]
				for _, ft := range core.FactsAt(s.caller, s.call) {
					if ft.Expr != nil && core.FieldOf(s.caller.Pkg, ft.Expr) == legacy {
						if ft.Truth {
							sv = 4
						} else {
							sv = 6
						}
					}
				}
				if sv == 0 || (v != 0 && v != sv) {
					ok = false
					break
				}
				v = sv
			}
			if ok && v != 0 {
				fam[f] = v
				changed = true
			}
		}
	}
	return fam
}

// isPrefixLen: e is the Prefix.len field or a local initialised from expressions bounded by it (min of lengths).
func isPrefixLen(f *core.Fn, e ast.Expr) bool {
	if fv := core.FieldOf(f.Pkg, e); fv != nil && fv.Name() == "len" {
		return true
	}
	// a local count of leading bits (supernet computation) ranges over the same 0..128
	if id, ok := core.Unparen(e).(*ast.Ident); ok {
		if v, isV := f.Pkg.TypesInfo.ObjectOf(id).(*types.Var); isV && !v.IsField() && !isParamExpr(f, id) {
			if b, isB := v.Type().Underlying().(*types.Basic); isB && b.Info()&types.IsUnsigned != 0 {
				return true
			}
		}
	}
	return false
}
