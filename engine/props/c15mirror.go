package props

import (
	"go/ast"
	"go/token"
	"go/types"
	"strings"

	"verif/engine/core"
)

// containmentMirror: "pfx contains x" compares the two ADDRESSES under the container's mask.  Both addresses must go
// through the same computation: every equality in containsIPv4/containsIPv6 has the form E[pfx.addr] == E[x.addr] — the
// two operands are the same expression once the address of the receiver / of the argument is abstracted (single-
// assignment locals are inlined first).  An asymmetric comparison (one side masked, the other raw) is wrong for every
// container that has host bits set.
func containmentMirror(c *core.Ctx) {
	const rule = "containment-treats-both-addresses-alike"
	p := c.P
	c.Floor(rule, 2)
	addrF := p.Field("net", "Prefix", "addr")
	for _, k := range []string{"net.(*Prefix).containsIPv4", "net.(*Prefix).containsIPv6"} {
		f := c.MustFunc(k)
		if f == nil || addrF == nil {
			continue
		}
		c.Analysed(f)
		recv := recvObj(f)
		sig := f.Obj.Type().(*types.Signature)
		if recv == nil || sig.Params().Len() != 1 {
			c.Undecided(rule, k, f.Decl.Pos(), "unexpected signature")
			continue
		}
		param := types.Object(sig.Params().At(0))
		canon := func(e ast.Expr) string { return canonExpr(f, e, recv, param, addrF, 0) }
		n := 0
		check := func(x, y ast.Expr, pos token.Pos) {
			n++
			a, b := canon(x), canon(y)
			// one operand must be built from the receiver's address, the other from the argument's, and be equal otherwise
			ok := (strings.Contains(a, "«R»") && !strings.Contains(a, "«X»") && strings.Contains(b, "«X»") && !strings.Contains(b, "«R»") &&
				strings.ReplaceAll(a, "«R»", "«A»") == strings.ReplaceAll(b, "«X»", "«A»")) ||
				(strings.Contains(b, "«R»") && !strings.Contains(b, "«X»") && strings.Contains(a, "«X»") && !strings.Contains(a, "«R»") &&
					strings.ReplaceAll(b, "«R»", "«A»") == strings.ReplaceAll(a, "«X»", "«A»"))
			c.Check(ok, rule, f.Name()+" equality `"+core.ExprString(x)+"` ⇔ `"+core.ExprString(y)+"`", pos,
				"the two sides of the containment test are not the same function of the two addresses (left: "+a+"; right: "+b+"): one address is masked/cut differently from the other, so containers with host bits set (interface addresses such as 10.0.0.1/24) give a wrong answer")
		}
		ast.Inspect(f.Decl.Body, func(nd ast.Node) bool {
			switch x := nd.(type) {
			case *ast.BinaryExpr:
				if x.Op == token.EQL || x.Op == token.NEQ {
					if core.ConstOf(f.Pkg, x.X) == nil && core.ConstOf(f.Pkg, x.Y) == nil {
						check(x.X, x.Y, x.Pos())
					}
				}
			case *ast.CallExpr:
				if sel, ok := x.Fun.(*ast.SelectorExpr); ok && len(x.Args) == 1 && (sel.Sel.Name == "Equal" || sel.Sel.Name == "Compare") {
					check(sel.X, x.Args[0], x.Pos())
				}
			}
			return true
		})
		c.Check(n >= 1, rule, f.Name()+" compares the addresses", f.Decl.Pos(), "no equality test found")
	}
}

// canonExpr prints e with single-assignment locals inlined, recv.addr as «R» and param.addr as «X».
func canonExpr(f *core.Fn, e ast.Expr, recv, param types.Object, addrF *types.Var, depth int) string {
	if depth > 6 {
		return "…"
	}
	rec := func(x ast.Expr) string { return canonExpr(f, x, recv, param, addrF, depth+1) }
	e = core.Unparen(e)
	switch x := e.(type) {
	case *ast.Ident:
		o := f.Pkg.TypesInfo.ObjectOf(x)
		if v, ok := o.(*types.Var); ok && !v.IsField() && o != recv && o != param {
			if defs := core.DefsOf(f, o); len(defs) == 1 {
				return "(" + rec(defs[0]) + ")"
			}
		}
		return x.Name
	case *ast.SelectorExpr:
		if core.FieldOf(f.Pkg, x) == addrF {
			switch core.ObjOf(f.Pkg, x.X) {
			case recv:
				return "«R»"
			case param:
				return "«X»"
			}
		}
		return rec(x.X) + "." + x.Sel.Name
	case *ast.CallExpr:
		var as []string
		for _, a := range x.Args {
			as = append(as, rec(a))
		}
		return rec(x.Fun) + "(" + strings.Join(as, ",") + ")"
	case *ast.BinaryExpr:
		return "(" + rec(x.X) + x.Op.String() + rec(x.Y) + ")"
	case *ast.UnaryExpr:
		return x.Op.String() + rec(x.X)
	case *ast.StarExpr:
		return "*" + rec(x.X)
	case *ast.IndexExpr:
		return rec(x.X) + "[" + rec(x.Index) + "]"
	case *ast.BasicLit:
		return x.Value
	case *ast.CompositeLit:
		var es []string
		for _, el := range x.Elts {
			if kv, ok := el.(*ast.KeyValueExpr); ok {
				es = append(es, core.ExprString(kv.Key)+":"+rec(kv.Value))
			} else {
				es = append(es, rec(el))
			}
		}
		return core.ExprString(x.Type) + "{" + strings.Join(es, ",") + "}"
	}
	return core.ExprString(e)
}
