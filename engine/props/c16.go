package props

import (
	"fmt"
	"strings"

	"verif/engine/core"
)

func init() {
	Register(&Prop{
		Meta: core.Meta{
			ID: "C16", Title: "BGP message decoding is total and bounded", Level: "other",
			Technique:   "panic-capable-operation enumeration on the typed AST with structural discharge rules (R-PCO), producer/consumer dynamic-type tables, allocation-size and loop-form checks (R-TAINT) over everything statically reachable from packet.Decode",
			DesignRef:   "DESIGN.md §3 R-PCO/R-TAINT, §4 C16",
			Decided:     "for every function reachable from packet.Decode (all 16 option combinations: options are only branch conditions) in protocols/bgp/packet and util/decode: (1) every explicit index, slice, unchecked type assertion, integer division and panic() is discharged — constant index into a fixed-size value, loop index bounded by the length or by the make() bound, dominating length test, dominating store/type switch, success returns of the callee, the producer/consumer type table, or one of two reviewed relational arguments whose guards are re-verified on every run; (2) every make() size is a constant, of a ≤ 16-bit type, or derived from len() of bytes already received; (3) every `for` loop counts towards a bounded limit, counts down by a constant, or consumes at least one input byte per iteration and stops on a read error.",
			NotDecided:  "termination and memory of library code (bytes.Buffer, encoding/binary) are trusted; implicit operations (nil dereference of values the decoder itself built, map reads) are not enumerated; wrap-around of uint8/uint16 cursors only matters for C19 (what gets installed), not for totality, because every cursor loop also consumes input.",
			TrustedBase: append([]string{"bytes.Buffer / encoding/binary read functions return an error at end of input", "tflow2/convert.UintNNByte return slices of N/8 bytes"}, stdTrusted...),
		},
		Run: runC16,
		Controls: []Control{
			{Name: "host-bit-mask-with-signed-shift-count", File: "net/prefix.go", Old: "\t\treturn checkLastNBitsUint32(uint32(p.addr.lower), 32-p.len)\n", New: "\t\treturn uint32(p.addr.lower)&(uint32(1)<<(32-int(p.len))-1) == 0\n", Expect: "no-panic"},
			{Name: "refactor-mp-reach-without-budget-variable", Silent: true, File: "protocols/bgp/packet/mp_reach_nlri.go", Old: "\tbudget -= int(nextHopLength)\n\n\tif budget == 0 {\n\t\treturn n, nil\n\t}\n", New: "\tif variableLength == int(nextHopLength) {\n\t\treturn n, nil\n\t}\n"},
			{Name: "mp-reach-reserved-octet-not-accounted", File: "protocols/bgp/packet/mp_reach_nlri.go", Old: "\tif budget == 0 {\n\t\treturn n, nil\n\t}\n", New: "\tif budget < 0 {\n\t\treturn n, nil\n\t}\n", Expect: "no-panic"},
			{Name: "label-read-may-be-short", File: "protocols/bgp/packet/label.go", Old: "\tlabel := make([]byte, BytesPerLabel)\n\t_, err := buf.Read(label)\n\tif err != nil {\n\t\treturn LabelStackEntry(0), fmt.Errorf(\"read failed: %w\", err)\n\t}\n", New: "\tlabel := buf.Next(BytesPerLabel)\n\tif len(label) == 0 {\n\t\treturn LabelStackEntry(0), fmt.Errorf(\"read failed\")\n\t}\n", Expect: "no-panic"},
			{Name: "mp-reach-guard-on-wrong-length", File: "protocols/bgp/packet/mp_reach_nlri.go", Old: "\tif budget < int(nextHopLength) {", New: "\tif budget < int(nextHopLength)/2 {", Expect: "no-panic"},
			{Name: "community-count-32bit", File: "protocols/bgp/packet/path_attributes.go", Old: "\tu := make([]byte, pa.Length)\n", New: "\tu := make([]byte, int(pa.Length)<<16)\n", Expect: "bounded-allocation"},
			{Name: "nlri-loop-without-progress", File: "protocols/bgp/packet/nlri.go", Old: "\tfor p < length {\n\t\tnlri, consumed, err = decodeNLRI(buf, afi, safi, addPath)\n\t\tif err != nil {\n\t\t\treturn nil, fmt.Errorf(\"unable to decode NLRI: %w\", err)\n\t\t}\n\t\tp += uint16(consumed)\n", New: "\tfor p < length {\n\t\tif addPath && buf.Len() == 0 {\n\t\t\tcontinue\n\t\t}\n\t\tnlri, consumed, err = decodeNLRI(buf, afi, safi, addPath)\n\t\tif err != nil {\n\t\t\treturn nil, fmt.Errorf(\"unable to decode NLRI: %w\", err)\n\t\t}\n\t\tp += uint16(consumed)\n", Expect: "bounded-loop"},
		},
	})
}

func bgpDecodeScope(f *core.Fn) bool {
	path := f.Pkg.PkgPath
	return strings.HasSuffix(path, "protocols/bgp/packet") || strings.HasSuffix(path, "util/decode") || strings.HasSuffix(path, "util/decoder")
}

func runC16(c *core.Ctx) {
	root := c.MustFunc("protocols/bgp/packet.Decode")
	if root == nil {
		return
	}
	var unions []*unionTable
	for _, u := range bgpUnions {
		unions = append(unions, buildUnionTable(c, u))
	}
	nf, nops := decoderScope(c, "", []*core.Fn{root}, bgpDecodeScope, unions)
	c.Check(nf >= 40, "scope", "functions reachable from packet.Decode", root.Decl.Pos(), "fewer functions reachable from the decoder entry than confirmed by hand (40): the call graph root moved")
	c.Check(nops >= 5, "scope", "panic-capable operations enumerated", root.Decl.Pos(), "fewer explicit panic-capable operations than confirmed by hand")
	c.Floor("bounded-allocation", 8)
	c.Floor("bounded-loop", 8)
	// the address helpers of package net that the decoder calls (Prefix.Valid, NewPfx, …): shifts by a signed count
	// (negative count = panic) are decided there too; their index operations depend on the standard library's net.IP
	// shapes and stay outside the scope
	nShift := 0
	for _, f := range c.P.ReachableFns(root) {
		if !strings.HasSuffix(f.Pkg.PkgPath, "bio-rd/net") || f.Decl.Body == nil {
			continue
		}
		for _, o := range core.PanicOps(f) {
			if o.Kind != "shift" {
				continue
			}
			nShift++
			c.Analysed(f)
			construct := fmt.Sprintf("%s %s #%d %s", f.Name(), o.Kind, o.Ord, exprOfNode(o.Node))
			if ok, why, _ := c.P.LinearDischarge(f, o.Node); ok {
				c.Hold("no-panic", construct, o.Node.Pos(), why)
			} else {
				c.Fail("no-panic", construct, o.Node.Pos(), "shift by a signed count that is not shown to be non-negative ("+why+") in an address helper the UPDATE decoder calls: a negative count panics — e.g. `32 - int(len)` for an IPv4-mapped IPv6 NLRI whose length exceeds 32")
			}
		}
	}
	_ = nShift
}
