package props

import (
	"fmt"
	"go/ast"
	"go/token"
	"go/types"
	"sort"
	"strings"

	"verif/engine/core"
)

const pktPkg = "protocols/bgp/packet"

func init() {
	Register(&Prop{
		Meta: core.Meta{
			ID: "C17", Title: "Every BGP message bio-rd emits is well-formed and round-trips", Level: "other",
			Technique:   "narrowing-conversion guard check (R-TAINT) over the serializers; size-effect analysis (R-SIZE: linear forms in collection sizes, core/size.go) for the message length field and the 4096 gate; guard-equivalence of the extended-length flag and the width of the length field; switch-table agreement of encoder and decoder",
			DesignRef:   "DESIGN.md §4 C17",
			Decided:     "(0) the linked lists of attributes/NLRI are built by appending behind a cursor that is advanced to the element just linked in; (1) every conversion of a len()-derived integer to one octet that a serializer writes as a length or count is dominated by a test that it fits (or the extended-length branch is taken when it does not); (2) in every attribute serializer the condition under which the extended-length flag is set is the condition under which the two-octet length is written, and it tests the value that is written; (3) for OPEN, UPDATE, NOTIFICATION and KEEPALIVE the length passed to the header equals the number of bytes the serializer appends (as linear forms), and SerializeUpdate returns bytes only when a dominating test bounds that same quantity by 4096; (4) the AS_PATH segment split in Prepend tests the number of ASNs of the first segment; (5) every attribute type the encoder has a typed serializer for is one the decoder decodes into that type (otherwise a received unknown attribute with that code crashes the encoder's type assertion).",
			NotDecided:  "byte-for-byte round-trip equality of the content (value equality is not a shape of the code); flags other than extended length.",
			TrustedBase: stdTrusted,
		},
		Run: runC17,
		Controls: []Control{
			{Name: "empty-segment-serialized", File: "protocols/bgp/packet/path_attributes.go", Old: "\t\tif len(segment.ASNs) == 0 {\n\t\t\tcontinue\n\t\t}\n", New: "", Expect: "no-empty-segment-on-the-wire"},
			{Name: "attribute-copied-without-its-flags", File: "protocols/bgp/server/update_sender.go", Old: "\t\t\tcurCopy = cur.Copy()\n", New: "\t\t\tcurCopy = &packet.PathAttribute{TypeCode: cur.TypeCode, Value: cur.Value}\n", Expect: "hand-written-copy-names-every-field"},
			{Name: "send-only-peer-falls-through-to-tx", File: "protocols/bgp/server/fsm_open_sent.go", Old: "\t\tcase packet.AddPathSend:\n\t\t\tif peerAddressFamily.addPathReceive {\n\t\t\t\tf.addPathRX = true\n\t\t\t}\n\t\tcase packet.AddPathSendReceive:\n", New: "\t\tcase packet.AddPathSend:\n\t\t\tif peerAddressFamily.addPathReceive {\n\t\t\t\tf.addPathRX = true\n\t\t\t}\n\t\t\tfallthrough\n\t\tcase packet.AddPathSendReceive:\n", Expect: "capability-needs-both-sides"},
			{Name: "decoder-rejects-the-role-mismatch-sub-code", File: "protocols/bgp/packet/decoder.go", Old: "\t\tif (msg.ErrorSubcode > UnacceptableHoldTime && msg.ErrorSubcode != RoleMismatchError) || msg.ErrorSubcode == 0 || msg.ErrorSubcode == DeprecatedOpenMsgError5 {", New: "\t\tif msg.ErrorSubcode > UnacceptableHoldTime || msg.ErrorSubcode == 0 || msg.ErrorSubcode == DeprecatedOpenMsgError5 {", Expect: "emitted-notifications-decode"},
			{Name: "as-path-position-advanced-by-a-narrow-product", File: "protocols/bgp/packet/path_attributes.go", Old: "\t\t\tp += uint16(asnLength)\n", New: "\t\t\tp += uint16(asnLength*count) / uint16(count)\n", Expect: "product-computed-in-the-wide-type"},
			{Name: "header-octet-counted-before-the-length-is-written", File: "protocols/bgp/packet/path_attributes.go", Old: "\tbuf.WriteByte(CommunitiesAttr)\n\n\tif length < 256 {\n\t\tbuf.WriteByte(uint8(length))\n\t} else {\n\t\tbuf.Write(convert.Uint16Byte(length))\n\t\tlength++\n\t}\n", New: "\tbuf.WriteByte(CommunitiesAttr)\n\n\tif length >= 256 {\n\t\tlength++\n\t}\n\tif length < 256 {\n\t\tbuf.WriteByte(uint8(length))\n\t} else {\n\t\tbuf.Write(convert.Uint16Byte(length))\n\t}\n", Expect: "length-field-written-as-computed"},
			{Name: "unknown-attributes-appended-behind-wrong-cursor", File: "protocols/bgp/packet/path_attributes.go", Old: "\t\t\tValue:      unknownAttr.Value,\n\t\t}\n\t\tlast = last.Next\n", New: "\t\t\tValue:      unknownAttr.Value,\n\t\t}\n\t\tlast = optionals.Next\n", Expect: "list-append-advances-cursor"},
			{Name: "refactor-threshold-written-differently", Silent: true, File: "protocols/bgp/packet/path_attributes.go", Old: "\tlength := uint16(CommunityLen * len(*coms))\n\n\tattrFlags := uint8(0)\n\tattrFlags = setOptional(attrFlags)\n\tattrFlags = setTransitive(attrFlags)\n\tattrFlags = setPartial(attrFlags)\n\tif length > 255 {", New: "\tlength := uint16(CommunityLen * len(*coms))\n\n\tattrFlags := uint8(0)\n\tattrFlags = setOptional(attrFlags)\n\tattrFlags = setTransitive(attrFlags)\n\tattrFlags = setPartial(attrFlags)\n\tif length >= 256 {"},
			{Name: "extended-flag-per-segment", File: "protocols/bgp/packet/path_attributes.go", Old: "\tif length > 255 {\n\t\tattrFlags = setExtendedLength(attrFlags)\n\t}\n\n\tbuf.WriteByte(attrFlags)\n\tbuf.WriteByte(ASPathAttr)", New: "\tif asnLength > 255 {\n\t\tattrFlags = setExtendedLength(attrFlags)\n\t}\n\n\tbuf.WriteByte(attrFlags)\n\tbuf.WriteByte(ASPathAttr)", Expect: "extended-length-agreement"},
			{Name: "gate-on-body-length", File: "protocols/bgp/packet/update.go", Old: "\ttotalLength := 2 + withdrawnRoutesLen + totalPathAttributesLen + 2 + nlriBuf.Len() + 19\n\tif totalLength > 4096 {", New: "\ttotalLength := 2 + withdrawnRoutesLen + totalPathAttributesLen + 2 + nlriBuf.Len() + 19\n\tif totalLength-19 > 4096 {", Expect: "size-gate"},
			{Name: "header-length-omits-field", File: "protocols/bgp/packet/update.go", Old: "\tserializeHeader(buf, uint16(totalLength), UpdateMsg)", New: "\tserializeHeader(buf, uint16(totalLength-2), UpdateMsg)", Expect: "header-length-is-effect"},
			{Name: "prepend-split-on-segment-count", File: "route/bgp_path.go", Old: "\t\tif len((*b.ASPath)[0].ASNs) >= types.MaxASNsSegment {", New: "\t\tif len(*b.ASPath) == types.MaxASNsSegment {", Expect: "segment-split"},
			{Name: "unknown-attribute-flag-not-derived", File: "protocols/bgp/packet/path_attributes.go", Old: "\tb := pa.Value.([]byte)\n\tif len(b) > math.MaxUint8 {\n\t\tpa.ExtendedLength = true\n\t}\n", New: "\tb := pa.Value.([]byte)\n", Expect: "length-octet-fits"},
			{Name: "cluster-list-one-octet-length", File: "protocols/bgp/packet/path_attributes.go", Old: "\tlength := uint16(ClusterIDLen * len(*cids))\n", New: "\tlength := uint16(uint8(ClusterIDLen * len(*cids)))\n", Expect: "length-octet-fits"},
			{Name: "cluster-list-nil-deref", File: "protocols/bgp/packet/path_attributes.go", Old: "\tif cids == nil || len(*cids) == 0 {", New: "\tif len(*cids) == 0 {", Expect: "nilable-attribute-guarded"},
			{Name: "communities-length-unguarded", File: "protocols/bgp/packet/path_attributes.go", Old: "\tif length < 256 {\n\t\tbuf.WriteByte(uint8(length))\n\t} else {\n\t\tbuf.Write(convert.Uint16Byte(length))\n\t\tlength++\n\t}\n\n\tfor _, com := range *coms {\n\t\tbuf.Write(convert.Uint32Byte(com))", New: "\tif length < 512 {\n\t\tbuf.WriteByte(uint8(length))\n\t} else {\n\t\tbuf.Write(convert.Uint16Byte(length))\n\t\tlength++\n\t}\n\n\tfor _, com := range *coms {\n\t\tbuf.Write(convert.Uint32Byte(com))", Expect: "length-octet-fits"},
		},
	})
}

// thresholdFact recognises a comparison of an expression with 255/256 and returns the expression and whether the fact says "fits into one octet".
func thresholdFact(f *core.Fn, ft core.Fact) (x ast.Expr, fits bool, ok bool) {
	be, isB := core.Unparen(ft.Expr).(*ast.BinaryExpr)
	if !isB {
		return nil, false, false
	}
	cv := func(e ast.Expr) (int64, bool) {
		v := core.ConstOf(f.Pkg, e)
		if v == nil {
			return 0, false
		}
		return constantInt(v)
	}
	l, r, op := be.X, be.Y, be.Op
	if _, isC := cv(l); isC {
		l, r = r, l
		switch op {
		case token.GTR:
			op = token.LSS
		case token.LSS:
			op = token.GTR
		case token.GEQ:
			op = token.LEQ
		case token.LEQ:
			op = token.GEQ
		}
	}
	c, isC := cv(r)
	if !isC {
		return nil, false, false
	}
	var says bool // the comparison itself means "> 255"
	switch {
	case op == token.GTR && c == 255, op == token.GEQ && c == 256:
		says = true
	case op == token.LSS && c == 256, op == token.LEQ && c == 255:
		says = false
	case op == token.GTR && c < 255 && c >= 0 && !ft.Truth, op == token.GEQ && c < 256 && c >= 0 && !ft.Truth,
		op == token.LSS && c < 256 && c >= 0 && ft.Truth, op == token.LEQ && c < 255 && c >= 0 && ft.Truth:
		return l, true, true // a tighter bound than one octet: fits
	default:
		return nil, false, false
	}
	big := says == ft.Truth
	return l, !big, true
}

// clampIdiom:  n := …; if n > K { n = K' } (K, K' ≤ 255, no else), then uint8(n) with no other assignment in between.
func clampIdiom(f *core.Fn, call *ast.CallExpr, arg ast.Expr) bool {
	obj := core.ObjOf(f.Pkg, arg)
	if obj == nil {
		return false
	}
	var clamp *ast.IfStmt
	ast.Inspect(f.Decl.Body, func(nd ast.Node) bool {
		ifs, ok := nd.(*ast.IfStmt)
		if !ok || ifs.Else != nil || ifs.End() > call.Pos() || len(ifs.Body.List) != 1 {
			return true
		}
		x, fits, isTh := thresholdFact(f, core.Fact{Expr: ifs.Cond, Truth: false})
		if !isTh || !fits || core.ObjOf(f.Pkg, x) != obj {
			return true
		}
		as, isAs := ifs.Body.List[0].(*ast.AssignStmt)
		if !isAs || len(as.Lhs) != 1 || core.ObjOf(f.Pkg, as.Lhs[0]) != obj || as.Tok != token.ASSIGN {
			return true
		}
		if v := core.ConstOf(f.Pkg, as.Rhs[0]); v != nil {
			if k, exact := constantInt(v); exact && k >= 0 && k <= 255 {
				clamp = ifs
			}
		}
		return true
	})
	if clamp == nil {
		return false
	}
	// same block, and no assignment to the variable between the clamp and the conversion
	par := core.Parents(f.Decl.Body)
	inSameBlock := false
	for n := ast.Node(call); n != nil; n = par[n] {
		if n == par[clamp] {
			inSameBlock = true
		}
	}
	if !inSameBlock {
		return false
	}
	other := false
	ast.Inspect(f.Decl.Body, func(nd ast.Node) bool {
		switch x := nd.(type) {
		case *ast.AssignStmt:
			for _, l := range x.Lhs {
				if core.ObjOf(f.Pkg, l) == obj && x.Pos() > clamp.End() && x.Pos() < call.Pos() {
					other = true
				}
			}
		case *ast.IncDecStmt:
			if core.ObjOf(f.Pkg, x.X) == obj && x.Pos() > clamp.End() && x.Pos() < call.Pos() {
				other = true
			}
		}
		return true
	})
	return !other
}

// lenDerived: does e (transitively through single local definitions) contain a len() call?
func lenDerived(f *core.Fn, e ast.Expr, depth int) bool {
	found := false
	ast.Inspect(e, func(n ast.Node) bool {
		switch x := n.(type) {
		case *ast.CallExpr:
			if id, ok := x.Fun.(*ast.Ident); ok && id.Name == "len" {
				if _, isB := f.Pkg.TypesInfo.ObjectOf(id).(*types.Builtin); isB {
					found = true
				}
			}
			if se, ok := x.Fun.(*ast.SelectorExpr); ok && se.Sel.Name == "Len" {
				found = true
			}
		case *ast.Ident:
			if depth < 3 {
				if o, isVar := f.Pkg.TypesInfo.ObjectOf(x).(*types.Var); isVar && !o.IsField() {
					for _, d := range core.DefsOf(f, o) {
						if d != e && lenDerived(f, d, depth+1) {
							found = true
						}
					}
				}
			}
		}
		return !found
	})
	return found
}

func runC17(c *core.Ctx) {
	boundTestSeesTheWideSum(c, "bound-test-sees-the-wide-sum", "protocols/bgp/packet", "protocols/bgp/types")
	handWrittenCopiesAreComplete(c, "hand-written-copy-names-every-field")
	capabilityStores(c)
	p := c.P
	roots := []*core.Fn{}
	for _, k := range []string{pktPkg + ".(*PathAttribute).Serialize", pktPkg + ".(*BGPUpdate).SerializeUpdate", pktPkg + ".SerializeOpenMsg", pktPkg + ".SerializeNotificationMsg", pktPkg + ".SerializeKeepaliveMsg"} {
		if f := c.MustFunc(k); f != nil {
			roots = append(roots, f)
		}
	}
	var sers []*core.Fn
	for _, f := range p.ReachableFns(roots...) {
		if f.Decl.Body != nil && strings.HasSuffix(f.Pkg.PkgPath, pktPkg) {
			sers = append(sers, f)
		}
	}
	sort.Slice(sers, func(i, j int) bool { return sers[i].Name() < sers[j].Name() })

	// (1) one-octet narrowing ---------------------------------------------------------------------------------------
	// reviewed: sizes that depend only on the local configuration
	reviewed := map[string]string{
		pktPkg + ".SerializeOpenMsg":              "length of the optional parameters of our own OPEN: determined by the (at most seven) capabilities bio-rd announces and two address families, far below 255",
		pktPkg + ".serializeOptParams":            "one optional parameter of our own OPEN (the capability list): configuration-bounded as above",
		pktPkg + ".(Capabilities).serialize":      "capability list of our own OPEN: configuration-bounded",
		pktPkg + ".(Capability).serialize":        "one capability of our own OPEN: fixed-size values and at most two add-path/extended-next-hop tuples",
		pktPkg + ".(AddPathCapability).serialize": "add-path tuples of our own OPEN: one per configured family",
	}
	c.Floor("length-octet-fits", 6)
	for _, f := range sers {
		c.Analysed(f)
		n := 0
		ast.Inspect(f.Decl.Body, func(nd ast.Node) bool {
			call, ok := nd.(*ast.CallExpr)
			if !ok || len(call.Args) != 1 {
				return true
			}
			tv, isT := f.Pkg.TypesInfo.Types[call.Fun]
			if !isT || !tv.IsType() {
				return true
			}
			b, isBasic := tv.Type.Underlying().(*types.Basic)
			if !isBasic || (b.Kind() != types.Uint8 && b.Kind() != types.Int8) {
				return true
			}
			arg := core.Unparen(call.Args[0])
			if core.ConstOf(f.Pkg, arg) != nil {
				return true
			}
			at := f.Pkg.TypesInfo.TypeOf(arg)
			if ab, isAB := at.Underlying().(*types.Basic); !isAB || ab.Info()&types.IsInteger == 0 || ab.Kind() == types.Uint8 || ab.Kind() == types.Int8 {
				return true
			}
			if !lenDerived(f, arg, 0) {
				return true
			}
			n++
			construct := fmt.Sprintf("%s narrowing #%d uint8(%s)", f.Name(), n, core.ExprString(arg))
			if why, isRev := reviewed[f.Name()]; isRev {
				c.Hold("length-octet-fits", construct, call.Pos(), "reviewed: "+why)
				return true
			}
			// explicit truncation idioms
			if be, isB := arg.(*ast.BinaryExpr); isB {
				if be.Op == token.AND {
					c.Hold("length-octet-fits", construct, call.Pos(), "explicit mask: deliberate low octet")
					return true
				}
				if be.Op == token.SHR {
					if v := core.ConstOf(f.Pkg, be.Y); v != nil {
						if k, exact := constantInt(v); exact && k >= 8 {
							c.Hold("length-octet-fits", construct, call.Pos(), "high octet of a value the 4096-octet gate bounds (≤ 4096 < 65536)")
							return true
						}
					}
				}
			}
			// dominating bound on the argument or on the variable it was computed into
			fits := false
			for _, ft := range core.FactsAt(f, call) {
				x, ok, isTh := thresholdFact(f, ft)
				if !isTh || !ok {
					continue
				}
				if core.SameExpr(f.Pkg, x, arg) {
					fits = true
				}
				// len(b) tested, uint8(len(b)) written
				if xs, as := core.ExprString(x), core.ExprString(arg); xs == as {
					fits = true
				}
			}
			// flag idiom: `if len(b) > 255 { flag = true }` earlier, and this write is on the !flag branch
			if !fits {
				fits = flagIdiom(f, call, arg)
			}
			if !fits {
				fits = clampIdiom(f, call, arg)
			}
			// len(x) of a byte slice whose length has a constant upper bound (an address)
			if !fits {
				if lc, isLen := arg.(*ast.CallExpr); isLen && len(lc.Args) == 1 {
					if o := core.ObjOf(f.Pkg, lc.Args[0]); o != nil {
						if ds := core.DefsOf(f, o); len(ds) == 1 {
							an := core.NewSizeAn(p, true, nil)
							fr := an.NewFrame(f, true)
							if b := fr.Bytes(core.NewSzState(), ds[0], true); b.IsConst() && b.C <= 255 {
								c.Hold("length-octet-fits", construct, call.Pos(), fmt.Sprintf("the slice has at most %d octets on every path (size analysis of %s)", b.C, core.ExprString(ds[0])))
								return true
							}
						}
					}
				}
			}
			// AS_PATH segment count: invariant "a segment holds at most 255 ASNs", established by every writer
			if !fits {
				if asns := p.Field("protocols/bgp/types", "ASPathSegment", "ASNs"); asns != nil && core.MentionsField(f.Pkg, arg, asns) {
					if segmentInvariant(c) {
						c.Hold("length-octet-fits", construct, call.Pos(), "invariant: every writer of ASPathSegment.ASNs keeps a segment at ≤ 255 ASNs (rule segment-size-invariant)")
						return true
					}
				}
			}
			// label stack: only the decoder fills it, from a one-octet bit count
			if !fits && labelStackOnlyFromDecoder(c, f, arg) {
				c.Hold("length-octet-fits", construct, call.Pos(), "precondition checked: NLRI.LabelStack is written only by decodeNLRI, which takes at most 255/24 labels from the wire's one-octet bit length; no sender fills it")
				return true
			}
			c.Check(fits, "length-octet-fits", construct, call.Pos(),
				"a len()-derived value is narrowed to one octet and written as a length/count without a dominating test that it is below 256: with more elements the octet wraps around and the emitted message is malformed (the peer resets the session or misparses the rest of the UPDATE)")
			return true
		})
	}

	// (2) extended-length flag ⇔ two-octet length ----------------------------------------------------------------
	setExt := p.Func(pktPkg + ".setExtendedLength")
	nExt := 0
	for _, f := range sers {
		if setExt == nil {
			break
		}
		for _, call := range core.Calls(f.Pkg, f.Decl.Body, func(o *types.Func) bool { return o == setExt.Obj }) {
			nExt++
			construct := f.Name() + " extended-length flag"
			// condition of the flag
			var flagX ast.Expr
			flagBig, flagTh := false, false
			var flagField *types.Var
			for _, ft := range core.CtlFactsAt(f, call) {
				if x, fits, ok := thresholdFact(f, ft); ok {
					flagX, flagBig, flagTh = x, !fits, true
				}
				if fv := core.FieldOf(f.Pkg, ft.Expr); fv != nil && ft.Truth {
					flagField = fv
				}
			}
			// the two-octet write(s): Write(convert.Uint16Byte(L)) or WriteByte(uint8(L >> 8))
			okAgree, found := false, false
			ast.Inspect(f.Decl.Body, func(nd ast.Node) bool {
				w, isCall := nd.(*ast.CallExpr)
				if !isCall {
					return true
				}
				se, isSel := w.Fun.(*ast.SelectorExpr)
				if !isSel || len(w.Args) != 1 {
					return true
				}
				var L ast.Expr
				if se.Sel.Name == "Write" {
					if in, isIn := core.Unparen(w.Args[0]).(*ast.CallExpr); isIn && len(in.Args) == 1 {
						if cal := core.Callee(f.Pkg, in); cal != nil && cal.Name() == "Uint16Byte" {
							L = in.Args[0]
						}
					}
				}
				if se.Sel.Name == "WriteByte" {
					if conv, isConv := core.Unparen(w.Args[0]).(*ast.CallExpr); isConv && len(conv.Args) == 1 {
						if be, isB := core.Unparen(conv.Args[0]).(*ast.BinaryExpr); isB && be.Op == token.SHR {
							L = be.X
						}
					}
				}
				if L == nil {
					return true
				}
				// only length fields of the attribute header: written to the same buffer as the flag octet, guarded
				for _, ft := range core.CtlFactsAt(f, w) {
					if x, fits, ok := thresholdFact(f, ft); ok && flagTh {
						found = true
						sameTested := core.ExprString(x) == core.ExprString(flagX)
						writtenIsTested := core.ExprString(core.Unparen(L)) == core.ExprString(x) || definedAs(f, L, x)
						if sameTested && !fits == flagBig && flagBig && writtenIsTested {
							okAgree = true
						}
					}
					if fv := core.FieldOf(f.Pkg, ft.Expr); fv != nil && ft.Truth && flagField != nil && !flagTh {
						found = true
						if fv == flagField {
							okAgree = true
						}
					}
				}
				return true
			})
			if !found {
				c.Fail("extended-length-agreement", construct, call.Pos(), "the extended-length flag is set but no two-octet length write guarded by a matching condition was found")
				continue
			}
			c.Check(okAgree, "extended-length-agreement", construct, call.Pos(),
				"the condition under which the extended-length flag is set differs from the condition under which the two-octet length is written (or tests a different quantity than the length that is written): for some attribute sizes the header says one width and the body has the other, the UPDATE does not decode")
		}
	}
	c.Check(nExt >= 4, "extended-length-agreement", "serializers that set the extended-length flag", token.NoPos, fmt.Sprintf("found %d, hand-confirmed floor is 4", nExt))

	// (3) header length = effect; 4096 gate ----------------------------------------------------------------------------
	hdr := p.Func(pktPkg + ".serializeHeader")
	for _, k := range []string{pktPkg + ".SerializeKeepaliveMsg", pktPkg + ".SerializeNotificationMsg", pktPkg + ".SerializeOpenMsg", pktPkg + ".(*BGPUpdate).SerializeUpdate"} {
		f := p.Func(k)
		if f == nil || hdr == nil {
			continue
		}
		for _, upper := range []bool{true, false} {
			an := core.NewSizeAn(p, upper, nil)
			an.Opaque["net.(*Prefix).BytesInPrefix"] = true
			an.OpaqueBuffersIn = f
			fr := an.NewFrame(f, upper)
			st := core.NewSzState()
			var hdrArg core.Lin
			seen := false
			an.OnCall = func(cf *core.SzFrame, st *core.SzState, call *ast.CallExpr) {
				if cf.Fn == f && core.Callee(f.Pkg, call) == hdr.Obj && len(call.Args) == 3 {
					hdrArg = cf.Int(st, call.Args[1], upper)
					seen = true
				}
			}
			out, vals := fr.RunBytes(st)
			dir := "lower"
			if upper {
				dir = "upper"
			}
			construct := fmt.Sprintf("%s header length field = bytes appended (%s bound)", f.Name(), dir)
			if out == nil || len(vals) == 0 || !seen {
				c.Undecided("header-length-is-effect", construct, f.Decl.Pos(), "size effect could not be computed (no success path or header call not seen)")
				continue
			}
			eff := vals[0]
			if !eff.Known() || !hdrArg.Known() {
				c.Undecided("header-length-is-effect", construct, f.Decl.Pos(), "outside the analysed fragment: effect="+eff.String()+" header="+hdrArg.String())
				continue
			}
			d := eff.Sub(hdrArg)
			c.Check(d.IsConst() && d.C == 0, "header-length-is-effect", construct, f.Decl.Pos(),
				"the length written into the message header ("+hdrArg.String()+") is not the number of bytes the serializer appends ("+eff.String()+"): the peer frames the stream wrongly")
		}
	}
	if f := c.MustFunc(pktPkg + ".(*BGPUpdate).SerializeUpdate"); f != nil {
		sizeGate(c, f)
	}

	listAppendAdvancesCursor(c)
	lengthWrittenAsComputed(c)
	productComputedWide(c)
	emittedNotificationsDecode(c)
	noEmptySegmentOnTheWire(c)
	appendedTailIsUsed(c, "appended-tail-is-used")

	// (6) attribute values that may be nil are guarded at the producer or in the serializer -------------------------------
	nilableAttributes(c)

	// (4) segment split: abstract interpretation of Prepend over the state of the first segment (prependai.go) ------------
	if res := prependAbstract(c); res.Fn != nil {
		f := res.Fn
		c.Analysed(f)
		construct := f.Name() + " opens a new AS_SEQUENCE when the first segment is full"
		switch {
		case len(res.Undecided) > 0:
			c.Undecided("segment-split", construct, f.Decl.Pos(), "abstract interpretation of Prepend incomplete: "+strings.Join(res.Undecided, "; "))
		default:
			var bad []string
			pos := f.Decl.Pos()
			for _, v := range res.Viol {
				if v.kind == "size" {
					bad = append(bad, p.Pos(v.pos)+" reached with first segment = "+v.st.String())
					pos = v.pos
				}
			}
			c.Check(len(bad) == 0 && res.Writes >= 1, "segment-split", construct, pos,
				"the write that grows the first segment can execute while that segment already holds 255 ASNs ("+strings.Join(bad, "; ")+"): prepending produces a 256-ASN segment, whose one-octet count wraps to 0 on the wire")
		}
	}

	// (5) encoder-known ⊆ decoder-known ---------------------------------------------------------------------------------
	enc, dec := p.Func(pktPkg+".(*PathAttribute).Serialize"), p.Func(pktPkg+".decodePathAttr")
	if enc != nil && dec != nil {
		codes := func(f *core.Fn) map[string]bool {
			out := map[string]bool{}
			typeF := p.Field(pktPkg, "PathAttribute", "TypeCode")
			ast.Inspect(f.Decl.Body, func(nd ast.Node) bool {
				sw, ok := nd.(*ast.SwitchStmt)
				if !ok || sw.Tag == nil || core.FieldOf(f.Pkg, sw.Tag) != typeF {
					return true
				}
				for _, cs := range sw.Body.List {
					for _, e := range cs.(*ast.CaseClause).List {
						if co := core.ConstObjOf(f.Pkg, e); co != nil {
							out[co.Name()] = true
						}
					}
				}
				return false
			})
			return out
		}
		e, d := codes(enc), codes(dec)
		var names []string
		for k := range e {
			names = append(names, k)
		}
		sort.Strings(names)
		for _, k := range names {
			c.Check(d[k], "attribute-switch-agreement", "encoder arm "+k+" has a decoder arm", enc.Decl.Pos(),
				"the encoder has a typed serializer for "+k+" but the decoder treats that type code as unknown and stores raw bytes: re-advertising such a received attribute runs the typed serializer on a []byte value and panics in its type assertion")
		}
		c.Check(len(names) >= 13, "attribute-switch-agreement", "encoder arms found", enc.Decl.Pos(), fmt.Sprintf("found %d, floor 13", len(names)))
	}
}

// labelStackOnlyFromDecoder: arg mentions NLRI.LabelStack, and that field is assigned only inside decodeNLRI (and by
// composite literals nowhere outside test code).
func labelStackOnlyFromDecoder(c *core.Ctx, f *core.Fn, arg ast.Expr) bool {
	p := c.P
	ls := p.Field(pktPkg, "NLRI", "LabelStack")
	if ls == nil || !core.MentionsField(f.Pkg, arg, ls) {
		return false
	}
	ok := true
	for _, g := range p.AllFuncs() {
		if g.Decl.Body == nil {
			continue
		}
		ast.Inspect(g.Decl.Body, func(nd ast.Node) bool {
			switch x := nd.(type) {
			case *ast.AssignStmt:
				for _, l := range x.Lhs {
					if core.FieldOf(g.Pkg, l) == ls && g.Name() != pktPkg+".decodeNLRI" {
						ok = false
					}
				}
			case *ast.CompositeLit:
				if t := g.Pkg.TypesInfo.TypeOf(x); t != nil && strings.HasSuffix(t.String(), "packet.NLRI") {
					for _, el := range x.Elts {
						if kv, isKV := el.(*ast.KeyValueExpr); isKV {
							if id, isId := kv.Key.(*ast.Ident); isId && id.Name == "LabelStack" {
								ok = false
							}
						}
					}
				}
			}
			return true
		})
	}
	return ok
}

// segmentInvariant: every non-test writer of ASPathSegment.ASNs keeps the segment at ≤ 255 ASNs.
var segInvDone = map[*core.Ctx]bool{}
var segInvRes = map[*core.Ctx]bool{}

func segmentInvariant(c *core.Ctx) bool {
	if segInvDone[c] {
		return segInvRes[c]
	}
	segInvDone[c] = true
	p := c.P
	asns := p.Field("protocols/bgp/types", "ASPathSegment", "ASNs")
	reviewed := map[string]string{
		"protocols/bgp/types.ASPathFromProtoASPath": "import from the gRPC API: the path was produced by another RIB under the same invariant (received from the wire or built by Prepend); not re-validated",
		"protocols/bgp/types.NewASPath":             "constructor for locally originated paths (callers pass a handful of ASNs)",
	}
	all := true
	n := 0
	bounded := func(f *core.Fn, e ast.Expr) (bool, string) {
		e = core.Unparen(e)
		if cl, ok := e.(*ast.CompositeLit); ok && len(cl.Elts) <= 255 {
			return true, "literal"
		}
		if call, ok := e.(*ast.CallExpr); ok {
			if id, isId := call.Fun.(*ast.Ident); isId && id.Name == "make" && len(call.Args) >= 2 {
				if v := core.ConstOf(f.Pkg, call.Args[1]); v != nil {
					if k, exact := constantInt(v); exact && k <= 255 {
						return true, "make with a constant length"
					}
				}
				if t := f.Pkg.TypesInfo.TypeOf(call.Args[1]); t != nil {
					if b, isB := t.Underlying().(*types.Basic); isB && b.Kind() == types.Uint8 {
						return true, "make with a one-octet length read from the wire"
					}
				}
			}
		}
		return false, ""
	}
	for _, f := range p.AllFuncs() {
		if f.Decl.Body == nil {
			continue
		}
		ast.Inspect(f.Decl.Body, func(nd ast.Node) bool {
			var rhs ast.Expr
			switch x := nd.(type) {
			case *ast.AssignStmt:
				for i, l := range x.Lhs {
					if core.FieldOf(f.Pkg, l) == asns && asns != nil && i < len(x.Rhs) {
						rhs = x.Rhs[i]
					}
				}
			case *ast.KeyValueExpr:
				if id, ok := x.Key.(*ast.Ident); ok && f.Pkg.TypesInfo.ObjectOf(id) == types.Object(asns) {
					rhs = x.Value
				}
			}
			if rhs == nil {
				return true
			}
			n++
			construct := fmt.Sprintf("%s writes ASPathSegment.ASNs = %s", f.Name(), core.ExprString(rhs))
			if why, ok := reviewed[f.Name()]; ok {
				c.Hold("segment-size-invariant", construct, nd.Pos(), "reviewed: "+why)
				return true
			}
			if ok, why := bounded(f, rhs); ok {
				c.Hold("segment-size-invariant", construct, nd.Pos(), why)
				return true
			}
			if f.Name() == "route.(*BGPPath).Prepend" {
				// grows the first segment by one per iteration, after the split test of rule segment-split
				if o := core.ObjOf(f.Pkg, rhs); o != nil {
					for _, d := range core.DefsOf(f, o) {
						if mk, isMk := core.Unparen(d).(*ast.CallExpr); isMk && len(mk.Args) == 2 {
							if be, isB := core.Unparen(mk.Args[1]).(*ast.BinaryExpr); isB && be.Op == token.ADD {
								if v := core.ConstOf(f.Pkg, be.Y); v != nil && v.ExactString() == "1" {
									c.Hold("segment-size-invariant", construct, nd.Pos(), "grows the first segment by one ASN after the split test (rule segment-split)")
									return true
								}
							}
						}
					}
				}
			}
			all = false
			c.Fail("segment-size-invariant", construct, nd.Pos(), "this writer can make an AS_PATH segment longer than 255 ASNs; the serializer writes the count as one octet")
			return true
		})
	}
	if n < 4 {
		c.Fail("segment-size-invariant", "writers of ASPathSegment.ASNs found", token.NoPos, fmt.Sprintf("found %d writers, hand-confirmed floor is 4", n))
		all = false
	}
	segInvRes[c] = all
	return all
}

// definedAs: is the written expression L a local whose value is the tested expression x (or vice versa)?
func definedAs(f *core.Fn, L, x ast.Expr) bool {
	if o := core.ObjOf(f.Pkg, core.Unparen(L)); o != nil {
		for _, d := range core.DefsOf(f, o) {
			if core.ExprString(core.Unparen(d)) == core.ExprString(core.Unparen(x)) {
				return true
			}
		}
	}
	return false
}

// flagIdiom recognises
//
//	if len(b) > 255 { F = true } … if F { two octets } else { WriteByte(uint8(len(b))) }
//
// the narrowing sits on the !F branch and F is set whenever the value does not fit.
func flagIdiom(f *core.Fn, call *ast.CallExpr, arg ast.Expr) bool {
	var flag *types.Var
	for _, ft := range core.CtlFactsAt(f, call) {
		if fv := core.FieldOf(f.Pkg, ft.Expr); fv != nil && !ft.Truth {
			flag = fv
		}
	}
	if flag == nil {
		return false
	}
	ok := false
	ast.Inspect(f.Decl.Body, func(nd ast.Node) bool {
		ifs, isIf := nd.(*ast.IfStmt)
		if !isIf || ifs.End() > call.Pos() || ifs.Else != nil {
			return true
		}
		x, fits, isTh := thresholdFact(f, core.Fact{Expr: ifs.Cond, Truth: true})
		if !isTh || fits || core.ExprString(x) != core.ExprString(arg) {
			return true
		}
		for _, st := range ifs.Body.List {
			if as, isAs := st.(*ast.AssignStmt); isAs && len(as.Lhs) == 1 && core.FieldOf(f.Pkg, as.Lhs[0]) == flag {
				if v := core.ConstOf(f.Pkg, as.Rhs[0]); v != nil && v.ExactString() == "true" {
					ok = true
				}
			}
		}
		return true
	})
	if !ok {
		return false
	}
	// the flag is not cleared between the bound test and the write
	cleared := false
	ast.Inspect(f.Decl.Body, func(nd ast.Node) bool {
		if as, isAs := nd.(*ast.AssignStmt); isAs && len(as.Lhs) == 1 && core.FieldOf(f.Pkg, as.Lhs[0]) == flag {
			if v := core.ConstOf(f.Pkg, as.Rhs[0]); v == nil || v.ExactString() != "true" {
				cleared = true
			}
		}
		return true
	})
	return !cleared
}

// sizeGate: every success return of SerializeUpdate is dominated by `G > LIMIT → error` with effect − G + LIMIT ≤ 4096.
// sizeGateMax: the largest message the gate of SerializeUpdate lets through (set by sizeGate; read by C18).
var sizeGateMax = map[*core.Ctx]int64{}

func sizeGate(c *core.Ctx, f *core.Fn) {
	p := c.P
	an := core.NewSizeAn(p, true, nil)
	an.Opaque["net.(*Prefix).BytesInPrefix"] = true
	an.OpaqueBuffersIn = f
	fr := an.NewFrame(f, true)
	st := core.NewSzState()
	type gate struct {
		lin   core.Lin
		limit int64
		pos   token.Pos
	}
	var gates []gate
	an.OnIf = func(cf *core.SzFrame, st *core.SzState, ifs *ast.IfStmt) {
		if cf.Fn != f {
			return
		}
		be, ok := core.Unparen(ifs.Cond).(*ast.BinaryExpr)
		if !ok || (be.Op != token.GTR && be.Op != token.GEQ) {
			return
		}
		v := core.ConstOf(f.Pkg, be.Y)
		if v == nil {
			return
		}
		lim, exact := constantInt(v)
		if !exact {
			return
		}
		if be.Op == token.GEQ {
			lim--
		}
		// the true branch must leave with an error
		if len(ifs.Body.List) == 0 {
			return
		}
		if _, isRet := ifs.Body.List[len(ifs.Body.List)-1].(*ast.ReturnStmt); !isRet {
			return
		}
		gates = append(gates, gate{cf.Int(st, be.X, false), lim, ifs.Pos()})
	}
	out, vals := fr.RunBytes(st)
	if out == nil || len(vals) == 0 || !vals[0].Known() {
		c.Undecided("size-gate", f.Name()+" 4096-octet gate", f.Decl.Pos(), "size effect of SerializeUpdate could not be computed")
		return
	}
	eff := vals[0]
	best := ""
	ok := false
	for _, g := range gates {
		if !g.lin.Known() {
			continue
		}
		d := eff.Sub(g.lin) // bytes not covered by the tested quantity
		if d.IsConst() && int64(d.C)+g.limit <= 4096 {
			ok = true
			if m := int64(d.C) + g.limit; m > sizeGateMax[c] {
				sizeGateMax[c] = m
			}
		}
		if d.IsConst() {
			best = fmt.Sprintf("tested quantity %s ≤ %d leaves the message at up to %d octets", g.lin.String(), g.limit, int64(d.C)+g.limit)
		}
	}
	c.Check(ok, "size-gate", f.Name()+" returns bytes only when the whole message is at most 4096 octets", f.Decl.Pos(),
		"no dominating test bounds the number of bytes SerializeUpdate appends ("+eff.String()+") by 4096; "+best+": an UPDATE longer than the protocol maximum is emitted and the peer closes the session (Bad Message Length)")
}

// nilableAttributes: a pointer-typed field of BGPPath that NewBGPPath() leaves nil reaches a serializer as a typed nil
// inside the Value interface (so `pa.Value == nil` is false).  Either the attribute is only built when the field is
// non-nil, or the serializer tests the asserted pointer before it dereferences it.
func nilableAttributes(c *core.Ctx) {
	p := c.P
	const rule = "nilable-attribute-guarded"
	ctor := c.MustFunc("route.NewBGPPath")
	ser := c.MustFunc(pktPkg + ".(*PathAttribute).Serialize")
	if ctor == nil || ser == nil {
		return
	}
	set := map[string]bool{}
	ast.Inspect(ctor.Decl.Body, func(n ast.Node) bool {
		if kv, ok := n.(*ast.KeyValueExpr); ok {
			if id, isId := kv.Key.(*ast.Ident); isId {
				set[id.Name] = true
			}
		}
		return true
	})
	// serializer arm per type code
	arm := map[string]*core.Fn{}
	ast.Inspect(ser.Decl.Body, func(n ast.Node) bool {
		cc, ok := n.(*ast.CaseClause)
		if !ok {
			return true
		}
		for _, e := range cc.List {
			co := core.ConstObjOf(ser.Pkg, e)
			if co == nil {
				continue
			}
			for _, call := range core.CallsAll(ser.Pkg, cc, func(o *types.Func) bool { return strings.HasPrefix(o.Name(), "serialize") }) {
				arm[co.Name()] = p.FnOf(core.Callee(ser.Pkg, call))
			}
		}
		return true
	})
	n := 0
	for _, k := range []string{pktPkg + ".PathAttributes", pktPkg + ".(*PathAttribute).AddOptionalPathAttributes"} {
		f := p.Func(k)
		if f == nil {
			continue
		}
		ast.Inspect(f.Decl.Body, func(nd ast.Node) bool {
			cl, ok := nd.(*ast.CompositeLit)
			if !ok {
				return true
			}
			if t := f.Pkg.TypesInfo.TypeOf(cl); t == nil || !strings.HasSuffix(t.String(), "packet.PathAttribute") {
				return true
			}
			var val ast.Expr
			tc := ""
			for _, el := range cl.Elts {
				if kv, isKV := el.(*ast.KeyValueExpr); isKV {
					switch core.ExprString(kv.Key) {
					case "Value":
						val = kv.Value
					case "TypeCode":
						tc = core.ExprString(kv.Value)
					}
				}
			}
			if val == nil {
				return true
			}
			fv := core.FieldOf(f.Pkg, val)
			if fv == nil {
				return true
			}
			if _, isPtr := fv.Type().Underlying().(*types.Pointer); !isPtr || ownerName(fv) != "BGPPath" || set[fv.Name()] {
				return true
			}
			n++
			construct := "attribute " + tc + " built from the nil-able field BGPPath." + fv.Name()
			// producer guard
			for _, ft := range core.CtlFactsAt(f, cl) {
				if x, isNil := core.IsNilCheck(f.Pkg, ft.Expr); isNil && !ft.Truth && core.FieldOf(f.Pkg, x) == fv {
					c.Hold(rule, construct, cl.Pos(), "built only when the field is not nil")
					return true
				}
			}
			g := arm[tc]
			if g == nil || g.Decl.Body == nil {
				c.Fail(rule, construct, cl.Pos(), "no serializer arm found for this attribute")
				return true
			}
			// serializer: every dereference of the asserted pointer is behind `v != nil`
			bad := ""
			ast.Inspect(g.Decl.Body, func(m ast.Node) bool {
				st, isStar := m.(*ast.StarExpr)
				if !isStar {
					return true
				}
				if tv, isT := g.Pkg.TypesInfo.Types[st]; isT && tv.IsType() {
					return true // a pointer type, not a dereference
				}
				guarded := false
				for _, ft := range core.FactsAt(g, st) {
					if x, isNil := core.IsNilCheck(g.Pkg, ft.Expr); isNil && !ft.Truth && core.SameExpr(g.Pkg, x, st.X) {
						guarded = true
					}
				}
				// short circuit: v == nil || …*v…   /   v != nil && …*v…
				if !guarded {
					for _, anc := range core.PathTo(g.Decl.Body, st) {
						be, isB := anc.(*ast.BinaryExpr)
						if !isB || (be.Op != token.LOR && be.Op != token.LAND) || !(be.Y.Pos() <= st.Pos() && st.End() <= be.Y.End()) {
							continue
						}
						if x, isNil := core.IsNilCheck(g.Pkg, be.X); isNil && core.SameExpr(g.Pkg, x, st.X) {
							cmp, _ := core.Unparen(be.X).(*ast.BinaryExpr)
							if cmp != nil && ((be.Op == token.LOR && cmp.Op == token.EQL) || (be.Op == token.LAND && cmp.Op == token.NEQ)) {
								guarded = true
							}
						}
					}
				}
				if !guarded {
					bad = core.ExprString(st)
				}
				return true
			})
			c.Check(bad == "", rule, construct, cl.Pos(),
				"NewBGPPath() leaves BGPPath."+fv.Name()+" nil; the attribute is built regardless and "+g.Name()+" dereferences "+bad+" without a nil test (the `pa.Value == nil` test does not see a typed nil): sending such a path (a redistributed or locally originated route) crashes the update sender and with it the daemon")
			return true
		})
	}
	c.Check(n >= 3, rule, "attributes built from nil-able fields", token.NoPos, fmt.Sprintf("found %d, floor 3 (communities, large communities, cluster list)", n))
}
