package props

import (
	"fmt"
	"go/ast"
	"go/token"
	"go/types"
	"strings"

	"verif/engine/core"
)

// lengthWrittenAsComputed: the attribute serializers compute the value length (n·elementSize), write it into the length
// field and, for their return value (bytes appended), add the header octets afterwards.  The variable that is written
// as the length field must reach the write unmodified: an increment that accounts for the extra header octet of the
// extended-length form belongs behind the write — before it, the length field says one more than the value holds and
// the decoder rejects (or mis-frames) the attribute.
func lengthWrittenAsComputed(c *core.Ctx) {
	const rule = "length-field-written-as-computed"
	p := c.P
	c.Floor(rule, 4)
	for _, f := range p.FuncsIn(pktPkg) {
		if f.Decl.Body == nil || isTestFn(p, f) || !strings.HasPrefix(f.Decl.Name.Name, "serialize") {
			continue
		}
		// writes of a local as length: buf.WriteByte(uint8(v)) / buf.Write(convert.Uint16Byte(v))
		type w struct {
			node ast.Node
			v    ast.Expr
		}
		var writes []w
		ast.Inspect(f.Decl.Body, func(n ast.Node) bool {
			call, ok := n.(*ast.CallExpr)
			if !ok || len(call.Args) != 1 {
				return true
			}
			sel, ok := call.Fun.(*ast.SelectorExpr)
			if !ok || (sel.Sel.Name != "WriteByte" && sel.Sel.Name != "Write") {
				return true
			}
			arg := core.Unparen(call.Args[0])
			inner, ok := arg.(*ast.CallExpr)
			if !ok || len(inner.Args) != 1 {
				return true
			}
			isConv := false
			if tv, ok := f.Pkg.TypesInfo.Types[inner.Fun]; ok && tv.IsType() {
				isConv = true
			}
			if strings.HasSuffix(core.ExprString(inner.Fun), "Uint16Byte") {
				isConv = true
			}
			if id, ok := core.Unparen(inner.Args[0]).(*ast.Ident); ok && isConv && strings.Contains(strings.ToLower(id.Name), "len") {
				writes = append(writes, w{call, id})
			}
			return true
		})
		if len(writes) == 0 {
			continue
		}
		c.Analysed(f)
		g := p.CFG(f)
		for i, wr := range writes {
			obj := core.ObjOf(f.Pkg, wr.v)
			isMut := func(n ast.Node) bool {
				switch x := n.(type) {
				case *ast.IncDecStmt:
					return core.ObjOf(f.Pkg, x.X) == obj && underOwnThreshold(f, x, obj)
				case *ast.AssignStmt:
					if x.Tok == token.DEFINE || len(x.Lhs) != 1 || len(x.Rhs) != 1 {
						return false
					}
					// a constant adjustment (header octets), not the accumulation of the value size
					if core.ObjOf(f.Pkg, x.Lhs[0]) == obj && core.ConstOf(f.Pkg, x.Rhs[0]) != nil && (x.Tok == token.ADD_ASSIGN || x.Tok == token.SUB_ASSIGN) {
						return underOwnThreshold(f, x, obj)
					}
				}
				return false
			}
			isWrite := func(n ast.Node) bool { return core.NodeHas(n, func(x ast.Node) bool { return x == wr.node }) }
			hits := core.PathAvoidingFrom(g, isMut, func(ast.Node) bool { return false }, isWrite)
			c.Check(len(hits) == 0, rule, fmt.Sprintf("%s length write #%d of `%s`", f.Name(), i+1, core.ExprString(wr.v)), wr.node.Pos(),
				"the variable written into the attribute's length field is modified on a path before the write (e.g. the extra header octet of the extended-length form is added too early): the declared length no longer equals the number of value octets that follow, so the emitted attribute does not decode")
		}
	}
}

// underOwnThreshold: n is controlled by a comparison of the variable obj with a constant (the 255/256 threshold that
// selects the extended-length form).
func underOwnThreshold(f *core.Fn, n ast.Node, obj types.Object) bool {
	for _, ft := range core.CtlFactsAt(f, n) {
		be, ok := core.Unparen(ft.Expr).(*ast.BinaryExpr)
		if !ok {
			continue
		}
		for _, pr := range [][2]ast.Expr{{be.X, be.Y}, {be.Y, be.X}} {
			if core.ObjOf(f.Pkg, pr[0]) == obj && core.ConstOf(f.Pkg, pr[1]) != nil {
				return true
			}
		}
	}
	return false
}

// productComputedWide: `uint16(a * b)` multiplies in the operands' type and widens afterwards.  With two uint8 operands
// that come from the wire or from list lengths (ASN count × ASN size, entries × entry size) the product wraps at 256
// before the conversion can help: the decoder's position bookkeeping (or an encoder's length) is short by a multiple of
// 256 for long lists, and a correct message no longer decodes.  Rule: in the BGP packet package no conversion to a
// wider integer type has as operand a product whose type is narrower and whose factors are both non-constant.
func productComputedWide(c *core.Ctx) {
	const rule = "product-computed-in-the-wide-type"
	p := c.P
	n, bad := 0, 0
	for _, f := range p.FuncsIn(pktPkg) {
		if f.Decl.Body == nil || isTestFn(p, f) {
			continue
		}
		ast.Inspect(f.Decl.Body, func(nd ast.Node) bool {
			call, ok := nd.(*ast.CallExpr)
			if !ok || len(call.Args) != 1 {
				return true
			}
			tv, ok := f.Pkg.TypesInfo.Types[call.Fun]
			if !ok || !tv.IsType() {
				return true
			}
			to, ok := tv.Type.Underlying().(*types.Basic)
			if !ok || to.Info()&types.IsInteger == 0 {
				return true
			}
			be, ok := core.Unparen(call.Args[0]).(*ast.BinaryExpr)
			if !ok || be.Op != token.MUL {
				return true
			}
			n++
			from, ok := f.Pkg.TypesInfo.TypeOf(be).Underlying().(*types.Basic)
			if !ok || widthOf(from) >= widthOf(to) {
				return true
			}
			if core.ConstOf(f.Pkg, be.X) != nil || core.ConstOf(f.Pkg, be.Y) != nil {
				// one constant factor: still wraps for large values, but the repo's instances (count*4 on a uint8 count
				// already range-checked) are decided by the length-octet rules
				return true
			}
			bad++
			c.Analysed(f)
			c.Check(false, rule, fmt.Sprintf("%s widens the product %s after computing it in %s", f.Name(), core.ExprString(be), from.Name()), call.Pos(),
				fmt.Sprintf("`%s` is computed in %s and converted to %s afterwards: for factors whose product exceeds the narrow type (a long AS path segment: 64 four-octet ASNs) the value wraps before the conversion, so the position/length bookkeeping is wrong and a well-formed message is rejected or mis-framed", core.ExprString(be), from.Name(), to.Name()))
			return true
		})
	}
	if bad == 0 {
		c.Check(true, rule, fmt.Sprintf("packet package: %d widened products examined, none computed in a narrower type from two variable factors", n), 0, "")
	}
}

func widthOf(b *types.Basic) int {
	switch b.Kind() {
	case types.Int8, types.Uint8:
		return 8
	case types.Int16, types.Uint16:
		return 16
	case types.Int32, types.Uint32:
		return 32
	}
	return 64
}

// noEmptySegmentOnTheWire: an AS_PATH segment with a count of zero is malformed (RFC 4271 §6.3) and every decoder —
// bio-rd's own included — rejects it.  Paths of locally originated / redistributed routes are modelled with ONE EMPTY
// segment, so the serializer must not write a segment header for a segment without ASNs: the write of the segment's
// count octet is controlled by a test that the segment has ASNs.
func noEmptySegmentOnTheWire(c *core.Ctx) {
	const rule = "no-empty-segment-on-the-wire"
	f := c.MustFunc(pktPkg + ".(*PathAttribute).serializeASPath")
	if f == nil {
		return
	}
	c.Analysed(f)
	asns := c.P.Field("protocols/bgp/types", "ASPathSegment", "ASNs")
	n := 0
	ast.Inspect(f.Decl.Body, func(nd ast.Node) bool {
		call, ok := nd.(*ast.CallExpr)
		if !ok || len(call.Args) != 1 {
			return true
		}
		se, ok := call.Fun.(*ast.SelectorExpr)
		if !ok || se.Sel.Name != "WriteByte" {
			return true
		}
		// WriteByte(uint8(len(segment.ASNs)))
		isCount := core.NodeHas(call.Args[0], func(x ast.Node) bool {
			lc, ok := x.(*ast.CallExpr)
			if !ok || len(lc.Args) != 1 {
				return false
			}
			id, ok := lc.Fun.(*ast.Ident)
			return ok && id.Name == "len" && core.FieldOf(f.Pkg, lc.Args[0]) == asns && asns != nil
		})
		if !isCount {
			return true
		}
		n++
		guarded := false
		for _, ft := range core.FactsAt(f, call) {
			be, ok := core.Unparen(ft.Expr).(*ast.BinaryExpr)
			if !ok {
				continue
			}
			lenSide := core.NodeHas(be.X, func(x ast.Node) bool {
				lc, ok := x.(*ast.CallExpr)
				if !ok || len(lc.Args) != 1 {
					return false
				}
				id, ok := lc.Fun.(*ast.Ident)
				return ok && id.Name == "len" && core.FieldOf(f.Pkg, lc.Args[0]) == asns
			})
			v := core.ConstOf(f.Pkg, be.Y)
			if !lenSide || v == nil || v.ExactString() != "0" {
				continue
			}
			if (be.Op == token.EQL && !ft.Truth) || (be.Op == token.NEQ && ft.Truth) || (be.Op == token.GTR && ft.Truth) || (be.Op == token.LEQ && !ft.Truth) {
				guarded = true
			}
		}
		c.Check(guarded, rule, fmt.Sprintf("%s writes segment count #%d only for segments with ASNs", f.Name(), n), call.Pos(),
			"the serializer writes a segment header for a segment that may have no ASNs: a locally originated route sent to an iBGP peer goes out with an AS_PATH segment of length 0, which is malformed — the receiver (bio-rd's own decoder too) rejects the UPDATE")
		return true
	})
	c.Check(n >= 1, rule, "segment count writes found", f.Decl.Pos(), "serializeASPath writes no segment count")
}
