package props

import (
	"fmt"
	"go/ast"
	"go/token"
	"go/types"
	"strings"

	"verif/engine/core"
)

// listAppendAdvancesCursor: the attribute list and the NLRI lists are singly linked and built by appending behind a
// cursor inside a loop: `cur.Next = elem; cur = cur.Next`.  If the cursor is advanced to anything but the element just
// linked in (cur.Next, or the variable that was stored there), the next element overwrites a link made earlier and
// every element but the first and the last is lost from the emitted message.
func listAppendAdvancesCursor(c *core.Ctx) {
	const rule = "list-append-advances-cursor"
	p := c.P
	c.Floor(rule, 3)
	for _, rel := range []string{pktPkg, srv} {
		for _, f := range p.FuncsIn(rel) {
			if f.Decl.Body == nil || isTestFn(p, f) {
				continue
			}
			ast.Inspect(f.Decl.Body, func(n ast.Node) bool {
				var body *ast.BlockStmt
				switch l := n.(type) {
				case *ast.ForStmt:
					body = l.Body
				case *ast.RangeStmt:
					body = l.Body
				}
				if body == nil {
					return true
				}
				for i, st := range body.List {
					as, ok := st.(*ast.AssignStmt)
					if !ok || len(as.Lhs) != 1 || len(as.Rhs) != 1 || as.Tok != token.ASSIGN {
						continue
					}
					sel, ok := core.Unparen(as.Lhs[0]).(*ast.SelectorExpr)
					if !ok || sel.Sel.Name != "Next" {
						continue
					}
					cur := core.ObjOf(f.Pkg, sel.X)
					if cur == nil || cur.Pos() >= body.Pos() { // the cursor lives across iterations
						continue
					}
					stored := core.ObjOf(f.Pkg, as.Rhs[0])
					c.Analysed(f)
					construct := fmt.Sprintf("%s appends behind `%s`", f.Name(), cur.Name())
					// the next assignment to the cursor in this body
					found, okAdv := false, false
					var pos = as.Pos()
					for _, st2 := range body.List[i+1:] {
						as2, ok := st2.(*ast.AssignStmt)
						if !ok || len(as2.Lhs) != 1 || len(as2.Rhs) != 1 || core.ObjOf(f.Pkg, as2.Lhs[0]) != cur {
							continue
						}
						found, pos = true, as2.Pos()
						r := core.Unparen(as2.Rhs[0])
						if core.SameExpr(f.Pkg, r, core.Unparen(as.Lhs[0])) {
							okAdv = true
						}
						if stored != nil && core.ObjOf(f.Pkg, r) == stored {
							okAdv = true
						}
						break
					}
					if !found {
						// cursor not advanced in this loop: every iteration overwrites the same link — unless the loop ends after it
						c.Fail(rule, construct, pos, "the cursor is not advanced after the element was linked in: the next iteration overwrites the same link")
						continue
					}
					c.Check(okAdv, rule, construct, pos, "after `"+core.ExprString(as.Lhs[0])+" = …` the cursor is set to something other than the element just linked in: later elements overwrite an earlier link, so every element between the first and the last is dropped from the list (attributes missing from the emitted UPDATE)")
				}
				return true
			})
		}
	}
}

// appendedTailIsUsed: some list builders link elements behind their receiver and RETURN the new tail
// (PathAttribute.AddOptionalPathAttributes).  A caller that drops that result and then appends behind the same old
// tail again overwrites the link made by the first call: everything the first call appended (COMMUNITIES,
// LARGE_COMMUNITIES) is cut out of the emitted attribute list.
func appendedTailIsUsed(c *core.Ctx, rule string) {
	p := c.P
	next := p.Field(pktPkg, "PathAttribute", "Next")
	if next == nil {
		c.Check(false, rule, "PathAttribute.Next", 0, "field not found")
		return
	}
	// appenders: methods on *PathAttribute that write some .Next and return *PathAttribute
	appender := map[*types.Func]bool{}
	for _, f := range p.MethodsOf(pktPkg, "PathAttribute") {
		if f.Decl.Body == nil {
			continue
		}
		sig := f.Obj.Type().(*types.Signature)
		if sig.Results().Len() != 1 || !strings.HasSuffix(sig.Results().At(0).Type().String(), "packet.PathAttribute") {
			continue
		}
		for _, a := range core.FieldAccesses(f.Pkg, f.Decl.Body) {
			if a.Field == next && a.Write {
				appender[f.Obj] = true
			}
		}
	}
	n := 0
	for _, f := range p.FuncsIn(pktPkg) {
		if f.Decl.Body == nil || isTestFn(p, f) {
			continue
		}
		g := p.CFG(f)
		ast.Inspect(f.Decl.Body, func(nd ast.Node) bool {
			es, ok := nd.(*ast.ExprStmt)
			if !ok {
				return true
			}
			call, ok := es.X.(*ast.CallExpr)
			if !ok {
				return true
			}
			cal := core.Callee(f.Pkg, call)
			se, isSel := call.Fun.(*ast.SelectorExpr)
			if cal == nil || !appender[cal] || !isSel {
				return true
			}
			n++
			c.Analysed(f)
			recv := core.ObjOf(f.Pkg, se.X)
			// a later append behind the same variable
			later := func(m ast.Node) bool {
				if m == ast.Node(es) {
					return false
				}
				return core.NodeHas(m, func(x ast.Node) bool {
					switch y := x.(type) {
					case *ast.AssignStmt:
						for _, l := range y.Lhs {
							if s2, ok := core.Unparen(l).(*ast.SelectorExpr); ok && core.FieldOf(f.Pkg, s2) == next && recv != nil && core.ObjOf(f.Pkg, s2.X) == recv {
								return true
							}
						}
					case *ast.CallExpr:
						if c2 := core.Callee(f.Pkg, y); c2 != nil && y != call {
							if s2, ok := y.Fun.(*ast.SelectorExpr); ok && recv != nil && core.ObjOf(f.Pkg, s2.X) == recv {
								if h := p.FnOf(c2); h != nil && h.Decl.Body != nil {
									for _, a := range core.FieldAccesses(h.Pkg, h.Decl.Body) {
										if a.Field == next && a.Write {
											return true
										}
									}
								}
							}
						}
					}
					return false
				})
			}
			hits := core.PathAvoidingFrom(g, func(m ast.Node) bool { return m == ast.Node(es) }, func(ast.Node) bool { return false }, later)
			c.Check(len(hits) == 0, rule, fmt.Sprintf("%s uses the tail returned by %s", f.Name(), cal.Name()), es.Pos(),
				"the new tail returned by "+cal.Name()+" is dropped and the list is then extended behind the OLD tail: the first appended element overwrites the link to what "+cal.Name()+" added, so those attributes are missing from every UPDATE built from the path")
			return true
		})
	}
	c.Check(true, rule, fmt.Sprintf("packet package: %d discarded tail results examined", n), 0, "")
}
