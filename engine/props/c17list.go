package props

import (
	"fmt"
	"go/ast"
	"go/token"

	"verif/engine/core"
)

// listAppendAdvancesCursor: the attribute list and the NLRI lists are singly linked and built by appending behind a
// cursor inside a loop: `cur.Next = elem; cur = cur.Next`.  If the cursor is advanced to anything but the element just
// linked in (cur.Next, or the variable that was stored there), the next element overwrites a link made earlier and
// every element but the first and the last is lost from the emitted message.
func listAppendAdvancesCursor(c *core.Ctx) {
	const rule = "list-append-advances-cursor"
	p := c.P
	c.Floor(rule, 3)
	for _, rel := range []string{pktPkg, srv} {
		for _, f := range p.FuncsIn(rel) {
			if f.Decl.Body == nil || isTestFn(p, f) {
				continue
			}
			ast.Inspect(f.Decl.Body, func(n ast.Node) bool {
				var body *ast.BlockStmt
				switch l := n.(type) {
				case *ast.ForStmt:
					body = l.Body
				case *ast.RangeStmt:
					body = l.Body
				}
				if body == nil {
					return true
				}
				for i, st := range body.List {
					as, ok := st.(*ast.AssignStmt)
					if !ok || len(as.Lhs) != 1 || len(as.Rhs) != 1 || as.Tok != token.ASSIGN {
						continue
					}
					sel, ok := core.Unparen(as.Lhs[0]).(*ast.SelectorExpr)
					if !ok || sel.Sel.Name != "Next" {
						continue
					}
					cur := core.ObjOf(f.Pkg, sel.X)
					if cur == nil || cur.Pos() >= body.Pos() { // the cursor lives across iterations
						continue
					}
					stored := core.ObjOf(f.Pkg, as.Rhs[0])
					c.Analysed(f)
					construct := fmt.Sprintf("%s appends behind `%s`", f.Name(), cur.Name())
					// the next assignment to the cursor in this body
					found, okAdv := false, false
					var pos = as.Pos()
					for _, st2 := range body.List[i+1:] {
						as2, ok := st2.(*ast.AssignStmt)
						if !ok || len(as2.Lhs) != 1 || len(as2.Rhs) != 1 || core.ObjOf(f.Pkg, as2.Lhs[0]) != cur {
							continue
						}
						found, pos = true, as2.Pos()
						r := core.Unparen(as2.Rhs[0])
						if core.SameExpr(f.Pkg, r, core.Unparen(as.Lhs[0])) {
							okAdv = true
						}
						if stored != nil && core.ObjOf(f.Pkg, r) == stored {
							okAdv = true
						}
						break
					}
					if !found {
						// cursor not advanced in this loop: every iteration overwrites the same link — unless the loop ends after it
						c.Fail(rule, construct, pos, "the cursor is not advanced after the element was linked in: the next iteration overwrites the same link")
						continue
					}
					c.Check(okAdv, rule, construct, pos, "after `"+core.ExprString(as.Lhs[0])+" = …` the cursor is set to something other than the element just linked in: later elements overwrite an earlier link, so every element between the first and the last is dropped from the list (attributes missing from the emitted UPDATE)")
				}
				return true
			})
		}
	}
}
