package props

import (
	"fmt"
	"go/ast"
	"go/constant"
	"go/token"
	"go/types"
	"sort"

	"verif/engine/core"
)

// emittedNotificationsDecode: every (error code, sub-code) pair that bio-rd itself puts into a NOTIFICATION is accepted
// by its own NOTIFICATION decoder.  Emitters: calls of FSM.sendNotification with constant arguments, calls of a
// function that passes its parameter on as the sub-code of an OPEN Message Error (rejectOpen), and BGPError literals
// with constant code and sub-code (the session layer copies them into the NOTIFICATION).  Acceptance: the guard of the
// decoder's case for that error code, evaluated for the constant sub-code (the guards are comparisons of the sub-code
// with constants joined by && / ||).
func emittedNotificationsDecode(c *core.Ctx) {
	const rule = "emitted-notifications-decode"
	p := c.P
	dec := c.MustFunc(pktPkg + ".decodeNotificationMsg")
	sn := p.Func(srv + ".(*FSM).sendNotification")
	subF := p.Field(pktPkg, "BGPNotification", "ErrorSubcode")
	codeF := p.Field(pktPkg, "BGPNotification", "ErrorCode")
	if dec == nil || sn == nil || subF == nil || codeF == nil {
		c.Check(false, rule, "anchors", 0, "decodeNotificationMsg / sendNotification / BGPNotification fields not found")
		return
	}
	c.Analysed(dec)
	type pair struct{ code, sub int64 }
	emit := map[pair]string{}
	constInt := func(f *core.Fn, e ast.Expr) (int64, bool) {
		v := core.ConstOf(f.Pkg, e)
		if v == nil || v.Kind() != constant.Int {
			return 0, false
		}
		n, ok := constant.Int64Val(v)
		return n, ok
	}
	// (a) sendNotification(C, S)   (b) wrappers: f(S, …) { … sendNotification(C, <param>) … }
	wrapper := map[*types.Func]struct {
		code int64
		idx  int
	}{}
	for _, f := range p.FuncsIn(srv) {
		if f.Decl.Body == nil || isTestFn(p, f) {
			continue
		}
		for _, call := range core.Calls(f.Pkg, f.Decl.Body, func(o *types.Func) bool { return o == sn.Obj }) {
			if len(call.Args) != 2 {
				continue
			}
			cv, ok1 := constInt(f, call.Args[0])
			sv, ok2 := constInt(f, call.Args[1])
			if ok1 && ok2 {
				emit[pair{cv, sv}] = f.Name()
				continue
			}
			if ok1 {
				sig := f.Obj.Type().(*types.Signature)
				for i := 0; i < sig.Params().Len(); i++ {
					if core.ObjOf(f.Pkg, call.Args[1]) == types.Object(sig.Params().At(i)) {
						wrapper[f.Obj] = struct {
							code int64
							idx  int
						}{cv, i}
					}
				}
			}
		}
	}
	for _, f := range p.FuncsIn(srv) {
		if f.Decl.Body == nil || isTestFn(p, f) {
			continue
		}
		ast.Inspect(f.Decl.Body, func(n ast.Node) bool {
			call, ok := n.(*ast.CallExpr)
			if !ok {
				return true
			}
			if w, isW := wrapper[core.Callee(f.Pkg, call)]; isW && w.idx < len(call.Args) {
				if sv, ok := constInt(f, call.Args[w.idx]); ok {
					emit[pair{w.code, sv}] = f.Name()
				}
			}
			return true
		})
	}
	// (c) BGPError literals in the packet package
	for _, f := range p.FuncsIn(pktPkg) {
		if f.Decl.Body == nil || isTestFn(p, f) {
			continue
		}
		ast.Inspect(f.Decl.Body, func(n ast.Node) bool {
			cl, ok := n.(*ast.CompositeLit)
			if !ok {
				return true
			}
			t := f.Pkg.TypesInfo.TypeOf(cl)
			if t == nil || t.String() != "github.com/bio-routing/bio-rd/protocols/bgp/packet.BGPError" {
				return true
			}
			var cv, sv int64
			okc, oks := false, false
			for _, el := range cl.Elts {
				kv, ok := el.(*ast.KeyValueExpr)
				if !ok {
					continue
				}
				id, _ := kv.Key.(*ast.Ident)
				if id == nil {
					continue
				}
				if id.Name == "ErrorCode" {
					cv, okc = constInt(f, kv.Value)
				}
				if id.Name == "ErrorSubCode" {
					sv, oks = constInt(f, kv.Value)
				}
			}
			if okc && oks {
				emit[pair{cv, sv}] = f.Name()
			} else if oks && !okc {
				// the code is chosen by message type (bodyError): OPEN and UPDATE message errors
				for _, code := range []string{"OpenMessageError", "UpdateMessageError"} {
					if co, ok := p.Object(pktPkg, code).(*types.Const); ok {
						if n, ok := constant.Int64Val(co.Val()); ok {
							emit[pair{n, sv}] = f.Name()
						}
					}
				}
			}
			return true
		})
	}
	// the decoder's guards
	var sw *ast.SwitchStmt
	ast.Inspect(dec.Decl.Body, func(n ast.Node) bool {
		if s, ok := n.(*ast.SwitchStmt); ok && sw == nil && s.Tag != nil && core.FieldOf(dec.Pkg, s.Tag) == codeF {
			sw = s
		}
		return true
	})
	if sw == nil {
		c.Check(false, rule, "decoder switch over the error code", dec.Decl.Pos(), "not found")
		return
	}
	var eval func(e ast.Expr, sub int64) (val constant.Value, ok bool)
	eval = func(e ast.Expr, sub int64) (constant.Value, bool) {
		e = core.Unparen(e)
		if core.FieldOf(dec.Pkg, e) == subF {
			return constant.MakeInt64(sub), true
		}
		if v := core.ConstOf(dec.Pkg, e); v != nil {
			return v, true
		}
		switch x := e.(type) {
		case *ast.UnaryExpr:
			if x.Op == token.NOT {
				if v, ok := eval(x.X, sub); ok && v.Kind() == constant.Bool {
					return constant.MakeBool(!constant.BoolVal(v)), true
				}
			}
		case *ast.BinaryExpr:
			l, ok1 := eval(x.X, sub)
			r, ok2 := eval(x.Y, sub)
			if !ok1 || !ok2 {
				return nil, false
			}
			switch x.Op {
			case token.LAND:
				return constant.MakeBool(constant.BoolVal(l) && constant.BoolVal(r)), true
			case token.LOR:
				return constant.MakeBool(constant.BoolVal(l) || constant.BoolVal(r)), true
			case token.EQL, token.NEQ, token.LSS, token.LEQ, token.GTR, token.GEQ:
				return constant.MakeBool(constant.Compare(l, x.Op, r)), true
			}
		}
		return nil, false
	}
	var pairs []pair
	for pr := range emit {
		pairs = append(pairs, pr)
	}
	sort.Slice(pairs, func(i, j int) bool {
		if pairs[i].code != pairs[j].code {
			return pairs[i].code < pairs[j].code
		}
		return pairs[i].sub < pairs[j].sub
	})
	for _, pr := range pairs {
		construct := fmt.Sprintf("NOTIFICATION %d/%d (emitted in %s) is accepted by decodeNotificationMsg", pr.code, pr.sub, emit[pr])
		var clause *ast.CaseClause
		for _, cl := range sw.Body.List {
			cc := cl.(*ast.CaseClause)
			for _, e := range cc.List {
				if v := core.ConstOf(dec.Pkg, e); v != nil {
					if n, ok := constant.Int64Val(v); ok && n == pr.code {
						clause = cc
					}
				}
			}
		}
		if clause == nil {
			c.Check(false, rule, construct, sw.Pos(), fmt.Sprintf("the decoder has no case for error code %d: a NOTIFICATION bio-rd sends is rejected by its own decoder", pr.code))
			continue
		}
		rejected, decided := false, true
		for _, st := range clause.Body {
			ifs, ok := st.(*ast.IfStmt)
			if !ok {
				continue
			}
			v, ok := eval(ifs.Cond, pr.sub)
			if !ok || v.Kind() != constant.Bool {
				decided = false
				continue
			}
			if constant.BoolVal(v) {
				rejected = true
			}
		}
		if !decided {
			c.Undecided(rule, construct, clause.Pos(), "the decoder's guard for this error code is not a comparison of the sub-code with constants")
			continue
		}
		c.Check(!rejected, rule, construct, clause.Pos(),
			fmt.Sprintf("bio-rd sends NOTIFICATION %d/%d (%s) but its own decoder rejects that sub-code: the message does not decode back to the same content (and a bio-rd peer answers it as malformed)", pr.code, pr.sub, emit[pr]))
	}
	c.Check(len(pairs) >= 8, rule, "emitted (code, sub-code) pairs found", 0, fmt.Sprintf("found %d pairs, floor 8", len(pairs)))
}
