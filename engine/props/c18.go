package props

import (
	"fmt"
	"go/ast"
	"go/token"
	"go/types"
	"sort"
	"strings"

	"verif/engine/core"
)

func init() {
	Register(&Prop{
		Meta: core.Meta{
			ID: "C18", Title: "UPDATE packing is lossless and respects the message size limit", Level: "other",
			Technique:   "size-effect analysis (R-SIZE, core/size.go): the budget estimate (BGPPath.Length, getBudget, updateOverhead, the per-prefix charge) and the serializers (PathAttributes → Serialize, NLRI.serialize, SerializeUpdate, the MP_REACH wrapper) are both reduced to linear forms in the collection sizes and compared coefficient-wise in every presence scenario; control-flow rules for the packing loop",
			DesignRef:   "DESIGN.md §4 C18",
			Decided:     "(00) the size test of SerializeUpdate lets a message of exactly 4096 octets through (it is not tighter than the budget the sender fills messages to); (0) the attribute reserve of getBudget is max(BGPPath.Length(), SerializedLength(pathAttrs, u.options)): the measuring function sums (*PathAttribute).Serialize over the very list that is sent, with the sender's options object; [informational only: in every scenario (which optional attributes are present/non-empty) BGPPath.Length() is at least the number of octets PathAttributes()+Serialize() emit for the same path, as linear forms (constant and every per-element coefficient) — Length() alone is known to fall short and is pinned by existing tests, which is why (0) exists]; (2) the per-prefix budget charge is at least what NLRI.serialize appends, under the same add-path condition the encoder uses; (3) for each session kind (IPv4, IPv4 over multiprotocol, IPv6) header + fixed UPDATE fields + MP_REACH wrapper − omitted NEXT_HOP is covered by what getBudget reserves; (4) a prefix is charged against the budget of the message it is put into (also the first prefix after a flush); (5) every queued prefix is appended to exactly one message slice, every slice is handed over, and every prefix of a slice becomes one NLRI. Together: no UPDATE the sender builds exceeds 4096 octets, so none is dropped by SerializeUpdate's gate.",
			NotDecided:  "the analysis is over the size *shape* (linear in the numbers of elements); it assumes the encoder runs with the sender's own options object and that the next hop has the session's address family; it does not decide that the bytes written are the right bytes (C17).",
			TrustedBase: stdTrusted,
		},
		Run: runC18,
		Controls: []Control{
			{Name: "optional-attributes-tail-dropped", File: "protocols/bgp/packet/path_attributes.go", Old: "\toptionals := last.AddOptionalPathAttributes(p)\n\n\tlast = optionals\n", New: "\tlast.AddOptionalPathAttributes(p)\n", Expect: "appended-tail-is-used"},
			{Name: "removal-by-decision-equality", File: "route/route.go", Old: "\t\tif paths[j].Compare(remove) {\n", New: "\t\tif paths[j].Equal(remove) {\n", Expect: "decision-equality-is-not-identity"},
			{Name: "entry-deleted-after-the-send", File: "protocols/bgp/server/update_sender.go", Old: "\t\t\tdelete(u.toSend, key)\n\t\t\tu.sendMu.Lock()\n\t\t\tu.toSendMu.Unlock()\n\n\t\t\tu.sendUpdates(pathAttrs, updatesPrefixes, pathID)\n\t\t\tu.sendMu.Unlock()\n\t\t\tu.toSendMu.Lock()", New: "\t\t\tu.sendMu.Lock()\n\t\t\tu.toSendMu.Unlock()\n\n\t\t\tu.sendUpdates(pathAttrs, updatesPrefixes, pathID)\n\t\t\tu.sendMu.Unlock()\n\t\t\tu.toSendMu.Lock()\n\t\t\tdelete(u.toSend, key)", Expect: "entry-taken-in-one-critical-section"},
			{Name: "serializer-rejects-full-message", File: "protocols/bgp/packet/update.go", Old: "\tif totalLength > 4096 {", New: "\tif totalLength >= MaxLen {", Expect: "full-message-not-rejected"},
			{Name: "refactor-gate-uses-constant", Silent: true, File: "protocols/bgp/packet/update.go", Old: "\tif totalLength > 4096 {", New: "\tif totalLength >= MaxLen+1 {"},
			{Name: "budget-from-estimate-only", File: "protocols/bgp/server/update_sender.go", Old: "\tif wireLen := pathAttrs.SerializedLength(u.options); wireLen > attrLen {\n\t\tattrLen = wireLen\n\t}\n", New: "", Expect: "reserve-covers-attributes"},
			{Name: "addpath-charge-follows-rx", File: "protocols/bgp/server/update_sender.go", Old: "\t\tif u.options.UseAddPath {\n\t\t\tnlriLen += packet.PathIdentifierLen", New: "\t\tif u.addressFamily.addPathRX {\n\t\t\tnlriLen += packet.PathIdentifierLen", Expect: "prefix-charge-covers-nlri"},
			{Name: "first-prefix-after-flush-uncharged", File: "protocols/bgp/server/update_sender.go", Old: "\t\t\tbudget = fullBudget - nlriLen\n", New: "\t\t\tbudget = fullBudget\n", Expect: "prefix-charged-to-its-message"},
			{Name: "mp-overhead-without-reserved-octet", File: "protocols/bgp/server/update_sender.go", Old: "\treturn 4 + packet.AFILen + packet.SAFILen + 1 + addrLen + 1 - (3 + packet.IPv4Len)", New: "\treturn 4 + packet.AFILen + packet.SAFILen + 1 + addrLen - (3 + packet.IPv4Len)", Expect: "envelope-covers-framing"},
			{Name: "conditional-append", File: "protocols/bgp/server/update_sender.go", Old: "\t\tprefixes = append(prefixes, pfx)\n\t}\n\tif len(prefixes) > 0 {", New: "\t\tif budget >= 0 {\n\t\t\tprefixes = append(prefixes, pfx)\n\t\t}\n\t}\n\tif len(prefixes) > 0 {", Expect: "every-prefix-in-one-message"},
			{Name: "measure-with-other-options", File: "protocols/bgp/server/update_sender.go", Old: "pathAttrs.SerializedLength(u.options)", New: "pathAttrs.SerializedLength(&packet.EncodeOptions{})", Expect: "reserve-covers-attributes"},
			{Name: "refactor-reset-then-charge", Silent: true, File: "protocols/bgp/server/update_sender.go", Old: "\t\t\tbudget = fullBudget - nlriLen\n", New: "\t\t\tbudget = fullBudget\n\t\t\tbudget -= nlriLen\n"},
			{Name: "refactor-charge-inline", Silent: true, File: "protocols/bgp/server/update_sender.go", Old: "\t\tnlriLen := int(pfx.BytesInPrefix()) + 1\n\t\tif u.options.UseAddPath {\n\t\t\tnlriLen += packet.PathIdentifierLen\n\t\t}\n", New: "\t\tnlriLen := int(pfx.BytesInPrefix()) + 1 + packet.PathIdentifierLen\n"},
		},
	})
}

const c18Opaque = "net.(*Prefix).BytesInPrefix"

// attrLiterals returns the PathAttribute composite literals of the attribute builders with their functions.
func attrLiterals(p *core.Prog) (out []struct {
	F   *core.Fn
	Lit *ast.CompositeLit
}) {
	for _, k := range []string{pktPkg + ".PathAttributes", pktPkg + ".(*PathAttribute).AddOptionalPathAttributes"} {
		f := p.Func(k)
		if f == nil {
			continue
		}
		ast.Inspect(f.Decl.Body, func(n ast.Node) bool {
			cl, ok := n.(*ast.CompositeLit)
			if !ok {
				return true
			}
			if t := f.Pkg.TypesInfo.TypeOf(cl); t != nil && strings.HasSuffix(t.String(), "packet.PathAttribute") {
				out = append(out, struct {
					F   *core.Fn
					Lit *ast.CompositeLit
				}{f, cl})
			}
			return true
		})
	}
	return out
}

// serializeEffect computes the octets Serialize appends for one attribute literal under a scenario.
func serializeEffect(p *core.Prog, an *core.SizeAn, f *core.Fn, lit *ast.CompositeLit, upper bool) (eff core.Lin, present bool, typeCode string) {
	ser := p.Func(pktPkg + ".(*PathAttribute).Serialize")
	ctx := an.NewFrame(f, upper)
	st := core.NewSzState()
	keys := ctx.BindRangeVars(lit)
	v, known := ctx.EnclosingConds(st, lit)
	if known && !v {
		return core.LinC(0), false, ""
	}
	for _, el := range lit.Elts {
		if kv, ok := el.(*ast.KeyValueExpr); ok {
			if id, isId := kv.Key.(*ast.Ident); isId && id.Name == "TypeCode" {
				typeCode = core.ExprString(kv.Value)
			}
		}
	}
	sf := an.NewFrame(ser, upper)
	sf.BindRecvStruct(lit, ctx)
	cells := sf.BindBufferParams(st)
	out, _ := sf.Run(st)
	if out == nil {
		return core.LinUnk("no success path in Serialize for " + typeCode), true, typeCode
	}
	eff = out.Cells[cells["buf"]]
	for i := len(keys) - 1; i >= 0; i-- {
		eff = core.ScaleLoop(eff, keys[i])
	}
	// when the guard is undecided the attribute may be absent: for a lower bound it contributes nothing
	if !known && !upper {
		eff = core.LinC(0)
	}
	return eff, true, typeCode
}

func enumerate(atoms []string, fn func(map[string]bool)) {
	n := len(atoms)
	for mask := 0; mask < 1<<n; mask++ {
		sc := map[string]bool{}
		for i, a := range atoms {
			sc[a] = mask&(1<<i) != 0
		}
		// feasibility: a non-empty collection is non-nil
		ok := true
		for a, v := range sc {
			if strings.HasPrefix(a, "nonempty:") && v {
				if nn, has := sc["nonnil:"+strings.TrimPrefix(a, "nonempty:")]; has && !nn {
					ok = false
				}
			}
		}
		if ok {
			fn(sc)
		}
	}
}

func scenarioString(sc map[string]bool) string {
	var on []string
	for a, v := range sc {
		if v && !strings.HasPrefix(a, "nonnil:") {
			on = append(on, strings.TrimPrefix(strings.TrimPrefix(strings.TrimPrefix(a, "nonempty:"), "nonzero:"), "true:"))
		}
	}
	sort.Strings(on)
	if len(on) == 0 {
		return "none of the optional attributes present"
	}
	return "present: " + strings.Join(on, ", ")
}

func runC18(c *core.Ctx) {
	decisionEqualityIsNotIdentity(c, "decision-equality-is-not-identity")
	p := c.P
	// the serializer's gate is not tighter than the budget the sender fills messages to: a message of exactly 4096 octets passes
	if f := c.MustFunc(pktPkg + ".(*BGPUpdate).SerializeUpdate"); f != nil {
		sizeGate(c, f)
		c.Check(sizeGateMax[c] == 4096, "full-message-not-rejected", f.Name()+" lets a message of exactly 4096 octets through", f.Decl.Pos(),
			fmt.Sprintf("the size test of SerializeUpdate admits messages of at most %d octets; the update sender fills messages up to 4096: a completely filled UPDATE is rejected by the serializer and silently dropped, its prefixes are never announced", sizeGateMax[c]))
	}
	senderEntryCriticalSection(c)
	appendedTailIsUsed(c, "appended-tail-is-used")
	upd := "protocols/bgp/server.(*UpdateSender)."
	getBudget := c.MustFunc(upd + "getBudget")
	gui := c.MustFunc(upd + "_getUpdateInformation")
	overhead := c.MustFunc(upd + "updateOverhead")
	serUpd := c.MustFunc(pktPkg + ".(*BGPUpdate).SerializeUpdate")
	nlriSer := c.MustFunc(pktPkg + ".(*NLRI).serialize")
	if getBudget == nil || gui == nil || overhead == nil || serUpd == nil || nlriSer == nil {
		return
	}
	optF := p.Field(srv, "UpdateSender", "options")

	// (0) reserve = max(estimate, measured) -------------------------------------------------------------------------------
	measure := p.Func(pktPkg + ".(*PathAttribute).SerializedLength")
	var reserve types.Object
	{
		okMax, okArg := false, false
		if measure != nil {
			attrsPar := core.ParamObj(getBudget, 1)
			for _, call := range core.Calls(getBudget.Pkg, getBudget.Decl.Body, func(o *types.Func) bool { return o == measure.Obj }) {
				se, isSel := call.Fun.(*ast.SelectorExpr)
				if isSel && core.ObjOf(getBudget.Pkg, se.X) == attrsPar && attrsPar != nil && len(call.Args) == 1 && core.FieldOf(getBudget.Pkg, call.Args[0]) == optF && optF != nil {
					okArg = true
				}
			}
			// if M > A { A = M }
			ast.Inspect(getBudget.Decl.Body, func(n ast.Node) bool {
				ifs, ok := n.(*ast.IfStmt)
				if !ok || ifs.Else != nil || len(ifs.Body.List) != 1 {
					return true
				}
				be, isB := core.Unparen(ifs.Cond).(*ast.BinaryExpr)
				as, isAs := ifs.Body.List[0].(*ast.AssignStmt)
				if !isB || !isAs || len(as.Lhs) != 1 || as.Tok != token.ASSIGN {
					return true
				}
				m, a := be.X, be.Y
				if be.Op == token.LSS || be.Op == token.LEQ {
					m, a = be.Y, be.X
				} else if be.Op != token.GTR && be.Op != token.GEQ {
					return true
				}
				mo, ao := core.ObjOf(getBudget.Pkg, m), core.ObjOf(getBudget.Pkg, a)
				if mo == nil || ao == nil || core.ObjOf(getBudget.Pkg, as.Lhs[0]) != ao || core.ObjOf(getBudget.Pkg, as.Rhs[0]) != mo {
					return true
				}
				fromMeasure := false
				for _, d := range core.DefsOf(getBudget, mo) {
					if cl, isC := core.Unparen(d).(*ast.CallExpr); isC && core.Callee(getBudget.Pkg, cl) == measure.Obj {
						fromMeasure = true
					}
				}
				// no assignment to the reserve after the max
				later := false
				ast.Inspect(getBudget.Decl.Body, func(m ast.Node) bool {
					if x, isX := m.(*ast.AssignStmt); isX && x.Pos() > ifs.End() {
						for _, l := range x.Lhs {
							if core.ObjOf(getBudget.Pkg, l) == ao {
								later = true
							}
						}
					}
					return true
				})
				if fromMeasure && !later {
					okMax, reserve = true, ao
				}
				return true
			})
		}
		c.Check(measure != nil && okMax && okArg, "reserve-covers-attributes", getBudget.Name()+" reserves at least the serialized size of the attributes that are sent", getBudget.Decl.Pos(),
			"the per-message budget is derived from BGPPath.Length() alone (or the measurement does not use the attribute list and options that are sent): Length() falls short of the wire size (2 octets per AS path segment, AGGREGATOR, ATOMIC_AGGREGATE, extended-length headers, ORIGINATOR_ID …), a full UPDATE then exceeds 4096 octets, SerializeUpdate refuses it and all its prefixes are silently never announced")
		// the measuring function sums Serialize over the list into one buffer and returns that buffer's length
		if measure != nil {
			c.Analysed(measure)
			ser := p.Func(pktPkg + ".(*PathAttribute).Serialize")
			okLoop := false
			var bufObj types.Object
			ast.Inspect(measure.Decl.Body, func(n ast.Node) bool {
				fs, ok := n.(*ast.ForStmt)
				if !ok {
					return true
				}
				init, isInit := fs.Init.(*ast.AssignStmt)
				post, isPost := fs.Post.(*ast.AssignStmt)
				if !isInit || !isPost || core.ObjOf(measure.Pkg, init.Rhs[0]) != core.RecvObj(measure) {
					return true
				}
				cur := core.ObjOf(measure.Pkg, init.Lhs[0])
				if se, isSel := post.Rhs[0].(*ast.SelectorExpr); !isSel || se.Sel.Name != "Next" || core.ObjOf(measure.Pkg, se.X) != cur {
					return true
				}
				if len(fs.Body.List) != 1 {
					return true
				}
				es, isES := fs.Body.List[0].(*ast.ExprStmt)
				if !isES {
					return true
				}
				call, isCall := es.X.(*ast.CallExpr)
				if !isCall || ser == nil || core.Callee(measure.Pkg, call) != ser.Obj || len(call.Args) != 2 {
					return true
				}
				if rs, isSel := call.Fun.(*ast.SelectorExpr); !isSel || core.ObjOf(measure.Pkg, rs.X) != cur {
					return true
				}
				if core.ObjOf(measure.Pkg, call.Args[1]) != core.ParamObj(measure, 0) {
					return true
				}
				bufObj = core.ObjOf(measure.Pkg, call.Args[0])
				okLoop = bufObj != nil
				return true
			})
			okRet := false
			ast.Inspect(measure.Decl.Body, func(n ast.Node) bool {
				ret, ok := n.(*ast.ReturnStmt)
				if !ok || len(ret.Results) != 1 {
					return true
				}
				if call, isCall := core.Unparen(ret.Results[0]).(*ast.CallExpr); isCall {
					if se, isSel := call.Fun.(*ast.SelectorExpr); isSel && se.Sel.Name == "Len" && core.ObjOf(measure.Pkg, se.X) == bufObj && bufObj != nil {
						okRet = true
					}
				}
				return true
			})
			c.Check(okLoop && okRet, "reserve-covers-attributes", measure.Name()+" = bytes Serialize appends for the whole attribute list", measure.Decl.Pos(),
				"the measuring function does not run (*PathAttribute).Serialize with the caller's options over every element of the list into one buffer and return that buffer's length")
		}
		// what is measured is what is sent
		okSame := false
		for _, call := range core.Calls(gui.Pkg, gui.Decl.Body, func(o *types.Func) bool { return o == getBudget.Obj }) {
			if len(call.Args) == 2 {
				ao := core.ObjOf(gui.Pkg, call.Args[1])
				ast.Inspect(gui.Decl.Body, func(n ast.Node) bool {
					if ret, ok := n.(*ast.ReturnStmt); ok && len(ret.Results) == 3 && ao != nil && core.ObjOf(gui.Pkg, ret.Results[0]) == ao {
						okSame = true
					}
					return true
				})
			}
		}
		okOpt := false
		if su := p.Func(upd + "sendUpdates"); su != nil {
			for _, call := range core.Calls(su.Pkg, su.Decl.Body, core.KeyIs(srv+".serializeAndSendUpdate")) {
				if len(call.Args) == 3 && core.FieldOf(su.Pkg, call.Args[2]) == optF && optF != nil {
					okOpt = true
				}
			}
		}
		c.Check(okSame && okOpt, "reserve-covers-attributes", gui.Name()+" measures the attribute list it returns; it is sent with the same options", gui.Decl.Pos(),
			"the attribute list passed to getBudget is not the one returned for sending, or the UPDATE is serialized with another options object than the one used for measuring")
	}

	// (2) per-prefix charge ≥ NLRI.serialize ----------------------------------------------------------------------------------
	var loop *ast.RangeStmt
	pfxsF := p.Field(srv, "pathPfxs", "pfxs")
	ast.Inspect(gui.Decl.Body, func(n ast.Node) bool {
		if rs, ok := n.(*ast.RangeStmt); ok && core.FieldOf(gui.Pkg, rs.X) == pfxsF && pfxsF != nil {
			loop = rs
		}
		return true
	})
	if loop == nil {
		c.Undecided("prefix-charge-covers-nlri", gui.Name()+" packing loop", gui.Decl.Pos(), "no range loop over pathPfxs.pfxs found")
		return
	}
	var budget types.Object
	// budget variable: the one compared with 0 in the loop
	ast.Inspect(loop.Body, func(n ast.Node) bool {
		if ifs, ok := n.(*ast.IfStmt); ok {
			if be, isB := core.Unparen(ifs.Cond).(*ast.BinaryExpr); isB && be.Op == token.LSS {
				if v := core.ConstOf(gui.Pkg, be.Y); v != nil && v.ExactString() == "0" {
					budget = core.ObjOf(gui.Pkg, be.X)
				}
			}
		}
		return true
	})
	if budget == nil {
		c.Undecided("prefix-charge-covers-nlri", gui.Name()+" budget variable", loop.Pos(), "no `budget < 0` test in the packing loop")
		return
	}
	// NLRI literals the sender builds
	type nlriLit struct {
		f   *core.Fn
		lit *ast.CompositeLit
	}
	var nlits []nlriLit
	for _, k := range []string{upd + "bgpUpdate", upd + "nlriForPrefixes"} {
		if f := c.MustFunc(k); f != nil {
			ast.Inspect(f.Decl.Body, func(n ast.Node) bool {
				if cl, ok := n.(*ast.CompositeLit); ok {
					if t := f.Pkg.TypesInfo.TypeOf(cl); t != nil && strings.HasSuffix(t.String(), "packet.NLRI") {
						nlits = append(nlits, nlriLit{f, cl})
					}
				}
				return true
			})
		}
	}
	// call sites of NLRI.serialize in the encoder (announcements): SerializeUpdate's NLRI loop and MP_REACH
	type site struct {
		f    *core.Fn
		call *ast.CallExpr
	}
	var sites []site
	for _, k := range []string{pktPkg + ".(*BGPUpdate).SerializeUpdate", pktPkg + ".(*MultiProtocolReachNLRI).serialize"} {
		if f := p.Func(k); f != nil {
			for _, call := range core.Calls(f.Pkg, f.Decl.Body, func(o *types.Func) bool { return o == nlriSer.Obj }) {
				sites = append(sites, site{f, call})
			}
		}
	}
	c.Check(len(nlits) >= 2 && len(sites) >= 3, "prefix-charge-covers-nlri", "NLRI literals of the sender and serialize call sites of the encoder found", loop.Pos(), fmt.Sprintf("found %d literals and %d call sites (floors 2 and 3)", len(nlits), len(sites)))
	addPathAtom := "true:packet.EncodeOptions.UseAddPath"
	for _, ap := range []bool{false, true} {
		sc := map[string]bool{addPathAtom: ap}
		// charge: Σ of `budget -= E` statements of the loop body whose guards are known true, plus charges through a local
		anL := core.NewSizeAn(p, false, sc)
		anL.Opaque[c18Opaque] = true
		fr := anL.NewFrame(gui, false)
		st := core.NewSzState()
		fr.BindRangeVars(loop.Body)
		charge := loopCharge(fr, st, loop, budget)
		for _, nl := range nlits {
			for _, s := range sites {
				anU := core.NewSizeAn(p, true, sc)
				anU.Opaque[c18Opaque] = true
				ctx := anU.NewFrame(nl.f, true)
				ctx.BindRangeVars(nl.lit)
				enc := anU.NewFrame(s.f, true)
				sf := anU.NewFrame(nlriSer, true)
				sf.BindRecvStruct(nl.lit, ctx)
				stU := core.NewSzState()
				cells := sf.BindBufferParams(stU)
				sf.BindParamClosure(1, s.call.Args[1], enc)
				out, _ := sf.Run(stU)
				construct := fmt.Sprintf("charge per prefix ≥ NLRI.serialize (add-path=%v, NLRI built in %s, encoded by %s)", ap, nl.f.Decl.Name.Name, s.f.Decl.Name.Name)
				if out == nil {
					c.Undecided("prefix-charge-covers-nlri", construct, nl.lit.Pos(), "no success path")
					continue
				}
				act := out.Cells[cells["buf"]]
				if !act.Known() || !charge.Known() {
					c.Undecided("prefix-charge-covers-nlri", construct, nl.lit.Pos(), "outside the analysed fragment: charge="+charge.String()+" encoding="+act.String())
					continue
				}
				d := charge.Sub(act)
				c.Check(d.NonNeg(), "prefix-charge-covers-nlri", construct, loop.Pos(),
					"the budget is charged "+charge.String()+" per prefix but the encoder appends "+act.String()+" per NLRI under the same add-path setting: every NLRI is under-charged, full messages exceed 4096 octets, are refused by SerializeUpdate and their prefixes are silently lost")
			}
		}
	}

	// (3) envelope per session kind -------------------------------------------------------------------------------------------
	envelope(c, getBudget, overhead, serUpd, reserve)

	// (4) a prefix is charged to the message it goes into ---------------------------------------------------------------------
	{
		g := p.CFG(gui)
		isReset := func(n ast.Node) bool {
			as, ok := n.(*ast.AssignStmt)
			if !ok || as.Tok != token.ASSIGN || len(as.Lhs) != 1 || core.ObjOf(gui.Pkg, as.Lhs[0]) != budget {
				return false
			}
			return as.Pos() > loop.Body.Pos() && as.End() < loop.Body.End()
		}
		chargesPfx := func(n ast.Node) bool {
			// a statement that lowers the budget by the size of the current prefix: budget -= …; or budget = full - cost
			as, ok := n.(*ast.AssignStmt)
			if !ok || len(as.Lhs) != 1 || core.ObjOf(gui.Pkg, as.Lhs[0]) != budget {
				return false
			}
			if as.Tok == token.SUB_ASSIGN {
				return mentionsPrefixSize(gui, as.Rhs[0], loop)
			}
			if as.Tok == token.ASSIGN {
				if be, isB := core.Unparen(as.Rhs[0]).(*ast.BinaryExpr); isB && be.Op == token.SUB {
					return mentionsPrefixSize(gui, be.Y, loop)
				}
			}
			return false
		}
		isAppend := func(n ast.Node) bool {
			as, ok := n.(*ast.AssignStmt)
			if !ok || len(as.Rhs) != 1 {
				return false
			}
			call, isCall := core.Unparen(as.Rhs[0]).(*ast.CallExpr)
			if !isCall || core.ExprString(call.Fun) != "append" || len(call.Args) != 2 {
				return false
			}
			return core.ObjOf(gui.Pkg, call.Args[1]) == core.ObjOf(gui.Pkg, loop.Value)
		}
		// a reset that itself charges the prefix is fine; otherwise every path from the reset to the append must charge
		resets := 0
		ast.Inspect(loop.Body, func(n ast.Node) bool {
			if isReset(n) {
				resets++
				if chargesPfx(n) {
					c.Hold("prefix-charged-to-its-message", fmt.Sprintf("%s budget reset #%d", gui.Name(), resets), n.Pos(), "the reset subtracts the size of the prefix that opens the new message")
					return true
				}
				this := n
				hits, started := core.PathAvoidingFromS(g, func(x ast.Node) bool { return x == this }, chargesPfx, isAppend)
				if !started {
					c.Undecided("prefix-charged-to-its-message", fmt.Sprintf("%s budget reset #%d", gui.Name(), resets), n.Pos(), "reset not found in the control-flow graph")
					return true
				}
				c.Check(len(hits) == 0, "prefix-charged-to-its-message", fmt.Sprintf("%s budget reset #%d", gui.Name(), resets), n.Pos(),
					"after a flush the budget is reset to the full message budget and the prefix that did not fit is appended to the new message without being charged: every message after the first can exceed its budget by one NLRI, is then refused by SerializeUpdate and all its prefixes are silently lost")
			}
			return true
		})
		c.Check(resets >= 1, "prefix-charged-to-its-message", gui.Name()+" budget reset inside the loop found", loop.Pos(), "no reset of the budget after a flush found")
		// and on the first path: from loop head to append a charge is passed
		hits, started := core.PathAvoidingFromS(g, func(x ast.Node) bool { return x == ast.Node(loop.X) || x == ast.Node(loop) }, func(n ast.Node) bool { return chargesPfx(n) }, isAppend)
		if started {
			c.Check(len(hits) == 0, "prefix-charged-to-its-message", gui.Name()+" every appended prefix was charged", loop.Pos(), "a prefix can be appended to a message slice without the budget having been lowered by its size")
		}
	}

	// (5) every prefix in exactly one message -------------------------------------------------------------------------------------
	packing(c, gui, loop)
}

// mentionsPrefixSize: e (transitively through single local definitions inside the loop) calls BytesInPrefix on the loop variable.
func mentionsPrefixSize(f *core.Fn, e ast.Expr, loop *ast.RangeStmt) bool {
	pfx := core.ObjOf(f.Pkg, loop.Value)
	found := false
	var visit func(e ast.Expr, depth int)
	visit = func(e ast.Expr, depth int) {
		ast.Inspect(e, func(n ast.Node) bool {
			switch x := n.(type) {
			case *ast.CallExpr:
				if se, ok := x.Fun.(*ast.SelectorExpr); ok && se.Sel.Name == "BytesInPrefix" && core.ObjOf(f.Pkg, se.X) == pfx {
					found = true
				}
			case *ast.Ident:
				if o, isVar := f.Pkg.TypesInfo.ObjectOf(x).(*types.Var); isVar && !o.IsField() && depth < 3 && o != pfx {
					for _, d := range core.DefsOf(f, o) {
						if d.Pos() > loop.Body.Pos() && d.End() < loop.Body.End() {
							visit(d, depth+1)
						}
					}
				}
			}
			return !found
		})
	}
	visit(e, 0)
	return found
}

// loopCharge sums, as a lower bound, what one iteration of the packing loop subtracts from the budget before the
// flush decision: `budget -= E` statements at the top level of the loop body (or under guards the scenario decides).
func loopCharge(fr *core.SzFrame, st *core.SzState, loop *ast.RangeStmt, budget types.Object) core.Lin {
	f := fr.Fn
	total := core.LinC(0)
	// evaluate the body's straight-line prefix with the engine: locals such as `nlriLen := …; if addPath { nlriLen += 4 }`
	for _, s := range loop.Body.List {
		switch x := s.(type) {
		case *ast.AssignStmt:
			if len(x.Lhs) == 1 && core.ObjOf(f.Pkg, x.Lhs[0]) == budget {
				if x.Tok == token.SUB_ASSIGN {
					total = total.Add(fr.Int(st, x.Rhs[0], false))
				}
				continue
			}
			st2 := fr.ExecStmt(st, s)
			if st2 != nil {
				st = st2
			}
		case *ast.IfStmt:
			// a guarded charge: if cond { budget -= E }
			direct := false
			for _, b := range x.Body.List {
				if as, ok := b.(*ast.AssignStmt); ok && len(as.Lhs) == 1 && core.ObjOf(f.Pkg, as.Lhs[0]) == budget && as.Tok == token.SUB_ASSIGN {
					direct = true
					if v, known := fr.Cond(st, x.Cond); known && v {
						total = total.Add(fr.Int(st, as.Rhs[0], false))
					}
				}
			}
			if direct {
				continue
			}
			// the flush decision and anything after it is not part of the charge
			if core.MentionsObj(f.Pkg, x.Cond, budget) {
				return total
			}
			st2 := fr.ExecStmt(st, s)
			if st2 != nil {
				st = st2
			}
		default:
			st2 := fr.ExecStmt(st, s)
			if st2 != nil {
				st = st2
			}
		}
	}
	return total
}

// envelope compares, per session kind, what getBudget reserves besides attributes and prefixes with what the
// encoder emits besides them.
func envelope(c *core.Ctx, getBudget, overhead, serUpd *core.Fn, reserve types.Object) {
	p := c.P
	upd := "protocols/bgp/server.(*UpdateSender)."
	maxLen := int64(0)
	if o, ok := p.Object(pktPkg, "MaxLen").(*types.Const); ok {
		maxLen, _ = constantInt(o.Val())
	}
	// framing constant of SerializeUpdate
	anF := core.NewSizeAn(p, true, nil)
	anF.OpaqueBuffersIn = serUpd
	fr := anF.NewFrame(serUpd, true)
	_, vals := fr.RunBytes(core.NewSzState())
	if len(vals) == 0 || !vals[0].Known() {
		c.Undecided("envelope-covers-framing", serUpd.Name()+" framing", serUpd.Decl.Pos(), "size effect of SerializeUpdate not computable")
		return
	}
	framing := vals[0]
	okBufs := len(framing.V) == 3
	for _, k := range framing.V {
		if k != 1 {
			okBufs = false
		}
	}
	c.Check(okBufs, "envelope-covers-framing", serUpd.Name()+" = fixed fields + withdrawn + attributes + NLRI", serUpd.Decl.Pos(), "the UPDATE is not the fixed fields plus each of the three part buffers once: "+framing.String())

	afi := "server.fsmAddressFamily.afi"
	kinds := []struct {
		name string
		sc   map[string]bool
	}{
		{"IPv4", map[string]bool{"eq:" + afi + ":1": true, "eq:" + afi + ":2": false, "true:server.fsmAddressFamily.multiProtocol": false, "true:net.IP.isLegacy": true}},
		{"IPv4 over multiprotocol", map[string]bool{"eq:" + afi + ":1": true, "eq:" + afi + ":2": false, "true:server.fsmAddressFamily.multiProtocol": true, "true:net.IP.isLegacy": true}},
		{"IPv6 (multiprotocol)", map[string]bool{"eq:" + afi + ":1": false, "eq:" + afi + ":2": true, "true:server.fsmAddressFamily.multiProtocol": true, "true:net.IP.isLegacy": false}},
	}
	builder := c.MustFunc(upd + "updateMessageForPrefixes")
	plain, mp := p.Func(upd+"bgpUpdate"), c.MustFunc(upd+"bgpUpdateMultiProtocol")
	if builder == nil || mp == nil || plain == nil {
		return
	}
	// NEXT_HOP literal of PathAttributes (what the measurement includes and the multiprotocol message omits)
	var nhLit *ast.CompositeLit
	var nhFn *core.Fn
	for _, l := range attrLiterals(p) {
		for _, el := range l.Lit.Elts {
			if kv, ok := el.(*ast.KeyValueExpr); ok {
				if id, isId := kv.Key.(*ast.Ident); isId && id.Name == "TypeCode" && core.ExprString(kv.Value) == "NextHopAttr" {
					nhLit, nhFn = l.Lit, l.F
				}
			}
		}
	}
	// copyAttributesWithoutNextHop drops exactly the NEXT_HOP attribute
	if cp := c.MustFunc(upd + "copyAttributesWithoutNextHop"); cp != nil {
		okDrop := false
		ast.Inspect(cp.Decl.Body, func(n ast.Node) bool {
			ifs, ok := n.(*ast.IfStmt)
			if !ok || ifs.Else == nil {
				return true
			}
			be, isB := core.Unparen(ifs.Cond).(*ast.BinaryExpr)
			if isB && be.Op == token.EQL && core.ExprString(be.Y) == "packet.NextHopAttr" && len(core.Calls(cp.Pkg, ifs.Else, core.KeyIs(pktPkg+".(*PathAttribute).Copy"))) == 1 && len(core.Calls(cp.Pkg, ifs.Body, core.KeyIs(pktPkg+".(*PathAttribute).Copy"))) == 0 {
				okDrop = true
			}
			return true
		})
		c.Check(okDrop, "envelope-covers-framing", cp.Name()+" copies every attribute except NEXT_HOP", cp.Decl.Pos(), "the multiprotocol message does not carry exactly the measured attributes minus NEXT_HOP")
	}
	var mpLit *ast.CompositeLit
	ast.Inspect(mp.Decl.Body, func(n ast.Node) bool {
		if cl, ok := n.(*ast.CompositeLit); ok {
			if t := mp.Pkg.TypesInfo.TypeOf(cl); t != nil && strings.HasSuffix(t.String(), "packet.PathAttribute") {
				mpLit = cl
			}
		}
		return true
	})
	for _, k := range kinds {
		construct := "session kind " + k.name + ": reserve for header, fixed fields and MP_REACH wrapper covers what is emitted"
		// which builder does this kind use?
		anB := core.NewSizeAn(p, true, k.sc)
		bf := anB.NewFrame(builder, true)
		usesPlain, usesMP := false, false
		ast.Inspect(builder.Decl.Body, func(n ast.Node) bool {
			ret, ok := n.(*ast.ReturnStmt)
			if !ok || len(ret.Results) != 1 {
				return true
			}
			call, isCall := core.Unparen(ret.Results[0]).(*ast.CallExpr)
			if !isCall {
				return true
			}
			v, known := bf.EnclosingConds(core.NewSzState(), ret)
			// earlier returns: a return later in the list is reached only if the earlier guarded returns were not taken;
			// the builder is a chain of `if … { return … }`, so evaluate in order
			if known && v {
				switch core.Callee(builder.Pkg, call) {
				case plain.Obj:
					if !usesMP {
						usesPlain = true
					}
				case mp.Obj:
					if !usesPlain {
						usesMP = true
					}
				}
			}
			return true
		})
		if usesPlain == usesMP {
			c.Undecided("envelope-covers-framing", construct, builder.Decl.Pos(), "cannot tell which message builder this session kind uses")
			continue
		}
		// reserve besides attributes: MaxLen − budget with the attribute term removed
		anG := core.NewSizeAn(p, true, k.sc)
		anG.Opaque["route.(*BGPPath).Length"] = true
		anG.Opaque[pktPkg+".(*PathAttribute).SerializedLength"] = true
		gf := anG.NewFrame(getBudget, true)
		_, gv := gf.Run(core.NewSzState())
		if len(gv) != 1 || !gv[0].Known() {
			c.Undecided("envelope-covers-framing", construct, getBudget.Decl.Pos(), "budget expression not computable: "+fmt.Sprint(gv))
			continue
		}
		// the attribute reserve must enter the budget with coefficient −1
		okAttr := true
		for v, k2 := range gv[0].V {
			if strings.HasPrefix(v, "call:") && k2 != -1 {
				okAttr = false
			}
		}
		if len(gv[0].V) == 0 {
			okAttr = false
		}
		c.Check(okAttr, "envelope-covers-framing", "session kind "+k.name+": the attribute reserve is subtracted from the budget once", getBudget.Decl.Pos(), "budget = "+gv[0].String())
		estEnv := int(maxLen) - gv[0].C
		actEnv := framing.C
		detail := fmt.Sprintf("fixed fields %d", framing.C)
		if usesMP {
			if mpLit == nil || nhLit == nil {
				c.Undecided("envelope-covers-framing", construct, mp.Decl.Pos(), "MP_REACH literal or NEXT_HOP literal not found")
				continue
			}
			anW := core.NewSizeAn(p, true, k.sc)
			anW.Opaque[c18Opaque] = true
			w, _, _ := serializeEffect(p, anW, mp, mpLit, true)
			anN := core.NewSizeAn(p, false, k.sc)
			nh, _, _ := serializeEffect(p, anN, nhFn, nhLit, false)
			if !w.Known() || !nh.IsConst() {
				c.Undecided("envelope-covers-framing", construct, mp.Decl.Pos(), "wrapper "+w.String()+" / next hop "+nh.String())
				continue
			}
			actEnv += w.C - nh.C
			detail += fmt.Sprintf(" + MP_REACH wrapper %d − omitted NEXT_HOP %d", w.C, nh.C)
		}
		c.Check(estEnv >= actEnv, "envelope-covers-framing", construct, getBudget.Decl.Pos(),
			fmt.Sprintf("getBudget reserves %d octets besides attributes and prefixes, the encoder emits %d (%s): a full UPDATE is %d octets over 4096, is refused by SerializeUpdate and its prefixes are silently lost", estEnv, actEnv, detail, actEnv-estEnv))
	}
}

// packing: every queued prefix goes into exactly one message slice, every slice is handed over, every prefix of a
// slice becomes one NLRI.
func packing(c *core.Ctx, gui *core.Fn, loop *ast.RangeStmt) {
	upd := "protocols/bgp/server.(*UpdateSender)."
	pfx := core.ObjOf(gui.Pkg, loop.Value)
	// the append of the loop variable is a top-level statement of the loop body, and no continue/break/return is in the body
	var cur types.Object // the per-message slice
	top := 0
	for _, s := range loop.Body.List {
		if as, ok := s.(*ast.AssignStmt); ok && len(as.Rhs) == 1 {
			if call, isCall := core.Unparen(as.Rhs[0]).(*ast.CallExpr); isCall && core.ExprString(call.Fun) == "append" && len(call.Args) == 2 && core.ObjOf(gui.Pkg, call.Args[1]) == pfx && core.ObjOf(gui.Pkg, call.Args[0]) == core.ObjOf(gui.Pkg, as.Lhs[0]) {
				top++
				cur = core.ObjOf(gui.Pkg, as.Lhs[0])
			}
		}
	}
	escapes := false
	ast.Inspect(loop.Body, func(n ast.Node) bool {
		switch x := n.(type) {
		case *ast.BranchStmt:
			escapes = true
		case *ast.ReturnStmt:
			_ = x
			escapes = true
		}
		return true
	})
	c.Check(top == 1 && !escapes, "every-prefix-in-one-message", gui.Name()+" appends each queued prefix exactly once", loop.Pos(),
		"the packing loop does not append the current prefix to the current message slice exactly once on every iteration (conditional append, continue/break/return in the loop): prefixes are dropped or duplicated")
	if cur == nil {
		return
	}
	// every re-initialisation of the slice is directly preceded by its hand-over
	var all types.Object
	okHand, reinits := true, 0
	ast.Inspect(gui.Decl.Body, func(n ast.Node) bool {
		bl, ok := n.(*ast.BlockStmt)
		if !ok {
			return true
		}
		for i, s := range bl.List {
			as, isAs := s.(*ast.AssignStmt)
			if !isAs || len(as.Lhs) != 1 || core.ObjOf(gui.Pkg, as.Lhs[0]) != cur || as.Tok != token.ASSIGN {
				continue
			}
			if call, isCall := core.Unparen(as.Rhs[0]).(*ast.CallExpr); isCall && core.ExprString(call.Fun) == "append" {
				continue
			}
			reinits++
			handed := false
			for j := i - 1; j >= 0; j-- {
				if h, isH := bl.List[j].(*ast.AssignStmt); isH && len(h.Rhs) == 1 {
					if call, isCall := core.Unparen(h.Rhs[0]).(*ast.CallExpr); isCall && core.ExprString(call.Fun) == "append" && len(call.Args) == 2 && core.ObjOf(gui.Pkg, call.Args[1]) == cur {
						handed = true
						all = core.ObjOf(gui.Pkg, h.Lhs[0])
					}
				}
			}
			if !handed {
				okHand = false
			}
		}
		return true
	})
	c.Check(okHand && reinits >= 1, "every-prefix-in-one-message", gui.Name()+" hands a full slice over before starting a new one", loop.Pos(), "the current message slice is replaced without having been appended to the list of messages: its prefixes are lost")
	// after the loop the remainder is handed over (guard: non-empty only) and the list is what is returned
	okTail, okRet := false, false
	for _, s := range gui.Decl.Body.List {
		if s.Pos() < loop.End() {
			continue
		}
		ast.Inspect(s, func(n ast.Node) bool {
			if h, isH := n.(*ast.AssignStmt); isH && len(h.Rhs) == 1 {
				if call, isCall := core.Unparen(h.Rhs[0]).(*ast.CallExpr); isCall && core.ExprString(call.Fun) == "append" && len(call.Args) == 2 && core.ObjOf(gui.Pkg, call.Args[1]) == cur {
					okGuards := true
					for _, ft := range core.CtlFactsAt(gui, h) {
						if !ft.Enclosing {
							continue
						}
						be, isB := core.Unparen(ft.Expr).(*ast.BinaryExpr)
						if !isB || !ft.Truth || !(be.Op == token.GTR || be.Op == token.NEQ) || core.ExprString(be.X) != "len("+cur.Name()+")" || core.ExprString(be.Y) != "0" {
							okGuards = false
						}
					}
					okTail = okGuards
					all = core.ObjOf(gui.Pkg, h.Lhs[0])
				}
			}
			if ret, isRet := n.(*ast.ReturnStmt); isRet && len(ret.Results) == 3 && all != nil && core.ObjOf(gui.Pkg, ret.Results[1]) == all {
				okRet = true
			}
			return true
		})
	}
	c.Check(okTail && okRet, "every-prefix-in-one-message", gui.Name()+" hands over the last slice and returns the list", loop.Pos(), "the prefixes collected after the last flush are not handed over (or only under a condition other than `non-empty`), or the list of message slices is not what is returned")
	// every slice becomes a message and every prefix of it an NLRI
	if su := c.MustFunc(upd + "sendUpdates"); su != nil {
		ok := false
		ast.Inspect(su.Decl.Body, func(n ast.Node) bool {
			rs, isR := n.(*ast.RangeStmt)
			if !isR || core.ObjOf(su.Pkg, rs.X) != core.ParamObj(su, 1) {
				return true
			}
			for _, call := range core.Calls(su.Pkg, rs.Body, core.KeyIs(upd+"updateMessageForPrefixes")) {
				if len(call.Args) == 3 && core.ObjOf(su.Pkg, call.Args[0]) == core.ObjOf(su.Pkg, rs.Value) {
					ok = true
				}
			}
			ast.Inspect(rs.Body, func(m ast.Node) bool {
				if b, isB := m.(*ast.BranchStmt); isB && (b.Tok == token.CONTINUE || b.Tok == token.BREAK) {
					ok = false
				}
				return true
			})
			return true
		})
		c.Check(ok, "every-prefix-in-one-message", su.Name()+" builds and sends one UPDATE per slice", su.Decl.Pos(), "not every message slice is turned into an UPDATE")
	}
	for _, k := range []string{upd + "bgpUpdate", upd + "nlriForPrefixes"} {
		f := c.MustFunc(k)
		if f == nil {
			continue
		}
		ok := false
		ast.Inspect(f.Decl.Body, func(n ast.Node) bool {
			rs, isR := n.(*ast.RangeStmt)
			if !isR || core.ObjOf(f.Pkg, rs.X) != core.ParamObj(f, 0) || len(rs.Body.List) == 0 {
				return true
			}
			// first statement of the body builds the NLRI for the loop variable
			if as, isAs := rs.Body.List[0].(*ast.AssignStmt); isAs && len(as.Rhs) == 1 {
				if ue, isU := core.Unparen(as.Rhs[0]).(*ast.UnaryExpr); isU {
					if cl, isCL := ue.X.(*ast.CompositeLit); isCL {
						for _, el := range cl.Elts {
							if kv, isKV := el.(*ast.KeyValueExpr); isKV && core.ExprString(kv.Key) == "Prefix" && core.ObjOf(f.Pkg, kv.Value) == core.ObjOf(f.Pkg, rs.Value) {
								ok = true
							}
						}
					}
				}
			}
			return true
		})
		c.Check(ok, "every-prefix-in-one-message", f.Name()+" creates one NLRI per prefix of the slice", f.Decl.Pos(), "the message builder does not create an NLRI for every prefix it is given")
	}
}
