package props

import (
	"fmt"
	"go/ast"
	"go/token"
	"go/types"

	"verif/engine/core"
)

func init() {
	Register(&Prop{
		Meta: core.Meta{
			ID: "C19", Title: "Malformed UPDATEs never install routes", Level: "other",
			Technique:   "wire-value guard checks (R-TAINT) on the typed AST: dominating comparisons of the prefix length with the family maximum and of the length fields with the message length; sibling agreement of the attribute body decoders on reading the declared length; guard table of the mandatory-attribute test; exact-framing rule",
			DesignRef:   "DESIGN.md §4 C19",
			Decided:     "(1) every prefix built from a wire prefix length (deserializePrefix) is dominated by a comparison of that length with the address family's maximum (8 × address octets of the AFI table, unknown AFIs rejected); (2) the NLRI length, obtained by subtracting the withdrawn-routes and attribute lengths from the message length, is computed only after a dominating test that they fit; (3) every arm of the attribute-type switch either calls a body decoder that reads the attribute's declared length or tests that length itself — a decoder that never looks at the declared length cannot reject a mismatch and desynchronises the parse; (3b) the decoders of the fixed-size attributes (ORIGIN 1, NEXT_HOP 4, MED 4, LOCAL_PREF 4, AGGREGATOR 6|8, ORIGINATOR_ID 4, AS4_AGGREGATOR 8) reach a non-error return for exactly those declared lengths (tests on the declared length evaluated on candidate lengths, through delegation to helpers of the same receiver); (4) decodeUpdateMsg rejects reachable IPv4 NLRI unless ORIGIN, AS_PATH and NEXT_HOP are all present (8 valuations), and decodePathAttrs requires all three as soon as one is present (MP_REACH counting as next hop); (5) the framing hands the decoder exactly the received message (the slice of the receive buffer up to the header length), so lengths pointing past the end hit end-of-input instead of the buffer's padding.",
			NotDecided:  "that nothing reaches the Adj-RIB-In after a decode error is C21/C23's control flow (the error branch returns before update()); malformations outside these five classes.",
			TrustedBase: stdTrusted,
		},
		Run: runC19,
		Controls: []Control{
			{Name: "ipv6-nlri-address-family-guessed-from-the-bytes", File: "protocols/bgp/packet/helper.go", Old: "\tip := bnet.IPv6(binary.BigEndian.Uint64(ipBytes[:8]), binary.BigEndian.Uint64(ipBytes[8:]))\n", New: "\t_ = binary.BigEndian\n\tip, err := bnet.IPFromBytes(ipBytes[:])\n\tif err != nil {\n\t\treturn nil, err\n\t}\n", Expect: "nlri-family-comes-from-the-afi"},
			{Name: "body-length-clamped-to-the-buffer", File: "protocols/bgp/packet/decoder.go", Old: "\tbody, err := decodeMsgBody(buf, hdr.Type, hdr.Length-MinLen, opt)\n", New: "\tbodyLen := hdr.Length - MinLen\n\tif int(bodyLen) > buf.Len() {\n\t\tbodyLen = uint16(buf.Len())\n\t}\n\tbody, err := decodeMsgBody(buf, hdr.Type, bodyLen, opt)\n", Expect: "body-length-is-the-declared-length"},
			{Name: "refactor-body-length-in-a-local", Silent: true, File: "protocols/bgp/packet/decoder.go", Old: "\tbody, err := decodeMsgBody(buf, hdr.Type, hdr.Length-MinLen, opt)\n", New: "\tbodyLen := hdr.Length - MinLen\n\tbody, err := decodeMsgBody(buf, hdr.Type, bodyLen, opt)\n"},
			{Name: "consumed-is-what-was-read", File: "protocols/bgp/packet/path_attributes.go", Old: "\treturn pa, consumed + pa.Length, nil\n", New: "\tconsumed += uint16(0)\n\treturn pa, consumed, nil\n", Expect: "consumed-counts-the-declared-length"},
			{Name: "next-hop-length-switch-without-default", File: "protocols/bgp/packet/mp_reach_nlri.go", Old: "\tnh, err := bnet.IPFromBytes(variable[:firstNextHopLength])\n\tif err != nil {\n\t\treturn MultiProtocolReachNLRI{}, fmt.Errorf(\"failed to decode next hop IP: %w\", err)\n\t}\n\tn.NextHop = nh.Dedup()\n", New: "\tswitch firstNextHopLength {\n\tcase 4, 16:\n\t\tnh, err := bnet.IPFromBytes(variable[:firstNextHopLength])\n\t\tif err != nil {\n\t\t\treturn MultiProtocolReachNLRI{}, fmt.Errorf(\"failed to decode next hop IP: %w\", err)\n\t\t}\n\t\tn.NextHop = nh.Dedup()\n\t}\n", Expect: "reach-nlri-carries-next-hop"},
			{Name: "nlri-field-carved-with-next", File: "protocols/bgp/packet/nlri.go", Old: "\tfor p < length {\n\t\tnlri, consumed, err = decodeNLRI(buf, afi, safi, addPath)", New: "\tbuf = bytes.NewBuffer(buf.Next(int(length)))\n\tfor buf.Len() > 0 {\n\t\tnlri, consumed, err = decodeNLRI(buf, afi, safi, addPath)", Expect: "short-reads-are-errors"},
			{Name: "med-length-not-enforced", File: "protocols/bgp/packet/path_attributes.go", Old: "func (pa *PathAttribute) decodeMED(buf *bytes.Buffer) error {\n\tif pa.Length != 4 {\n\t\treturn fmt.Errorf(\"invalid attribute length %d, expected 4\", pa.Length)\n\t}\n\n\tmed := uint32(0)\n\terr := decode.DecodeUint32(buf, &med)\n\tif err != nil {\n\t\treturn err\n\t}\n\n\tpa.Value = med\n\treturn nil\n}", New: "func (pa *PathAttribute) decodeMED(buf *bytes.Buffer) error {\n\treturn pa.decodeUint32(buf, \"MED\")\n}", Expect: "fixed-size-attribute-length-enforced"},
			{Name: "origin-surplus-octets-skipped", File: "protocols/bgp/packet/path_attributes.go", Old: "\tif pa.Length != 1 {\n\t\treturn fmt.Errorf(\"invalid attribute length %d, expected 1\", pa.Length)\n\t}\n", New: "", Expect: "fixed-size-attribute-length-enforced"},
			{Name: "refactor-length-test-in-shared-helper", Silent: true, File: "protocols/bgp/packet/path_attributes.go", Old: "func (pa *PathAttribute) decodeOriginatorID(buf *bytes.Buffer) error {\n\tif pa.Length != 4 {\n\t\treturn fmt.Errorf(\"invalid attribute length %d, expected 4\", pa.Length)\n\t}\n\n\treturn pa.decodeUint32(buf, \"OriginatorID\")", New: "func (pa *PathAttribute) decodeOriginatorID(buf *bytes.Buffer) error {\n\tif pa.Length > 4 || pa.Length < 4 {\n\t\treturn fmt.Errorf(\"invalid attribute length\")\n\t}\n\n\treturn pa.decodeUint32(buf, \"OriginatorID\")"},
			{Name: "refactor-prefix-length-check-in-int", Silent: true, File: "protocols/bgp/packet/helper.go", Old: "\tif !known || uint16(pfxLen) > 8*uint16(maxPfxLen) {", New: "\tif !known || int(pfxLen) > 8*int(maxPfxLen) {"},
			{Name: "prefix-length-check-dropped", File: "protocols/bgp/packet/helper.go", Old: "\tif !known || uint16(pfxLen) > 8*uint16(maxPfxLen) {", New: "\tif !known || uint16(pfxLen) > 16*uint16(maxPfxLen) {", Expect: "prefix-length-bounded"},
			{Name: "med-ignores-declared-length", File: "protocols/bgp/packet/path_attributes.go", Old: "func (pa *PathAttribute) decodeMED(buf *bytes.Buffer) error {\n\tif pa.Length != 4 {\n\t\treturn fmt.Errorf(\"invalid attribute length %d, expected 4\", pa.Length)\n\t}\n", New: "func (pa *PathAttribute) decodeMED(buf *bytes.Buffer) error {\n", Expect: "body-decoder-reads-length"},
			{Name: "as4path-counts-as-aspath", File: "protocols/bgp/packet/decoder.go", Old: "\t\tcase ASPathAttr:\n\t\t\thaveASPath = true\n\t\tcase NextHopAttr:", New: "\t\tcase ASPathAttr, AS4PathAttr:\n\t\t\thaveASPath = true\n\t\tcase NextHopAttr:", Expect: "mandatory-attributes"},
			{Name: "framing-returns-whole-buffer", File: "protocols/bgp/server/fsm.go", Old: "\treturn buffer[0:toRead], nil", New: "\treturn buffer, nil", Expect: "exact-framing"},
			{Name: "nlri-length-unchecked", File: "protocols/bgp/packet/decoder.go", Old: "\tif uint32(msg.WithdrawnRoutesLen)+uint32(msg.TotalPathAttrLen)+4 > uint32(l) {", New: "\tif uint32(msg.WithdrawnRoutesLen)+4 > uint32(l) {", Expect: "nlri-length-checked"},
		},
	})
}

func runC19(c *core.Ctx) {
	bodyLengthIsTheDeclaredLength(c, "body-length-is-the-declared-length")
	p := c.P
	fixedSizeAttributes(c)
	reachCarriesNextHop(c)
	shortReadsAreErrors(c)
	consumedCountsTheDeclaredLength(c)
	nlriFamilyComesFromTheAFI(c)
	const pkt = "protocols/bgp/packet"
	// (1) prefix length ------------------------------------------------------------------------------
	if f := c.MustFunc(pkt + ".deserializePrefix"); f != nil {
		lenPar := core.ParamObj(f, 1)
		n := 0
		for _, call := range core.Calls(f.Pkg, f.Decl.Body, core.KeyIs("net.NewPfx")) {
			n++
			bounded, known := false, false
			for _, ft := range core.FactsAt(f, call) {
				be, ok := ft.Expr.(*ast.BinaryExpr)
				if ok && (be.Op == token.GTR && !ft.Truth || be.Op == token.LEQ && ft.Truth) && core.MentionsObj(f.Pkg, be.X, lenPar) {
					// the other side derives from the AFI length table (or is a literal family maximum)
					tbl := false
					ast.Inspect(be.Y, func(m ast.Node) bool {
						if id, isId := m.(*ast.Ident); isId {
							if o := core.ObjOf(f.Pkg, id); o != nil {
								for _, d := range core.DefsOf(f, o) {
									if ie, isIE := core.Unparen(d).(*ast.IndexExpr); isIE {
										if to := core.ObjOf(f.Pkg, ie.X); to != nil && to.Name() == "afiAddrLenBytes" {
											tbl = true
										}
									}
								}
							}
						}
						return true
					})
					if v := core.ConstOf(f.Pkg, be.Y); v != nil && (v.ExactString() == "32" || v.ExactString() == "128") {
						tbl = true
					}
					// … scaled from octets to bits by exactly 8
					if tbl && v19const(f, be.Y) == "" {
						mul := ""
						ast.Inspect(be.Y, func(m ast.Node) bool {
							if b2, isB := m.(*ast.BinaryExpr); isB && b2.Op == token.MUL {
								mul = v19const(f, b2.X) + v19const(f, b2.Y)
							}
							return true
						})
						tbl = mul == "8"
					}
					if tbl {
						bounded = true
					}
				}
				// `known` (second result of the table lookup) is true
				if obj := core.ObjOf(f.Pkg, ft.Expr); obj != nil && ft.Truth {
					for _, d := range core.DefsOf(f, obj) {
						if _, isIE := core.Unparen(d).(*ast.IndexExpr); isIE {
							known = true
						}
					}
				}
			}
			c.Check(bounded, "prefix-length-bounded", fmt.Sprintf("%s NewPfx #%d length ≤ family maximum", f.Name(), n), call.Pos(),
				"a prefix is built from the wire prefix length without a dominating comparison with the address family's maximum (32 / 128): an IPv4 NLRI of length 33 becomes the IPv6-typed prefix ::/33, an IPv6 one of length 130 passes the host-bit check by 8-bit wrap-around — both are installed")
			_ = known
		}
		c.Check(n >= 2, "prefix-length-bounded", f.Name()+" constructs prefixes", f.Decl.Pos(), "expected two NewPfx sites (IPv4, other families)")
	}
	// every NLRI prefix goes through deserializePrefix
	if f := c.MustFunc(pkt + ".decodeNLRI"); f != nil {
		pfxF := p.Field(pkt, "NLRI", "Prefix")
		ok := false
		ast.Inspect(f.Decl.Body, func(n ast.Node) bool {
			as, isAs := n.(*ast.AssignStmt)
			if !isAs || len(as.Lhs) != 1 || core.FieldOf(f.Pkg, as.Lhs[0]) != pfxF {
				return true
			}
			obj := core.ObjOf(f.Pkg, as.Rhs[0])
			for _, d := range core.DefsOf(f, obj) {
				if cl, isC := core.Unparen(d).(*ast.CallExpr); isC && core.FuncKey(core.Callee(f.Pkg, cl)) == pkt+".deserializePrefix" {
					ok = true
				}
			}
			return true
		})
		c.Check(ok, "prefix-length-bounded", f.Name()+" builds the NLRI prefix with deserializePrefix", f.Decl.Pos(), "the NLRI prefix no longer comes from the length-checked constructor")
	}

	// (2) NLRI length subtraction --------------------------------------------------------------------
	if f := c.MustFunc(pkt + ".decodeUpdateMsg"); f != nil {
		wrl, tpal := p.Field(pkt, "BGPUpdate", "WithdrawnRoutesLen"), p.Field(pkt, "BGPUpdate", "TotalPathAttrLen")
		lPar := core.ParamObj(f, 1)
		var sub *ast.AssignStmt
		ast.Inspect(f.Decl.Body, func(n ast.Node) bool {
			as, ok := n.(*ast.AssignStmt)
			if !ok || len(as.Rhs) != 1 {
				return true
			}
			if be, isB := core.Unparen(as.Rhs[0]).(*ast.BinaryExpr); isB && be.Op == token.SUB && core.MentionsObj(f.Pkg, be, lPar) && core.MentionsField(f.Pkg, be, tpal) {
				sub = as
			}
			return true
		})
		if sub == nil {
			c.Fail("nlri-length-checked", f.Name()+" computes the NLRI length from the message length", f.Decl.Pos(), "no `message length − attribute lengths` computation found")
		} else {
			ok := false
			for _, ft := range core.FactsAt(f, sub) {
				be, isB := ft.Expr.(*ast.BinaryExpr)
				if !isB {
					continue
				}
				fits := (be.Op == token.GTR && !ft.Truth) || (be.Op == token.LEQ && ft.Truth)
				if fits && core.MentionsField(f.Pkg, be.X, wrl) && core.MentionsField(f.Pkg, be.X, tpal) && core.MentionsObj(f.Pkg, be.Y, lPar) {
					ok = true
				}
			}
			c.Check(ok, "nlri-length-checked", f.Name()+" NLRI length subtraction is guarded", sub.Pos(),
				"the NLRI length is computed as message length − 4 − attribute length − withdrawn length in 16-bit arithmetic without a dominating test that both lengths fit into the message: when they do not, the result wraps around and the decoder reads NLRI from bytes that are not NLRI")
		}
		// (4) mandatory attributes
		hm := p.Func(pkt + ".(*BGPUpdate).hasMandatoryAttributes")
		nlriF := p.Field(pkt, "BGPUpdate", "NLRI")
		okGate := false
		ast.Inspect(f.Decl.Body, func(n ast.Node) bool {
			ret, isRet := n.(*ast.ReturnStmt)
			if !isRet || len(ret.Results) != 2 || core.IsNilIdent(f.Pkg, ret.Results[1]) {
				return true
			}
			hasN, hasM := false, false
			for _, ft := range core.CtlFactsAt(f, ret) {
				if x, isNil := core.IsNilCheck(f.Pkg, ft.Expr); isNil && !ft.Truth && core.FieldOf(f.Pkg, x) == nlriF && ft.Enclosing {
					hasN = true
				}
				if cl := core.CallOf(f, ft.Expr); cl != nil && !ft.Truth && hm != nil && core.Callee(f.Pkg, cl) == hm.Obj && ft.Enclosing {
					hasM = true
				}
			}
			if hasN && hasM {
				okGate = true
			}
			return true
		})
		c.Check(okGate, "mandatory-attributes", f.Name()+" rejects NLRI without the mandatory attributes", f.Decl.Pos(), "no error return under `NLRI present ∧ ¬(ORIGIN ∧ AS_PATH ∧ NEXT_HOP)`: an UPDATE announcing prefixes with no (or only optional) attributes installs routes")
		if hm != nil {
			mandatoryTable(c, hm)
		} else {
			c.Fail("mandatory-attributes", pkt+".hasMandatoryAttributes exists", f.Decl.Pos(), "the mandatory-attribute predicate is gone")
		}
	}
	// decodePathAttrs: all three as soon as one is present
	if f := c.MustFunc(pkt + ".decodePathAttrs"); f != nil {
		flags := map[string]types.Object{}
		ast.Inspect(f.Decl.Body, func(n ast.Node) bool {
			cc, ok := n.(*ast.CaseClause)
			if !ok || len(cc.Body) != 1 {
				return true
			}
			as, isAs := cc.Body[0].(*ast.AssignStmt)
			if !isAs || len(as.Lhs) != 1 {
				return true
			}
			if v := core.ConstOf(f.Pkg, as.Rhs[0]); v == nil || v.ExactString() != "true" {
				return true
			}
			for _, e := range cc.List {
				if co := core.ConstObjOf(f.Pkg, e); co != nil {
					flags[co.Name()] = core.ObjOf(f.Pkg, as.Lhs[0])
				}
			}
			return true
		})
		want := map[string]string{"OriginAttr": "origin", "ASPathAttr": "aspath", "NextHopAttr": "nexthop", "MultiProtocolReachNLRIAttr": "nexthop"}
		okFlags := len(flags) == 4
		for k := range flags {
			if _, ok := want[k]; !ok {
				okFlags = false
			}
		}
		if okFlags {
			okFlags = flags["NextHopAttr"] == flags["MultiProtocolReachNLRIAttr"] && flags["OriginAttr"] != flags["ASPathAttr"] && flags["OriginAttr"] != flags["NextHopAttr"] && flags["ASPathAttr"] != flags["NextHopAttr"]
		}
		c.Check(okFlags, "mandatory-attributes", f.Name()+" tracks ORIGIN, AS_PATH, NEXT_HOP/MP_REACH separately", f.Decl.Pos(), "the seen-attribute flags are not set by exactly ORIGIN, AS_PATH and NEXT_HOP/MP_REACH_NLRI (another attribute satisfies a mandatory one, or two share a flag)")
		// each flag has an error return under `!flag`
		for name, obj := range map[string]types.Object{"ORIGIN": flags["OriginAttr"], "AS_PATH": flags["ASPathAttr"], "NEXT_HOP": flags["NextHopAttr"]} {
			ok := false
			ast.Inspect(f.Decl.Body, func(n ast.Node) bool {
				ret, isRet := n.(*ast.ReturnStmt)
				if !isRet || len(ret.Results) != 2 || core.IsNilIdent(f.Pkg, ret.Results[1]) {
					return true
				}
				for _, ft := range core.CtlFactsAt(f, ret) {
					if ft.Enclosing && !ft.Truth && obj != nil && core.ObjOf(f.Pkg, ft.Expr) == obj {
						ok = true
					}
				}
				return true
			})
			c.Check(ok, "mandatory-attributes", f.Name()+" errors when "+name+" is missing", f.Decl.Pos(), "no error return under `"+name+" not seen`")
		}
	}

	// (3) body decoders read the declared length -----------------------------------------------------------
	if f := c.MustFunc(pkt + ".decodePathAttr"); f != nil {
		lengthF := p.Field(pkt, "PathAttribute", "Length")
		typeF := p.Field(pkt, "PathAttribute", "TypeCode")
		arms := 0
		ast.Inspect(f.Decl.Body, func(n ast.Node) bool {
			sw, ok := n.(*ast.SwitchStmt)
			if !ok || sw.Tag == nil || core.FieldOf(f.Pkg, sw.Tag) != typeF {
				return true
			}
			for _, cs := range sw.Body.List {
				cc := cs.(*ast.CaseClause)
				arms++
				name := "default"
				if len(cc.List) > 0 {
					if co := core.ConstObjOf(f.Pkg, cc.List[0]); co != nil {
						name = co.Name()
					}
				}
				reads := false
				for _, st := range cc.Body {
					if core.MentionsField(f.Pkg, st, lengthF) {
						reads = true
					}
					for _, call := range core.CallsAll(f.Pkg, st, func(*types.Func) bool { return true }) {
						if g := p.FnOf(core.Callee(f.Pkg, call)); g != nil && p.ReadsTransitive(g)[lengthF] {
							reads = true
						}
					}
				}
				c.Check(reads, "body-decoder-reads-length", f.Name()+" arm "+name, cc.Pos(),
					"the body of this attribute is decoded without ever looking at the attribute's declared length: a length that disagrees with the fixed body size is accepted and every following attribute (and the NLRI) is parsed from the wrong offset")
			}
			return false
		})
		c.Check(arms >= 15, "body-decoder-reads-length", f.Name()+" attribute arms found", f.Decl.Pos(), fmt.Sprintf("found %d arms, hand-confirmed floor is 15", arms))
	}

	// (5) exact framing ------------------------------------------------------------------------------------
	if f := c.MustFunc(srv + ".recvMsg"); f != nil {
		ok, n := true, 0
		core.InspectNoLit(f.Decl.Body, func(nd ast.Node) bool {
			ret, isRet := nd.(*ast.ReturnStmt)
			if !isRet || len(ret.Results) != 2 || !core.IsNilIdent(f.Pkg, ret.Results[1]) {
				return true
			}
			n++
			se, isSlice := core.Unparen(ret.Results[0]).(*ast.SliceExpr)
			if !isSlice || se.High == nil {
				ok = false
			}
			return true
		})
		c.Check(ok && n >= 1, "exact-framing", f.Name()+" returns the message, not the receive buffer", f.Decl.Pos(),
			"the framing returns the whole (zero-initialised, 4096 byte) receive buffer: an UPDATE whose length fields point past its end is decoded into the padding, where prefix length 0 reads as 0.0.0.0/0 — a peer can make the speaker install a default route")
	}
}

func v19const(f *core.Fn, e ast.Expr) string {
	if v := core.ConstOf(f.Pkg, e); v != nil {
		return v.ExactString()
	}
	return ""
}

func mandatoryTable(c *core.Ctx, hm *core.Fn) {
	// hasMandatoryAttributes: flags set under exactly the three type codes, result is their conjunction
	flags := map[string]types.Object{}
	ast.Inspect(hm.Decl.Body, func(n ast.Node) bool {
		cc, ok := n.(*ast.CaseClause)
		if !ok || len(cc.Body) != 1 {
			return true
		}
		as, isAs := cc.Body[0].(*ast.AssignStmt)
		if !isAs || len(as.Lhs) != 1 {
			return true
		}
		for _, e := range cc.List {
			if co := core.ConstObjOf(hm.Pkg, e); co != nil {
				flags[co.Name()] = core.ObjOf(hm.Pkg, as.Lhs[0])
			}
		}
		return true
	})
	okFlags := len(flags) == 3 && flags["OriginAttr"] != nil && flags["ASPathAttr"] != nil && flags["NextHopAttr"] != nil &&
		flags["OriginAttr"] != flags["ASPathAttr"] && flags["OriginAttr"] != flags["NextHopAttr"] && flags["ASPathAttr"] != flags["NextHopAttr"]
	c.Check(okFlags, "mandatory-attributes", hm.Name()+" flags are set by exactly ORIGIN, AS_PATH, NEXT_HOP", hm.Decl.Pos(), "another attribute type satisfies a mandatory attribute, or a mandatory one is not tracked")
	if !okFlags {
		return
	}
	var ret *ast.ReturnStmt
	for _, st := range hm.Decl.Body.List {
		if r, ok := st.(*ast.ReturnStmt); ok {
			ret = r
		}
	}
	if ret == nil {
		c.Fail("mandatory-attributes", hm.Name()+" conjunction", hm.Decl.Pos(), "no final return")
		return
	}
	bad := 0
	for mask := 0; mask < 8; mask++ {
		env := core.NewEnv()
		env.Objs[flags["OriginAttr"]] = core.BoolVal(mask&1 != 0)
		env.Objs[flags["ASPathAttr"]] = core.BoolVal(mask&2 != 0)
		env.Objs[flags["NextHopAttr"]] = core.BoolVal(mask&4 != 0)
		v, ok := core.Eval(hm, ret.Results[0], env)
		if !ok || v.B != (mask == 7) {
			bad++
		}
	}
	c.Check(bad == 0, "mandatory-attributes", hm.Name()+" = ORIGIN ∧ AS_PATH ∧ NEXT_HOP (8 valuations)", ret.Pos(), fmt.Sprintf("%d of 8 valuations disagree", bad))
}
