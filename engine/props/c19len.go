package props

import (
	"fmt"
	"go/ast"
	"go/constant"
	"go/token"
	"sort"
	"strings"

	"verif/engine/core"
)

// fixedSizeAttributes: the attributes whose value has a size fixed by the RFCs.  "An attribute whose contents do not match
// its declared length" includes a fixed-size attribute declared longer (or shorter) than its value: the decoder must
// reject every declared length outside the table, not read the value and skip the rest.
//
//	ORIGIN 1 · NEXT_HOP 4 · MULTI_EXIT_DISC 4 · LOCAL_PREF 4 · AGGREGATOR 6 (2-octet AS) or 8 (4-octet AS)
//	ORIGINATOR_ID 4 · AS4_AGGREGATOR 8
//
// Decided per decoder: the set of declared lengths for which a non-error return is reachable, computed by evaluating the
// dominating tests on pa.Length (at the return, and in a callee of the same receiver it delegates to) on the
// candidate lengths 0..16, 255, 256, 4096 — must equal the table row.
func fixedSizeAttributes(c *core.Ctx) {
	const rule = "fixed-size-attribute-length-enforced"
	p := c.P
	c.Floor(rule, 7)
	lengthF := p.Field(pktPkg, "PathAttribute", "Length")
	if lengthF == nil {
		c.Undecided(rule, "PathAttribute.Length", token.NoPos, "field not found")
		return
	}
	table := []struct {
		fn      string
		allowed []int64
	}{
		{"decodeOrigin", []int64{1}}, {"decodeNextHop", []int64{4}}, {"decodeMED", []int64{4}}, {"decodeLocalPref", []int64{4}},
		{"decodeAggregator", []int64{6, 8}}, {"decodeOriginatorID", []int64{4}}, {"decodeAS4Aggregator", []int64{8}},
	}
	cands := []int64{}
	for i := int64(0); i <= 16; i++ {
		cands = append(cands, i)
	}
	cands = append(cands, 255, 256, 4096)
	var admitted func(f *core.Fn, depth int) map[int64]bool
	admitted = func(f *core.Fn, depth int) map[int64]bool {
		out := map[int64]bool{}
		recv := recvObj(f)
		// evaluate an expression over pa.Length = v: 1 true, 0 false, -1 not evaluable
		var eval func(e ast.Expr, v int64) int
		eval = func(e ast.Expr, v int64) int {
			e = core.Unparen(e)
			switch x := e.(type) {
			case *ast.UnaryExpr:
				if x.Op == token.NOT {
					if r := eval(x.X, v); r >= 0 {
						return 1 - r
					}
				}
			case *ast.BinaryExpr:
				switch x.Op {
				case token.LAND, token.LOR:
					a, b := eval(x.X, v), eval(x.Y, v)
					if x.Op == token.LAND {
						if a == 0 || b == 0 {
							return 0
						}
						if a == 1 && b == 1 {
							return 1
						}
					} else {
						if a == 1 || b == 1 {
							return 1
						}
						if a == 0 && b == 0 {
							return 0
						}
					}
					return -1
				case token.EQL, token.NEQ, token.LSS, token.LEQ, token.GTR, token.GEQ:
					val := func(e ast.Expr) (int64, bool) {
						e = core.Unparen(e)
						if cv := core.ConstOf(f.Pkg, e); cv != nil && cv.Kind() == constant.Int {
							k, ok := constant.Int64Val(cv)
							return k, ok
						}
						if core.FieldOf(f.Pkg, e) == lengthF {
							if sel, ok := e.(*ast.SelectorExpr); ok && core.ObjOf(f.Pkg, sel.X) == recv {
								return v, true
							}
						}
						// pa.Length % k
						if be, ok := e.(*ast.BinaryExpr); ok && be.Op == token.REM {
							if core.FieldOf(f.Pkg, be.X) == lengthF {
								if cv := core.ConstOf(f.Pkg, be.Y); cv != nil {
									if k, ok := constant.Int64Val(cv); ok && k != 0 {
										return v % k, true
									}
								}
							}
						}
						return 0, false
					}
					a, okA := val(x.X)
					b, okB := val(x.Y)
					if !okA || !okB {
						return -1
					}
					r := false
					switch x.Op {
					case token.EQL:
						r = a == b
					case token.NEQ:
						r = a != b
					case token.LSS:
						r = a < b
					case token.LEQ:
						r = a <= b
					case token.GTR:
						r = a > b
					case token.GEQ:
						r = a >= b
					}
					return btoi(r)
				}
			}
			return -1
		}
		ast.Inspect(f.Decl.Body, func(n ast.Node) bool {
			if _, isLit := n.(*ast.FuncLit); isLit {
				return false
			}
			ret, ok := n.(*ast.ReturnStmt)
			if !ok || len(ret.Results) != 1 {
				return true
			}
			res := core.Unparen(ret.Results[0])
			var callee *core.Fn
			switch x := res.(type) {
			case *ast.Ident:
				if x.Name != "nil" {
					return true // `return err` on an error branch
				}
			case *ast.CallExpr:
				if k := core.FuncKey(core.Callee(f.Pkg, x)); strings.HasPrefix(k, "fmt.") || strings.HasPrefix(k, "errors.") {
					return true
				}
				if g := p.FnOf(core.Callee(f.Pkg, x)); g != nil && g.Decl.Recv != nil && depth < 3 {
					if sel, ok := x.Fun.(*ast.SelectorExpr); ok && core.ObjOf(f.Pkg, sel.X) == recv {
						callee = g
					}
				}
			default:
				return true
			}
			var sub map[int64]bool
			if callee != nil {
				sub = admitted(callee, depth+1)
			}
			facts := core.FactsAt(f, ret)
			for _, v := range cands {
				ok := true
				for _, ft := range facts {
					if ft.Expr == nil {
						continue
					}
					if r := eval(ft.Expr, v); r >= 0 && (r == 1) != ft.Truth {
						ok = false
						break
					}
				}
				if ok && (sub == nil || sub[v]) {
					out[v] = true
				}
			}
			return true
		})
		return out
	}
	for _, row := range table {
		f := c.MustFunc(pktPkg + ".(*PathAttribute)." + row.fn)
		if f == nil {
			continue
		}
		c.Analysed(f)
		got := admitted(f, 0)
		var extra []string
		want := map[int64]bool{}
		for _, a := range row.allowed {
			want[a] = true
		}
		var gs []int64
		for v := range got {
			gs = append(gs, v)
		}
		sort.Slice(gs, func(i, j int) bool { return gs[i] < gs[j] })
		for _, v := range gs {
			if !want[v] {
				extra = append(extra, fmt.Sprint(v))
			}
		}
		var missing []string
		for _, a := range row.allowed {
			if !got[a] {
				missing = append(missing, fmt.Sprint(a))
			}
		}
		if len(extra) > 8 {
			extra = append(extra[:8], "…")
		}
		c.Check(len(extra) == 0 && len(missing) == 0, rule, fmt.Sprintf("%s accepts exactly the declared length(s) %v", f.Name(), row.allowed), f.Decl.Pos(),
			"declared lengths accepted that the attribute cannot have: ["+strings.Join(extra, " ")+"], legal lengths rejected: ["+strings.Join(missing, " ")+"] — an attribute whose content does not match its declared length is decoded (the surplus octets are skipped) and the UPDATE's routes are installed")
	}
}
