package props

import (
	"fmt"
	"go/ast"
	"go/types"

	"verif/engine/core"
)

// reachCarriesNextHop: every success return of the MP_REACH_NLRI decoder lies behind an assignment of the next hop.
// A next-hop-length case that falls through unassigned (switch without default, else-less if chain) hands reachable
// NLRI without a next hop to the RIB instead of rejecting the UPDATE.
func reachCarriesNextHop(c *core.Ctx) {
	const rule = "reach-nlri-carries-next-hop"
	p := c.P
	f := c.MustFunc(pktPkg + ".deserializeMultiProtocolReachNLRI")
	if f == nil {
		return
	}
	nh := p.Field(pktPkg, "MultiProtocolReachNLRI", "NextHop")
	c.Check(nh != nil, rule, "MultiProtocolReachNLRI.NextHop", f.Decl.Pos(), "field not found")
	if nh == nil {
		return
	}
	g := p.CFG(f)
	sets := func(n ast.Node) bool {
		as, ok := n.(*ast.AssignStmt)
		if !ok {
			return false
		}
		for _, l := range as.Lhs {
			if core.FieldOf(f.Pkg, l) == nh {
				return true
			}
		}
		return false
	}
	rets, _ := core.ExitsWithout(g, sets)
	n := 0
	for _, r := range rets {
		if len(r.Results) == 2 && core.IsNilIdent(f.Pkg, r.Results[1]) {
			n++
			c.Check(false, rule, fmt.Sprintf("%s success return #%d", f.Name(), n), r.Pos(),
				"the MP_REACH_NLRI decoder can return successfully on a path on which the next hop was never assigned (a next-hop length that no case handles): reachable NLRI without a next hop are installed instead of the UPDATE being rejected")
		}
	}
	if n == 0 {
		c.Check(true, rule, f.Name()+" success returns", f.Decl.Pos(), "")
	}
	// the value assigned comes from a fallible conversion whose error is returned, or from a length-checked constructor
}

// shortReadsAreErrors: bytes.Buffer.Next(n) returns fewer than n octets without saying so.  A decoder that carves a
// sub-field out of the message with it accepts a message whose declared lengths exceed what is there — "lengths do not
// add up" goes unnoticed.  Every Next(n) with a non-constant n in the BGP packet decoders must be guarded by a
// comparison of the buffer's Len() (or of the result's len) — otherwise it is reported.  Expected count on today's
// tree: zero such calls (the decoders read through decode.Decode / ReadByte / Read, which report EOF).
func shortReadsAreErrors(c *core.Ctx) {
	const rule = "short-reads-are-errors"
	p := c.P
	n := 0
	for _, f := range p.FuncsIn(pktPkg) {
		if f.Decl.Body == nil || isTestFn(p, f) {
			continue
		}
		for _, call := range core.Calls(f.Pkg, f.Decl.Body, func(o *types.Func) bool {
			return o.Name() == "Next" && core.RecvName(o) == "Buffer" && o.Pkg() != nil && o.Pkg().Path() == "bytes"
		}) {
			if len(call.Args) != 1 || core.ConstOf(f.Pkg, call.Args[0]) != nil {
				continue
			}
			n++
			se := call.Fun.(*ast.SelectorExpr)
			guarded := false
			// a Len() comparison of the same buffer anywhere in the function that controls an error return, or len(result) compared
			ast.Inspect(f.Decl.Body, func(x ast.Node) bool {
				be, ok := x.(*ast.BinaryExpr)
				if !ok {
					return true
				}
				for i, side := range []ast.Expr{be.X, be.Y} {
					other := []ast.Expr{be.Y, be.X}[i]
					if cl, ok := core.Unparen(side).(*ast.CallExpr); ok {
						if s2, ok := cl.Fun.(*ast.SelectorExpr); ok && s2.Sel.Name == "Len" && core.SameExpr(f.Pkg, s2.X, se.X) && sharesVar(f, other, call.Args[0]) {
							guarded = true
						}
						if id, ok := cl.Fun.(*ast.Ident); ok && id.Name == "len" && len(cl.Args) == 1 {
							if o := core.ObjOf(f.Pkg, cl.Args[0]); o != nil {
								for _, d := range core.DefsOf(f, o) {
									if core.Unparen(d) == ast.Expr(call) {
										guarded = true
									}
								}
							}
						}
					}
				}
				return true
			})
			c.Check(guarded, rule, fmt.Sprintf("%s Next(%s)", f.Name(), core.ExprString(call.Args[0])), call.Pos(),
				"bytes.Buffer.Next returns fewer octets than asked for when the message is shorter, without an error; nothing in this decoder compares the buffer's Len() or the result's len with the declared length, so an UPDATE whose lengths do not add up is decoded from what happens to be there")
		}
	}
	c.Check(true, rule, fmt.Sprintf("packet decoders: %d unguarded-capable Next(n) calls examined", n), 0, "")
}

// sharesVar: a and b mention a common variable.
func sharesVar(f *core.Fn, a, b ast.Expr) bool {
	vars := map[types.Object]bool{}
	ast.Inspect(b, func(n ast.Node) bool {
		if id, ok := n.(*ast.Ident); ok {
			if v, ok := core.ObjOf(f.Pkg, id).(*types.Var); ok {
				vars[v] = true
			}
		}
		return true
	})
	hit := false
	ast.Inspect(a, func(n ast.Node) bool {
		if id, ok := n.(*ast.Ident); ok {
			if o := core.ObjOf(f.Pkg, id); o != nil && vars[o] {
				hit = true
			}
		}
		return true
	})
	return hit
}

// consumedCountsTheDeclaredLength: decodePathAttrs adds up what decodePathAttr reports as consumed and compares it with
// the Total Path Attribute Length; an attribute whose body decoder reads more or less than the declared length is only
// noticed because the report is header + DECLARED length (the position then drifts and the walk runs off the field).
// A report of "octets actually read" makes every over- or under-reading body decoder self-consistent.  Rule: the
// success return of decodePathAttr reports an expression that contains PathAttribute.Length.
func consumedCountsTheDeclaredLength(c *core.Ctx) {
	const rule = "consumed-counts-the-declared-length"
	p := c.P
	f := c.MustFunc(pktPkg + ".decodePathAttr")
	lf := p.Field(pktPkg, "PathAttribute", "Length")
	if f == nil || lf == nil {
		return
	}
	c.Analysed(f)
	n := 0
	ast.Inspect(f.Decl.Body, func(nd ast.Node) bool {
		if _, isLit := nd.(*ast.FuncLit); isLit {
			return false
		}
		r, ok := nd.(*ast.ReturnStmt)
		if !ok || len(r.Results) != 3 || !core.IsNilIdent(f.Pkg, r.Results[2]) {
			return true
		}
		n++
		c.Check(core.MentionsField(f.Pkg, r.Results[1], lf), rule, fmt.Sprintf("%s success return #%d reports header + declared length", f.Name(), n), r.Pos(),
			"the octet count reported for a decoded attribute does not contain the attribute's declared length: an attribute whose contents are longer or shorter than declared (an AS_PATH with more segment data than its length octet says) is accounted as it was read, the lengths seem to add up, and its UPDATE is accepted")
		return true
	})
	c.Check(n >= 1, rule, "success returns found", f.Decl.Pos(), "decodePathAttr has no success return with three results")
}

// nlriFamilyComesFromTheAFI: the address of a decoded NLRI has the family of the field it was read from (AFI).  A
// constructor that guesses the family from the address bytes (bnet.IPFromBytes, via net.IP.To4) turns an IPv6 NLRI
// from ::ffff:0:0/96 into an IPv4 address that keeps the IPv6 prefix length — an IPv4 prefix with a length of up to
// 128 is handed to the session layer and installed.  Rule: every address given to NewPfx in deserializePrefix comes
// from a family-explicit constructor.
func nlriFamilyComesFromTheAFI(c *core.Ctx) {
	const rule = "nlri-family-comes-from-the-afi"
	f := c.MustFunc(pktPkg + ".deserializePrefix")
	if f == nil {
		return
	}
	c.Analysed(f)
	explicit := map[string]bool{"IPv4FromBytes": true, "IPv4": true, "IPv4FromOctets": true, "IPv6": true, "IPv6FromBlocks": true}
	n := 0
	for _, call := range core.Calls(f.Pkg, f.Decl.Body, core.KeyIs("net.NewPfx")) {
		if len(call.Args) != 2 {
			continue
		}
		n++
		var srcs []ast.Expr
		if id, ok := core.Unparen(call.Args[0]).(*ast.Ident); ok {
			if o := core.ObjOf(f.Pkg, id); o != nil {
				srcs = core.DefsOf(f, o)
			}
		} else {
			srcs = []ast.Expr{call.Args[0]}
		}
		ok := len(srcs) > 0
		via := ""
		for _, s := range srcs {
			sc, isCall := core.Unparen(s).(*ast.CallExpr)
			if !isCall {
				ok, via = false, core.ExprString(s)
				continue
			}
			cal := core.Callee(f.Pkg, sc)
			if cal == nil || !explicit[cal.Name()] {
				ok, via = false, core.ExprString(sc.Fun)
			}
		}
		c.Check(ok, rule, fmt.Sprintf("%s NewPfx #%d gets a family-explicit address", f.Name(), n), call.Pos(),
			"the NLRI's address is built by "+via+", which takes the family from the address bytes: an IPv6 NLRI from the IPv4-mapped block becomes an IPv4 address with the IPv6 prefix length (e.g. 10.0.0.0/104) and is installed")
	}
	c.Check(n >= 2, rule, "NewPfx calls found", f.Decl.Pos(), fmt.Sprintf("found %d NewPfx calls in deserializePrefix, expected one per family", n))
}
