package props

import (
	"fmt"
	"go/ast"
	"go/token"
	"go/types"

	"verif/engine/core"
)

func init() {
	Register(&Prop{
		Meta: core.Meta{
			ID: "C20", Title: "Received UPDATEs are applied NLRI by NLRI", Level: "other",
			Technique:   "cursor rule (dependence necessity on the typed AST): per-element fields must be read through the loop cursor; per-iteration freshness of the path object handed to the Adj-RIB-In; nil-safety of the optional NLRI list; family gates by guard extraction",
			DesignRef:   "DESIGN.md §4 C20",
			Decided:     "(0) path identifiers are opaque values: compared only with other path identifiers, never with a constant, so a withdrawal or announcement with identifier 0 touches exactly the path with that identifier; (0b) every walk over the path attribute list in the UPDATE processing visits every attribute: an early exit is allowed only where the conditions establish that everything the loop collects is already set; (1) in every loop over a linked NLRI list in the UPDATE processing of package server (IPv4 announce/withdraw, multiprotocol announce/withdraw) the per-NLRI fields PathIdentifier and Prefix are read from the loop cursor only — a read through the list head can only ever yield the first NLRI's value — and the path handed to AddPath/RemovePath gets its identifier from the cursor inside the loop; (2) the path object handed to the Adj-RIB-In's AddPath is created or copied inside the iteration (the Adj-RIB-In keeps the pointer and writes into it); (3) the NLRI list of a multiprotocol attribute, which the decoder leaves nil when only a next hop is present, is dereferenced only as loop cursor; (4) each family processes only its own AFI/SAFI and the IPv4 lists only for the IPv4 family; received attributes are copied into every path by processAttributes (one call per path object or before the per-NLRI copies).",
			NotDecided:  "that the Adj-RIB-In applies each call correctly (C05); equality of the installed set with the announced set over generated UPDATEs.",
			TrustedBase: stdTrusted,
		},
		Run: runC20,
		Controls: []Control{
			{Name: "mp-reach-applied-before-mp-unreach", File: "protocols/bgp/server/fsm_address_family.go", Old: "\tif mpUnreachNLRI != nil {\n\t\tf.multiProtocolWithdraw(path, *mpUnreachNLRI)\n\t}\n\n\tif mpReachNLRI != nil {\n\t\tf.multiProtocolUpdate(path, *mpReachNLRI)\n\t}\n", New: "\tif mpReachNLRI != nil {\n\t\tf.multiProtocolUpdate(path, *mpReachNLRI)\n\t}\n\n\tif mpUnreachNLRI != nil {\n\t\tf.multiProtocolWithdraw(path, *mpUnreachNLRI)\n\t}\n", Expect: "withdrawals-applied-before-announcements"},
			{Name: "unknown-attributes-collected-in-shared-scratch", File: "protocols/bgp/server/fsm_address_family.go", Old: "func (f *fsmAddressFamily) processAttributes(attrs *packet.PathAttribute, path *route.Path) {\n", New: "var c20scratch []types.UnknownPathAttribute\n\nfunc (f *fsmAddressFamily) processAttributes(attrs *packet.PathAttribute, path *route.Path) {\n\tpath.BGPPath.UnknownAttributes = c20scratch[:0]\n", Expect: "decoded-lists-do-not-alias-session-scratch"},
			{Name: "update-only-offered-to-the-family-it-names", File: "protocols/bgp/server/fsm_established.go", Old: "\tif s.fsm.ipv6Unicast != nil {\n\t\ts.fsm.ipv6Unicast.processUpdate(u, bmpPostPolicy, timestemp)\n\t}\n", New: "\tif s.fsm.ipv6Unicast != nil && u.NLRI == nil {\n\t\ts.fsm.ipv6Unicast.processUpdate(u, bmpPostPolicy, timestemp)\n\t}\n", Expect: "update-offered-to-every-family"},
			{Name: "withdrawn-routes-cleaned-by-prefix", File: "protocols/bgp/packet/decoder.go", Old: "\tif msg.NLRI != nil && !msg.hasMandatoryAttributes() {", New: "\tif msg.WithdrawnRoutes != nil && msg.NLRI != nil && msg.WithdrawnRoutes.Prefix.Equal(msg.NLRI.Prefix) {\n\t\tmsg.WithdrawnRoutes = msg.WithdrawnRoutes.Next\n\t}\n\tif msg.NLRI != nil && !msg.hasMandatoryAttributes() {", Expect: "decoded-lists-delivered-as-decoded"},
			{Name: "classic-nlri-copy-the-mp-template", File: "protocols/bgp/server/fsm_address_family.go", Old: "\t\tpath := f.newRoutePath(bmpPostPolicy, timestamp)\n\t\tf.processAttributes(u.PathAttributes, path)\n\t\tpath.BGPPath.PathIdentifier = r.PathIdentifier\n", New: "\t\tpath := f.newRoutePath(bmpPostPolicy, timestamp)\n\t\tf.processAttributes(u.PathAttributes, path)\n\t\tif mp, _ := getMPReachAndUnreachNLRIs(u); mp != nil {\n\t\t\tf.multiProtocolUpdate(path, *mp)\n\t\t\tpath = path.Copy()\n\t\t}\n\t\tpath.BGPPath.PathIdentifier = r.PathIdentifier\n", Expect: "mp-next-hop-stays-in-mp-path"},
			{Name: "last-nlri-takes-the-message-path", File: "protocols/bgp/server/fsm_address_family.go", Old: "\t\tp := path.Copy()\n\t\tp.BGPPath.PathIdentifier = n.PathIdentifier\n", New: "\t\tp := path\n\t\tif n.Next != nil {\n\t\t\tp = path.Copy()\n\t\t}\n\t\tp.BGPPath.PathIdentifier = n.PathIdentifier\n", Expect: "fresh-path-per-nlri"},
			{Name: "withdraw-writes-identifier-into-shared-path", File: "protocols/bgp/server/fsm_address_family.go", Old: "\t\tp := path.Copy()\n\t\tp.BGPPath.PathIdentifier = cur.PathIdentifier\n\n\t\tf.adjRIBIn.RemovePath(cur.Prefix, p)", New: "\t\tpath.BGPPath.PathIdentifier = cur.PathIdentifier\n\n\t\tf.adjRIBIn.RemovePath(cur.Prefix, path)", Expect: "fresh-path-per-nlri"},
			{Name: "attribute-walk-stops-at-first-mp-attribute", File: "protocols/bgp/server/fsm_address_family.go", Old: "\t\t\tur := pa.Value.(packet.MultiProtocolUnreachNLRI)\n\t\t\tunreach = &ur\n\t\t}\n", New: "\t\t\tur := pa.Value.(packet.MultiProtocolUnreachNLRI)\n\t\t\tunreach = &ur\n\t\t}\n\n\t\tif reach != nil || unreach != nil {\n\t\t\tbreak\n\t\t}\n", Expect: "attribute-walk-is-complete"},
			{Name: "refactor-attribute-walk-stops-when-both-found", Silent: true, File: "protocols/bgp/server/fsm_address_family.go", Old: "\t\t\tur := pa.Value.(packet.MultiProtocolUnreachNLRI)\n\t\t\tunreach = &ur\n\t\t}\n", New: "\t\t\tur := pa.Value.(packet.MultiProtocolUnreachNLRI)\n\t\t\tunreach = &ur\n\t\t}\n\n\t\tif reach != nil && unreach != nil {\n\t\t\tbreak\n\t\t}\n"},
			{Name: "withdraw-with-identifier-zero-matches-all", File: "routingtable/adjRIBIn/adj_rib_in.go", Old: "\t\t\tif p != nil && path.BGPPath.PathIdentifier != p.BGPPath.PathIdentifier {", New: "\t\t\tif p != nil && p.BGPPath.PathIdentifier != 0 && path.BGPPath.PathIdentifier != p.BGPPath.PathIdentifier {", Expect: "path-identifier-is-opaque"},
			{Name: "ipv4-announce-uses-first-identifier", File: "protocols/bgp/server/fsm_address_family.go", Old: "path.BGPPath.PathIdentifier = r.PathIdentifier", New: "path.BGPPath.PathIdentifier = u.NLRI.PathIdentifier", Expect: "per-nlri-fields-from-cursor"},
			{Name: "mp-announce-shares-path-object", File: "protocols/bgp/server/fsm_address_family.go", Old: "\t\tp := path.Copy()\n\t\tp.BGPPath.PathIdentifier = n.PathIdentifier\n\n\t\tf.adjRIBIn.AddPath(n.Prefix, p)", New: "\t\tp := path\n\t\tp.BGPPath.PathIdentifier = n.PathIdentifier\n\n\t\tf.adjRIBIn.AddPath(n.Prefix, p)", Expect: "fresh-path-per-nlri"},
			{Name: "mp-family-gate-dropped", File: "protocols/bgp/server/fsm_address_family.go", Old: "func (f *fsmAddressFamily) multiProtocolUpdate(path *route.Path, nlri packet.MultiProtocolReachNLRI) {\n\tif f.afi != nlri.AFI || f.safi != nlri.SAFI {\n\t\treturn\n\t}\n", New: "func (f *fsmAddressFamily) multiProtocolUpdate(path *route.Path, nlri packet.MultiProtocolReachNLRI) {\n\tif f.safi != nlri.SAFI {\n\t\treturn\n\t}\n", Expect: "family-gate"},
		},
	})
}

func runC20(c *core.Ctx) {
	decodedListsDoNotAliasSessionScratch(c, "decoded-lists-do-not-alias-session-scratch")
	mpNextHopStaysInMPPath(c)
	decodedListsDeliveredAsDecoded(c)
	withdrawalsAppliedBeforeAnnouncements(c)
	everyFamilyHandled(c, "update-offered-to-every-family", c.MustFunc(srv+".(*establishedState).update"), c.MustFunc(srv+".(*fsmAddressFamily).processUpdate"))
	p := c.P
	pathIDOpaque(c, "path-identifier-is-opaque")
	attributeWalkComplete(c)
	perNLRILoops(c)
	const pkt = "protocols/bgp/packet"

	// (3) nilable NLRI lists
	for _, tn := range []string{"MultiProtocolReachNLRI", "MultiProtocolUnreachNLRI"} {
		lf := p.Field(pkt, tn, "NLRI")
		for _, f := range p.FuncsIn(srv) {
			if f.Decl.Body == nil {
				continue
			}
			ord := 0
			parents := core.Parents(f.Decl.Body)
			ast.Inspect(f.Decl.Body, func(n ast.Node) bool {
				se, ok := n.(*ast.SelectorExpr)
				if !ok || core.FieldOf(f.Pkg, se) != lf {
					return true
				}
				// a dereference: parent selects a field of it
				ps, isSel := parents[se].(*ast.SelectorExpr)
				if !isSel || ps.X != ast.Expr(se) {
					return true
				}
				ord++
				ok2 := core.KnownNonNil(f.Pkg, core.FactsAt(f, se), se)
				c.Check(ok2, "nil-nlri-list", fmt.Sprintf("%s deref #%d of %s.NLRI", f.Name(), ord, tn), se.Pos(), "the NLRI list of a multiprotocol attribute is dereferenced without a nil test; the decoder leaves it nil for an MP_REACH_NLRI that only carries a next hop, so a peer can crash the daemon")
				return true
			})
		}
	}

	// the Adj-RIB-In stores every announcement it is given: each exit of addPath is preceded by the table store of THE path
	if f := c.MustFunc(adjIn + ".(*AdjRIBIn).addPath"); f != nil {
		par := core.ParamObj(f, 1)
		isStore := func(n ast.Node) bool {
			return core.NodeHas(n, func(x ast.Node) bool {
				cl, ok := x.(*ast.CallExpr)
				if !ok || len(cl.Args) != 2 {
					return false
				}
				k := core.FuncKey(core.Callee(f.Pkg, cl))
				return (k == "routingtable.(*RoutingTable).AddPath" || k == "routingtable.(*RoutingTable).ReplacePath") && core.ObjOf(f.Pkg, cl.Args[1]) == par
			})
		}
		rets, end := core.ExitsWithout(p.CFG(f), isStore)
		at := f.Decl.Pos()
		if len(rets) > 0 {
			at = rets[0].Pos()
		}
		c.Check(len(rets) == 0 && !end, "announcement-is-stored", f.Name()+" every exit follows the table store of the announced path", at,
			"the Adj-RIB-In can return from an announcement without storing the announced path (a short-cut for `unchanged` re-announcements compares only part of the attributes): the NLRI keeps its previous attributes")
	}

	// (4) family gates
	afi, safi := p.Field(srv, "fsmAddressFamily", "afi"), p.Field(srv, "fsmAddressFamily", "safi")
	for _, k := range []string{"multiProtocolUpdate", "multiProtocolWithdraw"} {
		f := c.MustFunc(srv + ".(*fsmAddressFamily)." + k)
		if f == nil {
			continue
		}
		for _, l := range []ast.Node{firstLoop(f)} {
			if l == nil {
				c.Fail("family-gate", f.Name(), f.Decl.Pos(), "no per-NLRI loop found")
				continue
			}
			okA, okS := false, false
			for _, ft := range core.FactsAt(f, l) {
				be, ok := ft.Expr.(*ast.BinaryExpr)
				if !ok || be.Op != token.EQL || !ft.Truth {
					continue
				}
				if (core.FieldOf(f.Pkg, be.X) == afi || core.FieldOf(f.Pkg, be.Y) == afi) && (fieldName(f, be.X) == "AFI" || fieldName(f, be.Y) == "AFI") {
					okA = true
				}
				if (core.FieldOf(f.Pkg, be.X) == safi || core.FieldOf(f.Pkg, be.Y) == safi) && (fieldName(f, be.X) == "SAFI" || fieldName(f, be.Y) == "SAFI") {
					okS = true
				}
			}
			c.Check(okA && okS, "family-gate", f.Name()+" processes only its own AFI/SAFI", f.Decl.Pos(), "the multiprotocol NLRI of another address family are applied to this family's Adj-RIB-In")
		}
	}
	if f := c.MustFunc(srv + ".(*fsmAddressFamily).processUpdate"); f != nil {
		for _, k := range []string{"updates", "withdraws"} {
			g := p.Func(srv + ".(*fsmAddressFamily)." + k)
			for _, call := range core.Calls(f.Pkg, f.Decl.Body, func(o *types.Func) bool { return g != nil && o == g.Obj }) {
				ok := false
				for _, ft := range core.FactsAt(f, call) {
					if be, isB := ft.Expr.(*ast.BinaryExpr); isB && be.Op == token.EQL && ft.Truth && core.FieldOf(f.Pkg, be.X) == afi {
						if co := core.ConstObjOf(f.Pkg, be.Y); co != nil && co.Name() == "AFIIPv4" {
							ok = true
						}
					}
				}
				c.Check(ok, "family-gate", f.Name()+" applies the IPv4 "+k+" only for the IPv4 family", call.Pos(), "the plain (IPv4) NLRI fields of an UPDATE are applied to a non-IPv4 family")
			}
		}
	}
}

func firstLoop(f *core.Fn) ast.Node {
	var l ast.Node
	ast.Inspect(f.Decl.Body, func(n ast.Node) bool {
		if fs, ok := n.(*ast.ForStmt); ok && l == nil {
			l = fs
		}
		return true
	})
	return l
}

func fieldName(f *core.Fn, e ast.Expr) string {
	if fv := core.FieldOf(f.Pkg, e); fv != nil {
		return fv.Name()
	}
	return ""
}

// freshInLoop: every definition of obj in f is an owning call (Copy/constructor) or a fresh literal, and lies inside body.
func freshInLoop(p *core.Prog, f *core.Fn, body *ast.BlockStmt, obj types.Object) bool {
	if obj == nil {
		return false
	}
	n, all := 0, true
	ast.Inspect(f.Decl.Body, func(m ast.Node) bool {
		as, ok := m.(*ast.AssignStmt)
		if !ok {
			return true
		}
		for i, lh := range as.Lhs {
			id, ok := core.Unparen(lh).(*ast.Ident)
			if !ok || core.ObjOf(f.Pkg, id) != obj {
				continue
			}
			n++
			ok = false
			if i < len(as.Rhs) && len(as.Lhs) == len(as.Rhs) && as.Pos() >= body.Pos() && as.End() <= body.End() {
				switch r := core.Unparen(as.Rhs[i]).(type) {
				case *ast.CallExpr:
					ok = p.OwningCall(f, r)
				case *ast.UnaryExpr:
					_, ok = r.X.(*ast.CompositeLit)
				}
			}
			if !ok {
				all = false
			}
		}
		return true
	})
	return n > 0 && all
}

// perNLRILoops: the loops of fsmAddressFamily over NLRI lists hand the Adj-RIB-In, per iteration, the cursor's prefix, a
// path identifier set from the cursor, and (for announcements) a path object created inside the iteration.  Shared by
// C20 (each NLRI applied with its own identifier) and C07 (paths that share an object are withdrawn with the wrong
// identifier when the session goes down, so routes survive it).
func perNLRILoops(c *core.Ctx) {
	p := c.P
	const pkt = "protocols/bgp/packet"
	pidF, pfxF, nextF := p.Field(pkt, "NLRI", "PathIdentifier"), p.Field(pkt, "NLRI", "Prefix"), p.Field(pkt, "NLRI", "Next")
	pathPID := p.Field("route", "BGPPath", "PathIdentifier")
	if pidF == nil || pfxF == nil || nextF == nil {
		c.Undecided("anchor", pkt+".NLRI", token.NoPos, "NLRI fields not found")
		return
	}
	nLoops := 0
	for _, f := range p.MethodsOf(srv, "fsmAddressFamily") {
		if f.Decl.Body == nil {
			continue
		}
		// loops `for c := head; c != nil; c = c.Next`
		var loops []*ast.ForStmt
		cursors := map[types.Object]*ast.ForStmt{}
		ast.Inspect(f.Decl.Body, func(n ast.Node) bool {
			l, ok := n.(*ast.ForStmt)
			if !ok || l.Init == nil || l.Post == nil {
				return true
			}
			init, ok1 := l.Init.(*ast.AssignStmt)
			post, ok2 := l.Post.(*ast.AssignStmt)
			if !ok1 || !ok2 || len(post.Rhs) != 1 || core.FieldOf(f.Pkg, post.Rhs[0]) != nextF {
				return true
			}
			cur := core.ObjOf(f.Pkg, init.Lhs[0])
			if cur == nil || core.ObjOf(f.Pkg, post.Lhs[0]) != cur {
				return true
			}
			loops = append(loops, l)
			cursors[cur] = l
			return true
		})
		if len(loops) == 0 {
			continue
		}
		c.Analysed(f)
		nLoops += len(loops)
		// (1) every read of the per-NLRI fields is through a cursor, inside its loop
		ord := 0
		ast.Inspect(f.Decl.Body, func(n ast.Node) bool {
			se, ok := n.(*ast.SelectorExpr)
			if !ok {
				return true
			}
			fv := core.FieldOf(f.Pkg, se)
			if fv != pidF && fv != pfxF {
				return true
			}
			ord++
			base := core.ObjOf(f.Pkg, se.X)
			l, isCur := cursors[base]
			inside := isCur && se.Pos() >= l.Body.Pos() && se.End() <= l.Body.End()
			c.Check(inside, "per-nlri-fields-from-cursor", fmt.Sprintf("%s read #%d of NLRI.%s (%s)", f.Name(), ord, fv.Name(), core.ExprString(se)), se.Pos(),
				"a per-NLRI field is read through the head of the NLRI list (or outside the loop) instead of through the loop cursor: every NLRI of the UPDATE is then installed/withdrawn with the FIRST NLRI's "+fv.Name())
			return true
		})
		for _, l := range loops {
			var cur types.Object
			for o, ll := range cursors {
				if ll == l {
					cur = o
				}
			}
			// the RIB call inside the loop
			nCalls := 0
			ast.Inspect(l.Body, func(n ast.Node) bool {
				call, ok := n.(*ast.CallExpr)
				if !ok {
					return true
				}
				se, ok := call.Fun.(*ast.SelectorExpr)
				if !ok || (se.Sel.Name != "AddPath" && se.Sel.Name != "RemovePath") || len(call.Args) != 2 {
					return true
				}
				nCalls++
				construct := fmt.Sprintf("%s loop %s", f.Name(), se.Sel.Name)
				// prefix from the cursor
				okPfx := false
				if ps, ok := core.Unparen(call.Args[0]).(*ast.SelectorExpr); ok && core.FieldOf(f.Pkg, ps) == pfxF && core.ObjOf(f.Pkg, ps.X) == cur {
					okPfx = true
				}
				c.Check(okPfx, "per-nlri-fields-from-cursor", construct+" prefix is the cursor's", call.Pos(), "the prefix handed to the Adj-RIB-In is not the loop cursor's prefix")
				// identifier of the path argument assigned from the cursor inside the loop
				okID := false
				ast.Inspect(l.Body, func(m ast.Node) bool {
					switch x := m.(type) {
					case *ast.AssignStmt:
						for i, lh := range x.Lhs {
							if core.FieldOf(f.Pkg, lh) == pathPID && i < len(x.Rhs) {
								if rs, ok := core.Unparen(x.Rhs[i]).(*ast.SelectorExpr); ok && core.FieldOf(f.Pkg, rs) == pidF && core.ObjOf(f.Pkg, rs.X) == cur {
									okID = true
								}
							}
						}
					case *ast.KeyValueExpr:
						if id, ok := x.Key.(*ast.Ident); ok && id.Name == "PathIdentifier" {
							if rs, ok := core.Unparen(x.Value).(*ast.SelectorExpr); ok && core.FieldOf(f.Pkg, rs) == pidF && core.ObjOf(f.Pkg, rs.X) == cur {
								okID = true
							}
						}
					}
					return true
				})
				ast.Inspect(l.Body, func(m ast.Node) bool {
					as, ok := m.(*ast.AssignStmt)
					if !ok {
						return true
					}
					for _, lh := range as.Lhs {
						if core.FieldOf(f.Pkg, lh) == pathPID {
							base := core.BaseIdent(lh)
							c.Check(base != nil && freshInLoop(p, f, l.Body, core.ObjOf(f.Pkg, base)), "fresh-path-per-nlri", construct+" identifier is written into an object of this iteration", as.Pos(),
								"the NLRI's path identifier is written into a path object that outlives the iteration (the message's shared path): whoever holds that object — the Adj-RIB-In, for an NLRI announced from the same message — sees the identifier of a different NLRI")
						}
					}
					return true
				})
				c.Check(okID, "per-nlri-fields-from-cursor", construct+" path identifier is set from the cursor inside the loop", call.Pos(), "inside the per-NLRI loop the path's identifier is not set from the current NLRI")
				// (2) freshness
				if se.Sel.Name == "AddPath" {
					fresh := false
					switch a := core.Unparen(call.Args[1]).(type) {
					case *ast.UnaryExpr:
						_, fresh = a.X.(*ast.CompositeLit)
					case *ast.CallExpr:
						fresh = p.OwningCall(f, a)
					case *ast.Ident:
						fresh = freshInLoop(p, f, l.Body, core.ObjOf(f.Pkg, a))
					}
					c.Check(fresh, "fresh-path-per-nlri", construct+" path object is created inside the iteration", call.Pos(),
						"one path object is handed to the Adj-RIB-In for several NLRI: the Adj-RIB-In stores the pointer and writes HiddenReason / default LOCAL_PREF / the identifier into it, so all prefixes of the UPDATE share (and overwrite) one path")
				}
				return true
			})
			c.Check(nCalls == 1, "per-nlri-fields-from-cursor", f.Name()+" loop issues one RIB call per NLRI", l.Pos(), "the per-NLRI loop does not contain exactly one AddPath/RemovePath call")
		}
	}
	c.Check(nLoops >= 4, "per-nlri-fields-from-cursor", "per-NLRI loops found", token.NoPos, fmt.Sprintf("found %d loops over NLRI lists in fsmAddressFamily, hand-confirmed floor is 4", nLoops))
}
