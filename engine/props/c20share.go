package props

import (
	"fmt"
	"go/ast"
	"go/token"
	"go/types"
	"strings"

	"verif/engine/core"
)

// mpNextHopStaysInMPPath: the MP_REACH_NLRI next hop is written into the path object the multiprotocol handler is
// given.  That object (the message's attribute template) must not afterwards reach a handler that stores paths for the
// NLRI of another field of the same message: those would carry the multiprotocol next hop instead of "the message's
// attributes" (NEXT_HOP).  Summaries (to a fixpoint over the BGP server package):
//
//	writesNH(fn, i): fn assigns <param i>.….NextHop from MultiProtocolReachNLRI.NextHop, or hands param i to such a fn
//	stores(fn, i):   fn hands param i (or a value defined from it, e.g. its Copy()) to AdjRIBIn.AddPath, or to such a fn
//
// Rule: no variable is passed to a writesNH callee and, on a path after that call, to a stores callee that is not the
// multiprotocol writer itself.
func mpNextHopStaysInMPPath(c *core.Ctx) {
	const rule = "mp-next-hop-stays-in-mp-path"
	p := c.P
	nhF := p.Field("route", "BGPPathA", "NextHop")
	mpNH := p.Field(pktPkg, "MultiProtocolReachNLRI", "NextHop")
	add := p.Func("routingtable/adjRIBIn.(*AdjRIBIn).AddPath")
	c.Check(nhF != nil && mpNH != nil && add != nil, rule, "anchors", 0, "BGPPathA.NextHop / MultiProtocolReachNLRI.NextHop / AdjRIBIn.AddPath not found")
	if nhF == nil || mpNH == nil || add == nil {
		return
	}
	type key struct {
		fn *types.Func
		i  int
	}
	writes, stores := map[key]bool{}, map[key]bool{}
	fns := p.FuncsIn(srv)
	params := func(f *core.Fn) []*types.Var {
		sig := f.Obj.Type().(*types.Signature)
		var out []*types.Var
		for i := 0; i < sig.Params().Len(); i++ {
			out = append(out, sig.Params().At(i))
		}
		return out
	}
	// derived(f, v): locals defined from an expression mentioning v (aliases, v.Copy())
	derived := func(f *core.Fn, v types.Object) map[types.Object]bool {
		set := map[types.Object]bool{v: true}
		for ch := true; ch; {
			ch = false
			ast.Inspect(f.Decl.Body, func(n ast.Node) bool {
				as, ok := n.(*ast.AssignStmt)
				if !ok || len(as.Lhs) != len(as.Rhs) {
					return true
				}
				for i, l := range as.Lhs {
					id, ok := core.Unparen(l).(*ast.Ident)
					if !ok {
						continue
					}
					o := core.ObjOf(f.Pkg, id)
					if o == nil || set[o] {
						continue
					}
					for s := range set {
						if core.MentionsObj(f.Pkg, as.Rhs[i], s) {
							set[o] = true
							ch = true
							break
						}
					}
				}
				return true
			})
		}
		return set
	}
	isAdd := func(f *core.Fn, call *ast.CallExpr) bool {
		cal := core.Callee(f.Pkg, call)
		if cal == nil {
			return false
		}
		if cal == add.Obj {
			return true
		}
		// through the interface the FSM holds
		return cal.Name() == "AddPath" && len(call.Args) == 2
	}
	for iter := 0; iter < 6; iter++ {
		changed := false
		for _, f := range fns {
			if f.Decl.Body == nil || isTestFn(p, f) {
				continue
			}
			for i, pv := range params(f) {
				k := key{f.Obj, i}
				if !writes[k] {
					w := false
					ast.Inspect(f.Decl.Body, func(n ast.Node) bool {
						switch x := n.(type) {
						case *ast.AssignStmt:
							for j, l := range x.Lhs {
								if core.FieldOf(f.Pkg, l) == nhF && j < len(x.Rhs) {
									if b := core.BaseIdent(l); b != nil && core.ObjOf(f.Pkg, b) == pv && core.MentionsField(f.Pkg, x.Rhs[j], mpNH) {
										w = true
									}
								}
							}
						case *ast.CallExpr:
							if cal := core.Callee(f.Pkg, x); cal != nil {
								for j, a := range x.Args {
									if id, ok := core.Unparen(a).(*ast.Ident); ok && core.ObjOf(f.Pkg, id) == pv && writes[key{cal, j}] {
										w = true
									}
								}
							}
						}
						return true
					})
					if w {
						writes[k] = true
						changed = true
					}
				}
				if !stores[k] {
					st := false
					der := derived(f, pv)
					ast.Inspect(f.Decl.Body, func(n ast.Node) bool {
						call, ok := n.(*ast.CallExpr)
						if !ok {
							return true
						}
						cal := core.Callee(f.Pkg, call)
						for j, a := range call.Args {
							id, ok := core.Unparen(a).(*ast.Ident)
							if !ok || !der[core.ObjOf(f.Pkg, id)] {
								continue
							}
							if isAdd(f, call) && j == 1 {
								st = true
							}
							if cal != nil && stores[key{cal, j}] {
								st = true
							}
						}
						return true
					})
					if st {
						stores[k] = true
						changed = true
					}
				}
			}
		}
		if !changed {
			break
		}
	}
	nW, nS := 0, 0
	for range writes {
		nW++
	}
	for range stores {
		nS++
	}
	c.Check(nW >= 1 && nS >= 1, rule, "summaries", 0, fmt.Sprintf("found %d functions writing the multiprotocol next hop into a parameter and %d storing a parameter's path; expected at least one of each (multiProtocolUpdate)", nW, nS))
	for _, f := range fns {
		if f.Decl.Body == nil || isTestFn(p, f) {
			continue
		}
		type site struct {
			call *ast.CallExpr
			v    types.Object
		}
		var A, B []site
		ast.Inspect(f.Decl.Body, func(n ast.Node) bool {
			call, ok := n.(*ast.CallExpr)
			if !ok {
				return true
			}
			cal := core.Callee(f.Pkg, call)
			if cal == nil {
				return true
			}
			for j, a := range call.Args {
				id, ok := core.Unparen(a).(*ast.Ident)
				if !ok {
					continue
				}
				o := core.ObjOf(f.Pkg, id)
				if writes[key{cal, j}] {
					A = append(A, site{call, o})
				} else if stores[key{cal, j}] || (isAdd(f, call) && j == 1) {
					B = append(B, site{call, o})
				}
			}
			return true
		})
		if len(A) == 0 {
			continue
		}
		c.Analysed(f)
		g := p.CFG(f)
		for _, a := range A {
			ok := true
			var where *ast.CallExpr
			for _, b := range B {
				if b.v != a.v {
					continue
				}
				hits := core.PathAvoidingFrom(g,
					func(n ast.Node) bool { return core.NodeHas(n, func(x ast.Node) bool { return x == ast.Node(a.call) }) },
					func(ast.Node) bool { return false },
					func(n ast.Node) bool { return core.NodeHas(n, func(x ast.Node) bool { return x == ast.Node(b.call) }) })
				if len(hits) > 0 {
					ok, where = false, b.call
				}
			}
			pos := a.call.Pos()
			if where != nil {
				pos = where.Pos()
			}
			c.Check(ok, rule, fmt.Sprintf("%s: path `%s` given to %s", f.Name(), a.v.Name(), core.ExprString(a.call.Fun)), pos,
				"a path object into which the MP_REACH_NLRI next hop is written is afterwards handed to a handler that stores paths for other NLRI of the message: routes announced in the classic NLRI field are installed with the multiprotocol next hop instead of the message's NEXT_HOP")
		}
	}
}

// decodedListsDeliveredAsDecoded: the withdrawn-routes and NLRI lists of a BGPUpdate are what decodeNLRIs returned for
// the respective field — nothing in the packet package filters, merges or re-links them afterwards.  The decoder knows
// prefixes, the session layer knows (prefix, path identifier): a "prefix in both fields counts as not withdrawn"
// clean-up by prefix alone drops the withdrawal of another path of the same prefix on an add-path session.
func decodedListsDeliveredAsDecoded(c *core.Ctx) {
	const rule = "decoded-lists-delivered-as-decoded"
	p := c.P
	dec := p.Func(pktPkg + ".decodeNLRIs")
	if dec == nil {
		c.Check(false, rule, "decodeNLRIs", 0, "anchor not found")
		return
	}
	n := 0
	for _, fname := range []string{"WithdrawnRoutes", "NLRI"} {
		fv := p.Field(pktPkg, "BGPUpdate", fname)
		if fv == nil {
			c.Check(false, rule, "BGPUpdate."+fname, 0, "field not found")
			continue
		}
		for _, f := range p.FuncsIn(pktPkg) {
			if f.Decl.Body == nil || isTestFn(p, f) {
				continue
			}
			ast.Inspect(f.Decl.Body, func(nd ast.Node) bool {
				as, ok := nd.(*ast.AssignStmt)
				if !ok {
					return true
				}
				for _, l := range as.Lhs {
					if core.FieldOf(f.Pkg, l) != fv {
						continue
					}
					n++
					c.Analysed(f)
					okSrc := false
					if len(as.Rhs) == 1 {
						if call, isCall := core.Unparen(as.Rhs[0]).(*ast.CallExpr); isCall && core.Callee(f.Pkg, call) == dec.Obj {
							okSrc = true
						}
					}
					c.Check(okSrc, rule, fmt.Sprintf("%s assigns BGPUpdate.%s from decodeNLRIs", f.Name(), fname), as.Pos(),
						"the "+fname+" list of a decoded UPDATE is rewritten after decoding: entries are dropped or re-linked by a criterion the decoder has (the prefix) instead of the one the session needs (prefix and path identifier), so a withdrawal or announcement for one path of a prefix silently disappears")
				}
				return true
			})
		}
	}
	c.Check(n >= 2, rule, "assignments of the UPDATE's NLRI lists found", 0, fmt.Sprintf("found %d, expected the two in decodeUpdateMsg", n))
}

// withdrawalsAppliedBeforeAnnouncements: within one UPDATE the withdrawn NLRI are applied before the announced ones, in
// the classic IPv4 fields and in the multiprotocol attributes alike — a prefix named in both ends up installed (RFC
// 4271 §4.3).  Rule: in the functions that dispatch an UPDATE to the per-field handlers no call that withdraws
// (RemovePath reachable, AddPath not) is reachable after a call that announces (AddPath reachable).
func withdrawalsAppliedBeforeAnnouncements(c *core.Ctx) {
	const rule = "withdrawals-applied-before-announcements"
	p := c.P
	reaches := func(g *core.Fn, name string) bool {
		for _, r := range p.ReachableFns(g) {
			if r.Decl.Body == nil || r.Pkg != g.Pkg {
				continue
			}
			found := false
			ast.Inspect(r.Decl.Body, func(n ast.Node) bool {
				if call, ok := n.(*ast.CallExpr); ok {
					if se, ok := call.Fun.(*ast.SelectorExpr); ok && se.Sel.Name == name {
						if t := r.Pkg.TypesInfo.TypeOf(se.X); t != nil && strings.HasSuffix(t.String(), "routingtable.AdjRIBIn") {
							found = true
						}
					}
				}
				return true
			})
			if found {
				return true
			}
		}
		return false
	}
	n := 0
	for _, fname := range []string{"processUpdate", "multiProtocolUpdates"} {
		f := c.MustFunc(srv + ".(*fsmAddressFamily)." + fname)
		if f == nil {
			continue
		}
		c.Analysed(f)
		var ann, wd []*ast.CallExpr
		ast.Inspect(f.Decl.Body, func(nd ast.Node) bool {
			call, ok := nd.(*ast.CallExpr)
			if !ok {
				return true
			}
			g := p.FnOf(core.Callee(f.Pkg, call))
			if g == nil || g.Decl.Body == nil || core.RecvName(g.Obj) != "fsmAddressFamily" {
				return true
			}
			a, w := reaches(g, "AddPath"), reaches(g, "RemovePath")
			switch {
			case a && !w:
				ann = append(ann, call)
			case w && !a:
				wd = append(wd, call)
			}
			return true
		})
		if len(ann) == 0 || len(wd) == 0 {
			continue
		}
		n++
		g := p.CFG(f)
		bad := ""
		var at token.Pos = f.Decl.Pos()
		for _, a := range ann {
			for _, w := range wd {
				hits := core.PathAvoidingFrom(g,
					func(m ast.Node) bool { return core.NodeHas(m, func(x ast.Node) bool { return x == ast.Node(a) }) },
					func(ast.Node) bool { return false },
					func(m ast.Node) bool { return core.NodeHas(m, func(x ast.Node) bool { return x == ast.Node(w) }) })
				if len(hits) > 0 {
					bad, at = core.ExprString(w.Fun)+" after "+core.ExprString(a.Fun), w.Pos()
				}
			}
		}
		c.Check(bad == "", rule, f.Name()+" applies the withdrawn NLRI before the announced ones", at,
			"the handler that withdraws runs after the one that announces ("+bad+"): an UPDATE naming a prefix in both lists leaves it removed in this encoding, while the other encoding leaves it installed")
	}
	c.Check(n >= 2, rule, "dispatch functions with both kinds of handler", 0, fmt.Sprintf("found %d, expected processUpdate (IPv4 fields) and multiProtocolUpdates", n))
}
