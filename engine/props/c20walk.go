package props

import (
	"fmt"
	"go/ast"
	"go/token"
	"go/types"

	"verif/engine/core"
)

// attributeWalkComplete: the UPDATE processing of package server walks the linked list of path attributes
// (`for pa := …; pa != nil; pa = pa.Next`).  An UPDATE may carry MP_REACH_NLRI and MP_UNREACH_NLRI together, in either
// order, next to the other attributes: a walk that stops early misses what comes behind.  Rule: a `break` out of such a
// loop or a `return` inside it is allowed only where the dominating conditions establish that every pointer the loop
// collects is already set (`reach != nil && unreach != nil`); a loop that collects nothing has no early exit at all.
func attributeWalkComplete(c *core.Ctx) {
	const rule = "attribute-walk-is-complete"
	p := c.P
	c.Floor(rule, 2)
	paT := p.Named("protocols/bgp/packet", "PathAttribute")
	nextF := p.Field("protocols/bgp/packet", "PathAttribute", "Next")
	if paT == nil || nextF == nil {
		c.Undecided(rule, "packet.PathAttribute", token.NoPos, "type not found")
		return
	}
	for _, f := range p.FuncsIn(srv) {
		if f.Decl.Body == nil || isTestFn(p, f) {
			continue
		}
		ord := 0
		ast.Inspect(f.Decl.Body, func(n ast.Node) bool {
			fs, ok := n.(*ast.ForStmt)
			if !ok || fs.Post == nil {
				return true
			}
			as, ok := fs.Post.(*ast.AssignStmt)
			if !ok || len(as.Lhs) != 1 || len(as.Rhs) != 1 || core.FieldOf(f.Pkg, as.Rhs[0]) != nextF {
				return true
			}
			cur := core.ObjOf(f.Pkg, as.Lhs[0])
			if cur == nil {
				return true
			}
			if pt, ok := cur.Type().(*types.Pointer); !ok || !types.Identical(pt.Elem(), paT) {
				return true
			}
			ord++
			c.Analysed(f)
			// what the loop collects: pointer variables declared outside the loop and assigned inside
			collected := map[types.Object]bool{}
			ast.Inspect(fs.Body, func(m ast.Node) bool {
				a, ok := m.(*ast.AssignStmt)
				if !ok {
					return true
				}
				for _, l := range a.Lhs {
					o := core.ObjOf(f.Pkg, l)
					if o == nil || o == cur || (o.Pos() >= fs.Pos() && o.Pos() < fs.End()) {
						continue
					}
					if _, isPtr := o.Type().Underlying().(*types.Pointer); isPtr {
						collected[o] = true
					}
				}
				return true
			})
			exits := loopExits(fs.Body)
			construct := fmt.Sprintf("%s attribute walk #%d", f.Name(), ord)
			if len(exits) == 0 {
				c.Hold(rule, construct+" has no early exit", fs.Pos(), "every attribute of the UPDATE is visited")
				return true
			}
			for i, ex := range exits {
				// a lookup: `return <something read from the attribute under the cursor>` — the function's result is the first match
				if ret, ok := ex.(*ast.ReturnStmt); ok && len(ret.Results) > 0 {
					fromCursor := false
					for _, r := range ret.Results {
						if core.NodeHas(r, func(m ast.Node) bool {
							id, ok := m.(*ast.Ident)
							if !ok {
								return false
							}
							o := f.Pkg.TypesInfo.ObjectOf(id)
							return o != nil && (o == cur || (o.Pos() >= fs.Body.Pos() && o.Pos() < fs.Body.End()))
						}) {
							fromCursor = true
						}
					}
					if fromCursor {
						c.Hold(rule, fmt.Sprintf("%s exit #%d", construct, i+1), ex.Pos(), "lookup: returns what it read from the first matching attribute")
						continue
					}
				}
				why := ""
				if len(collected) == 0 {
					why = "the loop collects nothing, so nothing can justify leaving it early"
				}
				for o := range collected {
					set := false
					for _, ft := range core.FactsAt(f, ex) {
						be, ok := core.Unparen(ft.Expr).(*ast.BinaryExpr)
						if !ok {
							continue
						}
						x, y := be.X, be.Y
						if id, ok := core.Unparen(x).(*ast.Ident); ok && id.Name == "nil" {
							x, y = y, x
						}
						if id, ok := core.Unparen(y).(*ast.Ident); !ok || id.Name != "nil" || core.ObjOf(f.Pkg, x) != o {
							continue
						}
						if (be.Op == token.NEQ && ft.Truth) || (be.Op == token.EQL && !ft.Truth) {
							set = true
						}
					}
					if !set {
						why = "`" + o.Name() + "` is not known to be set at this exit"
					}
				}
				c.Check(why == "", rule, fmt.Sprintf("%s exit #%d", construct, i+1), ex.Pos(),
					"the walk over the path attributes is left early although "+why+": an attribute that comes later in the same UPDATE (MP_UNREACH_NLRI behind MP_REACH_NLRI or the other way round) is never processed — its announcements are not installed or its withdrawals not applied")
			}
			return true
		})
	}
}

// loopExits returns the statements in a loop body that leave the loop: return, goto, and break that is not captured by an
// inner switch/select/loop (labelled breaks count).
func loopExits(body *ast.BlockStmt) []ast.Stmt {
	var exits []ast.Stmt
	var walk func(s ast.Stmt, inner bool)
	walkList := func(l []ast.Stmt, b bool) {
		for _, s := range l {
			walk(s, b)
		}
	}
	walk = func(s ast.Stmt, inner bool) {
		switch x := s.(type) {
		case *ast.BlockStmt:
			walkList(x.List, inner)
		case *ast.IfStmt:
			walk(x.Body, inner)
			if x.Else != nil {
				walk(x.Else, inner)
			}
		case *ast.SwitchStmt:
			for _, cl := range x.Body.List {
				walkList(cl.(*ast.CaseClause).Body, true)
			}
		case *ast.TypeSwitchStmt:
			for _, cl := range x.Body.List {
				walkList(cl.(*ast.CaseClause).Body, true)
			}
		case *ast.SelectStmt:
			for _, cl := range x.Body.List {
				walkList(cl.(*ast.CommClause).Body, true)
			}
		case *ast.ForStmt:
			walk(x.Body, true)
		case *ast.RangeStmt:
			walk(x.Body, true)
		case *ast.LabeledStmt:
			walk(x.Stmt, inner)
		case *ast.ReturnStmt:
			exits = append(exits, x)
		case *ast.BranchStmt:
			if x.Tok == token.BREAK && (!inner || x.Label != nil) {
				exits = append(exits, x)
			}
			if x.Tok == token.GOTO {
				exits = append(exits, x)
			}
		}
	}
	walk(body, false)
	return exits
}

// capabilityWalkComplete: an OPEN may carry several Capabilities optional parameters, each with several capabilities
// (RFC 5492 §4).  Every range loop over the optional parameters / over a capability list in package server runs to the
// end: no return, break or goto leaves it — here a "first match" is not a valid shortcut, a later parameter can carry
// the 4-octet AS, role, add-path or multiprotocol capability.
func capabilityWalkComplete(c *core.Ctx, rule string, floor int) {
	p := c.P
	c.Floor(rule, floor)
	optT := p.Named("protocols/bgp/packet", "OptParam")
	capsT := p.Named("protocols/bgp/packet", "Capabilities")
	capT := p.Named("protocols/bgp/packet", "Capability")
	if optT == nil || capsT == nil || capT == nil {
		c.Undecided(rule, "packet.OptParam / Capabilities", token.NoPos, "types not found")
		return
	}
	isWalked := func(t types.Type) string {
		if t == nil {
			return ""
		}
		if types.Identical(t, capsT) {
			return "the capabilities of one parameter"
		}
		if sl, ok := t.Underlying().(*types.Slice); ok {
			switch {
			case types.Identical(sl.Elem(), optT):
				return "the optional parameters of the OPEN"
			case types.Identical(sl.Elem(), capT):
				return "the capabilities of one parameter"
			case types.Identical(sl.Elem(), capsT):
				return "the capability lists of the OPEN"
			}
		}
		return ""
	}
	for _, f := range p.FuncsIn(srv) {
		if f.Decl.Body == nil || isTestFn(p, f) {
			continue
		}
		ord := 0
		ast.Inspect(f.Decl.Body, func(n ast.Node) bool {
			rs, ok := n.(*ast.RangeStmt)
			if !ok {
				return true
			}
			what := isWalked(f.Pkg.TypesInfo.TypeOf(rs.X))
			if what == "" {
				return true
			}
			ord++
			c.Analysed(f)
			exits := loopExits(rs.Body)
			pos := rs.Pos()
			if len(exits) > 0 {
				pos = exits[0].Pos()
			}
			c.Check(len(exits) == 0, rule, fmt.Sprintf("%s walk #%d over %s runs to the end", f.Name(), ord, what), pos,
				"the walk over "+what+" is left early: capabilities the peer put into a later Capabilities parameter (4-octet AS number, role, add-path, multiprotocol) are never processed, so the session is set up as if the peer had not advertised them")
			return true
		})
	}
}
