package props

import (
	"fmt"
	"go/ast"
	"go/token"
	"go/types"
	"strings"

	"verif/engine/core"
)

func init() {
	Register(&Prop{
		Meta: core.Meta{
			ID: "C21", Title: "Peer input cannot crash the speaker; errors are reported with NOTIFICATION", Level: "other",
			Technique:   "panic-capable-operation discharge over the framing code, producer/consumer dynamic-type agreement for every unchecked assertion on decoder output in the session layer, error-value discipline (errors.As on wrapped decoder errors, every decoder error carries a BGPError), must-pass-through NOTIFICATION-before-close on go/cfg, error-subcode emitter table",
			DesignRef:   "DESIGN.md §4 C21",
			Decided:     "(0) the result of FSM.addressFamily / peer.addressFamily (nil for families that are not configured or not IPv4/IPv6 unicast; the family comes from the peer's OPEN) is dereferenced only behind a nil test (the peer-side result may be covered by the FSM-side test for the same family, given that newFSM creates FSM families only from peer families); (1) framing: every index/slice in recvMsg whose bound comes from the header length is dominated by MinLen ≤ length ≤ MaxLen (or otherwise discharged); (2) every unchecked type assertion on decoder output reachable from the three msgReceived handlers (path attribute values, capability values, optional parameters, message bodies) asserts exactly the type the decoder stores for every discriminant value that can reach it — the table is derived from the decoder on every run; (3) a decoder error is inspected with errors.As (the decoder wraps its errors), never with a type switch/assertion on the outer error, and every error that leaves packet.Decode is or wraps a BGPError, so a NOTIFICATION code always exists; (4) on the decode-error branch of each handler sendNotification precedes con.Close() and the connection is closed on every path (BMP pseudo sessions exempt); (5) the three header errors of RFC 4271 §6.1 each have an emitter in decodeHeader, and the UPDATE/OPEN body errors map to their message class.",
			NotDecided:  "`does not wedge` / `does not affect other sessions` beyond panic-freedom is behavioural; the exact subcode for each UPDATE-body malformation (the decoder reports them as UPDATE Message Error / unspecific); implicit nil dereferences other than the nilable fields checked in C20/C27.",
			TrustedBase: stdTrusted,
		},
		Run: runC21,
		Controls: []Control{
			{Name: "odd-length-capability-returned-without-value", File: "protocols/bgp/packet/decoder.go", Old: "\tswitch cap.Code {\n\tcase MultiProtocolCapabilityCode:\n\t\tmpCap, err := decodeMultiProtocolCapability(buf)", New: "\tif cap.Code == ASN4CapabilityCode && cap.Length != 4 {\n\t\t_, err := buf.Read(make([]byte, cap.Length))\n\t\treturn cap, err\n\t}\n\tswitch cap.Code {\n\tcase MultiProtocolCapabilityCode:\n\t\tmpCap, err := decodeMultiProtocolCapability(buf)", Expect: "union-value-stored-before-success"},
			{Name: "open-sent-re-entered-by-its-hold-timer-check", File: "protocols/bgp/server/fsm_open_sent.go", Old: "\t\t\tif _, same := next.(*openSentState); same {\n", New: "\t\t\tif _, same := next.(*openSentState); same && reason == \"\" {\n", Expect: "one-receiver-per-connection"},
			{Name: "established-session-goes-through-the-tie-break", File: "protocols/bgp/server/peer.go", Old: "\t\tif isEstablished {\n\t\t\treturn true\n\t\t}\n\n\t\tif !isOpenConfirm {\n", New: "\t\tif !isOpenConfirm && !isEstablished {\n", Expect: "collision-path"},
			{Name: "as4path-counts-as-aspath", File: "protocols/bgp/packet/decoder.go", Old: "\t\tcase ASPathAttr:\n\t\t\thaveASPath = true\n\t\tcase NextHopAttr:", New: "\t\tcase ASPathAttr, AS4PathAttr:\n\t\t\thaveASPath = true\n\t\tcase NextHopAttr:", Expect: "mandatory-attributes"},
			{Name: "reserved-octet-skipped-before-the-emptiness-test", File: "protocols/bgp/packet/mp_reach_nlri.go", Old: "\tif budget == 0 {\n\t\treturn n, nil\n\t}\n\n\tvariable = variable[1+nextHopLength:] // 1 <- RESERVED field\n", New: "\tvariable = variable[1+nextHopLength:] // 1 <- RESERVED field\n\tif budget == 0 {\n\t\treturn n, nil\n\t}\n", Expect: "decoder-no-panic"},
			{Name: "addpath-capability-for-unconfigured-family", File: "protocols/bgp/server/fsm_open_sent.go", Old: "\t\tf := s.fsm.addressFamily(addPathCapTuple.AFI, addPathCapTuple.SAFI)\n\t\tif f == nil {\n\t\t\tcontinue\n\t\t}\n", New: "\t\tf := s.fsm.addressFamily(addPathCapTuple.AFI, addPathCapTuple.SAFI)\n", Expect: "family-lookup-result-guarded"},
			{Name: "framing-lower-bound-dropped", File: "protocols/bgp/server/fsm.go", Old: "\tif l < packet.MinLen || l > packet.MaxLen {", New: "\tif l > packet.MaxLen {", Expect: "framing-bounds"},
			{Name: "unknown-attribute-asserts-bytes", File: "protocols/bgp/server/fsm_address_family.go", Old: "\tvalue, ok := attr.Value.([]byte)\n\tif !ok {\n\t\treturn nil\n\t}\n", New: "\tvalue := attr.Value.([]byte)\n", Expect: "union-type-agreement"},
			{Name: "type-switch-on-wrapped-error", File: "protocols/bgp/server/fsm_open_confirm.go", Old: "\t\tvar bgperr packet.BGPError\n\t\tif errors.As(err, &bgperr) {\n\t\t\ts.fsm.sendNotification(bgperr.ErrorCode, bgperr.ErrorSubCode)\n\t\t}\n", New: "\t\tif bgperr, ok := err.(packet.BGPError); ok {\n\t\t\ts.fsm.sendNotification(bgperr.ErrorCode, bgperr.ErrorSubCode)\n\t\t}\n\t\t_ = errors.As\n", Expect: "error-discipline"},
			{Name: "body-error-not-typed", File: "protocols/bgp/packet/decoder.go", Old: "return nil, fmt.Errorf(\"failed to decode message: %w\", bodyError(hdr.Type, err))", New: "_ = bodyError\n\t\treturn nil, fmt.Errorf(\"failed to decode message: %w\", err)", Expect: "error-discipline"},
			{Name: "notification-code-subcode-swapped", File: "protocols/bgp/server/fsm_open_confirm.go", Old: "s.fsm.sendNotification(bgperr.ErrorCode, bgperr.ErrorSubCode)", New: "s.fsm.sendNotification(bgperr.ErrorSubCode, bgperr.ErrorCode)", Expect: "notification-before-close"},
		},
	})
}

// bodyTable: message type constant → dynamic type of BGPMessage.Body, from decodeMsgBody's switch.
func bodyTable(c *core.Ctx) map[string]string {
	p := c.P
	f := c.MustFunc("protocols/bgp/packet.decodeMsgBody")
	if f == nil {
		return nil
	}
	out := map[string]string{}
	ast.Inspect(f.Decl.Body, func(n ast.Node) bool {
		sw, ok := n.(*ast.SwitchStmt)
		if !ok || sw.Tag == nil || core.ObjOf(f.Pkg, sw.Tag) != core.ParamObj(f, 1) {
			return true
		}
		for _, cs := range sw.Body.List {
			cc := cs.(*ast.CaseClause)
			for _, e := range cc.List {
				co := core.ConstObjOf(f.Pkg, e)
				if co == nil {
					continue
				}
				for _, st := range cc.Body {
					ret, ok := st.(*ast.ReturnStmt)
					if !ok || len(ret.Results) == 0 {
						continue
					}
					t := f.Pkg.TypesInfo.TypeOf(ret.Results[0])
					if tup, isTup := t.(*types.Tuple); isTup && tup.Len() > 0 {
						t = tup.At(0).Type()
					}
					if t != nil {
						out[co.Name()] = t.String()
					}
				}
			}
		}
		return false
	})
	_ = p
	return out
}

func runC21(c *core.Ctx) {
	oneReceiverPerConnection(c, "one-receiver-per-connection")
	collisionStructure(c)
	// an UPDATE with IPv4 NLRI and no NEXT_HOP must end in a NOTIFICATION, not in a route with a nil next hop (shared with C19)
	if hm := c.MustFunc("protocols/bgp/packet.(*BGPUpdate).hasMandatoryAttributes"); hm != nil {
		mandatoryTable(c, hm)
	}
	nilableFamilyGuarded(c, "family-lookup-result-guarded", 6)
	producerNoSuccessBeforeTheSwitch(c, "union-value-stored-before-success", bgpUnions)
	// the message decoders behind recvMsg: the same panic-capable-operation scope C16 decides (a panic in the decoder is
	// the crash this property excludes), keyed separately so that C21 reports it on its own
	if root := c.MustFunc("protocols/bgp/packet.Decode"); root != nil {
		var unions []*unionTable
		for _, u := range bgpUnions {
			unions = append(unions, buildUnionTable(c, u))
		}
		nf, _ := decoderScope(c, "decoder-", []*core.Fn{root}, bgpDecodeScope, unions)
		c.Check(nf >= 40, "decoder-scope", "functions reachable from packet.Decode", root.Decl.Pos(), "fewer functions reachable from the decoder entry than confirmed by hand (40)")
	}
	p := c.P
	const pkt = "protocols/bgp/packet"
	// (1) framing ----------------------------------------------------------------------------------
	for _, k := range []string{srv + ".recvMsg"} {
		f := c.MustFunc(k)
		if f == nil {
			continue
		}
		n := 0
		for _, o := range core.PanicOps(f) {
			if o.Kind != "index" && o.Kind != "slice" {
				continue
			}
			n++
			ok, why := p.DischargeIndexSlice(o)
			c.Check(ok, "framing-bounds", fmt.Sprintf("%s %s #%d %s", f.Name(), o.Kind, o.Ord, exprOfNode(o.Node)), o.Node.Pos(),
				"the receive buffer is indexed/sliced with a bound taken from the peer's header length without a dominating MinLen ≤ length ≤ MaxLen test: a header announcing less than 19 or more than 4096 bytes panics the daemon (no recover anywhere)"+why)
		}
		c.Check(n >= 3, "framing-bounds", f.Name()+" buffer operations found", f.Decl.Pos(), "fewer buffer operations than confirmed by hand")
	}

	// (2) union consumers in the session layer ---------------------------------------------------------
	var roots []*core.Fn
	for _, st := range []string{"openSentState", "openConfirmState", "establishedState"} {
		if f := c.MustFunc(srv + ".(*" + st + ").msgReceived"); f != nil {
			roots = append(roots, f)
		}
	}
	var scope []*core.Fn
	for _, f := range p.ReachableFns(roots...) {
		if strings.HasSuffix(f.Pkg.PkgPath, srv) {
			scope = append(scope, f)
		}
	}
	c.Analysed(scope...)
	total := 0
	for _, u := range bgpUnions {
		if t := buildUnionTable(c, u); t != nil {
			total += checkUnionConsumers(c, "union-type-agreement", t, scope)
		}
	}
	// message bodies
	bt := bodyTable(c)
	bodyF := p.Field(pkt, "BGPMessage", "Body")
	typeF := p.Field(pkt, "BGPHeader", "Type")
	for _, f := range scope {
		for _, o := range core.PanicOps(f) {
			if o.Kind != "type-assert" {
				continue
			}
			ta := o.Node.(*ast.TypeAssertExpr)
			vs, ok := core.Unparen(ta.X).(*ast.SelectorExpr)
			if !ok || core.FieldOf(f.Pkg, vs) != bodyF {
				continue
			}
			total++
			asserted := f.Pkg.TypesInfo.TypeOf(ta.Type).String()
			construct := fmt.Sprintf("%s assertion #%d %s", f.Name(), o.Ord, core.ExprString(ta))
			names, found := bodyDiscriminants(p, f, ta, vs.X, typeF, 0)
			if !found {
				c.Fail("union-type-agreement", construct, ta.Pos(), "unchecked assertion on the message body that is not dominated by a test of the header's message type")
				continue
			}
			var bad []string
			for _, n := range names {
				if bt[n] != asserted {
					bad = append(bad, n+"→"+bt[n])
				}
			}
			c.Check(len(bad) == 0, "union-type-agreement", construct, ta.Pos(), "asserts "+asserted+" but for a message type that reaches this site decodeMsgBody returns "+strings.Join(bad, ", "))
		}
	}
	c.Check(total >= 20, "union-type-agreement", "assertions on decoder output found in the session layer", token.NoPos, fmt.Sprintf("found %d, hand-confirmed floor is 20", total))

	// (3) error discipline -----------------------------------------------------------------------------
	bgpErr := p.Named(pkt, "BGPError")
	for _, f := range scope {
		ast.Inspect(f.Decl.Body, func(n ast.Node) bool {
			var x ast.Expr
			var caseTypes []ast.Expr
			switch s := n.(type) {
			case *ast.TypeSwitchStmt:
				switch a := s.Assign.(type) {
				case *ast.AssignStmt:
					x = a.Rhs[0].(*ast.TypeAssertExpr).X
				case *ast.ExprStmt:
					x = a.X.(*ast.TypeAssertExpr).X
				}
				for _, cs := range s.Body.List {
					caseTypes = append(caseTypes, cs.(*ast.CaseClause).List...)
				}
			case *ast.TypeAssertExpr:
				if s.Type != nil {
					x, caseTypes = s.X, []ast.Expr{s.Type}
				}
			}
			if x == nil {
				return true
			}
			if t := f.Pkg.TypesInfo.TypeOf(x); t == nil || t.String() != "error" {
				return true
			}
			for _, ct := range caseTypes {
				if t := f.Pkg.TypesInfo.TypeOf(ct); t != nil && bgpErr != nil && types.Identical(t, bgpErr) {
					c.Fail("error-discipline", f.Name()+" extracts BGPError with errors.As", n.Pos(), "a type switch/assertion on the outer error looks for packet.BGPError, but packet.Decode wraps its errors with fmt.Errorf(\"…%w\"): the case never matches and no NOTIFICATION is sent")
				}
			}
			return true
		})
	}
	for _, r := range roots {
		nAs := 0
		for _, call := range core.Calls(r.Pkg, r.Decl.Body, func(o *types.Func) bool { return o.FullName() == "errors.As" }) {
			if len(call.Args) == 2 {
				if t := r.Pkg.TypesInfo.TypeOf(call.Args[1]); t != nil && strings.HasSuffix(t.String(), "packet.BGPError") {
					nAs++
				}
			}
		}
		c.Check(nAs == 1, "error-discipline", r.Name()+" extracts BGPError with errors.As", r.Decl.Pos(), "the handler does not look for the decoder's BGPError with errors.As")
	}
	// every error leaving packet.Decode carries a BGPError
	if f := c.MustFunc(pkt + ".Decode"); f != nil {
		hdr := p.Func(pkt + ".decodeHeader")
		be := p.Func(pkt + ".bodyError")
		okHdr := hdr != nil
		if hdr != nil {
			core.InspectNoLit(hdr.Decl.Body, func(n ast.Node) bool {
				ret, ok := n.(*ast.ReturnStmt)
				if !ok || len(ret.Results) != 2 || core.IsNilIdent(hdr.Pkg, ret.Results[1]) {
					return true
				}
				if t := hdr.Pkg.TypesInfo.TypeOf(ret.Results[1]); t == nil || !types.Identical(t, bgpErr) {
					okHdr = false
				}
				return true
			})
		}
		c.Check(okHdr, "error-discipline", pkt+".decodeHeader returns only BGPErrors", f.Decl.Pos(), "a header error is returned as a plain error: no NOTIFICATION code exists for it")
		// body path: the wrapped value comes from bodyError, all of whose returns are BGPError-carrying
		okBody := false
		for _, call := range core.CallsAll(f.Pkg, f.Decl.Body, func(o *types.Func) bool { return be != nil && o == be.Obj }) {
			_ = call
			okBody = true
		}
		if be != nil && okBody {
			core.InspectNoLit(be.Decl.Body, func(n ast.Node) bool {
				ret, ok := n.(*ast.ReturnStmt)
				if !ok || len(ret.Results) != 1 {
					return true
				}
				if t := be.Pkg.TypesInfo.TypeOf(ret.Results[0]); t != nil && types.Identical(t, bgpErr) {
					return true
				}
				// returning the original error is fine only under errors.As(err, &BGPError) == true
				carries := false
				for _, ft := range core.FactsAt(be, ret) {
					if cl := core.CallOf(be, ft.Expr); cl != nil && ft.Truth {
						if cal := core.Callee(be.Pkg, cl); cal != nil && cal.FullName() == "errors.As" {
							carries = true
						}
					}
				}
				if !carries {
					okBody = false
				}
				return true
			})
		}
		// and the wrapped error in Decode's body branch is the bodyError result
		wrapped := false
		ast.Inspect(f.Decl.Body, func(n ast.Node) bool {
			ret, ok := n.(*ast.ReturnStmt)
			if !ok || len(ret.Results) != 2 {
				return true
			}
			if cl, isC := core.Unparen(ret.Results[1]).(*ast.CallExpr); isC {
				for _, a := range cl.Args {
					if ac, isAC := core.Unparen(a).(*ast.CallExpr); isAC && be != nil && core.Callee(f.Pkg, ac) == be.Obj {
						wrapped = true
					}
				}
			}
			return true
		})
		c.Check(okBody && wrapped, "error-discipline", pkt+".Decode body errors carry a BGPError", f.Decl.Pos(), "an error from decoding an OPEN/UPDATE/NOTIFICATION body leaves packet.Decode without a BGPError inside: the session closes the connection without any NOTIFICATION")
	}

	// (4) NOTIFICATION before close on the decode-error branch -------------------------------------------
	sn := p.Func(srv + ".(*FSM).sendNotification")
	for _, r := range roots {
		if sn == nil {
			break
		}
		g := p.CFG(r)
		// the error-branch: nodes under fact err != nil
		isClose := conCloseNode(c, r)
		calls := core.Calls(r.Pkg, r.Decl.Body, func(o *types.Func) bool { return o == sn.Obj })
		okArgs := false
		for _, call := range calls {
			if len(call.Args) == 2 {
				a0, a1 := core.FieldOf(r.Pkg, call.Args[0]), core.FieldOf(r.Pkg, call.Args[1])
				if a0 != nil && a1 != nil && a0.Name() == "ErrorCode" && a1.Name() == "ErrorSubCode" {
					// guarded only by errors.As (and isBMP)
					guard := false
					for _, ft := range core.FactsAt(r, call) {
						if cl := core.CallOf(r, ft.Expr); cl != nil && ft.Truth {
							if cal := core.Callee(r.Pkg, cl); cal != nil && cal.FullName() == "errors.As" {
								guard = true
							}
						}
					}
					okArgs = guard
				}
			}
		}
		c.Check(okArgs, "notification-before-close", r.Name()+" sends NOTIFICATION(code, subcode) of the decoder's BGPError", r.Decl.Pos(), "the decode-error branch does not send the NOTIFICATION with (ErrorCode, ErrorSubCode) of the extracted BGPError, in that order")
		// order: from the errors.As test the Close is not reachable without passing… we check that the notification call precedes every Close in source order on the error branch and that the error return closes
		isAs := func(n ast.Node) bool {
			return core.NodeHas(n, func(x ast.Node) bool {
				cl, ok := x.(*ast.CallExpr)
				if !ok {
					return false
				}
				cal := core.Callee(r.Pkg, cl)
				return cal != nil && cal.FullName() == "errors.As"
			})
		}
		closesBefore := core.PathAvoiding(g, isAs, func(n ast.Node) bool {
			if !isClose(n) {
				return false
			}
			// only closes on the error branch count
			for _, ft := range core.FactsAt(r, n) {
				if x, isNil := core.IsNilCheck(r.Pkg, ft.Expr); isNil && !ft.Truth && core.ObjOf(r.Pkg, x) != nil && core.ObjOf(r.Pkg, x).Name() == "err" {
					return true
				}
			}
			return false
		})
		c.Check(len(closesBefore) == 0, "notification-before-close", r.Name()+" closes only after the NOTIFICATION decision", r.Decl.Pos(), "on the decode-error branch the connection can be closed before the BGPError was looked for")
	}

	// (5) header error emitters ----------------------------------------------------------------------------
	if hdr := c.MustFunc(pkt + ".decodeHeader"); hdr != nil {
		for _, name := range []string{"ConnectionNotSync", "BadMessageLength", "BadMessageType"} {
			co := p.Object(pkt, name)
			found := false
			ast.Inspect(hdr.Decl.Body, func(n ast.Node) bool {
				if kv, ok := n.(*ast.KeyValueExpr); ok {
					if id, ok := kv.Key.(*ast.Ident); ok && id.Name == "ErrorSubCode" {
						if cc := core.ConstObjOf(hdr.Pkg, kv.Value); cc != nil && types.Object(cc) == co {
							found = true
						}
					}
				}
				return true
			})
			c.Check(found, "header-error-emitters", "decodeHeader emits "+name, hdr.Decl.Pos(), "no BGPError with subcode "+name+" is emitted by the header decoder (RFC 4271 §6.1)")
		}
	}
}

// bodyDiscriminants finds the message-type constants under which node n is reached: a switch on X.Header.Type in f,
// or (one level) at the call sites of f.
func bodyDiscriminants(p *core.Prog, f *core.Fn, n ast.Node, base ast.Expr, typeF *types.Var, depth int) ([]string, bool) {
	for _, ft := range core.FactsAt(f, n) {
		if ft.Tag != nil && ft.Truth && core.FieldOf(f.Pkg, ft.Tag) == typeF {
			var names []string
			for _, v := range ft.Vals {
				if co := core.ConstObjOf(f.Pkg, v); co != nil {
					names = append(names, co.Name())
				}
			}
			return names, true
		}
		// the if-form: Header.Type == Const
		if be, ok := ft.Expr.(*ast.BinaryExpr); ok && ft.Truth && be.Op == token.EQL {
			for _, pair := range [][2]ast.Expr{{be.X, be.Y}, {be.Y, be.X}} {
				if core.FieldOf(f.Pkg, pair[0]) == typeF {
					if co := core.ConstObjOf(f.Pkg, pair[1]); co != nil {
						return []string{co.Name()}, true
					}
				}
			}
		}
	}
	if depth > 1 {
		return nil, false
	}
	obj := core.ObjOf(f.Pkg, base)
	if obj == nil {
		return nil, false
	}
	var all []string
	found := false
	for _, g := range p.FuncsIn(strings.TrimPrefix(f.Pkg.PkgPath, core.Mod+"/")) {
		if g.Decl.Body == nil {
			continue
		}
		for _, call := range core.CallsAll(g.Pkg, g.Decl.Body, func(o *types.Func) bool { return o == f.Obj }) {
			names, ok := bodyDiscriminants(p, g, call, nil, typeF, depth+1)
			if !ok {
				return nil, false
			}
			found = true
			all = append(all, names...)
		}
	}
	return all, found
}
