package props

import (
	"fmt"
	"go/ast"
	"go/token"
	"go/types"
	"strings"

	"verif/engine/core"
)

func init() {
	Register(&Prop{
		Meta: core.Meta{
			ID: "C22", Title: "OPEN negotiation admits only valid sessions and negotiates correctly", Level: "other",
			Technique:   "emitter-table agreement for the OPEN error subcodes (reachability over static calls), truth tables of the extracted guards (role pairs RFC 9234 §4.2, 400 valuations), control-dependence of every capability-enabling store on the peer's capability and the local setting, enum-domain flow of the role code",
			DesignRef:   "DESIGN.md §4 C22",
			Decided:     "(00) every field of the FSM, its address families, the peer and the state object that the processing of the peer's optional parameters can write is reset on every path of the OPEN handler before they are processed: negotiation results do not survive a session; (0) every range loop over the OPEN's optional parameters and over capability lists in package server runs to the end (no return/break): capabilities in a second Capabilities parameter are processed too; (1) each OPEN error subcode the statement requires (Unsupported Version Number, Bad Peer AS, Bad BGP Identifier, Unacceptable Hold Time, Role Mismatch) has an emitting site reachable from openSentState.msgReceived, and validateOpen rejects exactly version ≠ 4, identifier 0 and hold time 1..2 (table over 60 valuations); (2) the bad-identifier rejection is guarded by `iBGP ∧ identifier = ours`; the peer AS compared with the configuration is the OPEN's 2-octet AS replaced by the 4-octet capability value exactly when it is AS_TRANS, and the capabilities are processed before the comparison; validatePeerRole agrees with RFC 9234 §4.2 (the three allowed unordered pairs, strict mode, conflicting roles) on all 400 valuations; (3) every rejection goes through a NOTIFICATION and closes the connection (C23 decides the close); (4) add-path receive/send, multiprotocol and 4-octet-ASN behaviour are switched on only under the peer's capability AND the local setting (each enabling store is control-dependent on both), the negotiated hold time is computed by min() of both offers; (5) the role sent in the capability and the role kept for validation come from translatePeerRole, whose cases map each configuration role to the RFC code of the same name.",
			NotDecided:  "the value of min(local, peer) hold time as arithmetic (the call shape is checked, not the result); capability byte layout (C16/C17).",
			TrustedBase: append([]string{"the RFC 9234 §4.2 role-pair table and RFC 4271 §4.2/§6.2 OPEN rules transcribed in engine/props/c22.go"}, stdTrusted...),
		},
		Run: runC22,
		Controls: []Control{
			{Name: "reject-returns-before-close-on-write-error", File: "protocols/bgp/server/fsm_open_sent.go", Old: "\tif s.fsm.con != nil {\n\t\ts.fsm.sendNotification(packet.OpenMessageError, errorSubCode)\n\t\ts.fsm.con.Close()\n\t}\n", New: "\tif s.fsm.con != nil {\n\t\tif err := s.fsm.sendNotification(packet.OpenMessageError, errorSubCode); err != nil {\n\t\t\treturn newIdleState(s.fsm), reason\n\t\t}\n\t\ts.fsm.con.Close()\n\t}\n", Expect: "open-reject-closes-connection"},
			{Name: "capabilities-built-before-the-family-is-set", File: "protocols/bgp/server/peer.go", Old: "\tcaps = append(caps, asn4Capability(c))\n", New: "\tcaps = append(caps, asn4Capability(c))\n\tif p.addressFamily(packet.AFIIPv6, packet.SAFIUnicast) == nil {\n\t\tcaps = caps[:len(caps):len(caps)]\n\t}\n", Expect: "constructor-calls-see-initialised-fields"},
			{Name: "send-only-peer-falls-through-to-tx", File: "protocols/bgp/server/fsm_open_sent.go", Old: "\t\tcase packet.AddPathSend:\n\t\t\tif peerAddressFamily.addPathReceive {\n\t\t\t\tf.addPathRX = true\n\t\t\t}\n\t\tcase packet.AddPathSendReceive:\n", New: "\t\tcase packet.AddPathSend:\n\t\t\tif peerAddressFamily.addPathReceive {\n\t\t\t\tf.addPathRX = true\n\t\t\t}\n\t\t\tfallthrough\n\t\tcase packet.AddPathSendReceive:\n", Expect: "capability-needs-both-sides"},
			{Name: "role-conflict-flag-reassigned-per-capability", File: "protocols/bgp/server/fsm_open_sent.go", Old: "\tif s.fsm.peer.peerRoleAdvByPeer && s.fsm.peer.peerRoleRemote != cap.PeerRole {\n\t\ts.multiplePeerRolesRcvd = true\n\t}\n", New: "\ts.multiplePeerRolesRcvd = s.fsm.peer.peerRoleAdvByPeer && s.fsm.peer.peerRoleRemote != cap.PeerRole\n", Expect: "conflict-flag-is-a-latch"},
			{Name: "four-octet-flag-survives-the-session", File: "protocols/bgp/server/fsm_open_sent.go", Old: "\ts.fsm.supports4OctetASN = false\n", New: "", Expect: "negotiated-state-reset-per-session"},
			{Name: "role-remembered-across-sessions", File: "protocols/bgp/server/fsm_open_sent.go", Old: "\ts.fsm.peer.peerRoleAdvByPeer = false\n", New: "", Expect: "negotiated-state-reset-per-session"},
			{Name: "only-first-capabilities-parameter", File: "protocols/bgp/server/fsm_open_sent.go", Old: "\t\ts.processCapabilities(optParam.Value.(packet.Capabilities))\n", New: "\t\ts.processCapabilities(optParam.Value.(packet.Capabilities))\n\t\treturn\n", Expect: "capability-walk-is-complete"},
			{Name: "hold-time-two-accepted", File: "protocols/bgp/packet/decoder.go", Old: "if msg.HoldTime > 0 && msg.HoldTime < 3 {", New: "if msg.HoldTime > 0 && msg.HoldTime < 2 {", Expect: "open-validation-table"},
			{Name: "role-pair-customer-customer", File: "protocols/bgp/server/fsm_open_sent.go", Old: "(localRole == packet.PeerRoleRoleCustomer && remoteRole == packet.PeerRoleRoleProvider) {", New: "(localRole == packet.PeerRoleRoleCustomer && remoteRole == packet.PeerRoleRoleCustomer) {", Expect: "role-pair-table"},
			{Name: "addpath-rx-without-local-setting", File: "protocols/bgp/server/fsm_open_sent.go", Old: "\t\tcase packet.AddPathSend:\n\t\t\tif peerAddressFamily.addPathReceive {\n\t\t\t\tf.addPathRX = true\n\t\t\t}", New: "\t\tcase packet.AddPathSend:\n\t\t\tf.addPathRX = true", Expect: "capability-needs-both-sides"},
			{Name: "as-trans-always-replaced", File: "protocols/bgp/server/fsm_open_sent.go", Old: "\tif s.peerASNRcvd == packet.ASTransASN {\n\t\ts.peerASNRcvd = cap.ASN4\n\t}", New: "\ts.peerASNRcvd = cap.ASN4", Expect: "peer-as-resolution"},
			{Name: "role-capability-untranslated", File: "protocols/bgp/server/peer.go", Old: "PeerRole: translatePeerRole(c.PeerRole),", New: "PeerRole: c.PeerRole,", Expect: "role-code-domain"},
		},
	})
}

func runC22(c *core.Ctx) {
	constructorCallsSeeInitialisedFields(c, "constructor-calls-see-initialised-fields")
	capabilityWalkComplete(c, "capability-walk-is-complete", 4)
	negotiationIsPerSession(c)
	openRejectClosesConnection(c)
	latchFlagsOnlySet(c)
	p := c.P
	const pkt = "protocols/bgp/packet"
	entry := c.MustFunc(srv + ".(*openSentState).msgReceived")
	if entry == nil {
		return
	}
	reach := p.ReachableFns(entry)
	c.Analysed(reach...)
	// (1) emitters ---------------------------------------------------------------------------------
	for _, name := range []string{"UnsupportedVersionNumber", "BadPeerAS", "BadBGPIdentifier", "UnacceptableHoldTime", "RoleMismatchError"} {
		co := p.Object(pkt, name)
		found := false
		var at token.Pos
		for _, g := range reach {
			if found {
				break
			}
			// an emitter: the constant is an argument of sendNotification/rejectOpen or the ErrorSubCode of a BGPError literal
			ast.Inspect(g.Decl.Body, func(n ast.Node) bool {
				switch x := n.(type) {
				case *ast.CallExpr:
					for _, a := range x.Args {
						if cc := core.ConstObjOf(g.Pkg, a); cc != nil && types.Object(cc) == co {
							found, at = true, x.Pos()
						}
					}
				case *ast.KeyValueExpr:
					if id, ok := x.Key.(*ast.Ident); ok && id.Name == "ErrorSubCode" {
						if cc := core.ConstObjOf(g.Pkg, x.Value); cc != nil && types.Object(cc) == co {
							found, at = true, x.Pos()
						}
					}
				}
				return true
			})
		}
		c.Check(found && co != nil, "open-error-emitters", "OPEN error subcode "+name+" has an emitter reachable from OpenSent", at,
			"no code reachable from openSentState.msgReceived ever emits "+name+": OPENs with that defect are accepted (or rejected without the RFC subcode)")
	}
	// validateOpen table
	if vo := c.MustFunc(pkt + ".validateOpen"); vo != nil {
		ver, id, ht := p.Field(pkt, "BGPOpen", "Version"), p.Field(pkt, "BGPOpen", "BGPIdentifier"), p.Field(pkt, "BGPOpen", "HoldTime")
		bad, rows := 0, 0
		first := ""
		for _, v := range []int64{3, 4, 5} {
			for _, i := range []int64{0, 1, 77} {
				for _, h := range []int64{0, 1, 2, 3, 4, 90, 65535} {
					env := core.NewEnv()
					env.Prog = p
					env.Fields[ver], env.Fields[id], env.Fields[ht] = core.IntVal(v), core.IntVal(i), core.IntVal(h)
					rows++
					ret, err := core.Outcome(vo, env)
					if err != nil {
						c.Undecided("open-validation-table", vo.Name(), vo.Decl.Pos(), err.Error())
						return
					}
					accepted := core.IsNilIdent(vo.Pkg, ret.Results[0])
					want := v == 4 && i != 0 && (h == 0 || h >= 3)
					if accepted != want {
						bad++
						if first == "" {
							first = fmt.Sprintf("version=%d identifier=%d holdtime=%d: code accepts=%v, RFC 4271 §4.2/§6.2 accepts=%v", v, i, h, accepted, want)
						}
					}
				}
			}
		}
		c.Check(bad == 0, "open-validation-table", vo.Name()+fmt.Sprintf(" agrees with RFC 4271 on %d valuations", rows), vo.Decl.Pos(), fmt.Sprintf("%d disagreements; first: %s", bad, first))
		// and DecodeOpenMsg runs it
		if dom := p.Func(pkt + "._decodeOpenMsg"); dom != nil {
			c.Check(len(core.Calls(dom.Pkg, dom.Decl.Body, func(o *types.Func) bool { return o == vo.Obj })) == 1, "open-validation-table", "_decodeOpenMsg runs validateOpen", dom.Decl.Pos(), "OPEN decoding no longer validates the message")
		}
	}

	// (2) bad identifier guard, peer AS resolution, role table ------------------------------------------
	omr := c.MustFunc(srv + ".(*openSentState).openMsgReceived")
	if omr != nil {
		badID := p.Object(pkt, "BadBGPIdentifier")
		n := 0
		for _, call := range core.Calls(omr.Pkg, omr.Decl.Body, func(*types.Func) bool { return true }) {
			uses := false
			for _, a := range call.Args {
				if cc := core.ConstObjOf(omr.Pkg, a); cc != nil && types.Object(cc) == badID {
					uses = true
				}
			}
			if !uses {
				continue
			}
			n++
			var asEq, idEq bool
			for _, ft := range core.FactsAt(omr, call) {
				be, ok := ft.Expr.(*ast.BinaryExpr)
				if !ok || be.Op != token.EQL || !ft.Truth {
					continue
				}
				fx, fy := core.FieldOf(omr.Pkg, be.X), core.FieldOf(omr.Pkg, be.Y)
				names := map[string]bool{}
				if fx != nil {
					names[fx.Name()] = true
				}
				if fy != nil {
					names[fy.Name()] = true
				}
				if names["localASN"] && names["peerASN"] {
					asEq = true
				}
				if names["routerID"] && names["BGPIdentifier"] {
					idEq = true
				}
			}
			c.Check(asEq && idEq, "bad-identifier-guard", omr.Name()+" Bad BGP Identifier rejection", call.Pos(), "the rejection is not guarded by `local AS = peer AS ∧ OPEN identifier = our router ID`")
		}
		c.Check(n == 1, "bad-identifier-guard", omr.Name()+" has one Bad BGP Identifier rejection", omr.Decl.Pos(), "expected exactly one Bad BGP Identifier rejection in openMsgReceived")
	}
	hom := c.MustFunc(srv + ".(*openSentState).handleOpenMessage")
	rcvd := p.Field(srv, "openSentState", "peerASNRcvd")
	if hom != nil && rcvd != nil {
		// the comparison is dominated by processOpenOptions and by the assignment from openMsg.ASN
		var cmp *ast.BinaryExpr
		ast.Inspect(hom.Decl.Body, func(n ast.Node) bool {
			if be, ok := n.(*ast.BinaryExpr); ok && (be.Op == token.NEQ || be.Op == token.EQL) {
				if core.FieldOf(hom.Pkg, be.X) == rcvd || core.FieldOf(hom.Pkg, be.Y) == rcvd {
					other := be.Y
					if core.FieldOf(hom.Pkg, be.Y) == rcvd {
						other = be.X
					}
					if fv := core.FieldOf(hom.Pkg, other); fv != nil && fv.Name() == "peerASN" {
						cmp = be
					}
				}
			}
			return true
		})
		if cmp == nil {
			c.Fail("peer-as-resolution", hom.Name()+" compares the resolved peer AS with the configuration", hom.Decl.Pos(), "no comparison of the received peer AS with the configured peer AS found")
		} else {
			g := p.CFG(hom)
			isCmp := func(n ast.Node) bool { return core.NodeHas(n, func(x ast.Node) bool { return x == ast.Node(cmp) }) }
			poo := p.Func(srv + ".(*openSentState).processOpenOptions")
			bad := core.PathAvoiding(g, callNode(hom, func(o *types.Func) bool { return poo != nil && o == poo.Obj }), isCmp)
			c.Check(len(bad) == 0, "peer-as-resolution", hom.Name()+" processes the capabilities before comparing the peer AS", cmp.Pos(), "the peer AS is compared before the 4-octet AS capability was processed: an AS_TRANS peer can never match")
			// the rejection is on the unequal side
			badAS := p.Object(pkt, "BadPeerAS")
			okSide := false
			for _, call := range core.Calls(hom.Pkg, hom.Decl.Body, func(*types.Func) bool { return true }) {
				for _, a := range call.Args {
					if cc := core.ConstObjOf(hom.Pkg, a); cc != nil && types.Object(cc) == badAS {
						for _, ft := range core.FactsAt(hom, call) {
							if be, ok := ft.Expr.(*ast.BinaryExpr); ok && be.Op == token.EQL && !ft.Truth && (core.FieldOf(hom.Pkg, be.X) == rcvd || core.FieldOf(hom.Pkg, be.Y) == rcvd) {
								okSide = true
							}
						}
					}
				}
			}
			c.Check(okSide, "peer-as-resolution", hom.Name()+" rejects with Bad Peer AS exactly when the ASes differ", cmp.Pos(), "Bad Peer AS is not emitted on the `received AS ≠ configured AS` side")
		}
		// assignments to peerASNRcvd: from openMsg.ASN (unconditional) and from cap.ASN4 under `== AS_TRANS`
		asTrans := p.Object(pkt, "ASTransASN")
		for _, f := range p.MethodsOf(srv, "openSentState") {
			if f.Decl.Body == nil {
				continue
			}
			ord := 0
			ast.Inspect(f.Decl.Body, func(n ast.Node) bool {
				as, ok := n.(*ast.AssignStmt)
				if !ok || len(as.Lhs) != 1 || core.FieldOf(f.Pkg, as.Lhs[0]) != rcvd {
					return true
				}
				ord++
				rhs := as.Rhs[0]
				srcField := ""
				ast.Inspect(rhs, func(m ast.Node) bool {
					if fv := core.FieldOf(f.Pkg, exprOf(m)); fv != nil {
						srcField = fv.Name()
					}
					return true
				})
				construct := fmt.Sprintf("%s peerASNRcvd store #%d from %s", f.Name(), ord, srcField)
				switch srcField {
				case "ASN":
					c.Hold("peer-as-resolution", construct, as.Pos(), "2-octet AS of the OPEN")
				case "ASN4":
					ok := false
					for _, ft := range core.CtlFactsAt(f, as) {
						if be, isB := ft.Expr.(*ast.BinaryExpr); isB && be.Op == token.EQL && ft.Truth && ft.Enclosing {
							if (core.FieldOf(f.Pkg, be.X) == rcvd && isConstObj(f, be.Y, asTrans)) || (core.FieldOf(f.Pkg, be.Y) == rcvd && isConstObj(f, be.X, asTrans)) {
								ok = true
							}
						}
					}
					c.Check(ok, "peer-as-resolution", construct, as.Pos(), "the 4-octet AS of the capability replaces the OPEN's AS without (or under another condition than) `OPEN AS = AS_TRANS`: a peer whose 2-octet AS is real could claim any 4-octet AS")
				default:
					c.Fail("peer-as-resolution", construct, as.Pos(), "the received peer AS is assigned from something other than the OPEN's AS field or the 4-octet AS capability")
				}
				return true
			})
		}
	}
	roleTable(c)

	// (4) capability stores ------------------------------------------------------------------------
	capabilityStores(c)

	// (5) role code domain -------------------------------------------------------------------------
	tr := c.MustFunc(srv + ".translatePeerRole")
	if tr != nil {
		n := 0
		ast.Inspect(tr.Decl.Body, func(nd ast.Node) bool {
			cc, ok := nd.(*ast.CaseClause)
			if !ok || len(cc.List) != 1 || len(cc.Body) != 1 {
				return true
			}
			ret, ok := cc.Body[0].(*ast.ReturnStmt)
			if !ok || len(ret.Results) != 1 {
				return true
			}
			from, to := core.ConstObjOf(tr.Pkg, cc.List[0]), core.ConstObjOf(tr.Pkg, ret.Results[0])
			if from == nil || to == nil {
				return true
			}
			n++
			a, b := strings.TrimPrefix(from.Name(), "PeerConfigRole"), strings.TrimPrefix(to.Name(), "PeerRoleRole")
			c.Check(a == b, "role-code-domain", "translatePeerRole "+from.Name()+" → "+to.Name(), cc.Pos(), "configuration role "+a+" is translated to the RFC 9234 code of role "+b)
			return true
		})
		c.Check(n == 5, "role-code-domain", "translatePeerRole covers the five roles", tr.Decl.Pos(), fmt.Sprintf("translatePeerRole maps %d roles, expected 5", n))
		// every PeerRoleCapability literal and peerRoleLocal initialisation in package server goes through it
		prc := p.Named(pkt, "PeerRoleCapability")
		for _, f := range p.FuncsIn(srv) {
			if f.Decl.Body == nil {
				continue
			}
			ast.Inspect(f.Decl.Body, func(nd ast.Node) bool {
				switch x := nd.(type) {
				case *ast.CompositeLit:
					if t := f.Pkg.TypesInfo.TypeOf(x); t != nil && prc != nil && types.Identical(t, prc) {
						for _, e := range x.Elts {
							if kv, ok := e.(*ast.KeyValueExpr); ok {
								call, isCall := core.Unparen(kv.Value).(*ast.CallExpr)
								c.Check(isCall && core.Callee(f.Pkg, call) == tr.Obj, "role-code-domain", f.Name()+" builds the role capability from translatePeerRole", kv.Pos(),
									"the role capability is filled with the configuration value (PeerConfigRole*, 1..5) instead of the RFC 9234 code (0..4): the peer sees another role than configured and a correct peer answers with Role Mismatch")
							}
						}
					}
				case *ast.KeyValueExpr:
					if id, ok := x.Key.(*ast.Ident); ok && id.Name == "peerRoleLocal" {
						call, isCall := core.Unparen(x.Value).(*ast.CallExpr)
						c.Check(isCall && core.Callee(f.Pkg, call) == tr.Obj, "role-code-domain", f.Name()+" initialises peerRoleLocal from translatePeerRole", x.Pos(), "the local role used for validation is not the translated RFC code")
					}
				}
				return true
			})
		}
	}
}

func exprOf(n ast.Node) ast.Expr {
	e, _ := n.(ast.Expr)
	if e == nil {
		return &ast.BadExpr{}
	}
	return e
}

func isConstObj(f *core.Fn, e ast.Expr, o types.Object) bool {
	cc := core.ConstObjOf(f.Pkg, e)
	return cc != nil && o != nil && types.Object(cc) == o
}

func roleTable(c *core.Ctx) {
	p := c.P
	const pkt = "protocols/bgp/packet"
	f := c.MustFunc(srv + ".(*openSentState).validatePeerRole")
	if f == nil {
		return
	}
	pf := func(n string) *types.Var { return p.Field(srv, "peer", n) }
	mult := p.Field(srv, "openSentState", "multiplePeerRolesRcvd")
	names := []string{"PeerRoleRoleProvider", "PeerRoleRoleRS", "PeerRoleRoleRSClient", "PeerRoleRoleCustomer", "PeerRoleRolePeer"}
	var vals []int64
	for _, n := range names {
		o, _ := p.Object(pkt, n).(*types.Const)
		if o == nil {
			c.Undecided("role-pair-table", n, token.NoPos, "constant not found")
			return
		}
		v, _ := constInt64(o)
		vals = append(vals, v)
	}
	allowed := func(a, b int64) bool {
		idx := func(v int64) string {
			for i, x := range vals {
				if x == v {
					return names[i]
				}
			}
			return ""
		}
		x, y := idx(a), idx(b)
		pair := func(m, n string) bool { return (x == m && y == n) || (x == n && y == m) }
		return pair("PeerRoleRoleProvider", "PeerRoleRoleCustomer") || pair("PeerRoleRoleRS", "PeerRoleRoleRSClient") || (x == "PeerRoleRolePeer" && y == "PeerRoleRolePeer")
	}
	rows, bad := 0, 0
	first := ""
	for _, en := range []bool{false, true} {
		for _, strict := range []bool{false, true} {
			for _, adv := range []bool{false, true} {
				for _, mu := range []bool{false, true} {
					for _, l := range vals {
						for _, r := range vals {
							env := core.NewEnv()
							env.Prog = p
							env.Fields[pf("peerRoleEnabled")] = core.BoolVal(en)
							env.Fields[pf("peerRoleStrictMode")] = core.BoolVal(strict)
							env.Fields[pf("peerRoleAdvByPeer")] = core.BoolVal(adv)
							env.Fields[mult] = core.BoolVal(mu)
							env.Fields[pf("peerRoleLocal")] = core.IntVal(l)
							env.Fields[pf("peerRoleRemote")] = core.IntVal(r)
							rows++
							ret, err := core.Outcome(f, env)
							if err != nil {
								c.Undecided("role-pair-table", f.Name(), f.Decl.Pos(), err.Error())
								return
							}
							got := core.IsNilIdent(f.Pkg, ret.Results[0])
							want := !en || (!adv && !strict) || (adv && !mu && allowed(l, r))
							if got != want {
								bad++
								if first == "" {
									first = fmt.Sprintf("enabled=%v strict=%v advertised=%v conflicting=%v local=%d remote=%d: code accepts=%v, RFC 9234 §4.2 accepts=%v", en, strict, adv, mu, l, r, got, want)
								}
							}
						}
					}
				}
			}
		}
	}
	c.Check(bad == 0, "role-pair-table", f.Name()+fmt.Sprintf(" agrees with RFC 9234 §4.2 on %d valuations", rows), f.Decl.Pos(), fmt.Sprintf("%d disagreements; first: %s", bad, first))
	// validation happens for eBGP, non-BMP sessions before OpenConfirm
	if hom := p.Func(srv + ".(*openSentState).handleOpenMessage"); hom != nil {
		calls := core.Calls(hom.Pkg, hom.Decl.Body, func(o *types.Func) bool { return o == f.Obj })
		c.Check(len(calls) == 1, "role-pair-table", hom.Name()+" validates the roles", hom.Decl.Pos(), "handleOpenMessage no longer validates the peer role")
	}
}

func capabilityStores(c *core.Ctx) {
	p := c.P
	const pkt = "protocols/bgp/packet"
	af := func(n string) *types.Var { return p.Field(srv, "fsmAddressFamily", n) }
	paf := func(n string) *types.Var { return p.Field(srv, "peerAddressFamily", n) }
	cobj := func(n string) types.Object { return p.Object(pkt, n) }
	type need struct {
		field   *types.Var
		what    string
		local   func(f *core.Fn, ft core.Fact) bool
		tagVals []types.Object
	}
	needs := []need{
		{af("addPathRX"), "add-path receive", func(f *core.Fn, ft core.Fact) bool {
			return ft.Expr != nil && core.FieldOf(f.Pkg, ft.Expr) == paf("addPathReceive") && ft.Truth
		}, []types.Object{cobj("AddPathSend"), cobj("AddPathSendReceive")}},
		{af("addPathTX"), "add-path send", func(f *core.Fn, ft core.Fact) bool {
			return ft.Expr != nil && core.FieldOf(f.Pkg, ft.Expr) == p.Field("routingtable", "ClientOptions", "BestOnly") && !ft.Truth
		}, []types.Object{cobj("AddPathReceive"), cobj("AddPathSendReceive")}},
	}
	f := c.MustFunc(srv + ".(*openSentState).processAddPathCapability")
	if f != nil {
		for _, nd := range needs {
			n := 0
			covered := map[types.Object]bool{}
			ast.Inspect(f.Decl.Body, func(x ast.Node) bool {
				as, ok := x.(*ast.AssignStmt)
				if !ok || len(as.Lhs) != 1 || core.FieldOf(f.Pkg, as.Lhs[0]) != nd.field {
					return true
				}
				n++
				for _, ft := range core.CtlFactsAt(f, as) {
					if ft.Tag != nil && ft.Truth {
						for _, v := range ft.Vals {
							for _, tv := range nd.tagVals {
								if isConstObj(f, v, tv) {
									covered[tv] = true
								}
							}
						}
					}
				}
				facts := core.CtlFactsAt(f, as)
				local, peerOK := false, false
				for _, ft := range facts {
					if nd.local(f, ft) {
						local = true
					}
					if ft.Tag != nil && ft.Truth {
						all := len(ft.Vals) > 0
						for _, v := range ft.Vals {
							in := false
							for _, tv := range nd.tagVals {
								if isConstObj(f, v, tv) {
									in = true
								}
							}
							if !in {
								all = false
							}
						}
						if fv := core.FieldOf(f.Pkg, ft.Tag); fv != nil && fv.Name() == "SendReceive" && all {
							peerOK = true
						}
					}
				}
				c.Check(local && peerOK, "capability-needs-both-sides", fmt.Sprintf("%s store #%d enabling %s", f.Name(), n, nd.what), as.Pos(),
					fmt.Sprintf("%s is switched on without being control-dependent on both the peer's capability direction and the local setting (local=%v, peer=%v): the two ends then disagree about the NLRI encoding (4 extra octets per prefix)", nd.what, local, peerOK))
				return true
			})
			c.Check(n >= 1, "capability-needs-both-sides", f.Name()+" has stores enabling "+nd.what, f.Decl.Pos(), "no store enabling it found")
			for _, tv := range nd.tagVals {
				c.Check(covered[tv], "capability-needs-both-sides", f.Name()+" enables "+nd.what+" when the peer announces "+tv.Name(), f.Decl.Pos(), "no store enables "+nd.what+" for a peer that announced "+tv.Name()+": add-path stays off in a direction both sides agreed on")
			}
		}
	}
	// dispatch: each process*Capability is called only under its capability code
	pc := c.MustFunc(srv + ".(*openSentState).processCapability")
	if pc != nil {
		want := map[string]string{"processAddPathCapability": "AddPathCapabilityCode", "processASN4Capability": "ASN4CapabilityCode", "processMultiProtocolCapability": "MultiProtocolCapabilityCode", "processPeerRoleCapability": "PeerRoleCapabilityCode"}
		for m, code := range want {
			callee := p.Func(srv + ".(*openSentState)." + m)
			ok := false
			nCalls := 0
			for _, g := range p.FuncsIn(srv) {
				if g.Decl.Body == nil || callee == nil {
					continue
				}
				for _, call := range core.CallsAll(g.Pkg, g.Decl.Body, func(o *types.Func) bool { return o == callee.Obj }) {
					nCalls++
					if g != pc {
						ok = false
						nCalls += 100
						continue
					}
					for _, ft := range core.CtlFactsAt(g, call) {
						if ft.Tag != nil && ft.Truth && len(ft.Vals) == 1 && isConstObj(g, ft.Vals[0], cobj(code)) {
							ok = true
						}
					}
				}
			}
			c.Check(ok && nCalls == 1, "capability-needs-both-sides", m+" only under capability code "+code, pc.Decl.Pos(), "the capability handler is reachable for another capability code (or from elsewhere): behaviour is enabled that the peer did not advertise")
		}
	}
	// multiprotocol: IPv4 only if we advertised it
	if f := c.MustFunc(srv + ".(*openSentState).processMultiProtocolCapability"); f != nil {
		adv := p.Field(srv, "peer", "ipv4MultiProtocolAdvertised")
		n := 0
		ast.Inspect(f.Decl.Body, func(x ast.Node) bool {
			as, ok := x.(*ast.AssignStmt)
			if !ok || len(as.Lhs) != 1 || core.FieldOf(f.Pkg, as.Lhs[0]) != af("multiProtocol") {
				return true
			}
			n++
			// must be reachable only past a guard mentioning ipv4MultiProtocolAdvertised
			mentioned := false
			for _, ft := range core.FactsAt(f, as) {
				if ft.Expr != nil && core.MentionsField(f.Pkg, ft.Expr, adv) {
					mentioned = true
				}
			}
			c.Check(mentioned, "capability-needs-both-sides", f.Name()+" multiprotocol for IPv4 only if advertised locally", as.Pos(), "multiprotocol encoding is enabled for IPv4 unicast without looking at whether we advertised it")
			return true
		})
		c.Check(n == 1, "capability-needs-both-sides", f.Name()+" enabling store found", f.Decl.Pos(), "expected one store enabling multiprotocol")
	}
	// 4-octet AS: locally always advertised
	if np := c.MustFunc(srv + ".newPeer"); np != nil {
		okA := false
		for _, call := range core.Calls(np.Pkg, np.Decl.Body, core.KeyIs(srv+".asn4Capability")) {
			if len(core.CtlFactsAt(np, call)) == 0 {
				okA = true
			}
		}
		c.Check(okA, "capability-needs-both-sides", "4-octet AS capability is always advertised locally", np.Decl.Pos(), "the local side does not always advertise the 4-octet AS capability although receiving it from the peer switches 4-octet AS_PATH encoding on")
	}
	// hold time = min(local, peer)
	if hom := p.Func(srv + ".(*openSentState).handleOpenMessage"); hom != nil {
		ht := p.Field(srv, "FSM", "holdTime")
		ok := false
		ast.Inspect(hom.Decl.Body, func(x ast.Node) bool {
			as, isAs := x.(*ast.AssignStmt)
			if !isAs || len(as.Lhs) != 1 || core.FieldOf(hom.Pkg, as.Lhs[0]) != ht {
				return true
			}
			hasMin, loc, peer := false, false, false
			ast.Inspect(as.Rhs[0], func(m ast.Node) bool {
				if cl, isC := m.(*ast.CallExpr); isC {
					if cal := core.Callee(hom.Pkg, cl); cal != nil && cal.Pkg() != nil && cal.Pkg().Path() == "math" && cal.Name() == "Min" {
						hasMin = true
					}
				}
				if fv := core.FieldOf(hom.Pkg, exprOf(m)); fv != nil {
					if fv.Name() == "holdTime" {
						loc = true
					}
					if fv.Name() == "HoldTime" {
						peer = true
					}
				}
				return true
			})
			if hasMin && loc && peer && len(core.CtlFactsAt(hom, as)) == 0 {
				ok = true
			}
			return true
		})
		c.Check(ok, "capability-needs-both-sides", hom.Name()+" negotiates the hold time as min(local, peer)", hom.Decl.Pos(), "the session hold time is not unconditionally computed as math.Min of the configured and the offered hold time")
	}
}

// latchFlagsOnlySet: "several different Role capabilities were received" is remembered in a flag that the validation
// reads after the whole capability list was processed.  Inside the capability walk the flag may only be SET: an
// assignment of a computed value lets a later capability (one that repeats its predecessor) clear the conflict, and the
// OPEN is accepted with the last role.
func latchFlagsOnlySet(c *core.Ctx) {
	const rule = "conflict-flag-is-a-latch"
	p := c.P
	fl := p.Field(srv, "openSentState", "multiplePeerRolesRcvd")
	c.Check(fl != nil, rule, "openSentState.multiplePeerRolesRcvd", 0, "field not found")
	if fl == nil {
		return
	}
	n := 0
	inWalk := map[*core.Fn]bool{}
	if w := c.MustFunc(srv + ".(*openSentState).processOpenOptions"); w != nil {
		for _, r := range p.ReachableFns(w) {
			inWalk[r] = true
		}
	}
	for _, f := range p.FuncsIn(srv) {
		if f.Decl.Body == nil || isTestFn(p, f) {
			continue
		}
		ast.Inspect(f.Decl.Body, func(x ast.Node) bool {
			as, ok := x.(*ast.AssignStmt)
			if !ok {
				return true
			}
			for i, l := range as.Lhs {
				if core.FieldOf(f.Pkg, l) != fl || i >= len(as.Rhs) {
					continue
				}
				n++
				v := core.ConstOf(f.Pkg, as.Rhs[i])
				if v != nil && v.ExactString() == "false" && !inWalk[f] {
					c.Check(true, rule, fmt.Sprintf("%s resets the flag outside the capability walk", f.Name()), as.Pos(), "")
					continue
				}
				c.Check(v != nil && v.ExactString() == "true", rule, fmt.Sprintf("%s assignment #%d", f.Name(), n), as.Pos(),
					"the role-conflict flag is assigned a computed value while the capabilities are walked: a later Role capability equal to its predecessor clears a conflict detected earlier, and an OPEN with differing roles is accepted")
			}
			return true
		})
	}
	c.Check(n >= 1, rule, "assignments found", 0, "the role-conflict flag is never set")
}
