package props

import (
	"fmt"
	"go/ast"
	"go/token"
	"go/types"
	"sort"

	"verif/engine/core"
)

// negotiationIsPerSession: the FSM, its address families and the peer object live across sessions; what a session
// negotiated must be a function of the OPEN of that session alone.  Rule: every field of these long-lived objects (and
// of the state object) that the processing of the peer's optional parameters can write is (re)assigned on every path of
// the OPEN handler before the optional parameters are processed — directly, or in a callee that assigns it a constant
// under no condition other than nil tests.  A flag that is only ever set ("the peer supports 4-octet AS numbers", "the
// peer advertised a role") would otherwise survive into a later session whose OPEN does not carry the capability.
func negotiationIsPerSession(c *core.Ctx) {
	const rule = "negotiated-state-reset-per-session"
	p := c.P
	c.Floor(rule, 5)
	proc := c.MustFunc(srv + ".(*openSentState).processOpenOptions")
	if proc == nil {
		return
	}
	// the handler that calls it
	var handler *core.Fn
	var procCall *ast.CallExpr
	for _, cs := range callSitesOf(p, proc) {
		if core.RecvName(cs.f.Obj) == "openSentState" {
			handler, procCall = cs.f, cs.call
		}
	}
	if handler == nil {
		c.Undecided(rule, proc.Name(), proc.Decl.Pos(), "no caller of processOpenOptions among the OpenSent handlers")
		return
	}
	owners := map[string]bool{"FSM": true, "peer": true, "fsmAddressFamily": true, "openSentState": true}
	writes := map[*types.Var]token.Pos{}
	for _, g := range p.ReachableFns(proc) {
		if g.Decl.Body == nil {
			continue
		}
		c.Analysed(g)
		ast.Inspect(g.Decl.Body, func(n ast.Node) bool {
			switch x := n.(type) {
			case *ast.AssignStmt:
				for _, l := range x.Lhs {
					if fv := core.FieldOf(g.Pkg, l); fv != nil && owners[ownerName(fv)] {
						if _, seen := writes[fv]; !seen {
							writes[fv] = x.Pos()
						}
					}
				}
			case *ast.IncDecStmt:
				if fv := core.FieldOf(g.Pkg, x.X); fv != nil && owners[ownerName(fv)] {
					if _, seen := writes[fv]; !seen {
						writes[fv] = x.Pos()
					}
				}
			}
			return true
		})
	}
	// resets performed by callees of the handler: constant assignment under nil tests only
	resetsIn := func(g *core.Fn, fv *types.Var) bool {
		ok := false
		ast.Inspect(g.Decl.Body, func(n ast.Node) bool {
			as, isAs := n.(*ast.AssignStmt)
			if !isAs || len(as.Lhs) != len(as.Rhs) {
				return true
			}
			for i, l := range as.Lhs {
				if core.FieldOf(g.Pkg, l) != fv {
					continue
				}
				r := core.Unparen(as.Rhs[i])
				constLike := core.ConstOf(g.Pkg, r) != nil
				if id, isId := r.(*ast.Ident); isId && (id.Name == "false" || id.Name == "nil") {
					constLike = true
				}
				if _, isLit := r.(*ast.CompositeLit); isLit {
					constLike = true
				}
				if !constLike {
					continue
				}
				onlyNil := true
				for _, ft := range core.CtlFactsAt(g, as) {
					be, isB := core.Unparen(ft.Expr).(*ast.BinaryExpr)
					if !isB {
						onlyNil = false
						continue
					}
					_, xn := core.Unparen(be.X).(*ast.Ident)
					yid, yn := core.Unparen(be.Y).(*ast.Ident)
					if !(yn && yid.Name == "nil") && !(xn && core.ExprString(be.X) == "nil") {
						onlyNil = false
					}
				}
				if onlyNil {
					ok = true
				}
			}
			return true
		})
		return ok
	}
	g := p.CFG(handler)
	var fields []*types.Var
	for fv := range writes {
		fields = append(fields, fv)
	}
	sort.Slice(fields, func(i, j int) bool {
		return ownerName(fields[i])+fields[i].Name() < ownerName(fields[j])+fields[j].Name()
	})
	isProc := func(n ast.Node) bool {
		return core.NodeHas(n, func(x ast.Node) bool { return x == ast.Node(procCall) })
	}
	for _, fv := range fields {
		gate := func(n ast.Node) bool {
			if as, ok := n.(*ast.AssignStmt); ok {
				for _, l := range as.Lhs {
					if core.FieldOf(handler.Pkg, l) == fv {
						return true
					}
				}
			}
			return core.NodeHas(n, func(x ast.Node) bool {
				call, ok := x.(*ast.CallExpr)
				if !ok || call == procCall {
					return false
				}
				h := p.FnOf(core.Callee(handler.Pkg, call))
				return h != nil && h.Decl.Body != nil && resetsIn(h, fv)
			})
		}
		bad := core.PathAvoiding(g, gate, isProc)
		c.Check(len(bad) == 0, rule, fmt.Sprintf("%s resets %s.%s before it processes the peer's capabilities", handler.Name(), ownerName(fv), fv.Name()), writes[fv],
			fmt.Sprintf("%s.%s is written while the peer's optional parameters are processed (%s) but is not reset before: the object outlives the session, so the value negotiated with an earlier OPEN carries over — a capability (4-octet AS, add-path, multiprotocol) stays enabled, or a role stays remembered, although this session's OPEN does not advertise it", ownerName(fv), fv.Name(), p.Pos(writes[fv])))
	}
}
