package props

import (
	"fmt"
	"go/ast"
	"go/token"
	"go/types"
	"sort"
	"strings"

	"verif/engine/core"
)

func init() {
	Register(&Prop{
		Meta: core.Meta{
			ID: "C23", Title: "The session state machine refines the RFC 4271 FSM model", Level: "other",
			Technique:   "transition extraction from the typed AST (state type × constructor of the returned state) checked for inclusion in the RFC 4271 §8.2.2 relation; typestate coupling rules by must-pass-through on go/cfg and who-may-call",
			DesignRef:   "DESIGN.md §4 C23",
			Decided:     "(0) in the msgReceived of OpenSent, OpenConfirm and Established the handler of a message type (OPEN, KEEPALIVE, UPDATE, NOTIFICATION) is called only where the header type is established to be exactly that type — never from a default clause; (1) the transition relation extracted from every `return newXState(...)` of the seven state types is included in the RFC 4271 §8.2.2 relation frozen in engine/props/c23.go (for a memoryless state graph edge inclusion is trace inclusion), and every state has its run method; (2) coupling: routes are attached only in Established — fsmAddressFamily.init is called only from establishedState.init, ribsInitialized is set only there (and in the BMP pseudo-FSM literal), every exit from Established passes uninit (C07); UPDATEs are processed only in Established — processUpdate is called only from establishedState.update, which is called only from establishedState.msgReceived; every return to Idle from OpenSent, OpenConfirm or Established passes con.Close() on every path (BMP exempt); (3) stateName's type switch covers the seven state types.",
			NotDecided:  "timer values and event fairness; that each transition is taken on the right event beyond the message-type dispatch of rule (0); BMP pseudo-FSMs are constructed directly in Established and are exempt from (1).",
			TrustedBase: append([]string{"the RFC 4271 §8.2.2 relation transcribed in engine/props/c23.go"}, stdTrusted...),
		},
		Run: runC23,
		Controls: []Control{
			{Name: "keepalive-timer-survives-into-a-hold-time-zero-session", File: "protocols/bgp/server/fsm_open_sent.go", Old: "\t} else {\n\t\t// no keepalives and no hold timer in this session: don't keep the timer of an earlier one\n\t\tstopTimer(s.fsm.keepaliveTimer)\n\t\ts.fsm.keepaliveTimer = nil\n\t}\n", New: "\t}\n", Expect: "hold-timer-runs-only-with-nonzero-hold-time"},
			{Name: "hold-timer-looked-at-once", File: "protocols/bgp/server/fsm_established.go", Old: "\t\tcase <-time.After(time.Second):\n\t\t\treturn s.checkHoldtimer()\n", New: "\t\tcase <-s.fsm.connectRetryTimer.C:\n\t\t\treturn s.checkHoldtimer()\n", Expect: "hold-timer-poll-recurs"},
			{Name: "open-sent-re-entered-by-its-hold-timer-check", File: "protocols/bgp/server/fsm_open_sent.go", Old: "\t\t\tif _, same := next.(*openSentState); same {\n", New: "\t\t\tif _, same := next.(*openSentState); same && reason == \"\" {\n", Expect: "one-receiver-per-connection"},
			{Name: "hold-timer-guard-before-negotiation", File: "protocols/bgp/server/fsm_open_sent.go", Old: "\ts.fsm.neighborID = openMsg.BGPIdentifier\n", New: "\ts.fsm.neighborID = openMsg.BGPIdentifier\n\tif s.fsm.holdTime != 0 {\n\t\ts.fsm.updateLastUpdateOrKeepalive()\n\t}\n", Expect: "negotiated-hold-time-read-after-it-is-stored"},
			{Name: "openconfirm-hold-timer-ignores-hold-time-zero", File: "protocols/bgp/server/fsm_open_confirm.go", Old: "\tif s.fsm.holdTime != 0 && time.Since(s.fsm.lastUpdateOrKeepalive) > s.fsm.holdTime {", New: "\tif time.Since(s.fsm.lastUpdateOrKeepalive) > s.fsm.holdTime {", Expect: "hold-timer-runs-only-with-nonzero-hold-time"},
			{Name: "teardown-stops-at-first-unconfigured-family", File: "protocols/bgp/server/fsm_established.go", Old: "\tif s.fsm.ipv4Unicast != nil {\n\t\ts.fsm.ipv4Unicast.dispose()\n\t}\n\n\tif s.fsm.ipv6Unicast != nil {\n\t\ts.fsm.ipv6Unicast.dispose()\n\t}\n", New: "\tfor _, f := range []*fsmAddressFamily{s.fsm.ipv4Unicast, s.fsm.ipv6Unicast} {\n\t\tif f == nil {\n\t\t\tbreak\n\t\t}\n\t\tf.dispose()\n\t}\n", Expect: "every-family-follows-the-session"},
			{Name: "refactor-teardown-loops-over-the-families", Silent: true, File: "protocols/bgp/server/fsm_established.go", Old: "\tif s.fsm.ipv4Unicast != nil {\n\t\ts.fsm.ipv4Unicast.dispose()\n\t}\n\n\tif s.fsm.ipv6Unicast != nil {\n\t\ts.fsm.ipv6Unicast.dispose()\n\t}\n", New: "\tfor _, f := range []*fsmAddressFamily{s.fsm.ipv4Unicast, s.fsm.ipv6Unicast} {\n\t\tif f == nil {\n\t\t\tcontinue\n\t\t}\n\t\tf.dispose()\n\t}\n"},
			{Name: "refactor-reject-returns-early-without-connection", Silent: true, File: "protocols/bgp/server/fsm_open_sent.go", Old: "\tif s.fsm.con != nil {\n\t\ts.fsm.sendNotification(packet.OpenMessageError, errorSubCode)\n\t\ts.fsm.con.Close()\n\t}\n", New: "\tif s.fsm.con == nil {\n\t\treturn newIdleState(s.fsm), reason\n\t}\n\ts.fsm.sendNotification(packet.OpenMessageError, errorSubCode)\n\ts.fsm.con.Close()\n"},
			{Name: "openconfirm-anything-is-a-keepalive", File: "protocols/bgp/server/fsm_open_confirm.go", Old: "\tcase packet.KeepaliveMsg:\n\t\treturn s.keepaliveReceived()\n\tdefault:\n\t\treturn s.unexpectedMessage()\n", New: "\tcase packet.OpenMsg:\n\t\treturn s.unexpectedMessage()\n\tdefault:\n\t\treturn s.keepaliveReceived()\n", Expect: "transition-tied-to-message-type"},
			{Name: "refactor-dispatch-by-if", Silent: true, File: "protocols/bgp/server/fsm_open_confirm.go", Old: "\tswitch msg.Header.Type {\n\tcase packet.NotificationMsg:\n\t\treturn s.notification(msg)\n\tcase packet.KeepaliveMsg:\n\t\treturn s.keepaliveReceived()\n\tdefault:\n\t\treturn s.unexpectedMessage()\n\t}\n", New: "\tif msg.Header.Type == packet.NotificationMsg {\n\t\treturn s.notification(msg)\n\t}\n\tif msg.Header.Type != packet.KeepaliveMsg {\n\t\treturn s.unexpectedMessage()\n\t}\n\treturn s.keepaliveReceived()\n"},
			{Name: "openconfirm-skips-to-openSent", File: "protocols/bgp/server/fsm_open_confirm.go", Old: "return newEstablishedState(s.fsm), \"Received KEEPALIVE\"", New: "return newConnectState(s.fsm), \"Received KEEPALIVE\"", Expect: "transition-in-rfc-relation"},
			{Name: "idle-return-without-close", File: "protocols/bgp/server/fsm_open_confirm.go", Old: "\ts.fsm.sendNotification(packet.HoldTimeExpired, 0)\n\tstopTimer(s.fsm.connectRetryTimer)\n\ts.fsm.con.Close()\n", New: "\ts.fsm.sendNotification(packet.HoldTimeExpired, 0)\n\tstopTimer(s.fsm.connectRetryTimer)\n", Expect: "idle-return-closes-connection"},
			{Name: "update-processed-in-openconfirm", File: "protocols/bgp/server/fsm_open_confirm.go", Old: "func (s *openConfirmState) keepaliveReceived() (state, string) {\n", New: "func (s *openConfirmState) keepaliveReceived() (state, string) {\n\tif s.fsm.ipv4Unicast != nil && s.fsm.ribsInitialized {\n\t\ts.fsm.ipv4Unicast.processUpdate(nil, false, 0)\n\t}\n", Expect: "update-only-in-established"},
		},
	})
}

var rfcRelation = map[string][]string{
	"idleState":        {"idleState", "connectState", "activeState", "ceaseState"},
	"connectState":     {"connectState", "idleState", "activeState", "openSentState", "ceaseState"},
	"activeState":      {"activeState", "connectState", "idleState", "openSentState", "ceaseState"},
	"openSentState":    {"openSentState", "activeState", "idleState", "openConfirmState", "ceaseState"},
	"openConfirmState": {"openConfirmState", "idleState", "establishedState", "ceaseState"},
	"establishedState": {"establishedState", "idleState", "ceaseState"},
	"ceaseState":       {"ceaseState"},
}

func runC23(c *core.Ctx) {
	holdTimerPollRecurs(c, "hold-timer-poll-recurs")
	oneReceiverPerConnection(c, "one-receiver-per-connection")
	negotiatedHoldTimeReadAfterItIsStored(c, "negotiated-hold-time-read-after-it-is-stored")
	holdTimerNeedsNonZeroHoldTime(c)
	everyFamilyHandled(c, "every-family-follows-the-session", c.MustFunc(srv+".(*establishedState).init"), c.MustFunc(srv+".(*fsmAddressFamily).init"))
	everyFamilyHandled(c, "every-family-follows-the-session", c.MustFunc(srv+".(*establishedState).uninit"), c.MustFunc(srv+".(*fsmAddressFamily).dispose"))
	p := c.P
	messageDispatch(c)
	rets := fsmReturns(c)
	allowed := func(from, to string) bool {
		for _, t := range rfcRelation[from] {
			if t == to {
				return true
			}
		}
		return false
	}
	c.Floor("transition-in-rfc-relation", 50)
	edges := map[string]bool{}
	for _, r := range rets {
		if r.To == "" {
			continue
		}
		edges[r.From+"→"+r.To] = true
		c.Check(allowed(r.From, r.To), "transition-in-rfc-relation", fmt.Sprintf("%s return #%d: %s → %s", r.Method.Name(), retIndex(r.Method, r.Ret), r.From, r.To), r.Ret.Pos(),
			fmt.Sprintf("transition %s → %s is not in the RFC 4271 §8.2.2 relation (allowed from %s: %s)", r.From, r.To, r.From, strings.Join(rfcRelation[r.From], ", ")))
	}
	var es []string
	for e := range edges {
		es = append(es, e)
	}
	sort.Strings(es)
	c.Info("extracted transition relation: %s", strings.Join(es, "  "))
	for _, st := range fsmStates {
		found := false
		for _, m := range p.MethodsOf(srv, st) {
			if m.Decl.Name.Name == "run" {
				found = true
			}
		}
		c.Check(found, "transition-in-rfc-relation", st+" has a run method", token.NoPos, "state type without run method")
	}
	// progress edges that must exist (the machine can reach Established and come back)
	for _, e := range []string{"idleState→connectState", "connectState→openSentState", "openSentState→openConfirmState", "openConfirmState→establishedState", "establishedState→idleState"} {
		c.Check(edges[e], "transition-in-rfc-relation", "edge "+e+" exists", token.NoPos, "the extracted relation lacks this edge: the session can no longer be established / torn down along the RFC path")
	}

	// (2) coupling -----------------------------------------------------------------------------------
	who := func(rule, calleeKey string, allowedCallers ...string) {
		callee := p.Func(calleeKey)
		if callee == nil {
			c.Undecided("anchor", calleeKey, token.NoPos, "not found")
			return
		}
		n := 0
		for _, f := range p.AllFuncs() {
			if f.Decl.Body == nil {
				continue
			}
			for _, call := range core.CallsAll(f.Pkg, f.Decl.Body, func(o *types.Func) bool { return o == callee.Obj }) {
				n++
				ok := false
				for _, a := range allowedCallers {
					if f.Name() == a {
						ok = true
					}
				}
				c.Check(ok, rule, calleeKey+" called from "+f.Name(), call.Pos(), calleeKey+" is reachable from outside the Established state's code ("+strings.Join(allowedCallers, ", ")+")")
			}
		}
		c.Check(n >= 1, rule, calleeKey+" has a caller", callee.Decl.Pos(), "no caller found")
	}
	who("routes-only-in-established", srv+".(*fsmAddressFamily).init", srv+".(*establishedState).init")
	who("routes-only-in-established", srv+".(*establishedState).init", srv+".(establishedState).run")
	who("update-only-in-established", srv+".(*fsmAddressFamily).processUpdate", srv+".(*establishedState).update")
	who("update-only-in-established", srv+".(*establishedState).update", srv+".(*establishedState).msgReceived")
	// ribsInitialized = true only in establishedState.init
	ribsInit := p.Field(srv, "FSM", "ribsInitialized")
	for _, f := range p.FuncsIn(srv) {
		if f.Decl.Body == nil {
			continue
		}
		ast.Inspect(f.Decl.Body, func(n ast.Node) bool {
			as, ok := n.(*ast.AssignStmt)
			if !ok {
				return true
			}
			for i, l := range as.Lhs {
				if core.FieldOf(f.Pkg, l) == ribsInit && i < len(as.Rhs) {
					if v := core.ConstOf(f.Pkg, as.Rhs[i]); v == nil || v.ExactString() != "false" {
						c.Check(f.Name() == srv+".(*establishedState).init", "routes-only-in-established", "ribsInitialized set in "+f.Name(), as.Pos(), "ribsInitialized is set outside establishedState.init")
					}
				}
			}
			return true
		})
	}
	// routes are attached exactly while Established: every exit from Established runs uninit
	exitEstablishedUninit(c)
	// every Idle return from OpenSent/OpenConfirm/Established closes the connection
	isBMP := p.Field(srv, "FSM", "isBMP")
	c.Floor("idle-return-closes-connection", 20)
	byMethod := map[*core.Fn][]fsmReturn{}
	for _, r := range rets {
		if r.From == "openSentState" || r.From == "openConfirmState" || r.From == "establishedState" {
			byMethod[r.Method] = append(byMethod[r.Method], r)
		}
	}
	var ms []*core.Fn
	for m := range byMethod {
		ms = append(ms, m)
	}
	sort.Slice(ms, func(i, j int) bool { return ms[i].Name() < ms[j].Name() })
	for _, m := range ms {
		targets := map[*ast.ReturnStmt]bool{}
		for _, r := range byMethod[m] {
			if r.To == "idleState" {
				targets[r.Ret] = true
			}
		}
		bad := map[*ast.ReturnStmt]bool{}
		for _, b := range returnsReachableWithout(p, m, conCloseNode(c, m), targets) {
			bad[b] = true
		}
		for _, r := range byMethod[m] {
			if !targets[r.Ret] {
				continue
			}
			construct := fmt.Sprintf("%s return #%d → idle", m.Name(), retIndex(m, r.Ret))
			if !bad[r.Ret] {
				c.Hold("idle-return-closes-connection", construct, r.Ret.Pos(), "con.Close() on every path")
				continue
			}
			if r.Helper != nil {
				if rets, implicit := core.ExitsWithout(p.CFG(r.Helper), conCloseNode(c, r.Helper)); len(rets) == 0 && !implicit {
					c.Hold("idle-return-closes-connection", construct, r.Ret.Pos(), "the shared helper "+r.Helper.Name()+" closes the connection on every path")
					continue
				}
			}
			exempt := false
			for _, ft := range core.FactsAt(m, r.Ret) {
				if ft.Expr != nil && core.FieldOf(m.Pkg, ft.Expr) == isBMP && ft.Truth {
					exempt = true
				}
				if conKnownNil(c, m, ft) {
					exempt = true
				}
			}
			if exempt {
				c.Hold("idle-return-closes-connection", construct, r.Ret.Pos(), "exempt: BMP pseudo session / no connection on this path")
				continue
			}
			c.Fail("idle-return-closes-connection", construct, r.Ret.Pos(), "the session returns to Idle on this path without closing the TCP connection: the peer keeps a half-open session and the message reader goroutine keeps running on it")
		}
	}
	// (3) stateName covers the seven types
	if sn := c.MustFunc(srv + ".stateName"); sn != nil {
		covered := map[string]bool{}
		ast.Inspect(sn.Decl.Body, func(n ast.Node) bool {
			cc, ok := n.(*ast.CaseClause)
			if !ok {
				return true
			}
			for _, e := range cc.List {
				if t := sn.Pkg.TypesInfo.TypeOf(e); t != nil {
					if pt, ok := t.(*types.Pointer); ok {
						if nt, ok := pt.Elem().(*types.Named); ok {
							covered[nt.Obj().Name()] = true
						}
					}
				}
			}
			return true
		})
		for _, st := range fsmStates {
			c.Check(covered[""+st], "state-name-exhaustive", "stateName covers *"+st, sn.Decl.Pos(), "stateName has no case for *"+st+" (the pointer type the constructors return): run() panics with `Unknown state` on the first transition into it")
		}
	}
}
