package props

import (
	"go/ast"
	"go/token"
	"go/types"

	"verif/engine/core"
)

// messageDispatch: RFC 4271 §8.2.2 ties each FSM transition to the type of the received message: in OpenSent only an OPEN
// continues the handshake, in OpenConfirm only a KEEPALIVE establishes the session, in Established only UPDATE and
// KEEPALIVE are processed; anything else is an FSM error.  Rule: in every state's msgReceived the handler that stands for
// a message type is called only where the dominating conditions establish that the header type IS that type (a case
// clause listing exactly it, or an equality test) — never from a default clause or a clause shared with another type.
func messageDispatch(c *core.Ctx) {
	const rule = "transition-tied-to-message-type"
	p := c.P
	c.Floor(rule, 6)
	typeF := p.Field("protocols/bgp/packet", "BGPHeader", "Type")
	want := map[string]string{"openMsgReceived": "OpenMsg", "keepaliveReceived": "KeepaliveMsg", "update": "UpdateMsg", "notification": "NotificationMsg"}
	for _, st := range []string{"openSentState", "openConfirmState", "establishedState"} {
		f := c.MustFunc(srv + ".(*" + st + ").msgReceived")
		if f == nil || typeF == nil {
			continue
		}
		c.Analysed(f)
		for _, call := range core.CallsAll(f.Pkg, f.Decl.Body, func(*types.Func) bool { return true }) {
			sel, ok := call.Fun.(*ast.SelectorExpr)
			if !ok || core.ObjOf(f.Pkg, sel.X) != recvObj(f) {
				continue
			}
			constName, ok := want[sel.Sel.Name]
			if !ok {
				continue
			}
			co := p.Object("protocols/bgp/packet", constName)
			established := false
			for _, ft := range core.FactsAt(f, call) {
				// switch membership
				if ft.Tag != nil && core.FieldOf(f.Pkg, ft.Tag) == typeF && ft.Truth && len(ft.Vals) == 1 && isConstObj(f, ft.Vals[0], co) {
					established = true
				}
				if be, isB := core.Unparen(ft.Expr).(*ast.BinaryExpr); isB && ft.Expr != nil {
					x, y := be.X, be.Y
					if core.FieldOf(f.Pkg, y) == typeF {
						x, y = y, x
					}
					if core.FieldOf(f.Pkg, x) == typeF && isConstObj(f, y, co) && ((be.Op == token.EQL && ft.Truth) || (be.Op == token.NEQ && !ft.Truth)) {
						established = true
					}
				}
			}
			c.Check(established, rule, f.Name()+" calls "+sel.Sel.Name+" only for "+constName, call.Pos(),
				"the handler "+sel.Sel.Name+" runs where the message type is not established to be "+constName+" (default clause, or a clause shared with other types): a message of another type drives the transition reserved for "+constName+" — e.g. an UPDATE in OpenConfirm establishes the session instead of raising an FSM error")
		}
	}
}
