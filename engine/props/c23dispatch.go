package props

import (
	"fmt"
	"go/ast"
	"go/token"
	"go/types"

	"verif/engine/core"
)

// messageDispatch: RFC 4271 §8.2.2 ties each FSM transition to the type of the received message: in OpenSent only an OPEN
// continues the handshake, in OpenConfirm only a KEEPALIVE establishes the session, in Established only UPDATE and
// KEEPALIVE are processed; anything else is an FSM error.  Rule: in every state's msgReceived the handler that stands for
// a message type is called only where the dominating conditions establish that the header type IS that type (a case
// clause listing exactly it, or an equality test) — never from a default clause or a clause shared with another type.
func messageDispatch(c *core.Ctx) {
	const rule = "transition-tied-to-message-type"
	p := c.P
	c.Floor(rule, 6)
	typeF := p.Field("protocols/bgp/packet", "BGPHeader", "Type")
	want := map[string]string{"openMsgReceived": "OpenMsg", "keepaliveReceived": "KeepaliveMsg", "update": "UpdateMsg", "notification": "NotificationMsg"}
	for _, st := range []string{"openSentState", "openConfirmState", "establishedState"} {
		f := c.MustFunc(srv + ".(*" + st + ").msgReceived")
		if f == nil || typeF == nil {
			continue
		}
		c.Analysed(f)
		for _, call := range core.CallsAll(f.Pkg, f.Decl.Body, func(*types.Func) bool { return true }) {
			sel, ok := call.Fun.(*ast.SelectorExpr)
			if !ok || core.ObjOf(f.Pkg, sel.X) != recvObj(f) {
				continue
			}
			constName, ok := want[sel.Sel.Name]
			if !ok {
				continue
			}
			co := p.Object("protocols/bgp/packet", constName)
			established := false
			for _, ft := range core.FactsAt(f, call) {
				// switch membership
				if ft.Tag != nil && core.FieldOf(f.Pkg, ft.Tag) == typeF && ft.Truth && len(ft.Vals) == 1 && isConstObj(f, ft.Vals[0], co) {
					established = true
				}
				if be, isB := core.Unparen(ft.Expr).(*ast.BinaryExpr); isB && ft.Expr != nil {
					x, y := be.X, be.Y
					if core.FieldOf(f.Pkg, y) == typeF {
						x, y = y, x
					}
					if core.FieldOf(f.Pkg, x) == typeF && isConstObj(f, y, co) && ((be.Op == token.EQL && ft.Truth) || (be.Op == token.NEQ && !ft.Truth)) {
						established = true
					}
				}
			}
			c.Check(established, rule, f.Name()+" calls "+sel.Sel.Name+" only for "+constName, call.Pos(),
				"the handler "+sel.Sel.Name+" runs where the message type is not established to be "+constName+" (default clause, or a clause shared with other types): a message of another type drives the transition reserved for "+constName+" — e.g. an UPDATE in OpenConfirm establishes the session instead of raising an FSM error")
		}
	}
}

// holdTimerNeedsNonZeroHoldTime: RFC 4271 §4.2/§8 — with a negotiated hold time of zero the hold timer is not started,
// so the states that run with the negotiated value (OpenConfirm, Established) have no HoldTimer_Expires event then.
// Every call of a holdTimerExpired method of those states must be controlled by a condition with a conjunct that
// excludes hold time 0: `holdTime != 0` / `holdTime > 0`, or `keepaliveTimer != nil` (the keepalive timer is created
// exactly when the negotiated hold time is not zero).
func holdTimerNeedsNonZeroHoldTime(c *core.Ctx) {
	const rule = "hold-timer-runs-only-with-nonzero-hold-time"
	p := c.P
	ht := p.Field(srv, "FSM", "holdTime")
	ka := p.Field(srv, "FSM", "keepaliveTimer")
	c.Check(ht != nil && ka != nil, rule, "FSM.holdTime / FSM.keepaliveTimer", 0, "fields not found")
	n := 0
	for _, st := range []string{"openConfirmState", "establishedState"} {
		for _, f := range p.MethodsOf(srv, st) {
			if f.Decl.Body == nil {
				continue
			}
			for _, call := range core.Calls(f.Pkg, f.Decl.Body, func(o *types.Func) bool { return o.Name() == "holdTimerExpired" && core.RecvName(o) == st }) {
				n++
				c.Analysed(f)
				ok := false
				for _, ft := range core.CtlFactsAt(f, call) {
					if ft.Expr == nil {
						continue
					}
					var leaf func(e ast.Expr, truth bool)
					leaf = func(e ast.Expr, truth bool) {
						e = core.Unparen(e)
						if u, isU := e.(*ast.UnaryExpr); isU && u.Op == token.NOT {
							leaf(u.X, !truth)
							return
						}
						be, isB := e.(*ast.BinaryExpr)
						if !isB {
							return
						}
						if be.Op == token.LAND && truth || be.Op == token.LOR && !truth {
							leaf(be.X, truth)
							leaf(be.Y, truth)
							return
						}
						op := be.Op
						if !truth {
							switch op {
							case token.EQL:
								op = token.NEQ
							case token.NEQ:
								op = token.EQL
							case token.LEQ:
								op = token.GTR
							case token.GTR:
								op = token.LEQ
							}
						}
						if core.FieldOf(f.Pkg, be.X) == ht && ht != nil {
							if v := core.ConstOf(f.Pkg, be.Y); v != nil && v.ExactString() == "0" && (op == token.NEQ || op == token.GTR) {
								ok = true
							}
						}
						if core.FieldOf(f.Pkg, be.X) == ka && ka != nil && op == token.NEQ && core.IsNilIdent(f.Pkg, be.Y) {
							ok = true
						}
					}
					leaf(ft.Expr, ft.Truth)
				}
				c.Check(ok, rule, fmt.Sprintf("%s hold timer expiry #%d", f.Name(), n), call.Pos(),
					"the hold timer is declared expired under a condition that also holds for a negotiated hold time of zero (time since the last message > 0): RFC 4271 starts no hold timer then — the session leaves "+st[:len(st)-5]+" through an event the abstract FSM does not have")
			}
		}
	}
	c.Check(n >= 2, rule, "hold timer expiry call sites found", 0, fmt.Sprintf("found %d, expected OpenConfirm and Established", n))
	// the proxy `keepaliveTimer != nil` stands for `hold time != 0` only if the timer is (re)assigned whenever the hold
	// time is: in every function that assigns FSM.holdTime each path from that assignment to a return assigns
	// FSM.keepaliveTimer too (a fresh timer, or nil) — a timer left over from an earlier session would otherwise make a
	// session with hold time 0 expire at once
	nSet := 0
	for _, f := range p.FuncsIn(srv) {
		if f.Decl.Body == nil || isTestFn(p, f) {
			continue
		}
		setsHT := func(nd ast.Node) bool {
			as, ok := nd.(*ast.AssignStmt)
			if !ok {
				return false
			}
			for _, l := range as.Lhs {
				if core.FieldOf(f.Pkg, l) == ht && ht != nil {
					return true
				}
			}
			return false
		}
		setsKA := func(nd ast.Node) bool {
			as, ok := nd.(*ast.AssignStmt)
			if !ok {
				return false
			}
			for _, l := range as.Lhs {
				if core.FieldOf(f.Pkg, l) == ka && ka != nil {
					return true
				}
			}
			return false
		}
		has := false
		ast.Inspect(f.Decl.Body, func(nd ast.Node) bool {
			if st, ok := nd.(ast.Stmt); ok && setsHT(st) {
				has = true
			}
			return true
		})
		if !has {
			continue
		}
		nSet++
		c.Analysed(f)
		isRet := func(nd ast.Node) bool { _, ok := nd.(*ast.ReturnStmt); return ok }
		hits := core.PathAvoidingFrom(p.CFG(f), setsHT, setsKA, isRet)
		pos := f.Decl.Pos()
		if len(hits) > 0 {
			pos = hits[0].Pos()
		}
		c.Check(len(hits) == 0, rule, f.Name()+" assigns the keepalive timer whenever it assigns the hold time", pos,
			"the negotiated hold time is stored and on some path the function returns without (re)assigning FSM.keepaliveTimer: the timer of an earlier session of this FSM survives into a session with hold time 0, where `keepaliveTimer != nil` lets the hold timer expire at the first check")
	}
	c.Check(nSet >= 1, rule, "hold time assignments found", 0, "no function assigns FSM.holdTime")
}
