package props

import (
	"fmt"
	"go/ast"
	"go/token"
	"go/types"

	"verif/engine/core"
)

func init() {
	Register(&Prop{
		Meta: core.Meta{
			ID: "C24", Title: "Connection collisions leave at most one established session", Level: "other",
			Technique:   "inhabited-case check of every type switch on the FSM state interface (case types vs. the dynamic types the constructors produce), truth table of the collision tie-break, guard/ordering checks of the collision path",
			DesignRef:   "DESIGN.md §4 C24",
			Decided:     "(1) every case of a type switch on a `state` value in package server names a type that some state constructor actually produces (pointer types): a case on a type no FSM ever holds is constantly false, which is how collision detection was dead; (2) shouldCeaseOnCollision compares the BGP identifiers and, exactly when they are equal, the AS numbers (16 valuations); (3) in collisionHandling an Established sibling makes the calling connection lose, an OpenConfirm sibling is ceased iff the tie-break says so and otherwise the caller loses; the caller's OPEN handling turns a lost collision into its own cease(); (3c) the Cease event cannot be dropped: FSM.cease hands it to the event loop on every path, and next to the send only a channel that is closed exclusively by a function deferred in FSM.run (the FSM has ended) may be waited for; (3e) collisionHandling evaluates the state predicates inside a range loop over all of peer.fsms and leaves that loop early only with `the caller loses`; (3d) every exit of FSM.run takes the FSM off peer.fsms first, so a collision check never meets an FSM whose event loop is gone; (4) every cease() of a state with a connection sends NOTIFICATION(Cease) before closing it; incoming connections get their own FSM appended to peer.fsms under fsmsMu.",
			NotDecided:  "`at most one Established under every interleaving of two connections` is schedule-quantified and not decided; only the detection predicate, the tie-break and the cease path are.",
			TrustedBase: stdTrusted,
		},
		Run: runC24,
		Controls: []Control{
			{Name: "idle-fsms-dropped-when-a-connection-comes-in", File: "protocols/bgp/server/server.go", Old: "\t\tpeer.fsms = append(peer.fsms, fsm)\n", New: "\t\tkeep := make([]*FSM, 0, len(peer.fsms)+1)\n\t\tfor _, f := range peer.fsms {\n\t\t\tif f.con != nil {\n\t\t\t\tkeep = append(keep, f)\n\t\t\t}\n\t\t}\n\t\tpeer.fsms = append(keep, fsm)\n", Expect: "only-ended-fsms-leave-the-list"},
			{Name: "open-announces-the-server-router-id", File: "protocols/bgp/server/fsm.go", Old: "\t\tBGPIdentifier: fsm.peer.routerID,\n", New: "\t\tBGPIdentifier: fsm.peer.routerID | fsm.peer.server.config.RouterID,\n", Expect: "announced-identifier-is-the-compared-one"},
			{Name: "second-connection-closed-in-the-accept-loop", File: "protocols/bgp/server/server.go", Old: "\t\tlog.WithFields(log.Fields{\n\t\t\t\"source\": c.Conn.RemoteAddr(),\n\t\t}).Info(\"Incoming TCP connection\")\n", New: "\t\tif peer.singleFSM() != nil {\n\t\t\tc.Conn.Close()\n\t\t\tcontinue\n\t\t}\n\t\tlog.WithFields(log.Fields{\n\t\t\t\"source\": c.Conn.RemoteAddr(),\n\t\t}).Info(\"Incoming TCP connection\")\n", Expect: "known-peers-connection-reaches-an-fsm"},
			{Name: "remove-truncates-at-the-match", File: "protocols/bgp/server/peer.go", Old: "\tfsms := make([]*FSM, 0, len(p.fsms))\n\tfor _, f := range p.fsms {\n\t\tif f != fsm {\n\t\t\tfsms = append(fsms, f)\n\t\t}\n\t}\n\n\tp.fsms = fsms\n", New: "\tfor i := range p.fsms {\n\t\tif p.fsms[i] != fsm {\n\t\t\tcontinue\n\t\t}\n\t\tcopy(p.fsms[i:], p.fsms[i+1:])\n\t\tp.fsms = p.fsms[:i]\n\t\treturn\n\t}\n", Expect: "ended-fsm-alone-leaves-the-list"},
			{Name: "refactor-remove-cuts-in-place", Silent: true, File: "protocols/bgp/server/peer.go", Old: "\tfsms := make([]*FSM, 0, len(p.fsms))\n\tfor _, f := range p.fsms {\n\t\tif f != fsm {\n\t\t\tfsms = append(fsms, f)\n\t\t}\n\t}\n\n\tp.fsms = fsms\n", New: "\tfor i := range p.fsms {\n\t\tif p.fsms[i] != fsm {\n\t\t\tcontinue\n\t\t}\n\t\tcopy(p.fsms[i:], p.fsms[i+1:])\n\t\tp.fsms = p.fsms[:len(p.fsms)-1]\n\t\treturn\n\t}\n"},
			{Name: "collision-check-stops-at-first-non-openconfirm", File: "protocols/bgp/server/peer.go", Old: "\t\tif !isOpenConfirm {\n\t\t\tcontinue\n\t\t}\n", New: "\t\tif !isOpenConfirm {\n\t\t\treturn false\n\t\t}\n", Expect: "collision-path"},
			{Name: "ended-fsm-stays-listed", File: "protocols/bgp/server/fsm.go", Old: "\t\t\tfsm.peer.removeFSM(fsm)\n", New: "", Expect: "collision-path"},
			{Name: "state-predicate-on-value-type", File: "protocols/bgp/server/peer.go", Old: "\tcase *establishedState:\n\t\treturn true", New: "\tcase establishedState:\n\t\treturn true", Expect: "state-switch-case-inhabited"},
			{Name: "tie-break-ignores-as-on-equal-ids", File: "protocols/bgp/server/peer.go", Old: "\tif p.routerID == callingFSM.neighborID {\n\t\treturn p.localASN < callingFSM.peer.peerASN\n\t}\n", New: "", Expect: "collision-tie-break-table"},
			{Name: "identifier-stored-after-collision-handling", File: "protocols/bgp/server/fsm_open_sent.go", Old: "\ts.fsm.neighborID = openMsg.BGPIdentifier\n\n\tif s.fsm.isBMP {", New: "\tif s.fsm.isBMP {\n\t\ts.fsm.neighborID = openMsg.BGPIdentifier", Expect: "collision-path"},
			{Name: "cease-event-droppable", File: "protocols/bgp/server/fsm.go", Old: "\tselect {\n\tcase fsm.eventCh <- e:\n\tcase <-fsm.doneCh:\n\t}\n", New: "\tselect {\n\tcase fsm.eventCh <- e:\n\tcase <-fsm.doneCh:\n\tdefault:\n\t}\n", Expect: "collision-path"},
			{Name: "ended-signal-closed-early", File: "protocols/bgp/server/fsm_open_confirm.go", Old: "func (s *openConfirmState) holdTimerExpired() (state, string) {\n", New: "func (s *openConfirmState) holdTimerExpired() (state, string) {\n\ts.fsm.done()\n", Expect: "collision-path"},
			{Name: "refactor-cease-sends-inline", Silent: true, File: "protocols/bgp/server/fsm.go", Old: "\tfsm.sendEvent(Cease)\n", New: "\tselect {\n\tcase <-fsm.doneCh:\n\tcase fsm.eventCh <- Cease:\n\t}\n"},
			{Name: "cease-without-notification", File: "protocols/bgp/server/fsm_open_confirm.go", Old: "func (s *openConfirmState) cease() (state, string) {\n\ts.fsm.sendNotification(packet.Cease, 0)\n", New: "func (s *openConfirmState) cease() (state, string) {\n", Expect: "cease-notifies-before-close"},
		},
	})
}

func runC24(c *core.Ctx) {
	announcedIdentifierIsTheComparedOne(c, "announced-identifier-is-the-compared-one")
	knownPeersConnectionReachesAnFSM(c, "known-peers-connection-reaches-an-fsm")
	p := c.P
	stateT := p.Named(srv, "state")
	if stateT == nil {
		c.Undecided("anchor", srv+".state", token.NoPos, "interface not found")
		return
	}
	// dynamic types converted to `state`: results of the constructors that flow into state-typed positions
	dyn := map[string]bool{}
	for cf := range stateCtors(p) {
		sig := cf.Type().(*types.Signature)
		dyn[sig.Results().At(0).Type().String()] = true
	}
	// (1)
	c.Floor("state-switch-case-inhabited", 9)
	for _, f := range p.FuncsIn(srv) {
		if f.Decl.Body == nil {
			continue
		}
		ast.Inspect(f.Decl.Body, func(n ast.Node) bool {
			ts, ok := n.(*ast.TypeSwitchStmt)
			if !ok {
				return true
			}
			var x ast.Expr
			switch a := ts.Assign.(type) {
			case *ast.AssignStmt:
				x = a.Rhs[0].(*ast.TypeAssertExpr).X
			case *ast.ExprStmt:
				x = a.X.(*ast.TypeAssertExpr).X
			}
			if t := f.Pkg.TypesInfo.TypeOf(x); t == nil || !types.Identical(t, stateT) {
				return true
			}
			c.Analysed(f)
			for _, cs := range ts.Body.List {
				for _, e := range cs.(*ast.CaseClause).List {
					t := f.Pkg.TypesInfo.TypeOf(e)
					if t == nil {
						continue
					}
					c.Check(dyn[t.String()], "state-switch-case-inhabited", f.Name()+" case "+core.ExprString(e), e.Pos(),
						"no FSM state constructor produces a value of type "+t.String()+" (they return pointers): this case is never taken, the predicate/lookup built on it is constantly false")
				}
			}
			return true
		})
	}
	// type assertions on state values
	for _, f := range p.FuncsIn(srv) {
		if f.Decl.Body == nil {
			continue
		}
		ast.Inspect(f.Decl.Body, func(n ast.Node) bool {
			ta, ok := n.(*ast.TypeAssertExpr)
			if !ok || ta.Type == nil {
				return true
			}
			if t := f.Pkg.TypesInfo.TypeOf(ta.X); t == nil || !types.Identical(t, stateT) {
				return true
			}
			t := f.Pkg.TypesInfo.TypeOf(ta.Type)
			c.Check(t != nil && dyn[t.String()], "state-switch-case-inhabited", f.Name()+" assertion "+core.ExprString(ta), ta.Pos(), "type assertion to a type no FSM state constructor produces")
			return true
		})
	}

	// (2) tie-break table
	if f := c.MustFunc(srv + ".(*peer).shouldCeaseOnCollision"); f != nil {
		pf := func(n string) *types.Var { return p.Field(srv, "peer", n) }
		nid := p.Field(srv, "FSM", "neighborID")
		rows, bad := 0, 0
		first := ""
		for _, rid := range []int64{1, 2} {
			for _, nb := range []int64{1, 2} {
				for _, la := range []int64{10, 20} {
					for _, pa := range []int64{10, 20} {
						env := core.NewEnv()
						env.Prog = p
						env.Fields[pf("routerID")], env.Fields[nid] = core.IntVal(rid), core.IntVal(nb)
						env.Fields[pf("localASN")], env.Fields[pf("peerASN")] = core.IntVal(la), core.IntVal(pa)
						rows++
						ret, err := core.Outcome(f, env)
						if err != nil {
							c.Undecided("collision-tie-break-table", f.Name(), f.Decl.Pos(), err.Error())
							return
						}
						v, ok := core.Eval(f, ret.Results[0], env)
						want := rid < nb
						if rid == nb {
							want = la < pa
						}
						if !ok || v.B != want {
							bad++
							if first == "" {
								first = fmt.Sprintf("our id=%d peer id=%d our AS=%d peer AS=%d: code=%v expected=%v", rid, nb, la, pa, v.B, want)
							}
						}
					}
				}
			}
		}
		c.Check(bad == 0, "collision-tie-break-table", f.Name()+fmt.Sprintf(" identifiers, then AS numbers (%d valuations)", rows), f.Decl.Pos(), fmt.Sprintf("%d disagreements; first: %s", bad, first))
	}

	collisionStructure(c)
	if omr := c.MustFunc(srv + ".(*openSentState).openMsgReceived"); omr != nil {
		ch := p.Func(srv + ".(*peer).collisionHandling")
		ok := false
		ast.Inspect(omr.Decl.Body, func(n ast.Node) bool {
			ret, isRet := n.(*ast.ReturnStmt)
			if !isRet || len(ret.Results) != 1 {
				return true
			}
			call, isCall := core.Unparen(ret.Results[0]).(*ast.CallExpr)
			if !isCall || core.FuncKey(core.Callee(omr.Pkg, call)) != srv+".(*openSentState).cease" {
				return true
			}
			for _, ft := range core.CtlFactsAt(omr, ret) {
				if cl := core.CallOf(omr, ft.Expr); cl != nil && ft.Truth && ch != nil && core.Callee(omr.Pkg, cl) == ch.Obj {
					ok = true
				}
			}
			return true
		})
		c.Check(ok, "collision-path", omr.Name()+" ceases when it lost the collision", omr.Decl.Pos(), "a lost collision does not lead to the calling FSM's own cease()")
	}

	// (3b) the tie-break's input (the neighbour's BGP identifier from this OPEN) is stored before collision handling runs
	if omr := p.Func(srv + ".(*openSentState).openMsgReceived"); omr != nil {
		nid := p.Field(srv, "FSM", "neighborID")
		bid := p.Field("protocols/bgp/packet", "BGPOpen", "BGPIdentifier")
		ch := p.Func(srv + ".(*peer).collisionHandling")
		reaches := map[*core.Fn]bool{}
		if ch != nil {
			for _, f := range p.FuncsIn(srv) {
				if f.Decl.Body == nil {
					continue
				}
				for _, g := range p.ReachableFns(f) {
					if g == ch {
						reaches[f] = true
					}
				}
			}
		}
		var check func(f *core.Fn, depth int, via string)
		visited := map[*core.Fn]bool{}
		n := 0
		check = func(f *core.Fn, depth int, via string) {
			if visited[f] || depth > 5 {
				return
			}
			visited[f] = true
			store := func(nd ast.Node) bool {
				as, ok := nd.(*ast.AssignStmt)
				return ok && len(as.Lhs) == 1 && len(as.Rhs) == 1 && core.FieldOf(f.Pkg, as.Lhs[0]) == nid && nid != nil && core.MentionsField(f.Pkg, as.Rhs[0], bid)
			}
			target := func(nd ast.Node) bool {
				return core.NodeHas(nd, func(x ast.Node) bool {
					cl, ok := x.(*ast.CallExpr)
					if !ok {
						return false
					}
					g := p.FnOf(core.Callee(f.Pkg, cl))
					return g != nil && (g == ch || reaches[g])
				})
			}
			for _, hit := range core.PathAvoiding(p.CFG(f), store, target) {
				ast.Inspect(hit, func(x ast.Node) bool {
					cl, ok := x.(*ast.CallExpr)
					if !ok {
						return true
					}
					g := p.FnOf(core.Callee(f.Pkg, cl))
					switch {
					case g == nil:
					case g == ch:
						n++
						c.Fail("collision-path", f.Name()+" stores the neighbour's BGP identifier before collision handling", cl.Pos(),
							"collisionHandling is reachable"+via+" on a path on which FSM.neighborID has not yet been set from the received OPEN: shouldCeaseOnCollision compares the local identifier with 0 (or with the identifier of an earlier session), so the wrong connection is ceased")
					case reaches[g]:
						check(g, depth+1, via+" via "+g.Name())
					}
					return true
				})
			}
		}
		check(omr, 0, "")
		if n == 0 {
			c.Hold("collision-path", omr.Name()+" stores the neighbour's BGP identifier before collision handling", omr.Decl.Pos(), "every path from the OPEN handler to collisionHandling passes the store")
		}
	}
	// (3c) the Cease event for the losing connection cannot be dropped: FSM.cease sends on every path
	if f := c.MustFunc(srv + ".(*FSM).cease"); f != nil {
		// the event is handed over by a send on the event channel — directly, or through a helper every path of which
		// hands its parameter over; next to the send only "the FSM has ended" may be waited for (see deliveringSend)
		direct := deliveringSend(c, f)
		ceaseEv := p.Object(srv, "Cease")
		send := func(nd ast.Node) bool {
			if direct(nd) {
				return true
			}
			return core.NodeHas(nd, func(x ast.Node) bool {
				call, ok := x.(*ast.CallExpr)
				if !ok || len(call.Args) != 1 || !isConstObj(f, call.Args[0], ceaseEv) {
					return false
				}
				g := p.FnOf(core.Callee(f.Pkg, call))
				if g == nil || g.Decl.Body == nil {
					return false
				}
				gate := deliveringSend(c, g)
				paramSend := func(n ast.Node) bool {
					ss, ok := n.(*ast.SendStmt)
					return ok && gate(n) && isParamExpr(g, ss.Value)
				}
				rets, implicit := core.ExitsWithout(p.CFG(g), paramSend)
				return len(rets) == 0 && !implicit
			})
		}
		rets, implicit := core.ExitsWithout(p.CFG(f), send)
		c.Check(len(rets) == 0 && !implicit, "collision-path", f.Name()+" delivers the Cease event on every path", f.Decl.Pos(),
			"FSM.cease can return without having sent Cease on the FSM's event channel (non-blocking send): the losing connection of a collision keeps running and both connections can reach Established")
	}

	// (3e) the collision check looks at EVERY other connection of the peer: the state predicates are evaluated inside a range
	// loop over peer.fsms, and the loop is left early only with the verdict "the calling connection loses" (return true)
	if f := c.MustFunc(srv + ".(*peer).collisionHandling"); f != nil {
		fsmsF := p.Field(srv, "peer", "fsms")
		var loop *ast.RangeStmt
		ast.Inspect(f.Decl.Body, func(nd ast.Node) bool {
			if rs, ok := nd.(*ast.RangeStmt); ok && loop == nil && core.FieldOf(f.Pkg, rs.X) == fsmsF && fsmsF != nil {
				loop = rs
			}
			return true
		})
		c.Check(loop != nil, "collision-path", f.Name()+" walks all connections of the peer", f.Decl.Pos(), "collisionHandling has no loop over peer.fsms: with three or more connections (outgoing pending, one established, a new incoming one) the check sees one of them only and lets a second connection reach Established")
		if loop != nil {
			preds := core.Calls(f.Pkg, f.Decl.Body, core.KeyIs(srv+".isEstablishedState", srv+".isOpenConfirmState"))
			inLoop := len(preds) > 0
			for _, pc := range preds {
				if pc.Pos() < loop.Body.Pos() || pc.Pos() > loop.Body.End() {
					inLoop = false
				}
			}
			c.Check(inLoop, "collision-path", f.Name()+" evaluates the state predicates for every connection", loop.Pos(), "the Established/OpenConfirm predicates are not evaluated inside the loop over peer.fsms")
			okExits := true
			pos := loop.Pos()
			for _, ex := range loopExits(loop.Body) {
				ret, isRet := ex.(*ast.ReturnStmt)
				if !isRet || len(ret.Results) != 1 || core.ExprString(ret.Results[0]) != "true" {
					okExits = false
					pos = ex.Pos()
				}
			}
			c.Check(okExits, "collision-path", f.Name()+" leaves the walk early only when the caller loses", pos, "the loop over the peer's connections is left early with a verdict other than `the calling connection loses`: connections behind that one are never examined")
		}
	}

	// (3d) an FSM that has ended leaves the peer's list: after FSM.run returned nobody reads the event channel and the last
	// published state stays what it was (OpenConfirm for the loser of a collision) — a later collision check would
	// send Cease to it (blocking for ever with the list lock held) or report a collision against a dead connection
	if run := c.MustFunc(srv + ".(*FSM).run"); run != nil {
		fsmsF := p.Field(srv, "peer", "fsms")
		removes := func(nd ast.Node) bool {
			return core.NodeHas(nd, func(x ast.Node) bool {
				call, ok := x.(*ast.CallExpr)
				if !ok {
					return false
				}
				g := p.FnOf(core.Callee(run.Pkg, call))
				if g == nil || g.Decl.Body == nil {
					return false
				}
				passesSelf := false
				for _, a := range call.Args {
					if core.ObjOf(run.Pkg, a) == recvObj(run) && recvObj(run) != nil {
						passesSelf = true
					}
				}
				writes := false
				ast.Inspect(g.Decl.Body, func(y ast.Node) bool {
					if as, ok := y.(*ast.AssignStmt); ok {
						for _, l := range as.Lhs {
							if core.FieldOf(g.Pkg, l) == fsmsF && fsmsF != nil {
								writes = true
							}
						}
					}
					return true
				})
				return passesSelf && writes
			})
		}
		rets, implicit := core.ExitsWithout(p.CFG(run), removes)
		pos := run.Decl.Pos()
		if len(rets) > 0 {
			pos = rets[0].Pos()
		}
		c.Check(len(rets) == 0 && !implicit, "collision-path", run.Name()+" takes the FSM off the peer's list before it ends", pos,
			"FSM.run can return (the FSM ends for good, e.g. as the loser of a collision) while the FSM stays in peer.fsms with its last published state: the next collision check sends Cease to it and blocks for ever holding the list lock, or keeps refusing new connections; peer.stop blocks on it as well")
	}

	// (3f) taking the ended FSM off the list removes that FSM only: the other connection of the collision stays known to
	// the peer (it is the one that survives)
	removeExactlyOne(c, "ended-fsm-alone-leaves-the-list", c.MustFunc(srv+".(*peer).removeFSM"), p.Field(srv, "peer", "fsms"), "removes only the FSM given")

	// (3g) nothing but an ended FSM ever leaves the list: every store to peer.fsms outside removeFSM / the constructors is
	// `append(<the list itself>, new)`
	{
		fsmsF := p.Field(srv, "peer", "fsms")
		nSt := 0
		for _, g := range p.FuncsIn(srv) {
			if g.Decl.Body == nil || isTestFn(p, g) || g.Decl.Name.Name == "removeFSM" {
				continue
			}
			ast.Inspect(g.Decl.Body, func(nd ast.Node) bool {
				as, ok := nd.(*ast.AssignStmt)
				if !ok || len(as.Lhs) != len(as.Rhs) {
					return true
				}
				for i, l := range as.Lhs {
					if core.FieldOf(g.Pkg, l) != fsmsF || fsmsF == nil {
						continue
					}
					nSt++
					okApp := false
					switch r := core.Unparen(as.Rhs[i]).(type) {
					case *ast.CallExpr:
						if id, isId := r.Fun.(*ast.Ident); isId && id.Name == "append" && len(r.Args) >= 1 && core.SameExpr(g.Pkg, core.Unparen(r.Args[0]), core.Unparen(l)) {
							okApp = true
						}
						if id, isId := r.Fun.(*ast.Ident); isId && id.Name == "make" {
							okApp = true // a new peer's empty list
						}
					case *ast.CompositeLit:
						okApp = true // a freshly built peer (BMP pseudo session)
					}
					c.Analysed(g)
					c.Check(okApp, "only-ended-fsms-leave-the-list", fmt.Sprintf("%s store #%d of peer.fsms", g.Name(), nSt), as.Pos(),
						"peer.fsms is replaced by something other than `append(peer.fsms, …)` outside removeFSM: a running FSM (one that fell back to Idle and will reconnect) can drop out of the list, and the collision check for a later connection no longer sees the session it establishes — two Established sessions to one peer")
				}
				return true
			})
		}
		c.Check(nSt >= 1, "only-ended-fsms-leave-the-list", "stores of peer.fsms found", 0, "no store of peer.fsms outside removeFSM found (incomingConnectionWorker appends the FSM of an incoming connection)")
	}

	// (4) cease sends NOTIFICATION(Cease) before Close
	ceaseC := p.Object("protocols/bgp/packet", "Cease")
	sn := p.Func(srv + ".(*FSM).sendNotification")
	for _, st := range []string{"openSentState", "openConfirmState", "establishedState"} {
		f := c.MustFunc(srv + ".(*" + st + ").cease")
		if f == nil || sn == nil {
			continue
		}
		g := p.CFG(f)
		isNote := func(n ast.Node) bool {
			return core.NodeHas(n, func(x ast.Node) bool {
				cl, ok := x.(*ast.CallExpr)
				return ok && core.Callee(f.Pkg, cl) == sn.Obj && len(cl.Args) == 2 && isConstObj(f, cl.Args[0], ceaseC)
			})
		}
		bad := core.PathAvoiding(g, isNote, conCloseNode(c, f))
		hasClose := len(core.PathAvoiding(g, func(ast.Node) bool { return false }, conCloseNode(c, f))) > 0
		c.Check(len(bad) == 0 && hasClose, "cease-notifies-before-close", f.Name(), f.Decl.Pos(), "the losing connection is closed without (or before) a NOTIFICATION(Cease)")
	}
	// incoming connections: own FSM appended under fsmsMu
	for _, f := range p.FuncsIn(srv) {
		if f.Decl.Body == nil {
			continue
		}
		fsms := p.Field(srv, "peer", "fsms")
		mu := p.Field(srv, "peer", "fsmsMu")
		ast.Inspect(f.Decl.Body, func(n ast.Node) bool {
			as, ok := n.(*ast.AssignStmt)
			if !ok || len(as.Lhs) != 1 || core.FieldOf(f.Pkg, as.Lhs[0]) != fsms {
				return true
			}
			if _, fresh := core.Unparen(as.Rhs[0]).(*ast.CompositeLit); fresh || f.Decl.Name.Name == "newPeer" {
				return true // initialisation of a peer object that is not yet published
			}
			if call, isCall := core.Unparen(as.Rhs[0]).(*ast.CallExpr); isCall {
				if id, isId := call.Fun.(*ast.Ident); isId && id.Name == "make" {
					return true
				}
			}
			g := p.CFG(f)
			isLock := func(n ast.Node) bool {
				return core.NodeHas(n, func(x ast.Node) bool {
					cl, ok := x.(*ast.CallExpr)
					if !ok {
						return false
					}
					se, ok := cl.Fun.(*ast.SelectorExpr)
					return ok && se.Sel.Name == "Lock" && core.FieldOf(f.Pkg, se.X) == mu
				})
			}
			isThis := func(n ast.Node) bool { return n == ast.Node(as) }
			c.Check(len(core.PathAvoiding(g, isLock, isThis)) == 0, "collision-path", f.Name()+" appends to peer.fsms under fsmsMu", as.Pos(), "the FSM list of a peer is modified without fsmsMu: collision handling iterates it concurrently")
			return true
		})
	}
}

// collisionStructure is clause (3) of C24 (shared with C21: a second connection must not take an Established session down)
func collisionStructure(c *core.Ctx) {
	p := c.P
	// (3) collisionHandling structure
	if f := c.MustFunc(srv + ".(*peer).collisionHandling"); f != nil {
		isEst := p.Func(srv + ".isEstablishedState")
		isOC := p.Func(srv + ".isOpenConfirmState")
		should := p.Func(srv + ".(*peer).shouldCeaseOnCollision")
		cease := p.Func(srv + ".(*FSM).cease")
		fromPred := func(e ast.Expr, pred *core.Fn) bool {
			if pred == nil {
				return false
			}
			if call, ok := core.Unparen(e).(*ast.CallExpr); ok {
				return core.Callee(f.Pkg, call) == pred.Obj
			}
			obj := core.ObjOf(f.Pkg, e)
			if obj == nil {
				return false
			}
			for _, d := range core.DefsOf(f, obj) {
				if call, ok := core.Unparen(d).(*ast.CallExpr); ok && core.Callee(f.Pkg, call) == pred.Obj {
					return true
				}
			}
			return false
		}
		// `return true` under isEstablished
		estLoses, ocNeeded, ceaseGuard, elseLoses := false, false, false, false
		ast.Inspect(f.Decl.Body, func(n ast.Node) bool {
			switch x := n.(type) {
			case *ast.ReturnStmt:
				if len(x.Results) == 1 {
					if v := core.ConstOf(f.Pkg, x.Results[0]); v != nil && v.ExactString() == "true" {
						for _, ft := range core.CtlFactsAt(f, x) {
							if ft.Expr != nil && ft.Truth && ft.Enclosing && fromPred(ft.Expr, isEst) {
								estLoses = true
							}
							if ft.Expr != nil && !ft.Truth && ft.Enclosing && fromPred(ft.Expr, should) {
								elseLoses = true
							}
						}
					}
				}
			case *ast.CallExpr:
				if cease != nil && core.Callee(f.Pkg, x) == cease.Obj {
					for _, ft := range core.CtlFactsAt(f, x) {
						if ft.Expr != nil && ft.Truth && fromPred(ft.Expr, should) {
							ceaseGuard = true
						}
						if ft.Expr != nil && ft.Truth && fromPred(ft.Expr, isOC) {
							ocNeeded = true
						}
					}
				}
			}
			return true
		})
		c.Check(estLoses, "collision-path", f.Name()+" an Established sibling makes the caller lose", f.Decl.Pos(), "collisionHandling does not return true when another FSM of the peer is Established")
		c.Check(ocNeeded && ceaseGuard, "collision-path", f.Name()+" an OpenConfirm sibling is ceased iff the tie-break says so", f.Decl.Pos(), "the sibling's cease() is not control-dependent on `sibling in OpenConfirm` and on shouldCeaseOnCollision")
		c.Check(elseLoses, "collision-path", f.Name()+" otherwise the caller loses", f.Decl.Pos(), "when the tie-break favours the existing OpenConfirm connection the caller is not told to cease")
		// the state is read under stateMu
		mu := p.Field(srv, "FSM", "stateMu")
		g := p.CFG(f)
		isLock := func(n ast.Node) bool {
			return core.NodeHas(n, func(x ast.Node) bool {
				cl, ok := x.(*ast.CallExpr)
				if !ok {
					return false
				}
				se, ok := cl.Fun.(*ast.SelectorExpr)
				return ok && (se.Sel.Name == "RLock" || se.Sel.Name == "Lock") && core.FieldOf(f.Pkg, se.X) == mu
			})
		}
		stF := p.Field(srv, "FSM", "state")
		isRead := func(n ast.Node) bool {
			return core.NodeHas(n, func(x ast.Node) bool { e, ok := x.(ast.Expr); return ok && core.FieldOf(f.Pkg, e) == stF })
		}
		c.Check(len(core.PathAvoiding(g, isLock, isRead)) == 0, "collision-path", f.Name()+" reads sibling state under stateMu", f.Decl.Pos(), "a sibling FSM's state is read without its stateMu")
	}
}
