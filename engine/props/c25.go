package props

import (
	"fmt"
	"go/ast"
	"go/token"
	"go/types"
	"sort"
	"strings"

	"verif/engine/core"
)

func init() {
	Register(&Prop{
		Meta: core.Meta{
			ID: "C25", Title: "Table operations and session control never deadlock", Level: "other",
			Technique:   "lockset analysis on go/cfg per function (must/may held), whole-program lock-class graph with call summaries and interface dispatch over all implementations, cycle detection; blocking-send-under-lock rule with the receiving goroutine's reachable lock acquisitions; same-instance re-acquisition rule",
			DesignRef:   "DESIGN.md §4 C25",
			Decided:     "for the RIB pipeline and the BGP session layer (routingtable/…, route, protocols/bgp/server, util/…): (a) no function returns on some path with a lock held that it does not hold on every return (a leaked lock blocks every later operation); (b) the acquired-while-held relation between lock classes (mutex fields), closed over calls and interface dispatch, has no cycle; (c) no goroutine sends on an unbuffered channel while holding a lock that the code of the receiving goroutine may acquire before it receives again; (d) no function calls, with a lock of its receiver held, a method that acquires the same lock on the same receiver (self-deadlock, or RLock recursion that deadlocks with a waiting writer).",
			NotDecided:  "deadlock freedom as such: WaitGroups, condition-like channel protocols and timer interplay are outside the model; a reported cycle is a recipe (two call chains), the absence of reports is not a proof.  Lock instances are abstracted to classes (two instances of one class are not ordered).",
			TrustedBase: stdTrusted,
		},
		Run: runC25,
		Controls: []Control{
			{Name: "unregister-runs-a-callback-under-the-registry-lock", File: "routingtable/client_manager.go", Old: "func (c *ClientManager) _unregister(client RouteTableClient) bool {\n", New: "func (c *ClientManager) UnregisterWith(client RouteTableClient, withdraw func()) bool {\n\tc.mu.Lock()\n\tdefer c.mu.Unlock()\n\tif !c._unregister(client) {\n\t\treturn false\n\t}\n\twithdraw()\n\treturn true\n}\n\nfunc (c *ClientManager) _unregister(client RouteTableClient) bool {\n", Expect: "no-callback-under-lock"},
			{Name: "disabled-neighbor-listed-but-not-started", File: "protocols/bgp/server/server.go", Old: "\tif !c.Passive {\n\t\tpeer.Start()\n", New: "\tif !c.Passive && c.AdminEnabled {\n\t\tpeer.Start()\n", Expect: "listed-fsm-is-started"},
			{Name: "refactor-start-in-the-else-branch", Silent: true, File: "protocols/bgp/server/server.go", Old: "\tif !c.Passive {\n\t\tpeer.Start()\n\t}\n", New: "\tif c.Passive {\n\t\t_ = peer\n\t} else {\n\t\tpeer.Start()\n\t}\n"},
			{Name: "connector-waits-for-a-reader-that-does-not-exist", File: "protocols/bgp/server/fsm.go", Old: "\t\t\t\tcase fsm.conErrCh <- err:\n\t\t\t\t\tcontinue\n\t\t\t\tcase <-time.NewTimer(time.Second * 30).C:\n\t\t\t\t\tcontinue\n", New: "\t\t\t\tcase fsm.conErrCh <- err:\n\t\t\t\t\tcontinue\n\t\t\t\tcase <-ctx.Done():\n\t\t\t\t\treturn\n", Expect: "send-has-a-taker"},
			{Name: "receiver-parks-on-the-failure-channel", File: "protocols/bgp/server/fsm.go", Old: "\t\t\tselect {\n\t\t\tcase fsm.msgRecvFailCh <- err:\n\t\t\tdefault:\n\t\t\t}\n", New: "\t\t\tfsm.msgRecvFailCh <- err\n", Expect: "send-has-a-taker"},
			{Name: "sender-loop-gives-up-on-a-write-error", File: "protocols/bgp/server/update_sender.go", Old: "\t\t\tu.sendUpdates(pathAttrs, updatesPrefixes, pathID)\n\t\t\tu.sendMu.Unlock()\n", New: "\t\t\tu.sendUpdates(pathAttrs, updatesPrefixes, pathID)\n\t\t\tu.sendMu.Unlock()\n\t\t\tif u.fsm.con == nil {\n\t\t\t\tu.wg.Done()\n\t\t\t\treturn\n\t\t\t}\n", Expect: "stop-request-taker-stays"},
			{Name: "ended-fsm-removes-itself-before-signalling", File: "protocols/bgp/server/fsm.go", Old: "\t\t\tfsm.done()\n\t\t\tfsm.peer.removeFSM(fsm)\n", New: "\t\t\tfsm.peer.removeFSM(fsm)\n", Expect: "ended-signal-before-locks"},
			{Name: "register-leaks-lock-at-end-of-life", File: "routingtable/client_manager.go", Old: "\tif c.endOfLife {\n\t\tc.mu.Unlock()\n\t\treturn\n\t}\n\n\tc.clients[client] = opt", New: "\tif c.endOfLife {\n\t\treturn\n\t}\n\n\tc.clients[client] = opt", Expect: "lock-released-on-every-exit"},
			{Name: "refresh-callback-locks-again", File: "routingtable/adjRIBOut/adj_rib_out.go", Old: "func (a *AdjRIBOut) removePathsForPrefix(pfx *bnet.Prefix) bool {\n\tr := a.rt.Get(pfx)\n", New: "func (a *AdjRIBOut) removePathsForPrefix(pfx *bnet.Prefix) bool {\n\ta.mu.Lock()\n\tr := a.rt.Get(pfx)\n\ta.mu.Unlock()\n", Expect: "no-reentry-through-callback"},
			{Name: "stop-sends-under-list-lock", File: "protocols/bgp/server/peer.go", Old: "\tp.fsmsMu.Unlock()\n\n\tfor _, fsm := range fsms {\n\t\tfsm.sendEvent(ManualStop)\n\t}\n", New: "\tfor _, fsm := range fsms {\n\t\tfsm.sendEvent(ManualStop)\n\t}\n\tp.fsmsMu.Unlock()\n", Expect: "no-blocking-send-under-needed-lock"},
			{Name: "sender-reacquires-queue-lock-before-releasing-write-lock", File: "protocols/bgp/server/update_sender.go", Old: "\t\t\tu.sendMu.Unlock()\n\t\t\tu.toSendMu.Lock()\n", New: "\t\t\tu.toSendMu.Lock()\n\t\t\tu.sendMu.Unlock()\n", Expect: "lock-order-acyclic"},
			{Name: "locrib-recursive-read-lock", File: "routingtable/locRIB/loc_rib.go", Old: "\troutes := a.rt.Dump()\n\tfor idx, r := range routes {", New: "\troutes := a.Dump()\n\tfor idx, r := range routes {", Expect: "no-reacquire-on-same-instance"},
		},
	})
}

func c25Scope(f *core.Fn) bool {
	pp := f.Pkg.PkgPath
	rel := strings.TrimPrefix(pp, core.Mod+"/")
	return strings.HasPrefix(rel, "routingtable") || rel == "route" || rel == "protocols/bgp/server" || strings.HasPrefix(rel, "util/") || strings.HasPrefix(rel, "protocols/bgp/")
}

func runC25(c *core.Ctx) {
	listedFSMIsStarted(c, "listed-fsm-is-started")
	endedSignalBeforeLocks(c, "ended-signal-before-locks")
	cs := collectChanSites(c.P)
	sendHasATaker(c, cs, c25Scope)
	stopRequestTakerStays(c, cs, c25Scope)
	n := lockRules(c, c25Scope, 25)
	c.Check(n >= 1, "no-reentry-through-callback", "calls that pass the locked receiver to a callee", token.NoPos, "none found: the rule matches nothing (AdjRIBOut.ReplaceFilterChain → LocRIB.RefreshClient(a) was the confirmed instance)")
}

// lockRules runs the four deadlock rules over the functions in scope (shared with C33 for the IS-IS/device packages).
func lockRules(c *core.Ctx, scope func(*core.Fn) bool, floorFns int) (reentrySites int) {
	p := c.P
	lp := core.BuildLockProg(p, scope)
	noCallbackUnderLock(c, lp)
	nLock := 0
	for _, f := range lp.Fns {
		if lp.Sets[f] != nil {
			nLock++
			c.Analysed(f)
		}
	}
	c.Check(nLock >= floorFns, "lock-analysis-coverage", "functions with lock operations analysed", token.NoPos, fmt.Sprintf("analysed %d functions with lock operations, floor is %d", nLock, floorFns))

	// (a) leaked locks
	for _, f := range lp.Fns {
		ls := lp.Sets[f]
		if ls == nil {
			continue
		}
		var leaked []string
		for k := range ls.ExitMay {
			if !ls.ExitMust[k] {
				leaked = append(leaked, k)
			}
		}
		sort.Strings(leaked)
		for _, k := range leaked {
			c.Fail("lock-released-on-every-exit", f.Name()+" releases "+k+" on every return", f.Decl.Pos(),
				"the function returns on some path with "+k+" still locked while other returns release it: after that path every later operation on the object blocks forever")
		}
		if len(leaked) == 0 {
			c.Hold("lock-released-on-every-exit", f.Name()+" lock pairing", f.Decl.Pos(), "every lock taken is released on every return (or deliberately handed to the caller on all returns)")
		}
	}

	// (b) cycles
	cycles := lp.Cycles()
	for _, cyc := range cycles {
		var w []string
		for _, e := range cyc.Edges {
			w = append(w, fmt.Sprintf("%s is taken while %s is held in %s (at %s)", short(e.To), short(e.From), strings.Join(shortAll(e.Site.Chain), " → "), p.Pos(e.Site.Pos)))
		}
		c.Fail("lock-order-acyclic", "lock order between "+strings.Join(shortAll(cyc.Classes), " and "), cyc.Edges[0].Site.Pos,
			"lock-order cycle: "+strings.Join(w, "; ")+" — two goroutines running these chains at the same time each hold the lock the other one waits for")
	}
	if len(cycles) == 0 {
		c.Hold("lock-order-acyclic", "acquired-while-held relation of the lock classes", token.NoPos, fmt.Sprintf("%d edges, no cycle", len(lp.Edges)))
	}

	// (d) same-instance re-acquisition
	seen := map[string]bool{}
	for _, e := range lp.Edges {
		if !e.SameBase {
			continue
		}
		k := e.Site.Fn.Name() + " re-acquires " + short(e.From) + " via " + strings.Join(shortAll(e.Site.Chain[1:]), " → ")
		if seen[k] {
			continue
		}
		seen[k] = true
		c.Fail("no-reacquire-on-same-instance", k, e.Site.Pos,
			"with "+short(e.From)+" of its receiver held, the function calls a method on the same receiver that locks it again: a write lock deadlocks immediately, a read lock deadlocks as soon as a writer is waiting in between")
	}
	if len(seen) == 0 {
		c.Hold("no-reacquire-on-same-instance", "calls on the own receiver under its lock", token.NoPos, "none re-acquires the lock")
	}

	// (d2) re-entry through a callback: a method hands its own receiver to a callee while holding the receiver's lock,
	// and what the callee can reach includes a method of the same type that takes that lock on its receiver
	reentry := 0
	for _, f := range lp.Fns {
		ls := lp.Sets[f]
		ro := core.RecvObj(f)
		if ls == nil || ro == nil {
			continue
		}
		for _, cs := range lp.CallSites(f) {
			passesSelf := false
			for _, a := range cs.Call.Args {
				if id, ok := core.Unparen(a).(*ast.Ident); ok && f.Pkg.TypesInfo.ObjectOf(id) == ro {
					passesSelf = true
				}
			}
			if !passesSelf {
				continue
			}
			for h := range ls.MayAt(cs.Call) {
				hc := lp.KeyClass[f][h]
				if hc == nil || !strings.HasPrefix(h, ro.Name()+".") {
					continue
				}
				class := core.ClassKey2(hc)
				reentry++
				var bad *core.Fn
				selfType := core.RecvName(f.Obj)
				// methods of the receiver's type invoked on the handed-over object inside the callee (following the
				// parameter when it is passed on), then calls on the own receiver from there
				var onSelf func(m *core.Fn, seen map[*core.Fn]bool)
				onSelf = func(m *core.Fn, seen map[*core.Fn]bool) {
					if seen[m] || bad != nil {
						return
					}
					seen[m] = true
					mr := core.RecvObj(m)
					core.InspectNoLit(m.Decl.Body, func(n ast.Node) bool {
						call, ok := n.(*ast.CallExpr)
						if !ok {
							return true
						}
						if op, isOp := core.LockOpOf(m, call); isOp {
							if op.Acquire && core.ClassKey2(op.Class) == class && mr != nil && op.Base == mr.Name() {
								bad = m
							}
							return true
						}
						if se, isSel := call.Fun.(*ast.SelectorExpr); isSel {
							if id, isId := se.X.(*ast.Ident); isId && mr != nil && m.Pkg.TypesInfo.ObjectOf(id) == mr {
								if h := lp.P.FnOf(core.Callee(m.Pkg, call)); h != nil && h.Decl.Body != nil {
									onSelf(h, seen)
								}
							}
						}
						return true
					})
				}
				var follow func(g *core.Fn, idx int, depth int)
				follow = func(g *core.Fn, idx int, depth int) {
					po := core.ParamObj(g, idx)
					if po == nil || depth > 3 || bad != nil {
						return
					}
					core.InspectNoLit(g.Decl.Body, func(n ast.Node) bool {
						call, ok := n.(*ast.CallExpr)
						if !ok {
							return true
						}
						if se, isSel := call.Fun.(*ast.SelectorExpr); isSel {
							if id, isId := se.X.(*ast.Ident); isId && g.Pkg.TypesInfo.ObjectOf(id) == po {
								// method of the handed-over object's dynamic type
								for _, m := range lp.P.MethodsOf(strings.TrimPrefix(f.Pkg.PkgPath, core.Mod+"/"), selfType) {
									if m.Decl.Name.Name == se.Sel.Name && m.Decl.Body != nil {
										onSelf(m, map[*core.Fn]bool{})
									}
								}
							}
						}
						for i, a := range call.Args {
							if id, isId := core.Unparen(a).(*ast.Ident); isId && g.Pkg.TypesInfo.ObjectOf(id) == po {
								if h := lp.P.FnOf(core.Callee(g.Pkg, call)); h != nil && h.Decl.Body != nil {
									follow(h, i, depth+1)
								}
							}
						}
						return true
					})
				}
				for i, a := range cs.Call.Args {
					if id, ok := core.Unparen(a).(*ast.Ident); ok && f.Pkg.TypesInfo.ObjectOf(id) == ro {
						for _, g := range cs.Callees {
							follow(g, i, 0)
						}
					}
				}
				construct := fmt.Sprintf("%s hands itself to %s with %s held", f.Name(), strings.Join(shortAll([]string{cs.Callees[0].Name()}), ""), short(class))
				if bad != nil {
					c.Fail("no-reentry-through-callback", construct, cs.Call.Pos(),
						"the callee calls back into the object it was given, and the call-back path reaches "+bad.Name()+", which takes "+short(class)+" on its receiver — the lock the original caller still holds: the goroutine blocks on itself")
				} else {
					c.Hold("no-reentry-through-callback", construct, cs.Call.Pos(), "no method reachable through the callback takes the lock again")
				}
			}
		}
	}
	// (c) blocking send under a lock the receiver needs
	blockingSends(c, lp)
	return reentry
}

func short(class string) string {
	if i := strings.LastIndex(class, "/"); i >= 0 {
		class = class[i+1:]
	}
	if i := strings.Index(class, "."); i >= 0 {
		return class[i+1:]
	}
	return class
}

func shortAll(xs []string) []string {
	var out []string
	for _, x := range xs {
		if i := strings.LastIndex(x, "/"); i >= 0 {
			x = x[i+1:]
		}
		out = append(out, x)
	}
	return out
}

func blockingSends(c *core.Ctx, lp *core.LockProg) {
	p := c.P
	// held-on-entry: locks (classes) that may be held by some caller when a function is entered
	heldIn := map[*core.Fn]map[string][]string{} // class → chain witness
	callers := map[*core.Fn][]struct {
		f    *core.Fn
		call *ast.CallExpr
	}{}
	for _, f := range lp.Fns {
		for _, cs := range lp.CallSites(f) {
			for _, g := range cs.Callees {
				callers[g] = append(callers[g], struct {
					f    *core.Fn
					call *ast.CallExpr
				}{f, cs.Call})
			}
		}
	}
	// heldGuard[g][class]: the state predicate under which EVERY chain that holds class reaches g ("" = some chain is unguarded)
	heldGuard := map[*core.Fn]map[string]string{}
	for changed, iter := true, 0; changed && iter < 20; iter++ {
		changed = false
		for _, g := range lp.Fns {
			for _, cl := range callers[g] {
				add := func(class string, chain []string, guard string) {
					if heldIn[g] == nil {
						heldIn[g] = map[string][]string{}
						heldGuard[g] = map[string]string{}
					}
					if _, ok := heldIn[g][class]; !ok {
						if len(chain) < 6 {
							heldIn[g][class] = chain
							heldGuard[g][class] = guard
							changed = true
						}
						return
					}
					if heldGuard[g][class] != guard && heldGuard[g][class] != "" {
						heldGuard[g][class] = ""
						// keep the unguarded chain as the witness
						if guard == "" && len(chain) < 6 {
							heldIn[g][class] = chain
						}
						changed = true
					}
				}
				here := statePredicateAt(cl.f, cl.call)
				if ls := lp.Sets[cl.f]; ls != nil {
					for h := range ls.MayAt(cl.call) {
						if hc := lp.KeyClass[cl.f][h]; hc != nil {
							add(core.ClassKey2(hc), []string{cl.f.Name()}, here)
						}
					}
				}
				for class, chain := range heldIn[cl.f] {
					gd := heldGuard[cl.f][class]
					if gd == "" {
						gd = here
					}
					add(class, append(append([]string{}, chain...), cl.f.Name()), gd)
				}
			}
		}
	}
	// channel fields and their receivers
	recvFns := map[*types.Var][]*core.Fn{}
	unbuffered := map[*types.Var]bool{}
	buffered := map[*types.Var]bool{}
	for _, f := range p.AllFuncs() {
		if f.Decl.Body == nil {
			continue
		}
		ast.Inspect(f.Decl.Body, func(n ast.Node) bool {
			switch x := n.(type) {
			case *ast.UnaryExpr:
				if x.Op == token.ARROW {
					if fv := core.FieldOf(f.Pkg, x.X); fv != nil {
						recvFns[fv] = append(recvFns[fv], f)
					}
				}
			case *ast.KeyValueExpr, *ast.AssignStmt:
				var lhs, rhs ast.Expr
				if kv, ok := x.(*ast.KeyValueExpr); ok {
					lhs, rhs = kv.Key, kv.Value
				} else if as := x.(*ast.AssignStmt); len(as.Lhs) == 1 && len(as.Rhs) == 1 {
					lhs, rhs = as.Lhs[0], as.Rhs[0]
				}
				if lhs == nil {
					return true
				}
				call, isCall := core.Unparen(rhs).(*ast.CallExpr)
				if !isCall || core.ExprString(call.Fun) != "make" {
					return true
				}
				var fv *types.Var
				if id, isId := lhs.(*ast.Ident); isId {
					if v, isV := f.Pkg.TypesInfo.ObjectOf(id).(*types.Var); isV && v.IsField() {
						fv = v
					}
				}
				if fv == nil {
					fv = core.FieldOf(f.Pkg, lhs)
				}
				if fv == nil {
					return true
				}
				if _, isChan := fv.Type().Underlying().(*types.Chan); !isChan {
					return true
				}
				if len(call.Args) == 1 {
					unbuffered[fv] = true
				} else {
					buffered[fv] = true
				}
			}
			return true
		})
	}
	n := 0
	for _, f := range lp.Fns {
		// a send that is one alternative of a select does not block when the select can always proceed: it has a default
		// clause or a timer alternative.  Next to other channel operations (e.g. "the receiver has ended") it still blocks
		// for as long as the receiver lives and does not receive.
		alt := map[ast.Node]bool{}
		ast.Inspect(f.Decl.Body, func(nd ast.Node) bool {
			if sel, ok := nd.(*ast.SelectStmt); ok && len(sel.Body.List) > 1 {
				escapes := false
				for _, cl := range sel.Body.List {
					cc := cl.(*ast.CommClause)
					if cc.Comm == nil || isTimerRecv(f, cc.Comm) {
						escapes = true
					}
				}
				if !escapes {
					return true
				}
				for _, cl := range sel.Body.List {
					if cc := cl.(*ast.CommClause); cc.Comm != nil {
						alt[cc.Comm] = true
					}
				}
			}
			return true
		})
		core.InspectNoLit(f.Decl.Body, func(nd ast.Node) bool {
			ss, ok := nd.(*ast.SendStmt)
			if !ok || alt[nd] {
				return true
			}
			ch := core.FieldOf(f.Pkg, ss.Chan)
			if ch == nil || !unbuffered[ch] || buffered[ch] {
				return true
			}
			held := map[string][]string{}
			directHeld := map[string]bool{}
			if ls := lp.Sets[f]; ls != nil {
				for h := range ls.MayAt(ss) {
					if hc := lp.KeyClass[f][h]; hc != nil {
						held[core.ClassKey2(hc)] = []string{f.Name()}
						directHeld[core.ClassKey2(hc)] = true
					}
				}
			}
			for class, chain := range heldIn[f] {
				if _, ok := held[class]; !ok {
					held[class] = append(append([]string{}, chain...), f.Name())
				}
			}
			if len(held) == 0 {
				return true
			}
			// what the receiving goroutine may lock.  When the send is reached only through a call that is control-dependent
			// on a state predicate of the target (isXState(target.state) read in the same critical section), the target's
			// goroutine is executing X's event loop: only code reachable from X's methods counts.
			var classes []string
			for k := range held {
				classes = append(classes, k)
			}
			sort.Strings(classes)
			for _, class := range classes {
				n++
				construct := fmt.Sprintf("send on %s in %s with %s held (%s)", ch.Name(), f.Name(), short(class), strings.Join(shortAll(held[class]), " → "))
				// what the receiving goroutine may lock.  When every chain that holds the lock reaches the send through a call
				// that is control-dependent on a state predicate of the target (isXState(target.state) read in the same
				// critical section), the target's goroutine is executing X's event loop: only code reachable from X's
				// methods counts.
				recv := recvFns[ch]
				stateNote := ""
				st := ""
				if _, direct := directHeld[class]; !direct {
					st = heldGuard[f][class]
				}
				if st == "" {
					st = statePredicateAtCallers(lp, f)
				}
				if st != "" {
					var only []*core.Fn
					for _, r := range recv {
						if core.RecvName(r.Obj) == st {
							only = append(only, r)
						}
					}
					if len(only) > 0 {
						recv = only
						stateNote = " (target known to be in " + st + ": only its event loop is considered)"
					}
				}
				reach := p.ReachableFns(recv...)
				var needs *core.Fn
				for _, g := range reach {
					if lp.Direct[g][class] {
						needs = g
						break
					}
				}
				if needs == nil {
					c.Hold("no-blocking-send-under-needed-lock", construct, ss.Pos(), "the receiving goroutine's code never takes this lock"+stateNote)
					continue
				}
				c.Fail("no-blocking-send-under-needed-lock", construct, ss.Pos(),
					"the send blocks until the receiving goroutine is back in its receive, and that goroutine takes "+short(class)+" in "+needs.Name()+" on the way: if it is there now, it waits for the lock the sender holds and the sender waits for it to receive — both block forever")
			}
			return true
		})
	}
	if n == 0 {
		c.Hold("no-blocking-send-under-needed-lock", "unbuffered sends under a lock", token.NoPos, "no unbuffered channel send happens with a lock held")
	}
}

// statePredicateAt: the call is control-dependent on isXState(…) being true → "xState", else "".
func statePredicateAt(g *core.Fn, call *ast.CallExpr) string {
	st := ""
	for _, ft := range core.CtlFactsAt(g, call) {
		if ft.Expr == nil || !ft.Truth {
			continue
		}
		name := ""
		check := func(e ast.Expr) {
			if c2, ok := core.Unparen(e).(*ast.CallExpr); ok {
				if cal := core.Callee(g.Pkg, c2); cal != nil && strings.HasPrefix(cal.Name(), "is") && strings.HasSuffix(cal.Name(), "State") {
					n := strings.TrimPrefix(cal.Name(), "is")
					name = strings.ToLower(n[:1]) + n[1:]
				}
			}
		}
		check(ft.Expr)
		if o := core.ObjOf(g.Pkg, ft.Expr); o != nil {
			for _, d := range core.DefsOf(g, o) {
				check(d)
			}
		}
		if name != "" {
			st = name
		}
	}
	return st
}

// statePredicateAtCallers: if every lock-holding call site of f (the function that sends) is control-dependent on
// isXState(…) being true, return X.
func statePredicateAtCallers(lp *core.LockProg, f *core.Fn) string {
	res := ""
	sites := 0
	for _, g := range lp.Fns {
		for _, cs := range lp.CallSites(g) {
			hit := false
			for _, cal := range cs.Callees {
				if cal == f {
					hit = true
				}
			}
			if !hit {
				continue
			}
			sites++
			st := ""
			for _, ft := range core.CtlFactsAt(g, cs.Call) {
				if ft.Expr == nil || !ft.Truth {
					continue
				}
				name := ""
				check := func(e ast.Expr) {
					if call, ok := core.Unparen(e).(*ast.CallExpr); ok {
						if cal := core.Callee(g.Pkg, call); cal != nil && strings.HasPrefix(cal.Name(), "is") && strings.HasSuffix(cal.Name(), "State") {
							n := strings.TrimPrefix(cal.Name(), "is")
							name = strings.ToLower(n[:1]) + n[1:]
						}
					}
				}
				check(ft.Expr)
				if o := core.ObjOf(g.Pkg, ft.Expr); o != nil {
					for _, d := range core.DefsOf(g, o) {
						check(d)
					}
				}
				if name != "" {
					st = name
				}
			}
			if st == "" || (res != "" && res != st) {
				return ""
			}
			res = st
		}
	}
	if sites == 0 {
		return ""
	}
	return res
}
