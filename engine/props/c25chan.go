package props

import (
	"fmt"
	"go/ast"
	"go/token"
	"go/types"

	"golang.org/x/tools/go/cfg"
	"sort"

	"verif/engine/core"
)

// chanSites collects, for channel-typed struct fields, how they are made and where they are sent on / received from
// (non-test code of the whole program).
type chanSites struct {
	unbuffered, buffered map[*types.Var]bool
	sends                map[*types.Var][]chanSite
	recvs                map[*types.Var][]chanSite
}
type chanSite struct {
	f    *core.Fn
	node ast.Node // SendStmt, or the UnaryExpr/RangeStmt of a receive
	sel  *ast.SelectStmt
	comm *ast.CommClause
}

func collectChanSites(p *core.Prog) *chanSites {
	cs := &chanSites{map[*types.Var]bool{}, map[*types.Var]bool{}, map[*types.Var][]chanSite{}, map[*types.Var][]chanSite{}}
	for _, f := range p.AllFuncs() {
		if f.Decl.Body == nil || isTestFn(p, f) {
			continue
		}
		// select context of comm statements
		selOf := map[ast.Node]*ast.SelectStmt{}
		commOf := map[ast.Node]*ast.CommClause{}
		ast.Inspect(f.Decl.Body, func(n ast.Node) bool {
			if sel, ok := n.(*ast.SelectStmt); ok {
				for _, cl := range sel.Body.List {
					cc := cl.(*ast.CommClause)
					if cc.Comm == nil {
						continue
					}
					ast.Inspect(cc.Comm, func(m ast.Node) bool {
						switch m.(type) {
						case *ast.SendStmt, *ast.UnaryExpr:
							selOf[m], commOf[m] = sel, cc
						}
						return true
					})
				}
			}
			return true
		})
		ast.Inspect(f.Decl.Body, func(n ast.Node) bool {
			switch x := n.(type) {
			case *ast.SendStmt:
				if fv := core.FieldOf(f.Pkg, x.Chan); fv != nil {
					cs.sends[fv] = append(cs.sends[fv], chanSite{f, x, selOf[x], commOf[x]})
				}
			case *ast.UnaryExpr:
				if x.Op == token.ARROW {
					if fv := core.FieldOf(f.Pkg, x.X); fv != nil {
						cs.recvs[fv] = append(cs.recvs[fv], chanSite{f, x, selOf[x], commOf[x]})
					}
				}
			case *ast.RangeStmt:
				if fv := core.FieldOf(f.Pkg, x.X); fv != nil {
					if _, isChan := fv.Type().Underlying().(*types.Chan); isChan {
						cs.recvs[fv] = append(cs.recvs[fv], chanSite{f: f, node: x})
					}
				}
			case *ast.KeyValueExpr, *ast.AssignStmt:
				var lhs, rhs ast.Expr
				if kv, ok := x.(*ast.KeyValueExpr); ok {
					lhs, rhs = kv.Key, kv.Value
				} else if as := x.(*ast.AssignStmt); len(as.Lhs) == 1 && len(as.Rhs) == 1 {
					lhs, rhs = as.Lhs[0], as.Rhs[0]
				}
				if lhs == nil {
					return true
				}
				call, isCall := core.Unparen(rhs).(*ast.CallExpr)
				if !isCall || core.ExprString(call.Fun) != "make" {
					return true
				}
				var fv *types.Var
				if id, isId := lhs.(*ast.Ident); isId {
					if v, isV := f.Pkg.TypesInfo.ObjectOf(id).(*types.Var); isV && v.IsField() {
						fv = v
					}
				}
				if fv == nil {
					fv = core.FieldOf(f.Pkg, lhs)
				}
				if fv == nil {
					return true
				}
				if _, isChan := fv.Type().Underlying().(*types.Chan); !isChan {
					return true
				}
				if len(call.Args) == 1 {
					cs.unbuffered[fv] = true
				} else {
					cs.buffered[fv] = true
				}
			}
			return true
		})
	}
	return cs
}

func selectEscapes(f *core.Fn, sel *ast.SelectStmt) bool {
	if sel == nil {
		return false
	}
	for _, cl := range sel.Body.List {
		cc := cl.(*ast.CommClause)
		if cc.Comm == nil || isTimerRecv(f, cc.Comm) {
			return true
		}
	}
	return false
}

// sendHasATaker: a send on an unbuffered channel that NOTHING in the daemon receives from never completes.  Such a send
// is tolerable only as one alternative of a select that can always proceed — a default clause or a timer; next to
// other channel operations (a context that is cancelled when the FSM ends) the goroutine stays parked for as long as
// the FSM lives.
func sendHasATaker(c *core.Ctx, cs *chanSites, inScope func(*core.Fn) bool) {
	const rule = "send-has-a-taker"
	p := c.P
	var chans []*types.Var
	for ch := range cs.sends {
		chans = append(chans, ch)
	}
	sort.Slice(chans, func(i, j int) bool { return chans[i].Pos() < chans[j].Pos() })
	n := 0
	for _, ch := range chans {
		if !cs.unbuffered[ch] || cs.buffered[ch] || len(cs.recvs[ch]) > 0 {
			continue
		}
		for i, s := range cs.sends[ch] {
			if !inScope(s.f) {
				continue
			}
			n++
			c.Analysed(s.f)
			c.Check(selectEscapes(s.f, s.sel), rule, fmt.Sprintf("send #%d on %s in %s", i+1, ch.Name(), s.f.Name()), s.node.Pos(),
				fmt.Sprintf("nothing in the daemon receives from the unbuffered channel %s; this send is not an alternative of a select with a default clause or a timer, so the goroutine executing it (%s) is parked on it for good", ch.Name(), p.Pos(s.node.Pos())))
		}
	}
	c.Check(n >= 2, rule, "sends on receiver-less channels found", 0, fmt.Sprintf("found %d, confirmed by hand: conErrCh (connector) and msgRecvFailCh (message receiver)", n))
}

// stopRequestTakerStays: a stop handshake — the stopper hands the request over an unbuffered channel with a plain
// (blocking) send, the service goroutine takes it in a `for { select { case <-stop: …; return } }` loop.  The stopper
// then blocks until the loop takes the request, therefore the loop may end ONLY by taking it: any other return strands
// the stopper (and whatever locks and teardown steps sit behind it).
func stopRequestTakerStays(c *core.Ctx, cs *chanSites, inScope func(*core.Fn) bool) {
	const rule = "stop-request-taker-stays"
	p := c.P
	var chans []*types.Var
	for ch := range cs.sends {
		chans = append(chans, ch)
	}
	sort.Slice(chans, func(i, j int) bool { return chans[i].Pos() < chans[j].Pos() })
	n := 0
	for _, ch := range chans {
		if !cs.unbuffered[ch] || cs.buffered[ch] {
			continue
		}
		// a pure signal (chan struct{}) whose every send is a plain, blocking one
		ct, _ := ch.Type().Underlying().(*types.Chan)
		if ct == nil {
			continue
		}
		if st, ok := ct.Elem().Underlying().(*types.Struct); !ok || st.NumFields() != 0 {
			continue
		}
		plain := len(cs.sends[ch]) > 0
		for _, s := range cs.sends[ch] {
			if s.sel != nil || !inScope(s.f) {
				plain = false
			}
		}
		if !plain {
			continue
		}
		for _, r := range cs.recvs[ch] {
			if r.comm == nil || !inScope(r.f) {
				continue
			}
			// the case body returns directly (a stop request), and the select sits in a for loop
			returns := false
			for _, st := range r.comm.Body {
				if _, ok := st.(*ast.ReturnStmt); ok {
					returns = true
				}
			}
			inFor := false
			ast.Inspect(r.f.Decl.Body, func(m ast.Node) bool {
				if fs, ok := m.(*ast.ForStmt); ok && fs.Cond == nil && fs.Body.Pos() <= r.sel.Pos() && r.sel.End() <= fs.Body.End() {
					inFor = true
				}
				return true
			})
			if !returns || !inFor {
				continue
			}
			n++
			c.Analysed(r.f)
			// go/cfg emits every comm statement of a select in the select's header; "the request was taken" is the
			// case-body block of this comm clause
			var rets []*ast.ReturnStmt
			implicit := false
			g := p.CFG(r.f)
			seen := map[*cfg.Block]bool{}
			var visit func(b *cfg.Block)
			visit = func(b *cfg.Block) {
				if seen[b] || !b.Live {
					return
				}
				seen[b] = true
				if b.Kind == cfg.KindSelectCaseBody && b.Stmt == ast.Stmt(r.comm) {
					return
				}
				for _, nd := range b.Nodes {
					if rs, ok := nd.(*ast.ReturnStmt); ok {
						rets = append(rets, rs)
						return
					}
				}
				if len(b.Succs) == 0 && b.Kind != cfg.KindSelectAfterCase { // the after-case block of the last clause is a dead end of the model, not an exit
					implicit = true
				}
				for _, sc := range b.Succs {
					visit(sc)
				}
			}
			if len(g.Blocks) > 0 {
				visit(g.Blocks[0])
			}
			pos := r.f.Decl.Pos()
			if len(rets) > 0 {
				pos = rets[0].Pos()
			}
			c.Check(len(rets) == 0 && !implicit, rule, fmt.Sprintf("%s ends only by taking the request on %s", r.f.Name(), ch.Name()), pos,
				fmt.Sprintf("the service loop can return without having received from %s, while the stopper hands its request over with a blocking send on that unbuffered channel: a later stop (session teardown) blocks forever", ch.Name()))
		}
	}
	c.Check(n >= 1, rule, "stop handshakes found", 0, "no stop handshake found; confirmed by hand: UpdateSender.destroyCh (Destroy → sender)")
}

// noCallbackUnderLock: calling a function VALUE (a parameter or field of func type) while holding a lock runs code the
// lock analysis cannot see under that lock — here: the client manager calling back into the table that owns it, which
// takes the table lock inside the registry lock while every route change takes them the other way round.  Rule: in the
// functions in scope no call of a func-typed variable has a lock in its may-lockset.
func noCallbackUnderLock(c *core.Ctx, lp *core.LockProg) {
	const rule = "no-callback-under-lock"
	n := 0
	for _, f := range lp.Fns {
		if f.Decl.Body == nil || lp.Sets[f] == nil {
			continue
		}
		core.InspectNoLit(f.Decl.Body, func(nd ast.Node) bool {
			call, ok := nd.(*ast.CallExpr)
			if !ok {
				return true
			}
			var v *types.Var
			switch x := core.Unparen(call.Fun).(type) {
			case *ast.Ident:
				v, _ = f.Pkg.TypesInfo.ObjectOf(x).(*types.Var)
			case *ast.SelectorExpr:
				v, _ = f.Pkg.TypesInfo.ObjectOf(x.Sel).(*types.Var)
			}
			if v == nil {
				return true
			}
			if _, isSig := v.Type().Underlying().(*types.Signature); !isSig {
				return true
			}
			n++
			var held []string
			for h := range lp.Sets[f].MayAt(call) {
				held = append(held, h)
			}
			sort.Strings(held)
			c.Analysed(f)
			c.Check(len(held) == 0, rule, fmt.Sprintf("%s calls the function value %s", f.Name(), core.ExprString(call.Fun)), call.Pos(),
				fmt.Sprintf("a function value is called with %v held: whatever the callback locks is acquired inside that lock, invisibly to the lock-order analysis — a table's withdrawal run from inside the client manager's lock takes the table lock after the registry lock, the reverse of every route change, and the two block each other for good", held))
			return true
		})
	}
	c.Check(true, rule, fmt.Sprintf("%d calls of function values examined", n), 0, "")
}
