package props

import (
	"fmt"
	"go/ast"
	"go/token"
	"go/types"
	"sort"
	"strings"

	"verif/engine/core"
)

func init() {
	Register(&Prop{
		Meta: core.Meta{
			ID: "C26", Title: "The RIB pipeline and session layer are free of data races", Level: "other",
			Technique:   "guarded-by analysis: must-held locksets on go/cfg, whole-program must-held-on-entry sets (intersection over call sites), a frozen field→lock table (candidates from access statistics, each row confirmed by reading), write-mode check for RWMutex, the repository's underscore convention (`_method` = caller holds the lock), and atomic-only fields",
			DesignRef:   "DESIGN.md §4 C26",
			Decided:     "(1) every access to a field of the guarded-by table, outside constructors of objects not yet shared, happens with the table's lock held on every path (locally or by every caller), and writes hold it in write mode; (2) every call of an underscore-prefixed method happens with the lock class held that all of today's call sites hold; (3) the routing-table mutators of Loc-RIB, Adj-RIB-In and Adj-RIB-Out are called with the owner's lock in write mode; (4) a field that is accessed through sync/atomic anywhere is accessed only through sync/atomic.",
			NotDecided:  "memory outside the table; happens-before edges through channels, WaitGroups and goroutine start (an access that is ordered that way but not locked is reported: such rows are not in the table); whether two accesses can really be concurrent.",
			TrustedBase: stdTrusted,
		},
		Run: runC26,
		Controls: []Control{
			{Name: "api-reads-the-adj-rib-in-without-the-state-lock", File: "protocols/bgp/server/server.go", Old: "\tribIn, _ := fsm.establishedRIBs(afi, safi)\n\tr, _ := ribIn.(*adjRIBIn.AdjRIBIn)\n\treturn r\n", New: "\tf := fsm.addressFamily(afi, safi)\n\tif f == nil {\n\t\treturn nil\n\t}\n\tr, _ := f.adjRIBIn.(*adjRIBIn.AdjRIBIn)\n\treturn r\n", Expect: "guarded-by"},
			{Name: "redistribute-check-writes-its-input", File: "route/path.go", Old: "\tp = p.Copy()\n\n\tif p.Type == newPathType {\n\t\tp.RedistributedFrom = 0\n\t\treturn p, false\n", New: "\tcp := p.Copy()\n\n\tif p.Type == newPathType {\n\t\tp.RedistributedFrom = 0\n\t\treturn cp, false\n\t}\n\tp = cp\n\tif false {\n", Expect: "check-redistribute-leaves-its-input-alone"},
			{Name: "attributes-deduplicated-after-the-path-was-queued", File: "routingtable/adjRIBOut/adj_rib_out.go", Old: "\tp.BGPPath = p.BGPPath.Dedup()\n\n\treturn a.addPath(pfx, p)\n", New: "\terr := a.addPath(pfx, p)\n\tp.BGPPath = p.BGPPath.Dedup()\n\treturn err\n", Expect: "no-write-after-publish"},
			{Name: "client-map-handed-out-live", File: "routingtable/client_manager.go", Old: "// GetOptions gets the options for a registered client\n", New: "func (c *ClientManager) ClientsWithOptions() map[RouteTableClient]ClientOptions {\n\tc.mu.RLock()\n\tdefer c.mu.RUnlock()\n\n\treturn c.clients\n}\n\n// GetOptions gets the options for a registered client\n", Expect: "guarded-reference-stays-inside"},
			{Name: "refactor-explicit-unlocks", Silent: true, File: "protocols/bgp/server/peer.go", Old: "func (p *peer) singleFSM() *FSM {\n\tp.fsmsMu.Lock()\n\tdefer p.fsmsMu.Unlock()\n\n\tif len(p.fsms) != 1 {\n\t\treturn nil\n\t}\n\n\treturn p.fsms[0]\n}", New: "func (p *peer) singleFSM() *FSM {\n\tp.fsmsMu.Lock()\n\tif len(p.fsms) != 1 {\n\t\tp.fsmsMu.Unlock()\n\t\treturn nil\n\t}\n\n\tfsm := p.fsms[0]\n\tp.fsmsMu.Unlock()\n\treturn fsm\n}"},
			{Name: "fsm-list-read-unlocked", File: "protocols/bgp/server/peer.go", Old: "func (p *peer) singleFSM() *FSM {\n\tp.fsmsMu.Lock()\n\tdefer p.fsmsMu.Unlock()\n", New: "func (p *peer) singleFSM() *FSM {\n", Expect: "guarded-by"},
			{Name: "locrib-replacepath-read-lock", File: "routingtable/locRIB/loc_rib.go", Old: "func (a *LocRIB) ReplacePath(pfx *net.Prefix, oldPath *route.Path, newPath *route.Path) {\n\ta.mu.Lock()\n\tdefer a.mu.Unlock()", New: "func (a *LocRIB) ReplacePath(pfx *net.Prefix, oldPath *route.Path, newPath *route.Path) {\n\ta.mu.RLock()\n\tdefer a.mu.RUnlock()", Expect: "table-mutation-under-write-lock"},
			{Name: "sender-reads-queue-entry-unlocked", File: "protocols/bgp/server/update_sender.go", Old: "\t\t\tpathAttrs, updatesPrefixes, pathID := u._getUpdateInformation(pathNLRIs)\n\n\t\t\tdelete(u.toSend, key)\n\t\t\tu.sendMu.Lock()\n\t\t\tu.toSendMu.Unlock()\n", New: "\t\t\tdelete(u.toSend, key)\n\t\t\tu.sendMu.Lock()\n\t\t\tu.toSendMu.Unlock()\n\t\t\tpathAttrs, updatesPrefixes, pathID := u._getUpdateInformation(pathNLRIs)\n", Expect: "underscore-called-under-lock"},
			{Name: "counter-reset-plain", File: "protocols/bgp/server/fsm_counters.go", Old: "\tatomic.StoreUint64(&c.updatesSent, 0)", New: "\tc.updatesSent = 0", Expect: "atomic-only"},
			{Name: "adjribout-policy-read-before-lock", File: "routingtable/adjRIBOut/adj_rib_out.go", Old: "func (a *AdjRIBOut) AddPath(pfx *bnet.Prefix, p *route.Path) error {\n\ta.mu.Lock()\n\tdefer a.mu.Unlock()\n", New: "func (a *AdjRIBOut) AddPath(pfx *bnet.Prefix, p *route.Path) error {\n", Expect: "guarded-by"},
		},
	})
}

// guardRow: accesses to Field need lock class Lock.  Exempt: functions in which the access is known to be safe, with the reason.
type guardRow struct {
	Pkg, Type, Field string
	LockType, Lock   string // lock field lives in LockType (same package) — usually = Type
	Exempt           map[string]string
	ReadsByOwner     string // method-name prefix of the single goroutine that writes the field: its own reads need no lock
}

var c26Table = []guardRow{
	{Pkg: srv, Type: "peer", Field: "fsms", LockType: "peer", Lock: "fsmsMu", Exempt: map[string]string{
		srv + ".(*Router).processPeerUpNotification": "BMP: the peer object is created here and not yet reachable by any other goroutine",
		srv + ".newPeer": "constructor",
	}},
	{Pkg: srv, Type: "FSM", Field: "state", LockType: "FSM", Lock: "stateMu", ReadsByOwner: "FSM goroutine", Exempt: map[string]string{
		srv + ".(*FSM).run":                            "the FSM goroutine is the only writer; its own reads need no lock",
		srv + ".(*FSM).start":                          "before the FSM goroutine is started",
		srv + ".(*Router).processPeerUpNotification":   "BMP pseudo FSM: created here, driven only by the router's single goroutine",
		srv + ".newFSM":                                "constructor",
		srv + ".(*bgpServer).incomingConnectionWorker": "the FSM was created two lines above and is not yet in the peer's list nor running",
		srv + ".(*Router).processRouteMonitoringMsg":   "BMP pseudo FSM: written and read only by the router's single goroutine",
		srv + ".NewActiveFSM":                          "constructor",
		srv + ".NewPassiveFSM":                         "constructor",
	}},
	{Pkg: srv, Type: "FSM", Field: "establishedTime", LockType: "FSM", Lock: "stateMu"},
	{Pkg: srv, Type: "FSM", Field: "ribsInitialized", LockType: "FSM", Lock: "stateMu", Exempt: map[string]string{
		srv + ".(establishedState).run": "the FSM goroutine is the only writer; its own read needs no lock",
	}},
	{Pkg: srv, Type: "fsmAddressFamily", Field: "adjRIBIn", LockType: "FSM", Lock: "stateMu", Exempt: map[string]string{
		srv + ".(*fsmAddressFamily).init":                  "the FSM goroutine assigns and clears the Adj-RIBs (init/dispose) and is their only writer; its own accesses need no lock \u2014 other goroutines read them through FSM.establishedRIBs under stateMu after checking ribsInitialized",
		srv + ".(*fsmAddressFamily).dispose":               "the FSM goroutine assigns and clears the Adj-RIBs (init/dispose) and is their only writer; its own accesses need no lock \u2014 other goroutines read them through FSM.establishedRIBs under stateMu after checking ribsInitialized",
		srv + ".(*fsmAddressFamily).bmpInit":               "BMP pseudo session: created and driven only by the router's single goroutine",
		srv + ".(*fsmAddressFamily).bmpDispose":            "BMP pseudo session: created and driven only by the router's single goroutine",
		srv + ".(*fsmAddressFamily).withdraws":             "the FSM goroutine assigns and clears the Adj-RIBs (init/dispose) and is their only writer; its own accesses need no lock \u2014 other goroutines read them through FSM.establishedRIBs under stateMu after checking ribsInitialized",
		srv + ".(*fsmAddressFamily).updates":               "the FSM goroutine assigns and clears the Adj-RIBs (init/dispose) and is their only writer; its own accesses need no lock \u2014 other goroutines read them through FSM.establishedRIBs under stateMu after checking ribsInitialized",
		srv + ".(*fsmAddressFamily).multiProtocolUpdate":   "the FSM goroutine assigns and clears the Adj-RIBs (init/dispose) and is their only writer; its own accesses need no lock \u2014 other goroutines read them through FSM.establishedRIBs under stateMu after checking ribsInitialized",
		srv + ".(*fsmAddressFamily).multiProtocolWithdraw": "the FSM goroutine assigns and clears the Adj-RIBs (init/dispose) and is their only writer; its own accesses need no lock \u2014 other goroutines read them through FSM.establishedRIBs under stateMu after checking ribsInitialized",
		srv + ".(*neighbor).registerClients":               "BMP pseudo session: created and driven only by the router's single goroutine",
		srv + ".(*Router).processPeerUpNotification":       "BMP pseudo session: created and driven only by the router's single goroutine",
		srv + ".(*Router).SubscribeRIBs":                   "BMP pseudo session: created and driven only by the router's single goroutine",
		srv + ".(*Router).UnsubscribeRIBs":                 "BMP pseudo session: created and driven only by the router's single goroutine",
	}},
	{Pkg: srv, Type: "fsmAddressFamily", Field: "adjRIBOut", LockType: "FSM", Lock: "stateMu", Exempt: map[string]string{
		srv + ".(*fsmAddressFamily).init":                  "the FSM goroutine assigns and clears the Adj-RIBs (init/dispose) and is their only writer; its own accesses need no lock \u2014 other goroutines read them through FSM.establishedRIBs under stateMu after checking ribsInitialized",
		srv + ".(*fsmAddressFamily).dispose":               "the FSM goroutine assigns and clears the Adj-RIBs (init/dispose) and is their only writer; its own accesses need no lock \u2014 other goroutines read them through FSM.establishedRIBs under stateMu after checking ribsInitialized",
		srv + ".(*fsmAddressFamily).bmpInit":               "BMP pseudo session: created and driven only by the router's single goroutine",
		srv + ".(*fsmAddressFamily).bmpDispose":            "BMP pseudo session: created and driven only by the router's single goroutine",
		srv + ".(*fsmAddressFamily).withdraws":             "the FSM goroutine assigns and clears the Adj-RIBs (init/dispose) and is their only writer; its own accesses need no lock \u2014 other goroutines read them through FSM.establishedRIBs under stateMu after checking ribsInitialized",
		srv + ".(*fsmAddressFamily).updates":               "the FSM goroutine assigns and clears the Adj-RIBs (init/dispose) and is their only writer; its own accesses need no lock \u2014 other goroutines read them through FSM.establishedRIBs under stateMu after checking ribsInitialized",
		srv + ".(*fsmAddressFamily).multiProtocolUpdate":   "the FSM goroutine assigns and clears the Adj-RIBs (init/dispose) and is their only writer; its own accesses need no lock \u2014 other goroutines read them through FSM.establishedRIBs under stateMu after checking ribsInitialized",
		srv + ".(*fsmAddressFamily).multiProtocolWithdraw": "the FSM goroutine assigns and clears the Adj-RIBs (init/dispose) and is their only writer; its own accesses need no lock \u2014 other goroutines read them through FSM.establishedRIBs under stateMu after checking ribsInitialized",
		srv + ".(*neighbor).registerClients":               "BMP pseudo session: created and driven only by the router's single goroutine",
		srv + ".(*Router).processPeerUpNotification":       "BMP pseudo session: created and driven only by the router's single goroutine",
		srv + ".(*Router).SubscribeRIBs":                   "BMP pseudo session: created and driven only by the router's single goroutine",
		srv + ".(*Router).UnsubscribeRIBs":                 "BMP pseudo session: created and driven only by the router's single goroutine",
	}},
	{Pkg: srv, Type: "UpdateSender", Field: "toSend", LockType: "UpdateSender", Lock: "toSendMu", Exempt: map[string]string{srv + ".newUpdateSender": "constructor"}},
	{Pkg: "routingtable", Type: "ClientManager", Field: "clients", LockType: "ClientManager", Lock: "mu", Exempt: map[string]string{"routingtable.NewClientManager": "constructor"}},
	{Pkg: "routingtable", Type: "ClientManager", Field: "endOfLife", LockType: "ClientManager", Lock: "mu"},
	{Pkg: "routingtable", Type: "RoutingTable", Field: "root", LockType: "RoutingTable", Lock: "mu"},
	{Pkg: "routingtable/adjRIBIn", Type: "AdjRIBIn", Field: "exportFilterChain", LockType: "AdjRIBIn", Lock: "mu", Exempt: map[string]string{"routingtable/adjRIBIn.New": "constructor"}},
	{Pkg: "routingtable/adjRIBOut", Type: "AdjRIBOut", Field: "exportFilterChain", LockType: "AdjRIBOut", Lock: "mu", Exempt: map[string]string{
		"routingtable/adjRIBOut.New":                       "constructor",
		"routingtable/adjRIBOut.(*AdjRIBOut).RefreshRoute": "callback: reached only from ReplaceFilterChain → LocRIB.RefreshClient → RefreshRoute, with ReplaceFilterChain holding the lock throughout (checked: the only caller of RefreshClient with this client)",
	}},
	{Pkg: "routingtable/adjRIBOut", Type: "AdjRIBOut", Field: "exportFilterChainPending", LockType: "AdjRIBOut", Lock: "mu", Exempt: map[string]string{
		"routingtable/adjRIBOut.(*AdjRIBOut).RefreshRoute": "callback under ReplaceFilterChain's lock (see exportFilterChain)",
	}},
	{Pkg: "routingtable/locRIB", Type: "LocRIB", Field: "countTarget", LockType: "LocRIB", Lock: "mu", Exempt: map[string]string{
		"routingtable/locRIB.(*LocRIB).SetCountTarget": "test hook without callers in the repository: to be called before the RIB is shared",
	}},
	{Pkg: "routingtable/mergedlocrib", Type: "MergedLocRIB", Field: "routes", LockType: "MergedLocRIB", Lock: "routesMu", Exempt: map[string]string{"routingtable/mergedlocrib.New": "constructor"}},
	{Pkg: "routingtable/vrf", Type: "VRFRegistry", Field: "vrfs", LockType: "VRFRegistry", Lock: "mu", Exempt: map[string]string{"routingtable/vrf.NewVRFRegistry": "constructor"}},
	{Pkg: srv, Type: "peerManager", Field: "peers", LockType: "peerManager", Lock: "peersMu", Exempt: map[string]string{srv + ".newPeerManager": "constructor"}},
	{Pkg: "route", Type: "BGPPathManager", Field: "paths", LockType: "BGPPathManager", Lock: "mu", Exempt: map[string]string{"route.NewBGPPathManager": "constructor"}},
}

func runC26(c *core.Ctx) {
	checkRedistributeLeavesItsInputAlone(c, "check-redistribute-leaves-its-input-alone")
	noWriteAfterPublish(c)
	p := c.P
	lp := core.BuildLockProg(p, func(f *core.Fn) bool {
		return !strings.Contains(f.Pkg.PkgPath, "/cmd/") && !strings.Contains(f.Pkg.PkgPath, "/examples/")
	})
	entry := lp.EntryMust()
	for _, f := range lp.Fns {
		if lp.Sets[f] != nil {
			c.Analysed(f)
		}
	}
	heldClasses := func(f *core.Fn, n ast.Node) (held map[string]bool, readKeys map[string]bool) {
		held, readKeys = map[string]bool{}, map[string]bool{}
		if ls := lp.Sets[f]; ls != nil {
			for h := range ls.MustAt(n) {
				if hc := lp.KeyClass[f][h]; hc != nil {
					held[core.ClassKey2(hc)] = true
					if lp.KeyRead[f][h] {
						readKeys[core.ClassKey2(hc)] = true
					}
				}
			}
		}
		for k := range entry[f] {
			held[k] = true
		}
		return
	}

	// (1) guarded-by table --------------------------------------------------------------------------------------------
	for _, row := range c26Table {
		fv := p.Field(row.Pkg, row.Type, row.Field)
		lv := p.Field(row.Pkg, row.LockType, row.Lock)
		name := row.Type + "." + row.Field
		if fv == nil || lv == nil {
			c.Undecided("guarded-by", name+" ↦ "+row.Lock, token.NoPos, "field or lock of the guarded-by table not found (renamed?)")
			continue
		}
		lock := core.ClassKey2(lv)
		n := 0
		for _, f := range lp.Fns {
			writes := map[ast.Node]bool{}
			ast.Inspect(f.Decl.Body, func(nd ast.Node) bool {
				switch x := nd.(type) {
				case *ast.AssignStmt:
					for _, l := range x.Lhs {
						markWrites(f, l, fv, writes)
					}
				case *ast.IncDecStmt:
					markWrites(f, x.X, fv, writes)
				case *ast.CallExpr:
					// delete(m, k) / append target are writes to the container
					if id, ok := x.Fun.(*ast.Ident); ok && id.Name == "delete" && len(x.Args) > 0 {
						markWrites(f, x.Args[0], fv, writes)
					}
				}
				return true
			})
			ord := 0
			ast.Inspect(f.Decl.Body, func(nd ast.Node) bool {
				se, ok := nd.(*ast.SelectorExpr)
				if !ok || core.FieldOf(f.Pkg, se) != fv {
					return true
				}
				ord++
				n++
				kind := "read"
				if writes[se] {
					kind = "write"
				}
				construct := fmt.Sprintf("%s %s #%d of %s", f.Name(), kind, ord, name)
				if why, ok := row.Exempt[f.Name()]; ok {
					c.Hold("guarded-by", construct, se.Pos(), "exempt: "+why)
					return true
				}
				held, readMode := heldClasses(f, se)
				if !held[lock] {
					c.Fail("guarded-by", construct, se.Pos(),
						fmt.Sprintf("%s is accessed without %s held on every path (held here: %s): other goroutines access it under that lock, so this %s races with their writes", name, short(lock), setOf(held), kind))
					return true
				}
				if kind == "write" && readMode[lock] {
					c.Fail("guarded-by", construct, se.Pos(), fmt.Sprintf("%s is written with %s held only in read mode: concurrent readers (and other such writers) are not excluded", name, short(lock)))
					return true
				}
				c.Hold("guarded-by", construct, se.Pos(), "under "+short(lock))
				return true
			})
		}
		c.Check(n >= 2, "guarded-by", name+" accesses found", token.NoPos, fmt.Sprintf("found %d accesses to %s: the row matches nothing", n, name))
		// a guarded map or slice must not leave the critical section by reference: a method that returns the field
		// itself (or a plain alias of it) hands its caller the live container after the lock was released
		switch fv.Type().Underlying().(type) {
		case *types.Map, *types.Slice:
			esc := 0
			for _, f := range lp.Fns {
				if _, ok := row.Exempt[f.Name()]; ok || strings.HasPrefix(f.Decl.Name.Name, "_") {
					continue
				}
				ast.Inspect(f.Decl.Body, func(nd ast.Node) bool {
					rs, ok := nd.(*ast.ReturnStmt)
					if !ok {
						return true
					}
					for _, r := range rs.Results {
						e := core.Unparen(r)
						if id, isId := e.(*ast.Ident); isId {
							if o := core.ObjOf(f.Pkg, id); o != nil {
								if defs := core.DefsOf(f, o); len(defs) == 1 {
									e = core.Unparen(defs[0])
								}
							}
						}
						if core.FieldOf(f.Pkg, e) == fv {
							esc++
							c.Fail("guarded-reference-stays-inside", fmt.Sprintf("%s returns %s itself", f.Name(), name), rs.Pos(),
								fmt.Sprintf("%s returns the %s-guarded container %s by reference: the caller iterates or indexes the live map/slice after the lock was released while registrations modify it under the lock — an unsynchronized concurrent read/write", f.Name(), short(lock), name))
						}
					}
					return true
				})
			}
			if esc == 0 {
				c.Hold("guarded-reference-stays-inside", name+" is never returned by reference", token.NoPos, "no method returns the guarded container itself")
			}
		}
	}

	// (2) underscore convention --------------------------------------------------------------------------------------------
	underscore(c, lp, entry)

	// (3) table mutators under the owner's write lock --------------------------------------------------------------------
	mutators := map[string]bool{"AddPath": true, "RemovePath": true, "ReplacePath": true, "RemovePfx": true, "RemovePaths": true, "removePath": true, "Dispose": true}
	for _, own := range []struct{ pkg, typ string }{{"routingtable/locRIB", "LocRIB"}, {"routingtable/adjRIBIn", "AdjRIBIn"}, {"routingtable/adjRIBOut", "AdjRIBOut"}} {
		rt := p.Field(own.pkg, own.typ, "rt")
		mu := p.Field(own.pkg, own.typ, "mu")
		if rt == nil || mu == nil {
			c.Undecided("table-mutation-under-write-lock", own.typ, token.NoPos, "rt or mu field not found")
			continue
		}
		lock := core.ClassKey2(mu)
		n := 0
		for _, f := range p.MethodsOf(own.pkg, own.typ) {
			if f.Decl.Body == nil {
				continue
			}
			ord := 0
			core.InspectNoLit(f.Decl.Body, func(nd ast.Node) bool {
				call, ok := nd.(*ast.CallExpr)
				if !ok {
					return true
				}
				se, isSel := call.Fun.(*ast.SelectorExpr)
				if !isSel || core.FieldOf(f.Pkg, se.X) != rt || !mutators[se.Sel.Name] {
					return true
				}
				ord++
				n++
				construct := fmt.Sprintf("%s table mutation #%d (%s)", f.Name(), ord, se.Sel.Name)
				held, readMode := heldClasses(f, call)
				switch {
				case !held[lock]:
					c.Fail("table-mutation-under-write-lock", construct, call.Pos(), "the routing table of "+own.typ+" is modified without "+short(lock)+" held: readers walking the table (dumps, lookups, client refresh) race with it")
				case readMode[lock]:
					c.Fail("table-mutation-under-write-lock", construct, call.Pos(), "the routing table of "+own.typ+" is modified with "+short(lock)+" held only in read mode: other holders of the read lock (table readers, a second modifier) run concurrently and race on the route's path list")
				default:
					c.Hold("table-mutation-under-write-lock", construct, call.Pos(), "under "+short(lock)+" (write mode)")
				}
				return true
			})
		}
		c.Check(n >= 2, "table-mutation-under-write-lock", own.typ+" table mutations found", token.NoPos, fmt.Sprintf("found %d", n))
	}

	// (3b) routes handed out by the table are modified only under the owner's write lock
	{
		paths := p.Field("route", "Route", "paths")
		ecmp := p.Field("route", "Route", "ecmpPaths")
		routeMut := map[*types.Func]bool{}
		for _, m := range p.MethodsOf("route", "Route") {
			if m.Decl.Body == nil {
				continue
			}
			w := p.WritesTransitive(m)
			if (w[paths] || w[ecmp]) && m.Decl.Name.Name != "Copy" { // Copy writes the fields of the fresh copy only
				routeMut[m.Obj] = true
			}
		}
		nMut := 0
		for _, own := range []struct{ pkg, typ string }{{"routingtable/locRIB", "LocRIB"}, {"routingtable/adjRIBIn", "AdjRIBIn"}, {"routingtable/adjRIBOut", "AdjRIBOut"}} {
			mu := p.Field(own.pkg, own.typ, "mu")
			if mu == nil {
				continue
			}
			lock := core.ClassKey2(mu)
			for _, f := range p.MethodsOf(own.pkg, own.typ) {
				if f.Decl.Body == nil {
					continue
				}
				ord := 0
				core.InspectNoLit(f.Decl.Body, func(nd ast.Node) bool {
					call, ok := nd.(*ast.CallExpr)
					if !ok || !routeMut[core.Callee(f.Pkg, call)] {
						return true
					}
					// the route must come out of the table (not a private copy made in this function)
					se, isSel := call.Fun.(*ast.SelectorExpr)
					if !isSel {
						return true
					}
					fromCopy := false
					if o := core.ObjOf(f.Pkg, se.X); o != nil {
						for _, d := range core.DefsOf(f, o) {
							if dc, isC := core.Unparen(d).(*ast.CallExpr); isC {
								if cal := core.Callee(f.Pkg, dc); cal != nil && (cal.Name() == "Copy" || cal.Name() == "NewRoute" || cal.Name() == "NewRouteAddPath") {
									fromCopy = true
								}
							}
						}
					}
					if fromCopy {
						return true
					}
					ord++
					nMut++
					construct := fmt.Sprintf("%s route mutation #%d (%s)", f.Name(), ord, se.Sel.Name)
					held, readMode := heldClasses(f, call)
					switch {
					case !held[lock]:
						c.Fail("table-mutation-under-write-lock", construct, call.Pos(), "a route stored in the table of "+own.typ+" is modified without "+short(lock)+" held")
					case readMode[lock]:
						c.Fail("table-mutation-under-write-lock", construct, call.Pos(), "a route stored in the table of "+own.typ+" is modified (path list, best-path order, ECMP count) with "+short(lock)+" held only in read mode: readers of the same route and a second modifier run concurrently")
					default:
						c.Hold("table-mutation-under-write-lock", construct, call.Pos(), "under "+short(lock)+" (write mode)")
					}
					return true
				})
			}
		}
		c.Check(nMut >= 2 && len(routeMut) >= 3, "table-mutation-under-write-lock", "route mutations by the table owners found", token.NoPos, fmt.Sprintf("found %d mutating Route methods and %d call sites", len(routeMut), nMut))
	}

	// (4) atomic-only fields ------------------------------------------------------------------------------------------------
	atomicOnly(c)
}

func setOf(m map[string]bool) string {
	var ks []string
	for k := range m {
		ks = append(ks, short(k))
	}
	sort.Strings(ks)
	if len(ks) == 0 {
		return "none"
	}
	return strings.Join(ks, ", ")
}

// markWrites marks selector nodes of field fv that are written through lhs (x.f = …, x.f[k] = …, x.f++ …).
func markWrites(f *core.Fn, lhs ast.Expr, fv *types.Var, out map[ast.Node]bool) {
	e := core.Unparen(lhs)
	for {
		switch x := e.(type) {
		case *ast.IndexExpr:
			e = core.Unparen(x.X)
			continue
		case *ast.StarExpr:
			e = core.Unparen(x.X)
			continue
		}
		break
	}
	if se, ok := e.(*ast.SelectorExpr); ok && core.FieldOf(f.Pkg, se) == fv {
		out[se] = true
	}
}

// c26Underscore: the lock class every call site of the underscore method holds on today's tree (frozen reference).
var c26Underscore = map[string]string{}

func underscore(c *core.Ctx, lp *core.LockProg, entry map[*core.Fn]map[string]bool) {
	n := 0
	for _, g := range lp.Fns {
		if g.Decl.Recv == nil || !strings.HasPrefix(g.Decl.Name.Name, "_") {
			continue
		}
		owner := core.RecvName(g.Obj)
		// locks of the receiver's type
		var cands []string
		for _, fv := range c.P.Fields(strings.TrimPrefix(g.Pkg.PkgPath, core.Mod+"/"), owner) {
			if strings.HasPrefix(fv.Type().String(), "sync.") && strings.HasSuffix(fv.Type().String(), "Mutex") {
				cands = append(cands, core.ClassKey2(fv))
			}
		}
		if len(cands) == 0 {
			continue
		}
		want := cands
		if w, ok := c26UnderscoreLock[g.Name()]; ok {
			want = []string{w}
		}
		sites := 0
		for _, f := range lp.Fns {
			for _, cs := range lp.CallSites(f) {
				hit := false
				for _, cal := range cs.Callees {
					if cal == g {
						hit = true
					}
				}
				if !hit {
					continue
				}
				sites++
				n++
				held := map[string]bool{}
				if ls := lp.Sets[f]; ls != nil {
					for h := range ls.MustAt(cs.Call) {
						if hc := lp.KeyClass[f][h]; hc != nil {
							held[core.ClassKey2(hc)] = true
						}
					}
				}
				for k := range entry[f] {
					held[k] = true
				}
				ok := false
				for _, w := range want {
					if held[w] {
						ok = true
					}
				}
				construct := fmt.Sprintf("%s calls %s with the lock held", f.Name(), g.Decl.Name.Name)
				var ws []string
				for _, w := range want {
					ws = append(ws, short(w))
				}
				c.Check(ok, "underscore-called-under-lock", construct, cs.Call.Pos(),
					fmt.Sprintf("%s is an underscore method (repository convention: the caller holds the lock) but this call holds %s, not %s: the state it touches is read or written concurrently with its other callers", g.Name(), setOf(held), strings.Join(ws, " / ")))
			}
		}
	}
	c.Check(n >= 10, "underscore-called-under-lock", "call sites of underscore methods found", token.NoPos, fmt.Sprintf("found %d, floor 10", n))
}

// c26UnderscoreLock pins which of several locks of a type an underscore method needs (types with more than one mutex).
var c26UnderscoreLock = map[string]string{
	srv + ".(*UpdateSender)._getUpdateInformation": "protocols/bgp/server.UpdateSender.toSendMu",
	srv + ".(*UpdateSender)._flush":                "protocols/bgp/server.UpdateSender.toSendMu",
	srv + ".(*UpdateSender)._dequeue":              "protocols/bgp/server.UpdateSender.toSendMu",
}

func atomicOnly(c *core.Ctx) {
	p := c.P
	atomicFields := map[*types.Var]bool{}
	type acc struct {
		f      *core.Fn
		se     *ast.SelectorExpr
		atomic bool
	}
	var all []acc
	for _, f := range p.AllFuncs() {
		if f.Decl.Body == nil || strings.Contains(f.Pkg.PkgPath, "/cmd/") {
			continue
		}
		inAtomic := map[ast.Node]bool{}
		ast.Inspect(f.Decl.Body, func(nd ast.Node) bool {
			call, ok := nd.(*ast.CallExpr)
			if !ok {
				return true
			}
			cal := core.Callee(f.Pkg, call)
			if cal == nil || cal.Pkg() == nil || cal.Pkg().Path() != "sync/atomic" {
				return true
			}
			for _, a := range call.Args {
				if ue, isU := core.Unparen(a).(*ast.UnaryExpr); isU && ue.Op == token.AND {
					if se, isSel := core.Unparen(ue.X).(*ast.SelectorExpr); isSel {
						if fv := core.FieldOf(f.Pkg, se); fv != nil {
							atomicFields[fv] = true
							inAtomic[se] = true
						}
					}
				}
			}
			return true
		})
		ast.Inspect(f.Decl.Body, func(nd ast.Node) bool {
			if se, ok := nd.(*ast.SelectorExpr); ok {
				if fv := core.FieldOf(f.Pkg, se); fv != nil {
					all = append(all, acc{f, se, inAtomic[se]})
				}
			}
			return true
		})
	}
	n := 0
	ords := map[string]int{}
	for _, a := range all {
		fv := core.FieldOf(a.f.Pkg, a.se)
		if !atomicFields[fv] {
			continue
		}
		n++
		if a.atomic {
			continue
		}
		key := a.f.Name() + " " + fv.Name()
		ords[key]++
		c.Fail("atomic-only", fmt.Sprintf("%s plain access #%d to %s", a.f.Name(), ords[key], fv.Name()), a.se.Pos(),
			"the field is updated with sync/atomic elsewhere but read or written plainly here: the plain access races with the atomic ones")
	}
	if n == 0 {
		c.Undecided("atomic-only", "fields accessed through sync/atomic", token.NoPos, "no atomically accessed field found: the rule matches nothing")
	} else if len(ords) == 0 {
		c.Hold("atomic-only", "fields accessed through sync/atomic", token.NoPos, fmt.Sprintf("%d accesses, all atomic", n))
	}
}
