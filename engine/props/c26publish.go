package props

import (
	"fmt"
	"go/ast"
	"go/types"

	"verif/engine/core"
)

// noWriteAfterPublish: once the Adj-RIB-Out has put a path object into its table and handed it to its clients (the
// update sender queues the very pointer and serializes it later from its own goroutine, under its own lock), the
// object belongs to readers in another lock domain.  A write through the same pointer afterwards — even one that stores
// an equal value, like swapping in the deduplicated attribute set — is an unsynchronized write concurrent with those
// reads.  publishes(fn, i): fn hands parameter i to RoutingTable.AddPath/ReplacePath or to a client's AddPath…, or to
// a function that does.  Rule: after a call that publishes variable v no statement of the function assigns through v.
func noWriteAfterPublish(c *core.Ctx) {
	const rule = "no-write-after-publish"
	p := c.P
	fns := p.FuncsIn(outPkg)
	type key struct {
		fn *types.Func
		i  int
	}
	pub := map[key]bool{}
	isSink := func(f *core.Fn, call *ast.CallExpr) (argIdx int, ok bool) {
		se, isSel := call.Fun.(*ast.SelectorExpr)
		if !isSel || len(call.Args) != 2 {
			return 0, false
		}
		switch se.Sel.Name {
		case "AddPath", "ReplacePath", "AddPathInitialDump":
		default:
			return 0, false
		}
		t := f.Pkg.TypesInfo.TypeOf(se.X)
		if t == nil {
			return 0, false
		}
		s := t.String()
		if s == "*github.com/bio-routing/bio-rd/routingtable.RoutingTable" || s == "github.com/bio-routing/bio-rd/routingtable.RouteTableClient" {
			return 1, true
		}
		return 0, false
	}
	for iter := 0; iter < 5; iter++ {
		ch := false
		for _, f := range fns {
			if f.Decl.Body == nil || isTestFn(p, f) {
				continue
			}
			sig := f.Obj.Type().(*types.Signature)
			for i := 0; i < sig.Params().Len(); i++ {
				if pub[key{f.Obj, i}] {
					continue
				}
				pv := sig.Params().At(i)
				found := false
				ast.Inspect(f.Decl.Body, func(nd ast.Node) bool {
					call, ok := nd.(*ast.CallExpr)
					if !ok {
						return true
					}
					if j, isS := isSink(f, call); isS && core.ObjOf(f.Pkg, call.Args[j]) == types.Object(pv) {
						found = true
					}
					if cal := core.Callee(f.Pkg, call); cal != nil {
						for j, a := range call.Args {
							if core.ObjOf(f.Pkg, a) == types.Object(pv) && pub[key{cal, j}] {
								found = true
							}
						}
					}
					return true
				})
				if found {
					pub[key{f.Obj, i}] = true
					ch = true
				}
			}
		}
		if !ch {
			break
		}
	}
	n := 0
	for _, f := range fns {
		if f.Decl.Body == nil || isTestFn(p, f) {
			continue
		}
		g := p.CFG(f)
		ast.Inspect(f.Decl.Body, func(nd ast.Node) bool {
			call, ok := nd.(*ast.CallExpr)
			if !ok {
				return true
			}
			var v types.Object
			if j, isS := isSink(f, call); isS {
				v = core.ObjOf(f.Pkg, call.Args[j])
			} else if cal := core.Callee(f.Pkg, call); cal != nil {
				for j, a := range call.Args {
					if pub[key{cal, j}] {
						v = core.ObjOf(f.Pkg, a)
					}
				}
			}
			if v == nil {
				return true
			}
			n++
			c.Analysed(f)
			writes := func(m ast.Node) bool {
				as, isAs := m.(*ast.AssignStmt)
				if !isAs {
					return false
				}
				for _, l := range as.Lhs {
					if _, plain := core.Unparen(l).(*ast.Ident); plain {
						continue
					}
					if b := core.BaseIdent(l); b != nil && core.ObjOf(f.Pkg, b) == v {
						return true
					}
				}
				return false
			}
			hits := core.PathAvoidingFrom(g,
				func(m ast.Node) bool {
					return core.NodeHas(m, func(x ast.Node) bool { return x == ast.Node(call) }) && !writes(m)
				},
				func(ast.Node) bool { return false }, writes)
			c.Check(len(hits) == 0, rule, fmt.Sprintf("%s publishes `%s` through %s", f.Name(), v.Name(), core.ExprString(call.Fun)), call.Pos(),
				"the path object is written through after it was stored in the table / handed to the clients: the update sender's goroutine reads the same object (under its own lock only) while this goroutine writes it — an unsynchronized concurrent read/write")
			return true
		})
	}
	c.Check(n >= 3, rule, "publishing calls found", 0, fmt.Sprintf("found %d publishing calls in the Adj-RIB-Out, floor 3", n))
}
